(* C04, second stage - two of the leaf-level checks that `otable_okb` (Lemmas/AsMatrixOvL.v; hypothesis of
   Props/C04Exec.v exec_override_eq_generic) evaluates at run time are THEOREMS about the executable semantics
   `Exec.leafsem tb`.  Statements only; proofs are `exact <lemma>` (Lemmas/AsMatrixLeafL.v).

   (1) RavelOperator / ReshapeOperator, override as_matrix = eye(in_size).  Exec.leafsem has no closed form for
       these classes: the leaf acts ONLY through a matrix of the table (`prim_matrix tb e`: the matrix measured on
       the object, else the one stored under its PKey).  So the honest statement is conditional: IF that matrix is
       the identity (`id_rows n`, n = number of input elements) and the declared output structure has n elements
       too (stated directly, or as table_okb = the dimension check), the check holds; with no matrix at all the
       check FAILS for every non-empty input structure (exec_ravel_reshape_needs_table).
   (2) DiagonalOperator with 1-d values (PDiag) without a measured application matrix (`stored tb i = None`) and
       without a measured override matrix (`olookup otb (2 i) = None`): the closed form jnp.diag(broadcast values)
       of x_leaf_override IS the matrix whose columns are `diag_value` of the basis vectors - for every structure,
       axis and list of values; no other hypothesis (not even wfo). *)
From Coq Require Import List Bool Arith NArith ZArith QArith Qcanon.
From Furax Require Import Base.Pytree Model.Op Model.Algebra Model.Denote Model.Wf Model.Exec Model.Structs
  Model.AsMatrix Lemmas.AsMatrixL Lemmas.ExecFactsL Lemmas.AsMatrixOvL Lemmas.AsMatrixLeafL.
Import ListNotations.
Local Close Scope Q_scope.
Local Close Scope Qc_scope.
Local Open Scope nat_scope.

(* ---------- (2) 1-d diagonal leaf, closed forms on both sides ---------- *)
Theorem exec_pdiag_override_ok : forall tb otb i si so axis v,
  stored tb i = None -> olookup otb (2 * i)%N = None ->
  otable_okb tb otb (Prim i CDiagonal si so (PDiag axis v)) = true.
Proof. exact exec_pdiag_override_ok_l. Qed.
Print Assumptions exec_pdiag_override_ok.

(* what the check compares, as an equation: the generic columns of the leaf are jnp.diag of the broadcast values *)
Theorem exec_pdiag_columns : forall tb i si so axis v, stored tb i = None ->
  x_columns tb (Prim i CDiagonal si so (PDiag axis v)) = Some (diag_of (dvec axis v si)).
Proof. exact pdiag_columns. Qed.
Print Assumptions exec_pdiag_columns.

(* DiagonalOperator.mv on flattened data is the element-wise product with the broadcast values *)
Theorem exec_diag_value_flat : forall axis v s (x : xvalue), has_struct x s = true ->
  vflatten (Exec.diag_value axis v s x) = pmul (dvec axis v s) (vflatten x).
Proof. exact diag_value_flat. Qed.
Print Assumptions exec_diag_value_flat.

(* ---------- (1) ravel / reshape leaves: conditional on the table entry being the identity ---------- *)
Theorem exec_ravel_reshape_override_ok : forall tb otb i c si so p,
  (c = CRavel \/ c = CReshape) -> struct_size so = struct_size si ->
  prim_matrix tb (Prim i c si so p) = Some (id_rows (struct_size si)) ->
  otable_okb tb otb (Prim i c si so p) = true.
Proof. exact exec_ravel_reshape_override_ok_l. Qed.
Print Assumptions exec_ravel_reshape_override_ok.

Theorem exec_ravel_reshape_override_ok_tb : forall tb otb i c si so p,
  (c = CRavel \/ c = CReshape) -> table_okb tb (Prim i c si so p) = true ->
  prim_matrix tb (Prim i c si so p) = Some (id_rows (struct_size si)) ->
  otable_okb tb otb (Prim i c si so p) = true.
Proof. exact exec_ravel_reshape_override_ok_tb_l. Qed.
Print Assumptions exec_ravel_reshape_override_ok_tb.

Theorem exec_ravel_reshape_needs_table : forall tb otb i c si so p,
  (c = CRavel \/ c = CReshape) -> prim_matrix tb (Prim i c si so p) = None -> 0 < struct_size si ->
  otable_okb tb otb (Prim i c si so p) = false.
Proof. exact exec_ravel_reshape_needs_table_l. Qed.
Print Assumptions exec_ravel_reshape_needs_table.

(* ---------- non-vacuity ---------- *)
Definition q (n : Z) : K := Q2Qc (inject_Z n).
Definition l2 : struct := Leaf (mkSds [2] 0).
Definition l12 : struct := Leaf (mkSds [1; 2] 0).
Definition l23 : struct := Leaf (mkSds [2; 3] 0).
Definition st23 : struct := Node (KStokes 2) [l23; l23].

(* a 1-d diagonal (values 2, 3, 5 along the last axis) on a Stokes QU pytree of (2, 3) leaves, no table entry *)
Definition opD : xop := Prim 4 CDiagonal st23 st23 (PDiag (-1) [inject_Z 2; inject_Z 3; inject_Z 5]).
Example pdiag_hypotheses_hold : stored [] 4 = None /\ olookup [] (2 * 4)%N = None.
Proof. vm_compute. split; reflexivity. Qed.
Example pdiag_theorem_applies : otable_okb [] [] opD = true.
Proof. exact (exec_pdiag_override_ok [] [] 4%N st23 st23 (-1)%Z _ eq_refl eq_refl). Qed.
Example pdiag_value :
  option_map (fun m => (m_nr m, map (fun j => nth j (nth j (m_cols m) []) k0) (seq 0 12))) (x_as_matrix [] [] opD)
  = Some (12, map q [2; 3; 5; 2; 3; 5; 2; 3; 5; 2; 3; 5]%Z)
  /\ x_as_matrix [] [] opD = x_generic [] opD.
Proof. vm_compute. split; reflexivity. Qed.
(* along axis 0 the values repeat with the stride of the trailing axis *)
Definition opD0 : xop := Prim 0 CDiagonal l23 l23 (PDiag 0 [inject_Z 2; inject_Z 3]).
Example pdiag_axis0_value :
  otable_okb [] [] opD0 = true /\
  option_map (fun m => map (fun j => nth j (nth j (m_cols m) []) k0) (seq 0 6)) (x_as_matrix [] [] opD0)
  = Some (map q [2; 2; 2; 3; 3; 3]%Z).
Proof. split; [exact (exec_pdiag_override_ok [] [] 0%N l23 l23 0%Z _ eq_refl eq_refl)|vm_compute; reflexivity]. Qed.

(* a ravel leaf acting through the measured identity matrix *)
Definition opR : xop := Prim 5 CRavel l12 l2 PNone.
Definition tbI : table := [ (10%N, [[q 1; q 0]; [q 0; q 1]]) ].
Example ravel_hypotheses_hold :
  struct_size l2 = struct_size l12 /\ prim_matrix tbI opR = Some (id_rows (struct_size l12)) /\
  table_okb tbI opR = true.
Proof. vm_compute. repeat split; reflexivity. Qed.
Example ravel_theorem_applies : otable_okb tbI [] opR = true.
Proof. exact (exec_ravel_reshape_override_ok tbI [] 5%N CRavel l12 l2 PNone (or_introl eq_refl) eq_refl eq_refl). Qed.
Example ravel_tb_theorem_applies : otable_okb tbI [] opR = true.
Proof. exact (exec_ravel_reshape_override_ok_tb tbI [] 5%N CRavel l12 l2 PNone (or_introl eq_refl) eq_refl eq_refl). Qed.
(* the condition is not idle: a measured swap matrix is rejected by the run-time check, and so is no matrix *)
Definition tbSwap : table := [ (10%N, [[q 0; q 1]; [q 1; q 0]]) ].
Example ravel_swap_rejected : otable_okb tbSwap [] opR = false.
Proof. vm_compute. reflexivity. Qed.
Example ravel_without_table_rejected : otable_okb [] [] opR = false.
Proof. exact (exec_ravel_reshape_needs_table [] [] 5%N CRavel l12 l2 PNone (or_introl eq_refl) eq_refl (Nat.lt_0_succ 1)). Qed.
(* a reshape leaf acting through a matrix stored under its PKey *)
Definition opS : xop := Prim 0 CReshape l2 l12 (PKey 10).
Example reshape_theorem_applies : otable_okb tbI [] opS = true.
Proof. exact (exec_ravel_reshape_override_ok tbI [] 0%N CReshape l2 l12 (PKey 10) (or_intror eq_refl) eq_refl eq_refl). Qed.
