(* C05 - declared input/output structures are honest.
   Statements only; the proofs are in Lemmas/StructsL.v (and Lemmas/AxesStructsL.v for the axis operators of
   Model/Axes.v, last section).
   Declared structures: Model/Algebra.v `structs` (in_struct / out_struct / in_size / out_size).
   `vhas x s` (Model/Structs.v): the value x (a pytree of flat arrays over ANY carrier K) has the tree
   shape and the leaf sizes of the structure s.  `leaf_honest leafsem e` / `leaf_defined leafsem e`:
   the leaf operator e (primitive or lazy wrapper), applied to a value of its declared input structure,
   returns a value of its declared output structure / returns something. *)
From Coq Require Import List Bool ZArith NArith String.
From Furax Require Import Base.Pytree Model.Op Model.Algebra Model.Denote Model.Wf Model.Structs
  Lemmas.StructsL.
From Furax Require Model.StokesTree Model.Exec Lemmas.Sound Model.Axes Lemmas.AxesStructsL.
Import ListNotations.

Section C05.
  Variable K : Type.
  Variables (kadd kmul : K -> K -> K).
  Variable leafsem : op K -> value K -> option (value K).
  Notation den := (denote kadd kmul leafsem).

  (* For EVERY expression tree (any depth; compositions, sums, block rows / diagonals / columns over
     arbitrarily nested containers, scalars, identities, lazy duals): applied to any input of the
     declared input structure, what comes out has the declared output structure. *)
  Theorem out_structure_honest : forall e : op K, wfo e = true ->
    Forall (leaf_honest K leafsem) (leaves e) ->
    forall x y, vhas x (in_struct e) = true -> den e x = Some y -> vhas y (out_struct e) = true.
  Proof. exact (out_structure_honest_l K kadd kmul leafsem). Qed.

  (* ... and inside a well-formed composite nothing fails: the intermediate values always have the
     structure the next operand expects (no structure error when the leaves themselves apply). *)
  Theorem application_defined : forall e : op K, wfo e = true ->
    Forall (leaf_honest K leafsem) (leaves e) -> Forall (leaf_defined K leafsem) (leaves e) ->
    forall x, vhas x (in_struct e) = true -> exists y, den e x = Some y.
  Proof. exact (denote_defined_l K kadd kmul leafsem). Qed.
End C05.
Print Assumptions out_structure_honest.
Print Assumptions application_defined.

(* ---------- sizes ---------- *)
(* in_size()/out_size() are the numbers of elements mv receives / returns *)
Theorem sizes_agree : forall (K : Type) (kadd kmul : K -> K -> K) (leafsem : op K -> value K -> option (value K)) (e : op K),
  wfo e = true -> Forall (leaf_honest K leafsem) (leaves e) ->
  forall x y, vhas x (in_struct e) = true -> denote kadd kmul leafsem e x = Some y ->
  vsize x = in_size e /\ vsize y = out_size e.
Proof. exact sizes_agree_l. Qed.
Print Assumptions sizes_agree.
(* sizes of block operators from those of their blocks (any container, any nesting) *)
Theorem block_sizes : forall (K : Type) i b td (l : list (op K)), wfo (Block i b td l) = true ->
  match b with
  | BDiag => in_size (Block i b td l) = sumn (map (@in_size K) l) /\ out_size (Block i b td l) = sumn (map (@out_size K) l)
  | BRow => in_size (Block i b td l) = sumn (map (@in_size K) l) /\ out_size (Block i b td l) = out_size (hd (Ident 0%N dummy_struct) l)
  | BCol => in_size (Block i b td l) = in_size (hd (Ident 0%N dummy_struct) l) /\ out_size (Block i b td l) = sumn (map (@out_size K) l)
  end.
Proof. exact block_sizes_l. Qed.
Print Assumptions block_sizes.

(* ---------- promoted dtypes ---------- *)
(* in/out_promoted_dtype = the least upper bound of the leaf dtypes in JAX's promotion lattice
   (Model/StokesTree.v, checked exhaustively against jnp.result_type by C20), canonicalised for the mode *)
Theorem promoted_dtype_is_join : forall x64 s r, promoted x64 s = Some r ->
  exists ts n, map sd_ty (flatten s) = map Some ts /\ r = ST.node_ty x64 n /\
    (forall u, In u ts -> ST.nle (ST.node_of u) n = true) /\
    (forall c, (forall u, In u ts -> ST.nle (ST.node_of u) c = true) -> ST.nle n c = true).
Proof. exact promoted_is_join. Qed.
Print Assumptions promoted_dtype_is_join.

(* ---------- tree, leaf shapes AND leaf dtypes: the abstract evaluation ---------- *)
(* `seval x64 leafeval e s` = jax.eval_shape(e.mv, s) = the structure of e.mv(x) for x of structure s, over
   abstract evaluations of the leaf operators (primitives, lazy wrappers, scalars).  For every expression
   tree: if each leaf evaluates to its declared output structure at its declared input structure and every
   declared dtype exists in the current 64-bit mode, then so does the whole tree - in particular the
   evaluation is DEFINED (no structure error inside a well-formed composite). *)
Theorem out_structure_honest_dtypes : forall (K : Type) (x64 : bool) (leafeval : op K -> struct -> option struct) (e : op K),
  wfo e = true -> dtypes_available x64 e = true -> Forall (sleaf_honest K leafeval) (sleaves e) ->
  seval x64 leafeval e (in_struct e) = Some (out_struct e).
Proof. exact seval_honest_l. Qed.
Print Assumptions out_structure_honest_dtypes.

(* second stage: the leaf fact holds for the executable leaf rules (computed from the class and the
   type/shape of its array parameter) under the property's own guard `params_not_wider`; hence, for
   every expression tree, declared = evaluated *)
Theorem declared_is_evaluated : forall (K : Type) (x64 : bool) (info : infos) (e : op K),
  wfo e = true -> ctor_checked x64 info e = true -> params_not_wider x64 info e = true -> dtypes_available x64 e = true ->
  xeval x64 info e (in_struct e) = Some (out_struct e).
Proof. exact xeval_honest_l. Qed.
Print Assumptions declared_is_evaluated.
(* `ctor_checked`: what the constructors of the diagonal classes verified on an existing object.  The
   constructors themselves (`diag_ctor strict (shape of the values) axis_destination (leaf shapes)`, None =
   ValueError; the shape arithmetic of _reshape_leaves for destination axes inside, at and beyond the leaf
   rank on both sides): whatever DiagonalOperator accepts keeps the shape of EVERY leaf - the square
   declaration out_structure() = in_structure() is honest - and BroadcastDiagonalOperator accepts it too,
   with the same result. *)
Theorem diagonal_ctor_honest : forall dsh spec leaves axes outs,
  diag_ctor true dsh spec leaves = Some (axes, outs) -> outs = leaves /\ axes = spec_axes spec (List.length dsh).
Proof. exact diag_ctor_strict_l. Qed.
Print Assumptions diagonal_ctor_honest.
Theorem diagonal_ctor_implies_broadcast : forall dsh spec leaves r,
  diag_ctor true dsh spec leaves = Some r -> diag_ctor false dsh spec leaves = Some r.
Proof. exact diag_ctor_strict_broadcast_l. Qed.
Print Assumptions diagonal_ctor_implies_broadcast.
(* QU rotations (and their lazy transposes) cast cos / sin (2 * angles) to the dtype of the data they multiply when it
   is inexact (`rot_ty`): for such data neither what mv returns nor the guard depends on the dtype of the ANGLES (only
   on their shape) - float64 pointing of a float32 map is inside the property; integer data are still widened by the
   factors (rotation_widens_integer_data below) *)
Theorem rotation_angle_dtype_irrelevant : forall (x64 : bool) (p p' : pinfo) (s : struct),
  pi_shape p = pi_shape p' -> forallb sd_inexact (flatten s) = true ->
  rot_eval x64 p s = rot_eval x64 p' s /\ rot_ok x64 p s = rot_ok x64 p' s.
Proof. exact rot_angle_ty_irrelevant. Qed.
Print Assumptions rotation_angle_dtype_irrelevant.
(* on inexact Q / U leaves the guard of a rotation is: the angles broadcast INTO the leaf, the dtype exists in the mode *)
Theorem rotation_guard_inexact : forall (x64 : bool) (p : pinfo) (q : sds), sd_inexact q = true ->
  rot_ok x64 p (Node (KStokes 2) [Leaf q; Leaf q]) = shape_absorbs (pi_shape p) q && sd_avail x64 q.
Proof. exact rot_ok_inexact. Qed.
Print Assumptions rotation_guard_inexact.
Theorem xeval_is_abstract_evaluation : forall (K : Type) (x64 : bool) (info : infos) (e : op K) s,
  xeval x64 info e s = seval x64 (xeval x64 info) e s.
Proof. exact xeval_seval. Qed.
Print Assumptions xeval_is_abstract_evaluation.

(* ---------- the scalar construction paths ---------- *)
(* k * A (A * k, -A, A - B go the same way) and A / k build HomothetyOperator(value, A.out_structure()) @ A where the
   value has the type `scalar_param_ty x64 path t` computed from the type t of the scalar the user wrote (k itself:
   a Python scalar stays weakly typed; 1 / k for a quotient).  If that type is absorbed by EVERY leaf of the output
   structure of A - leaf by leaf, the leaves of a mixed-precision pytree each keep their own dtype - and A evaluates
   to its declared structure, then so does the product, with the structures of A. *)
Theorem scalar_product_honest : forall (K : Type) (x64 : bool) (info : infos) (path : spath) (t : ty) i j (k : K) (e : op K),
  ilookup info i = Some (scalar_pinfo x64 path t) ->
  xeval x64 info e (in_struct e) = Some (out_struct e) ->
  forallb (absorbs x64 (scalar_param_ty x64 path t)) (flatten (out_struct e)) = true ->
  let r := Comp j [Homoth i k (out_struct e); e] in
  in_struct r = in_struct e /\ out_struct r = out_struct e /\ xeval x64 info r (in_struct r) = Some (out_struct r).
Proof. intros K x64 info path t i j k e. exact (scaled_honest_l K x64 info i j k (scalar_pinfo x64 path t) e). Qed.
Print Assumptions scalar_product_honest.
(* A = A1 @ ... @ An: the scalar operator is prepended to the operands *)
Theorem scalar_product_of_composition_honest : forall (K : Type) (x64 : bool) (info : infos) (path : spath) (t : ty) i j j' (k : K) (l : list (op K)),
  l <> [] -> ilookup info i = Some (scalar_pinfo x64 path t) ->
  let e := Comp j' l in
  xeval x64 info e (in_struct e) = Some (out_struct e) ->
  forallb (absorbs x64 (scalar_param_ty x64 path t)) (flatten (out_struct e)) = true ->
  let r := Comp j (Homoth i k (out_struct e) :: l) in
  in_struct r = in_struct e /\ out_struct r = out_struct e /\ xeval x64 info r (in_struct r) = Some (out_struct r).
Proof. intros K x64 info path t i j j' k l. exact (scaled_comp_honest_l K x64 info i j j' k (scalar_pinfo x64 path t) l). Qed.
Print Assumptions scalar_product_of_composition_honest.

(* ---------- composites: the structures are those implied by the parts ---------- *)
Theorem composite_structs : forall (K : Type) (i : N),
  (forall (l : list (op K)) d, l <> [] -> in_struct (Comp i l) = in_struct (last l d) /\ out_struct (Comp i l) = out_struct (hd d l)) /\
  (forall (l : list (op K)) d, l <> [] -> in_struct (AddOp i l) = in_struct (hd d l) /\ out_struct (AddOp i l) = out_struct (hd d l)) /\
  (forall td (l : list (op K)),
     in_struct (Block i BDiag td l) = build dummy_struct td (map (@in_struct K) l) /\
     out_struct (Block i BDiag td l) = build dummy_struct td (map (@out_struct K) l) /\
     in_struct (Block i BRow td l) = build dummy_struct td (map (@in_struct K) l) /\
     out_struct (Block i BRow td l) = hd dummy_struct (map (@out_struct K) l) /\
     in_struct (Block i BCol td l) = hd dummy_struct (map (@in_struct K) l) /\
     out_struct (Block i BCol td l) = build dummy_struct td (map (@out_struct K) l)) /\
  (forall w (x : op K), in_struct (Wrap i w x) = out_struct x /\ out_struct (Wrap i w x) = in_struct x).
Proof. exact composite_structs_l. Qed.
Print Assumptions composite_structs.
(* transposes of every expression tree swap the structures (structural transposes of compositions,
   sums, blocks; lazy wrappers; self-transposing classes are square) *)
Theorem transpose_structs : forall (K : Type) (e : op K), wfo e = true -> prims_sane e = true ->
  in_struct (transpose e) = out_struct e /\ out_struct (transpose e) = in_struct e.
Proof. exact transpose_structs_l. Qed.
Print Assumptions transpose_structs.

(* ---------- the leaf facts are met by the executable semantics of the correspondence ---------- *)
(* a leaf operator whose action is a dense matrix measured on the real object (one row per element of
   its declared output structure) returns values of the declared output structure, and is defined on
   every value of its declared input structure.  What remains an assumption: the closed-form leaves of
   Model/Exec.v without a measured matrix (objects created by reduce) and opaque user operators. *)
Theorem exec_leaf_honest : forall tb (e : Exec.xop) m, Sound.leaflike Exec.K e = true -> oid e <> 0%N ->
  Exec.lookup tb (2 * oid e)%N = Some m -> struct_size (out_struct e) <= List.length m ->
  leaf_honest Exec.K (Exec.leafsem tb) e.
Proof. exact exec_leaf_honest_measured. Qed.
Theorem exec_leaf_defined : forall tb (e : Exec.xop) m, Sound.leaflike Exec.K e = true -> oid e <> 0%N ->
  Exec.lookup tb (2 * oid e)%N = Some m -> leaf_defined Exec.K (Exec.leafsem tb) e.
Proof. exact exec_leaf_defined_measured. Qed.
Print Assumptions exec_leaf_honest.
Print Assumptions exec_leaf_defined.

(* ---------- non-vacuity; the guards are satisfiable and needed ---------- *)
Definition f32 : ty := ST.mkTy ST.DF32 false.
Definition f64 : ty := ST.mkTy ST.DF64 false.
Definition v5 : struct := Leaf (mkSds [5] 0).          (* float32[5] *)
Definition v5d : struct := Leaf (mkSds [5] 1).         (* float64[5] *)
(* 2 * Toeplitz(band of 2 values): guards hold, declared = evaluated *)
Example guard_satisfiable :
  let e : op Z := Comp 3%N [Homoth 1%N 2%Z v5; Prim 2%N CToeplitz v5 v5 PNone] in
  let info := [(1%N, mkPinfo f32 [] []); (2%N, mkPinfo f32 [2] [])] in
  wfo e = true /\ ctor_checked false info e = true /\ params_not_wider false info e = true /\
  dtypes_available false e = true /\ xeval false info e (in_struct e) = Some (out_struct e).
Proof. vm_compute. repeat split. Qed.
(* band values with a batch axis the data does not have: mv returns float32[2,5], declared float32[5] *)
Example params_not_wider_needed_shape :
  let e : op Z := Prim 2%N CToeplitz v5 v5 PNone in
  let info := [(2%N, mkPinfo f32 [2; 2] [])] in
  wfo e = true /\ dtypes_available false e = true /\ params_not_wider false info e = false /\
  xeval false info e (in_struct e) = Some (Leaf (mkSds [2; 5] 0)) /\ out_struct e = v5.
Proof. vm_compute. repeat split. Qed.
(* a float64 scalar on float32 data (64-bit mode): mv returns float64[5], declared float32[5] *)
Example params_not_wider_needed_dtype :
  let e : op Z := Homoth 1%N 2%Z v5 in
  let info := [(1%N, mkPinfo f64 [] [])] in
  wfo e = true /\ dtypes_available true e = true /\ params_not_wider true info e = false /\
  xeval true info e (in_struct e) = Some v5d /\ out_struct e = v5.
Proof. vm_compute. repeat split. Qed.
(* float64 angles on float32 Stokes data (64-bit mode): the factors are cast to float32, the rotation and its lazy
   transpose are inside the guard and return what they declare; the same holds whatever the angles' dtype *)
Definition qu (n d : nat) : struct := Node (KStokes 2) [Leaf (mkSds [n] d); Leaf (mkSds [n] d)].
Example rotation_wide_angles_honest :
  let r : op Z := Prim 1%N CQURotation (qu 3 0) (qu 3 0) PNone in
  let e : op Z := Comp 3%N [Wrap 2%N WQURotT r; r] in
  let info := [(1%N, mkPinfo f64 [3] [])] in
  wfo e = true /\ ctor_checked true info e = true /\ params_not_wider true info e = true /\
  dtypes_available true e = true /\ xeval true info e (in_struct e) = Some (out_struct e) /\ out_struct e = qu 3 0.
Proof. vm_compute. repeat split. Qed.
(* float32 angles on int32 Stokes data: no cast, mv returns float32 Q / U while int32 is declared *)
Example rotation_widens_integer_data :
  let e : op Z := Prim 1%N CQURotation (qu 3 2) (qu 3 2) PNone in
  let info := [(1%N, mkPinfo f32 [3] [])] in
  wfo e = true /\ dtypes_available false e = true /\ params_not_wider false info e = false /\
  xeval false info e (in_struct e) = Some (qu 3 0) /\ out_struct e = qu 3 2.
Proof. vm_compute. repeat split. Qed.
(* angles with an axis the data do not have (one angle per detector AND sample on a per-sample map): still outside *)
Example rotation_wide_angle_shape :
  let e : op Z := Prim 1%N CQURotation (qu 3 0) (qu 3 0) PNone in
  let info := [(1%N, mkPinfo f32 [2; 3] [])] in
  wfo e = true /\ dtypes_available false e = true /\ params_not_wider false info e = false /\
  xeval false info e (in_struct e) = Some (Node (KStokes 2) [Leaf (mkSds [2; 3] 0); Leaf (mkSds [2; 3] 0)]) /\ out_struct e = qu 3 0.
Proof. vm_compute. repeat split. Qed.
(* mixed-precision output {float16[3], float32[3]} (an index operator X: [0, 2, 2]) scaled by a scalar.
   3 * X with the Python int 3 (weak int32): every leaf keeps its dtype, the hypotheses of scalar_product_honest hold;
   the same scalar cast to the PROMOTED dtype of the output (a strongly typed float32) is wider than the float16 leaf:
   mv returns {float32[3], float32[3]} while {float16[3], float32[3]} is declared;  X / 2 (Python int): 1 / 2 is a weak
   float, honest;  X / np.int32(2): 1 / k is a strongly typed float32, wider than the float16 leaf *)
Definition lo_hi (n : nat) : struct := Node (KDict ["hi"%string; "lo"%string]) [Leaf (mkSds [n] 0); Leaf (mkSds [n] 4)].
Definition wint : ty := ST.mkTy ST.DI32 true.
Definition sint : ty := ST.mkTy ST.DI32 false.
Example scalar_paths_mixed_precision :
  let x : op Z := Prim 2%N CIndex (lo_hi 4) (lo_hi 3) PNone in
  let r : op Z := Comp 3%N [Homoth 1%N 3%Z (lo_hi 3); x] in
  let widened := Node (KDict ["hi"%string; "lo"%string]) [Leaf (mkSds [3] 0); Leaf (mkSds [3] 0)] in
  let inf p t := [(1%N, scalar_pinfo false p t)] in
  out_struct r = lo_hi 3 /\
  forallb (absorbs false (scalar_param_ty false SMul wint)) (flatten (out_struct x)) = true /\
  params_not_wider false (inf SMul wint) r = true /\ xeval false (inf SMul wint) r (in_struct r) = Some (lo_hi 3) /\
  params_not_wider false (inf SMul f32) r = false /\ xeval false (inf SMul f32) r (in_struct r) = Some widened /\
  scalar_param_ty false SDiv wint = ST.mkTy ST.DF32 true /\ xeval false (inf SDiv wint) r (in_struct r) = Some (lo_hi 3) /\
  scalar_param_ty false SDiv sint = f32 /\ xeval false (inf SDiv sint) r (in_struct r) = Some widened /\
  scalar_param_ty true SDiv wint = ST.mkTy ST.DF64 true /\ xeval true (inf SDiv wint) r (in_struct r) = Some (lo_hi 3).
Proof. vm_compute. repeat split. Qed.
(* the constructor check is needed and is about EVERY leaf: one value at destination axis 1 of
   {'ground': float32[3], 'tod': float32[3,1]} - the axis lies past the last axis of 'ground', which would come
   back as float32[3,1]; DiagonalOperator refuses it, BroadcastDiagonalOperator accepts and says so *)
Definition tod_ground : struct := Node (KDict ["ground"%string; "tod"%string]) [Leaf (mkSds [3] 0); Leaf (mkSds [3; 1] 0)].
Example ctor_checked_needed :
  let e : op Z := Prim 1%N CDiagonal tod_ground tod_ground PNone in
  let info := [(1%N, mkPinfo f32 [1] [1%Z])] in
  wfo e = true /\ params_not_wider false info e = true /\ dtypes_available false e = true /\
  ctor_checked false info e = false /\
  xeval false info e (in_struct e) = Some (Node (KDict ["ground"%string; "tod"%string]) [Leaf (mkSds [3; 1] 0); Leaf (mkSds [3; 1] 0)]) /\
  out_struct e = tod_ground /\
  diag_ctor true [1] (AxInt 1) [[3]; [3; 1]] = None /\
  diag_ctor false [1] (AxInt 1) [[3]; [3; 1]] = Some ([1%Z], [[3; 1]; [3; 1]]) /\
  diag_ctor true [3] (AxInt 0) [[3]; [3; 1]] = Some ([0%Z], [[3]; [3; 1]]).
Proof. vm_compute. repeat split. Qed.
(* a structure declaring float64 while 64-bit mode is off: the sum of two identities evaluates to float32 *)
Example dtypes_available_needed :
  let e : op Z := AddOp 3%N [Ident 1%N v5d; Ident 2%N v5d] in
  wfo e = true /\ params_not_wider false [] e = true /\ dtypes_available false e = false /\
  xeval false [] e (in_struct e) = Some v5 /\ out_struct e = v5d.
Proof. vm_compute. repeat split. Qed.
(* the leaf facts of the value-level theorems are met by concrete leaf semantics: a leaf that doubles *)
Example leaf_facts_satisfiable :
  let sem := fun (e : op Z) (x : value Z) => Some (vscale Z.mul 2%Z x) in
  let e : op Z := Prim 1%N CAtom v5 v5 PNone in
  Forall (leaf_honest Z sem) (leaves e) /\ Forall (leaf_defined Z sem) (leaves e).
Proof.
  split; constructor; try constructor.
  - intros x y Hx Hy. inversion Hy; subst. change (out_struct (Prim 1%N CAtom v5 v5 PNone : op Z)) with v5.
    rewrite (vhas_vscale Z Z.mul). exact Hx.
  - intros x Hx. eexists. reflexivity.
Qed.

(* ---------- axis operators on pytrees whose leaves have different ranks ---------- *)
(* Model/Axes.v (the model of the C13 check: MoveAxisOperator / RavelOperator / ReshapeOperator on lists of leaf
   shapes, the axes normalised PER LEAF; reduce1 = AbstractRavelOrReshapeOperator.reduce / the default reduce).
   The reduced operator declares the structures of the unreduced one, whatever the ranks of the leaves ... *)
Theorem axes_reduce_keeps_structures : forall o r, Axes.reduce1 o = Axes.Ok r ->
  Axes.in_structure r = Axes.in_structure o /\ Axes.out_structure r = Axes.out_structure o.
Proof. exact AxesStructsL.reduce1_structs_l. Qed.
(* ... and the identity is returned only when EVERY leaf keeps its shape (not: the first one, not: some of them) *)
Theorem axes_reduce_identity_needs_all_leaves : forall o s, Axes.reduce1 (Axes.OpRR o) = Axes.Ok (Axes.OpId s) ->
  Axes.mapM (Axes.rr_leaf_shape o) (Axes.rr_in o) = Axes.Ok (Axes.rr_in o).
Proof. exact AxesStructsL.reduce1_identity_all_leaves_l. Qed.
Print Assumptions axes_reduce_keeps_structures.
Print Assumptions axes_reduce_identity_needs_all_leaves.
(* the default ravel (0, -1) on a 1-d leaf followed by a 2-d leaf: the first leaf is untouched, the second one is
   flattened - not an identity; ravelling axis 0 alone is one *)
Example axes_mixed_rank_witness :
  exists o, Axes.Ravel_ctor 1%N 0%Z (-1)%Z [[4]; [2; 3]]%nat = Axes.Ok o /\
    Axes.reduce1 (Axes.OpRR (Axes.RRavel o)) = Axes.Ok (Axes.OpRR (Axes.RRavel o)) /\
    Axes.out_structure (Axes.OpRR (Axes.RRavel o)) = Axes.Ok [[4]; [6]]%nat /\
    Axes.reduce1 (Axes.OpRR (Axes.RRavel (Axes.mkRavel 1%N 0%Z 0%Z [[4]; [2; 3]]%nat))) = Axes.Ok (Axes.OpId [[4]; [2; 3]]%nat).
Proof. exists (Axes.mkRavel 1%N 0%Z (-1)%Z [[4]; [2; 3]]%nat). vm_compute. repeat split. Qed.
