(* C06 - inverses invert.
   Statements only; proofs are `exact <lemma>` (Lemmas/InverseL.v).  Model: Model/Inverse.v
   (`inverse_r`: inverse()/.I of every class; pinv; Penrose equations; certified matrix inverse).

   PARTIAL in one clause: "for a symmetric positive-definite A without closed form, A.I(y) solves
   A z = y to the configured solver tolerance" is a convergence statement about lineax's CG in
   floating point.  Here the iterative InverseOperator is an ORACLE: `inv_facts` (fields if_lazy_l,
   if_lazy_r = lf_inv_l / lf_inv_r of Sound.leaf_facts) says its leaf semantics is a two-sided inverse
   of its operand; harness/c06.py `extra()` TESTS the clause numerically (tests, not theorems). *)
From Coq Require Import List Bool Arith ZArith NArith QArith Qcanon String Ring Field.
From Furax Require Import Base.Pytree Model.Op Model.Algebra Model.Denote Model.Wf Model.Exec Model.Inverse
  Lemmas.DenoteL Lemmas.Sound Lemmas.MuellerExecL Lemmas.InverseL.
From Furax Require Model.Axes Lemmas.AxesL.
Import ListNotations.
Local Close Scope Q_scope.
Local Close Scope Qc_scope.
Local Open Scope nat_scope.

Section C06.
  (* any field with decidable equality *)
  Variable K : Type.
  Variables (k0 k1 : K) (kadd kmul ksub : K -> K -> K) (kopp : K -> K) (kdiv : K -> K -> K) (kinv : K -> K).
  Hypothesis Fth : field_theory k0 k1 kadd kmul ksub kopp kdiv kinv (@eq K).
  Variable keqb : K -> K -> bool.
  Hypothesis keqb_spec : forall a b, keqb a b = true <-> a = b.
  Notation pinv := (pinv K keqb k0 kinv).
  Notation emul := (emul K kmul).

  (* ---- closed forms, value / matrix level (no assumption about any operator) ---- *)
  (* homothety_inv: k <> 0 -> H(1/k) is the two-sided inverse of H(k) on every pytree *)
  Theorem homothety_inv : forall k (x : value K), k <> k0 ->
    vscale kmul (kinv k) (vscale kmul k x) = x /\ vscale kmul k (vscale kmul (kinv k) x) = x.
  Proof.
    exact (fun k x H => conj (vscale_inv_l K k0 k1 kadd kmul ksub kopp kdiv kinv Fth k x H)
                             (vscale_inv_r K k0 k1 kadd kmul ksub kopp kdiv kinv Fth k x H)).
  Qed.
  (* diag_inv: all entries non-zero -> where(d != 0, 1/d, 0) undoes the diagonal, both ways ... *)
  Theorem diag_inv : forall d x, nonzero K keqb k0 d = true -> List.length x = List.length d ->
    emul (map pinv d) (emul d x) = x /\ emul d (emul (map pinv d) x) = x.
  Proof.
    exact (fun d x Hn Hl => conj (emul_pinv_l K k0 k1 kadd kmul ksub kopp kdiv kinv Fth keqb keqb_spec d x Hn Hl)
                                 (emul_pinv_r K k0 k1 kadd kmul ksub kopp kdiv kinv Fth keqb keqb_spec d x Hn Hl)).
  Qed.
  (* ... and as matrices: P D = I = D P *)
  Theorem diag_inv_matrix : forall d, nonzero K keqb k0 d = true ->
    two_sided K k0 k1 kadd kmul (List.length d) (fdiag K k0 d) (fdiag K k0 (map pinv d)).
  Proof. exact (diag_inv_matrix K k0 k1 kadd kmul ksub kopp kdiv kinv Fth keqb keqb_spec). Qed.
  (* diag_pinv_moore_penrose: for EVERY diagonal, zeros allowed, the four Penrose equations hold.
     The model's `pinv` never evaluates 1/0 (the `where` guard): every entry is a field element; that
     the float implementation produces no NaN/Inf is observed by the harness. *)
  Theorem diag_pinv_moore_penrose : forall d,
    penrose K k0 kadd kmul (List.length d) (fdiag K k0 d) (fdiag K k0 (map pinv d)).
  Proof. exact (diag_pinv_penrose K k0 k1 kadd kmul ksub kopp kdiv kinv Fth keqb keqb_spec). Qed.
  Theorem pinv_entries : forall k, pinv k0 = k0 /\ (k <> k0 -> pinv k = kinv k) /\ pinv (pinv k) = k /\
    kmul (pinv k) k = if keqb k k0 then k0 else k1.
  Proof.
    exact (fun k => conj (pinv_zero K k0 kinv keqb keqb_spec)
      (conj (pinv_regular K k0 kinv keqb keqb_spec k)
      (conj (pinv_pinv K k0 k1 kadd kmul ksub kopp kdiv kinv Fth keqb keqb_spec k)
            (pinv_mul K k0 k1 kadd kmul ksub kopp kdiv kinv Fth keqb keqb_spec k)))).
  Qed.
  (* no cut-off: the pseudo-inverse entry is zero exactly where the entry is zero - a non-zero entry, however
     small (2^-126 in float32, 2^-1022 in float64), is inverted, never thresholded to 0 *)
  Theorem pinv_zero_only_at_zero : forall k, pinv k = k0 <-> k = k0.
  Proof. exact (pinv_zero_iff K k0 k1 kadd kmul ksub kopp kdiv kinv Fth keqb keqb_spec). Qed.
  (* with zeros, D.I(D x) is the projection of x on the non-zero entries *)
  Theorem diag_pinv_projection : forall d x, List.length x = List.length d ->
    emul (map pinv d) (emul d x) = emul (map (fun k => if keqb k k0 then k0 else k1) d) x.
  Proof. exact (emul_pinv_proj K k0 k1 kadd kmul ksub kopp kdiv kinv Fth keqb keqb_spec). Qed.
  (* orthogonal_inv (QU rotation): R(a)^T undoes R(a) and R(a) undoes R(a)^T, from c^2 + s^2 = 1 *)
  Theorem orthogonal_inv_rotation : forall t cs qu, Forall (unit_cs K k1 kadd kmul) cs ->
    List.length qu = List.length cs ->
    rotl K kadd kmul kopp (negb t) cs (rotl K kadd kmul kopp t cs qu) = qu.
  Proof. exact (rotl_inv K k0 k1 kadd kmul ksub kopp kdiv kinv Fth). Qed.

  (* ---- expression trees ---- *)
  Variable leafsem : op K -> value K -> option (value K).
  Variable regular : op K -> bool.
  Hypothesis LF : leaf_facts K kadd kmul leafsem.
  Hypothesis IF : inv_facts K kadd kmul leafsem regular.
  Variable fuel : nat.
  Variable order : list rule_id.
  Notation den := (denote kadd kmul leafsem).
  Notation inverse := (inverse_r K keqb k1 kmul kinv fuel order).

  (* THE GENERAL STATEMENT.  For every expression tree e (any class, any nesting of block-diagonal
     containers) whose inverse() returns e', under the invertibility guards (inv_guard: non-zero
     scalars, regular diagonals): e' undoes e and e undoes e' on every input where both apply. *)
  Theorem inverse_two_sided : forall e e', inv_guard K keqb k0 regular e = true -> inverse e = Ok e' ->
    (forall x y1 y, den e x = Some y1 -> den e' y1 = Some y -> y = x) /\
    (forall x y1 y, den e' x = Some y1 -> den e y1 = Some y -> y = x).
  Proof. exact (inverse_sound K k0 k1 kadd kmul ksub kopp kdiv kinv Fth keqb keqb_spec leafsem regular fuel order LF IF). Qed.
  (* blockdiag_inv: block-wise two-sided inverses give a two-sided inverse, whatever the container *)
  Theorem blockdiag_inv : forall i j td l l', Forall2 (wpair K kadd kmul leafsem) l l' ->
    wpair K kadd kmul leafsem (Block i BDiag td l) (Block j BDiag td l').
  Proof. exact (blockdiag_wpair K kadd kmul leafsem). Qed.
  (* ... and BlockDiagonalOperator.inverse IS block-wise iff every block is square *)
  Theorem blockdiag_inverse_blockwise : forall i td l,
    inverse (Block i BDiag td l) =
    if forallb (@is_square K) l then bind (mapM inverse l) (fun l' => mk_block BDiag td l')
    else default_inverse K keqb k1 kmul fuel order (Block i BDiag td l).
  Proof. exact (inverse_r_bdiag K k1 kmul kinv keqb fuel order). Qed.
  (* inv_inv: X.I.I is the stored operand ... *)
  Theorem inverse_of_lazy_inverse : forall i w x, isinst (wcls w) [CAbstractLazyInverse] = true ->
    inverse (Wrap i w x) = Ok x.
  Proof. exact (inverse_of_lazy K k1 kmul kinv keqb fuel order). Qed.
  (* ... which, for the default InverseOperator, is the REDUCED operand, and denotes X (C01) ... *)
  Theorem inv_inv_default : forall e e', default_inverse K keqb k1 kmul fuel order e = Ok e' ->
    exists r, reduce keqb k1 kmul fuel order e = Ok r /\ inverse e' = Ok r /\
      forall x y, den e x = Some y -> den r x = Some y.
  Proof. exact (default_inverse_inverse K k0 k1 kadd kmul ksub kopp kdiv kinv Fth keqb keqb_spec leafsem fuel order LF). Qed.
  (* ... and in general: whatever e does, e.I.I does *)
  Theorem inv_inv : forall e e' e'', plain K e = true -> inv_guard K keqb k0 regular e = true ->
    inverse e = Ok e' -> square_blocks K e' = true -> inverse e' = Ok e'' ->
    forall x y, den e x = Some y -> den e'' x = Some y.
  Proof. exact (InverseL.inv_inv K k0 k1 kadd kmul ksub kopp kdiv kinv Fth keqb keqb_spec leafsem regular fuel order LF IF). Qed.
  (* inverse_refuses_nonsquare: every class without closed form refuses a non-square operator *)
  Theorem inverse_refuses_nonsquare : forall e, is_square e = false -> closed_form K e = false ->
    inverse e = Err ValueError.
  Proof. exact (refuses_nonsquare K k1 kmul kinv keqb fuel order). Qed.
  (* and whatever inverse() returns is a closed form or the lazy inverse of the reduced square operand *)
  Theorem inverse_cases : forall e e', inverse e = Ok e' ->
    closed_form K e = true \/
    (is_square e = true /\ exists r, reduce keqb k1 kmul fuel order e = Ok r /\ e' = Wrap fresh WInverse r).
  Proof. exact (inverse_ok_cases K k1 kmul kinv keqb fuel order). Qed.
End C06.

(* orthogonal_inv (move-axis): moveaxis(d, s) undoes moveaxis(s, d) - C13 *)
Theorem orthogonal_inv_moveaxis : forall (K : Type) (k0 : K) (a : Axes.arr K) src dst, Axes.wf_arr a ->
  AxesL.legalZ (List.length (Axes.ashape a)) src dst ->
  Axes.bind (Axes.moveaxis K k0 src dst a) (Axes.moveaxis K k0 dst src) = Axes.Ok a.
Proof. exact AxesL.moveaxis_inverse_l. Qed.

(* lazy_inverse_matrix: as_matrix() of a lazy inverse = the (certified) matrix inverse of as_matrix()
   of its operand; and the exact solver of the executable model acts through that matrix *)
Theorem minv_is_inverse : forall M N, qminv M = Some N ->
  lmul K k0 Qcplus Qcmult (List.length M) N M = lid K k0 k1 (List.length M) /\
  lmul K k0 Qcplus Qcmult (List.length M) M N = lid K k0 k1 (List.length M).
Proof. exact (minv_certified K k0 k1 Qcplus Qcmult Qcopp Qcinv keqb qc_keqb_spec). Qed.
Theorem lazy_inverse_matrix : forall tb r N, as_matrix_lazy_inverse tb r = Some N ->
  exists M, gmat (isem tb inv_depth) r = Some M /\
    lmul K k0 Qcplus Qcmult (List.length M) N M = lid K k0 k1 (List.length M) /\
    lmul K k0 Qcplus Qcmult (List.length M) M N = lid K k0 k1 (List.length M).
Proof. exact lazy_inverse_matrix_l. Qed.

(* the shared core model `Algebra.inverse` is `inverse_r` except that it does not recurse into a block
   that is itself block-diagonal (see c06_nested_blockdiag_example for the difference) *)
Theorem inverse_agrees_with_core_model : forall (K : Type) (keqb : K -> K -> bool) (k1 : K) (kmul : K -> K -> K)
  (kinv : K -> K) fuel order (e : op K), wfo e = true -> flat_blocks K e = true ->
  Algebra.inverse keqb k1 kmul kinv fuel order e = inverse_r K keqb k1 kmul kinv fuel order e.
Proof. exact inverse_agrees. Qed.

(* second stage: the executable leaf semantics (quarter-turn angles, no measured matrix) satisfies the
   assumptions if_rot_l / if_rot_r on QU rotations *)
Theorem exec_rotation_transpose_is_inverse : forall i j sj soj a,
  winv Exec.K (lsem (R Exec.K j sj soj a)) (lsem (Wrap i WQURotT (R Exec.K j sj soj a))) /\
  winv Exec.K (lsem (Wrap i WQURotT (R Exec.K j sj soj a))) (lsem (R Exec.K j sj soj a)).
Proof. exact (fun i j sj soj a => conj (exec_if_rot_l i j sj soj a) (exec_if_rot_r i j sj soj a)). Qed.

Print Assumptions homothety_inv.
Print Assumptions diag_inv.
Print Assumptions diag_inv_matrix.
Print Assumptions diag_pinv_moore_penrose.
Print Assumptions pinv_entries.
Print Assumptions pinv_zero_only_at_zero.
Print Assumptions diag_pinv_projection.
Print Assumptions orthogonal_inv_rotation.
Print Assumptions inverse_two_sided.
Print Assumptions blockdiag_inv.
Print Assumptions blockdiag_inverse_blockwise.
Print Assumptions inverse_of_lazy_inverse.
Print Assumptions inv_inv_default.
Print Assumptions inv_inv.
Print Assumptions inverse_refuses_nonsquare.
Print Assumptions inverse_cases.
Print Assumptions orthogonal_inv_moveaxis.
Print Assumptions minv_is_inverse.
Print Assumptions lazy_inverse_matrix.
Print Assumptions inverse_agrees_with_core_model.
Print Assumptions exec_rotation_transpose_is_inverse.

(* ---- non-vacuity: the guards and premises are met by concrete operators over Qc ---- *)
Definition qc (n : Z) : Exec.K := Q2Qc (n # 1).
Definition s2 : struct := Leaf (mkSds [2] 0).
Definition regular_all (_ : xop) : bool := true.
(* a block-diagonal operator over a nested container [[2*I, D], {k: -4*I}] with a diagonal block:
   guard true, inverse block-wise (1/2, DiagonalInverse, -1/4), result square, and .I.I = the operator *)
Example c06_blockdiag_example :
  let td := Node KList [Node KList [Leaf tt; Leaf tt]; Node (KDict ["k"%string]) [Leaf tt]] in
  let d : xop := Prim 3 CDiagonal s2 s2 (PDiag 0 [2 # 1; 4 # 1]%Q) in
  let e : xop := Block 9 BDiag td [Homoth 1 (qc 2) s2; d; Homoth 2 (qc (-4)) s2] in
  let e1 : xop := Block 0 BDiag td [Homoth 0 (Q2Qc (1 # 2)) s2; Wrap 0 WDiagInv d; Homoth 0 (Q2Qc (-1 # 4)) s2] in
  let e2 : xop := Block 0 BDiag td [Homoth 0 (qc 2) s2; d; Homoth 0 (qc (-4)) s2] in
  inv_guard Exec.K keqb k0 regular_all e = true /\ plain Exec.K e = true /\
  x_inverse_r default_order e = Ok e1 /\ square_blocks Exec.K e1 = true /\ x_inverse_r default_order e1 = Ok e2.
Proof. vm_compute. repeat split. Qed.
(* refusal of a non-square dense operator and of a block-diagonal operator with a non-square block;
   a zero scalar fails the guard *)
Example c06_refusal_example :
  let a23 : xop := Prim 1 CDense (Leaf (mkSds [3] 0)) s2 (PKey 2) in
  x_inverse_r default_order a23 = Err ValueError /\
  x_inverse_r default_order (Block 2 BDiag (Node KList [Leaf tt; Leaf tt]) [Homoth 3 (qc 2) s2; a23]) = Err ValueError /\
  closed_form Exec.K a23 = false /\ inv_guard Exec.K keqb k0 regular_all (Homoth 1 (qc 0) s2) = false.
Proof. vm_compute. repeat split. Qed.
(* the pseudo-inverse of diag(2, 0, 1/2): (1/2, 0, 2); the lazy inverse of [[2,1],[1,3]] acts through
   [[3/5,-1/5],[-1/5,2/5]] and its inverse is the operand again *)
Example c06_pinv_example :
  map kpinv [qc 2; qc 0; Q2Qc (1 # 2)] = [Q2Qc (1 # 2); qc 0; qc 2].
Proof. vm_compute. reflexivity. Qed.
(* magnitudes: the smallest normal float32 and float64 numbers, a huge and a negative entry are inverted
   exactly; only the exact zero is kept (the harness runs the real code over this range, harness/c06.py LADDER) *)
Example c06_pinv_magnitude_example :
  map (fun k => this (kpinv k))
      [Q2Qc (Qmake 1 (2 ^ 126)); qc 0; Q2Qc (Qmake (-1) (2 ^ 1022)); qc (2 ^ 100); Q2Qc (Qmake 1 (2 ^ 30))] =
  [Qmake (2 ^ 126) 1; Qmake 0 1; Qmake (- 2 ^ 1022) 1; Qmake 1 (2 ^ 100); Qmake (2 ^ 30) 1].
Proof. vm_compute. reflexivity. Qed.
Example c06_lazy_example :
  let tb := [(2%N, [[qc 2; qc 1]; [qc 1; qc 3]])] in
  let a : xop := Prim 1 CDense s2 s2 (PKey 2) in
  observe_inv tb default_order a =
  (OOk (SK "InverseOperator" 0 [] [SK "DenseBlockDiagonalOperator" 1 [] []])
       (SK "leaf" 0 [(2, 1)%Z] []) (SK "leaf" 0 [(2, 1)%Z] [])
       (Some [[(3, 5); (-1, 5)]; [(-1, 5); (2, 5)]]%Z),
   OOk (SK "DenseBlockDiagonalOperator" 1 [] []) (SK "leaf" 0 [(2, 1)%Z] []) (SK "leaf" 0 [(2, 1)%Z] [])
       (Some [[(2, 1); (1, 1)]; [(1, 1); (3, 1)]]%Z),
   Some [[(3, 5); (-1, 5)]; [(-1, 5); (2, 5)]]%Z).
Proof. vm_compute. reflexivity. Qed.
(* a block-diagonal operator whose first block is block-diagonal: the code inverts it block-wise again
   (inverse_r), the non-recursive Algebra.inverse wraps the reduced block in a lazy InverseOperator *)
Example c06_nested_blockdiag_example :
  let l2 := Node KList [Leaf tt; Leaf tt] in
  let inner : xop := Block 5 BDiag l2 [Homoth 1 (qc 2) s2; Homoth 2 (qc 4) s2] in
  let e : xop := Block 9 BDiag l2 [inner; Homoth 3 (qc 8) s2] in
  x_inverse_r default_order e =
    Ok (Block 0 BDiag l2 [Block 0 BDiag l2 [Homoth 0 (Q2Qc (1 # 2)) s2; Homoth 0 (Q2Qc (1 # 4)) s2]; Homoth 0 (Q2Qc (1 # 8)) s2]) /\
  x_inverse default_order e =
    Ok (Block 0 BDiag l2 [Wrap 0 WInverse (Block 0 BDiag l2 [Homoth 1 (qc 2) s2; Homoth 2 (qc 4) s2]); Homoth 0 (Q2Qc (1 # 8)) s2]) /\
  flat_blocks Exec.K e = false.
Proof. vm_compute. repeat split. Qed.
