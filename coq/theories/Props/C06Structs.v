(* C05 `inverse_structs` and C06 `inv_inv` without the premise on the result.
   Statements only; proofs are `exact <lemma>` (Lemmas/InverseStructsL.v, on top of
   `reduce_structs` of Lemmas/ReduceStructsL.v).  Model: `inverse_r` of Model/Inverse.v
   (inverse()/.I of every class, recursive in block-diagonal operators).

   Hypotheses on the expression tree e (as in Props/C01Structs.v):
   * `wfo e` (Model/Wf.v): what the constructors of furax guarantee;
   * `prims_ok e` (decidable, `prims_okb`): a MoveAxisOperator declares the leaf-wise jnp.moveaxis
     image of its input structure; an IndexOperator without indexed axis declares its input structure.
   For `prims_ok` of the RESULT one more decidable condition, `inv_movable e`: the transposes that
   inverse() takes of MoveAxisOperators are legal moveaxis calls.  It fails only on a boundary of
   jnp.moveaxis, which accepts repeated destination axes (c06s_moveaxis_boundary below);
   `moveaxis_transpose_legal`: distinct destination axes suffice. *)
From Coq Require Import List Bool Arith ZArith NArith QArith Qcanon String Ring Field.
From Furax Require Import Base.Pytree Model.Op Model.Algebra Model.Denote Model.Wf Model.Exec Model.Inverse
  Lemmas.DenoteL Lemmas.Sound Lemmas.BuildL Lemmas.InverseL Lemmas.ReduceStructsL Lemmas.InverseStructsL.
From Furax Require Model.Axes Lemmas.AxesL.
Import ListNotations.
Local Close Scope Q_scope.
Local Close Scope Qc_scope.
Local Open Scope nat_scope.

Section C06Structs.
  Variable K : Type.
  Variable keqb : K -> K -> bool.
  Hypothesis keqb_eq : forall a b, keqb a b = true -> a = b.
  Variables (k1 : K) (kmul : K -> K -> K) (kinv : K -> K).
  Variable fuel : nat.
  Variable order : list rule_id.
  Notation inverse := (inverse_r K keqb k1 kmul kinv fuel order).

  (* inverse_structs (C05): whatever inverse() returns is well formed and has the two structures of
     the operand exchanged - every class, every nesting of block-diagonal containers, the default
     lazy InverseOperator of the REDUCED operand included (reduce_structs), any registry order, any fuel *)
  Theorem inverse_structs : forall (e e' : op K), wfo e = true -> prims_ok e -> inverse e = Ok e' ->
    wfo e' = true /\ in_struct e' = out_struct e /\ out_struct e' = in_struct e.
  Proof. exact (InverseStructsL.inverse_structs K keqb keqb_eq k1 kmul kinv fuel order). Qed.

  (* for a square operand: the same structures, and the inverse is square *)
  Theorem inverse_structs_square : forall (e e' : op K), wfo e = true -> prims_ok e -> is_square e = true ->
    inverse e = Ok e' ->
    wfo e' = true /\ in_struct e' = in_struct e /\ out_struct e' = out_struct e /\ is_square e' = true.
  Proof. exact (InverseStructsL.inverse_structs_square K keqb keqb_eq k1 kmul kinv fuel order). Qed.
  Theorem inverse_square_iff : forall (e e' : op K), wfo e = true -> prims_ok e -> inverse e = Ok e' ->
    is_square e' = is_square e.
  Proof. exact (InverseStructsL.inverse_square_iff K keqb keqb_eq k1 kmul kinv fuel order). Qed.

  (* the result satisfies prims_ok again (so the theorems apply to e.I.I, e.I.reduce(), ...) *)
  Theorem inverse_prims_ok : forall (e e' : op K), wfo e = true -> prims_ok e -> inv_movable e = true ->
    inverse e = Ok e' -> prims_ok e'.
  Proof. exact (InverseStructsL.inverse_prims_ok K keqb keqb_eq k1 kmul kinv fuel order). Qed.

  (* the default path alone: InverseOperator(self.reduce()) *)
  Theorem default_inverse_structs : forall (e e' : op K), wfo e = true -> prims_ok e ->
    default_inverse K keqb k1 kmul fuel order e = Ok e' ->
    wfo e' = true /\ prims_ok e' /\ in_struct e' = out_struct e /\ out_struct e' = in_struct e.
  Proof. exact (InverseStructsL.default_structs K keqb keqb_eq k1 kmul fuel order). Qed.

  (* the shared core model Algebra.inverse (used by C01/C02/C05: no recursion into a block that is
     itself block-diagonal) *)
  Theorem inverse_structs_core_model : forall (e e' : op K), wfo e = true -> prims_ok e ->
    flat_blocks K e = true -> Algebra.inverse keqb k1 kmul kinv fuel order e = Ok e' ->
    wfo e' = true /\ in_struct e' = out_struct e /\ out_struct e' = in_struct e.
  Proof. exact (InverseStructsL.inverse_structs_core K keqb keqb_eq k1 kmul kinv fuel order). Qed.

  (* the former premise of inv_inv, now a theorem: inverse() of a plain operator returns
     block-diagonal nodes whose blocks are all square, at every depth *)
  Theorem inverse_square_blocks : forall (e e' : op K), wfo e = true -> prims_ok e -> plain K e = true ->
    inverse e = Ok e' -> square_blocks K e' = true.
  Proof. exact (InverseStructsL.inverse_square_blocks K keqb keqb_eq k1 kmul kinv fuel order). Qed.
End C06Structs.

(* distinct (normalised) destination axes: the transposed MoveAxisOperator is a legal moveaxis *)
Theorem moveaxis_transpose_legal : forall s d si, move_ok s d si = true ->
  (forall l, In l (flatten si) -> NoDup (map (AxesL.nz (List.length (s_shape l))) d)) ->
  move_ok d s (move_struct s d si) = true.
Proof. exact move_ok_sym. Qed.

Section C06Full.
  (* any field with decidable equality; leaf facts as in Props/C06.v *)
  Variable K : Type.
  Variables (k0 k1 : K) (kadd kmul ksub : K -> K -> K) (kopp : K -> K) (kdiv : K -> K -> K) (kinv : K -> K).
  Hypothesis Fth : field_theory k0 k1 kadd kmul ksub kopp kdiv kinv (@eq K).
  Variable keqb : K -> K -> bool.
  Hypothesis keqb_spec : forall a b, keqb a b = true <-> a = b.
  Variable leafsem : op K -> value K -> option (value K).
  Variable regular : op K -> bool.
  Hypothesis LF : leaf_facts K kadd kmul leafsem.
  Hypothesis IF : inv_facts K kadd kmul leafsem regular.
  Variable fuel : nat.
  Variable order : list rule_id.
  Notation den := (denote kadd kmul leafsem).
  Notation inverse := (inverse_r K keqb k1 kmul kinv fuel order).

  (* inv_inv of Props/C06.v without `square_blocks e'`: whatever e does, e.I.I does *)
  Theorem inv_inv_full : forall e e' e'', wfo e = true -> prims_ok e -> plain K e = true ->
    inv_guard K keqb k0 regular e = true -> inverse e = Ok e' -> inverse e' = Ok e'' ->
    forall x y, den e x = Some y -> den e'' x = Some y.
  Proof.
    exact (InverseStructsL.inv_inv_full K k0 k1 kadd kmul ksub kopp kdiv kinv Fth keqb keqb_spec leafsem regular
             fuel order LF IF).
  Qed.
  (* ... and e.I.I exists whenever e.I does *)
  Theorem inv_inv_total : forall e e', wfo e = true -> prims_ok e -> plain K e = true ->
    inv_guard K keqb k0 regular e = true -> inverse e = Ok e' ->
    exists e'', inverse e' = Ok e'' /\ forall x y, den e x = Some y -> den e'' x = Some y.
  Proof.
    exact (InverseStructsL.inv_inv_total K k0 k1 kadd kmul ksub kopp kdiv kinv Fth keqb keqb_spec leafsem regular
             fuel order LF IF).
  Qed.
End C06Full.

Print Assumptions inverse_structs.
Print Assumptions inverse_structs_square.
Print Assumptions inverse_square_iff.
Print Assumptions inverse_prims_ok.
Print Assumptions default_inverse_structs.
Print Assumptions inverse_structs_core_model.
Print Assumptions inverse_square_blocks.
Print Assumptions moveaxis_transpose_legal.
Print Assumptions inv_inv_full.
Print Assumptions inv_inv_total.

(* ---------- non-vacuity: concrete operators over Qc ---------- *)
Definition c06s_qc (n : Z) : Exec.K := Q2Qc (n # 1).
Definition c06s_t2 : struct := Leaf (mkSds [2] 0).
Definition c06s_t33 : struct := Leaf (mkSds [3; 3] 0).
Definition c06s_tA : struct := Leaf (mkSds [2; 3] 0).
Definition c06s_tB : struct := Leaf (mkSds [3; 2] 0).
Definition c06s_l2 : treedef := Node KList [Leaf tt; Leaf tt].
Definition c06s_td3 : treedef := Node KTuple [Leaf tt; Leaf tt; Leaf tt].
Definition c06s_dg : xop := Prim 3 CDiagonal c06s_t2 c06s_t2 (PDiag 0 [2 # 1; 4 # 1]%Q).
Definition c06s_regular (_ : xop) : bool := true.
(* a block-diagonal operator over a tuple whose first block is block-diagonal again (scalar, diagonal),
   with a dense block (default path: lazy InverseOperator) and a square MoveAxis block (transpose) *)
Definition c06s_ex : xop :=
  Block 9 BDiag c06s_td3
    [Block 5 BDiag c06s_l2 [Homoth 1 (c06s_qc 2) c06s_t2; c06s_dg];
     Prim 7 CDense c06s_t2 c06s_t2 (PKey 2);
     Prim 8 CMoveAxis c06s_t33 c06s_t33 (PAxes [0%Z] [1%Z])].
Definition c06s_ex_I : xop :=
  Block 0 BDiag c06s_td3
    [Block 0 BDiag c06s_l2 [Homoth 0 (Q2Qc (1 # 2)) c06s_t2; Wrap 0 WDiagInv c06s_dg];
     Wrap 0 WInverse (Prim 7 CDense c06s_t2 c06s_t2 (PKey 2));
     Prim 0 CMoveAxis c06s_t33 c06s_t33 (PAxes [1%Z] [0%Z])].
Definition c06s_ex_II : xop :=
  Block 0 BDiag c06s_td3
    [Block 0 BDiag c06s_l2 [Homoth 0 (c06s_qc 2) c06s_t2; c06s_dg];
     Prim 7 CDense c06s_t2 c06s_t2 (PKey 2);
     Prim 0 CMoveAxis c06s_t33 c06s_t33 (PAxes [0%Z] [1%Z])].
(* every premise of inverse_structs / inverse_prims_ok / inv_inv_full holds, and both inverses exist *)
Example c06s_premises :
  wfo c06s_ex = true /\ prims_okb c06s_ex = true /\ inv_movable c06s_ex = true /\
  plain Exec.K c06s_ex = true /\ inv_guard Exec.K keqb k0 c06s_regular c06s_ex = true /\
  x_inverse_r default_order c06s_ex = Ok c06s_ex_I /\ x_inverse_r default_order c06s_ex_I = Ok c06s_ex_II /\
  square_blocks Exec.K c06s_ex_I = true /\ prims_okb c06s_ex_I = true.
Proof. vm_compute. repeat split. Qed.
(* the theorem applied (not computed): the structures of whatever inverse() returns *)
Example c06s_by_theorem : forall e', x_inverse_r default_order c06s_ex = Ok e' ->
  wfo e' = true /\
  in_struct e' = Node KTuple [Node KList [c06s_t2; c06s_t2]; c06s_t2; c06s_t33] /\
  out_struct e' = Node KTuple [Node KList [c06s_t2; c06s_t2]; c06s_t2; c06s_t33] /\
  square_blocks Exec.K e' = true.
Proof.
  intros e' H. pose proof (fun a b => proj1 (qc_keqb_spec a b)) as Hk.
  destruct (inverse_structs Exec.K keqb Hk k1 Qcmult Qcinv alg_fuel default_order c06s_ex e' eq_refl eq_refl H)
    as (W & -> & ->).
  pose proof (inverse_square_blocks Exec.K keqb Hk k1 Qcmult Qcinv alg_fuel default_order c06s_ex e'
                eq_refl eq_refl eq_refl H) as S.
  repeat split; assumption.
Qed.
(* a non-square operand: the structures are exchanged *)
Example c06s_nonsquare :
  let m : xop := Prim 2 CMoveAxis c06s_tA c06s_tB (PAxes [0%Z] [1%Z]) in
  wfo m = true /\ prims_okb m = true /\ inv_movable m = true /\ is_square m = false /\
  x_inverse_r default_order m = Ok (Prim 0 CMoveAxis c06s_tB c06s_tA (PAxes [1%Z] [0%Z])).
Proof. vm_compute. repeat split. Qed.
(* the boundary excluded by inv_movable: jnp.moveaxis(x, (0, 1), (1, 1)) is accepted (shape (2,3,4) ->
   (4,3,2)); its transpose moveaxis(y, (1, 1), (0, 1)) repeats a source axis and is rejected, so the
   transposed operator does not satisfy prims_ok - its structures are still the exchanged ones *)
Example c06s_moveaxis_boundary :
  let m : xop := Prim 2 CMoveAxis (Leaf (mkSds [2; 3; 4] 0)) (Leaf (mkSds [4; 3; 2] 0)) (PAxes [0%Z; 1%Z] [1%Z; 1%Z]) in
  let m' : xop := Prim 0 CMoveAxis (Leaf (mkSds [4; 3; 2] 0)) (Leaf (mkSds [2; 3; 4] 0)) (PAxes [1%Z; 1%Z] [0%Z; 1%Z]) in
  wfo m = true /\ prims_okb m = true /\ inv_movable m = false /\
  x_inverse_r default_order m = Ok m' /\ prims_okb m' = false /\
  in_struct m' = out_struct m /\ out_struct m' = in_struct m.
Proof. vm_compute. repeat split. Qed.
