(* C07 - reduction reaches the documented normal form in every context.
   Statements only; proofs are `exact <lemma>` (Lemmas/Normal.v). *)
From Coq Require Import List Arith.
From Furax Require Import Base.Pytree Model.Op Model.Algebra Lemmas.Normal.
Import ListNotations.

Section C07.
  Variable K : Type.
  Variable keqb : K -> K -> bool.
  Variables (k1 : K) (kmul : K -> K -> K).
  Variable rr : op K -> result (op K).     (* reduce() used by the block rules *)
  Variable order : list rule_id.           (* any registry order *)

  (* In the result of the n-ary reduction rule no adjacent pair is reducible by any registered rule,
     at most one scalar factor remains, and no identity factor remains (the result is a lone
     identity only when everything cancelled). *)
  Theorem reduced_chain_is_normal : forall fuel ops res,
    algebraic_reduction keqb k1 kmul rr fuel order ops = Ok res -> 2 <= List.length ops ->
    normal K keqb kmul rr order res /\ nhom K res <= 1 /\ (no_ident K res \/ exists s, res = [Ident fresh s]).
  Proof. exact (algebraic_normal_l K keqb k1 kmul rr order). Qed.

  (* whatever stands left and right of it, a pair on which a rule fires never survives *)
  Theorem pattern_never_survives : forall fuel ops res l r new j,
    algebraic_reduction keqb k1 kmul rr fuel order ops = Ok res -> 2 <= List.length ops ->
    fires keqb kmul rr order l r = Ok (Some new) ->
    ~ (nth_error res j = Some l /\ nth_error res (S j) = Some r).
  Proof. exact (pattern_never_survives_l K keqb k1 kmul rr order). Qed.

  (* the loop invariant of the scan: pairs left of `index` are irreducible *)
  Theorem scan_invariant : forall fuel ops index res,
    scan keqb k1 kmul rr fuel order ops index = Ok res ->
    (forall j, j < index -> irreducible_at K keqb kmul rr order ops j) ->
    normal K keqb kmul rr order res.
  Proof. exact (scan_normal K keqb k1 kmul rr order). Qed.
End C07.
Print Assumptions reduced_chain_is_normal.
Print Assumptions pattern_never_survives.
Print Assumptions scan_invariant.
