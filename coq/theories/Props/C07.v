From Furax Require Import Lemmas.Normal.
Example placeholder_c07 : True. Proof. exact I. Qed.
