(* C07, placement clause: "... at most one scalar factor remains, placed on the side with fewer
   elements".  Statements only; proofs are `exact <lemma>` (Lemmas/NormalSideL.v).

   `scalar_placed ops` (Lemmas/NormalSideL.v): if the chain has at least two factors and contains a
   scalar then it contains exactly one, it has a non-scalar factor, and with first' / last' the first
   and last NON-scalar factors
       out_size first' <= in_size last'  ->  the scalar is the FIRST factor
       in_size last'   <  out_size first' ->  the scalar is the LAST factor.
   The left side of the chain is its output side (out_size first' elements), the right side its
   input side (in_size last' elements): the scalar multiplies the smaller of the two vectors; on a
   tie the code chooses the LEFT (`first.out_size() <= last.in_size()`), and that is what is proved
   (`scalar_on_smaller_side`, the literal reading that allows either end on a tie, follows).

   Hypotheses: the list is chain-compatible with well-formed factors (`typed ops si so`, equivalently
   chain_ok / allwf / allpk: Lemmas/ReduceStructsL.v) and the reduce() used by the block rules keeps
   structures (`keeps rr`; proved for reduce itself: `reduce_structs`).  Both are needed: the code
   compares the ends of the chain AS IT STANDS (possibly scalars); only chain compatibility makes that
   the comparison of first' / last' (Example `typed_needed`), and makes it invariant under firings. *)
From Coq Require Import List Bool Arith ZArith NArith QArith.
From Furax Require Import Base.Pytree Model.Op Model.Algebra Model.Wf Lemmas.BuildL Lemmas.Normal
  Lemmas.ReduceStructsL Lemmas.NormalSideL.
Import ListNotations.
Local Close Scope Q_scope.
Local Open Scope nat_scope.

Section C07Side.
  Variable K : Type.
  Variable keqb : K -> K -> bool.
  Hypothesis keqb_eq : forall a b, keqb a b = true -> a = b.
  Variables (k1 : K) (kmul : K -> K -> K).

  (* what HomothetyRule.apply does on ANY list of at least two factors containing a scalar (no
     hypothesis): one scalar remains; it is first when out_size(first) <= in_size(last) on the list
     as given, last otherwise *)
  Theorem homothety_rule_places_raw : forall (ops : list (op K)) d,
    2 <= List.length ops -> 1 <= nhom K ops ->
    nhom K (homothety_rule k1 kmul ops) = 1 /\
    (if Nat.leb (out_size (hd d ops)) (in_size (last ops d))
     then is_homoth (hd d (homothety_rule k1 kmul ops))
     else is_homoth (last (homothety_rule k1 kmul ops) d)) = true.
  Proof. exact (NormalSideL.homothety_rule_places_raw K k1 kmul). Qed.

  (* on a chain-compatible list the scalar rule places the scalar w.r.t. the non-scalar factors *)
  Theorem homothety_rule_places : forall (ops : list (op K)) si so,
    typed ops si so -> scalar_placed K (homothety_rule k1 kmul ops).
  Proof. exact (NormalSideL.homothety_rule_places K k1 kmul). Qed.

  (* the invariant of the scan: chain compatibility between the same outer structures, at most one
     scalar, standing at the end chosen by |so| <= |si| *)
  Theorem scan_keeps_placement : forall rr, keeps rr ->
    forall fuel order (ops : list (op K)) index res si so,
    scan keqb k1 kmul rr fuel order ops index = Ok res -> typed ops si so -> placed K si so ops ->
    typed res si so /\ placed K si so res.
  Proof. exact (NormalSideL.scan_placed K keqb keqb_eq k1 kmul). Qed.

  (* the result of AlgebraicReductionRule.apply has its scalar placed (void, hence true, for fewer
     than two operands: the rule returns them unchanged) *)
  Theorem reduced_chain_scalar_placed : forall rr fuel order (ops res : list (op K)) si so,
    keeps rr -> typed ops si so ->
    algebraic_reduction keqb k1 kmul rr fuel order ops = Ok res -> scalar_placed K res.
  Proof. exact (NormalSideL.algebraic_scalar_placed K keqb keqb_eq k1 kmul). Qed.

  Theorem reduced_chain_scalar_placed_chain : forall rr fuel order (ops res : list (op K)),
    keeps rr -> chain_ok ops = true -> allwf K ops = true -> allpk ops = true ->
    algebraic_reduction keqb k1 kmul rr fuel order ops = Ok res -> scalar_placed K res.
  Proof. exact (NormalSideL.algebraic_scalar_placed_chain K keqb keqb_eq k1 kmul). Qed.

  (* reduce() of a well-formed composition: no hypothesis left on the reduce() of the block rules *)
  Theorem reduce_composition_scalar_placed : forall fuel order i (l : list (op K)) e',
    wfo (Comp i l) = true -> prims_ok (Comp i l) ->
    reduce keqb k1 kmul (S fuel) order (Comp i l) = Ok e' ->
    exists ops', scalar_placed K ops' /\
      e' = match ops' with
           | [] => Ident fresh (in_struct (Comp i l))
           | [x] => x
           | _ => Comp fresh ops'
           end.
  Proof. exact (NormalSideL.reduce_comp_scalar_placed K keqb keqb_eq k1 kmul). Qed.

  (* the literal reading of the property text *)
  Theorem scalar_placed_on_smaller_side : forall ops : list (op K),
    scalar_placed K ops -> scalar_on_smaller_side K ops.
  Proof. exact (NormalSideL.scalar_placed_literal K). Qed.

  Theorem scalar_placed_decidable : forall ops : list (op K),
    scalar_placedb K ops = true <-> scalar_placed K ops.
  Proof. exact (NormalSideL.scalar_placedb_ok K). Qed.
End C07Side.
Print Assumptions homothety_rule_places_raw.
Print Assumptions homothety_rule_places.
Print Assumptions scan_keeps_placement.
Print Assumptions reduced_chain_scalar_placed.
Print Assumptions reduced_chain_scalar_placed_chain.
Print Assumptions reduce_composition_scalar_placed.
Print Assumptions scalar_placed_on_smaller_side.
Print Assumptions scalar_placed_decidable.

(* ---------- non-vacuity: concrete chains over Z ---------- *)
Definition s2 : struct := Leaf (mkSds [2] 0).
Definition s3 : struct := Leaf (mkSds [3] 0).
Definition s6 : struct := Leaf (mkSds [2; 3] 0).
Definition sQ : struct := Node (KStokes 2) [Leaf (mkSds [4] 0); Leaf (mkSds [4] 0)].
Definition td1 : treedef := Node KTuple [Leaf tt].
Definition A : op Z := Prim 1 CAtom s3 s2 (PKey 1).     (* 3 -> 2 : wide *)
Definition B : op Z := Prim 2 CAtom s2 s3 (PKey 2).     (* 2 -> 3 : tall *)
Definition C : op Z := Prim 3 CAtom s3 s3 (PKey 3).
Definition D : op Z := Prim 4 CAtom s2 s2 (PKey 4).
Definition E : op Z := Prim 5 CAtom s3 s3 (PKey 5).
Definition X : op Z := Prim 6 CAtom s2 sQ (PKey 6).     (* 2 -> 8 *)
Definition R (i : N) (a : Q) : op Z := Prim i CQURotation sQ sQ (PAngles [a]).
Definition Hh : op Z := Homoth 21 2%Z s3.
Definition W : op Z := Wrap 20 WInverse Hh.
Definition rr := reduce Z.eqb 1%Z Z.mul 6 default_order.
Definition alg := algebraic_reduction Z.eqb 1%Z Z.mul rr 200 default_order.
Definition well_typed (l : list (op Z)) : bool := chain_ok l && allwf Z l && allpk l.

(* wide chain (2 <- 3), two scalars inside: merged, placed FIRST *)
Example wide_goes_left :
  well_typed [A; Homoth 7 2%Z s3; C; Homoth 8 5%Z s3] = true /\
  alg [A; Homoth 7 2%Z s3; C; Homoth 8 5%Z s3] = Ok [Homoth 0 10%Z s2; A; C] /\
  scalar_placedb Z [Homoth 0 10%Z s2; A; C] = true.
Proof. vm_compute. auto. Qed.
(* tall chain (3 <- 2): placed LAST *)
Example tall_goes_right :
  well_typed [B; Homoth 7 2%Z s2; D] = true /\
  alg [B; Homoth 7 2%Z s2; D] = Ok [B; D; Homoth 0 2%Z s2] /\
  scalar_placedb Z [B; D; Homoth 0 2%Z s2] = true.
Proof. vm_compute. auto. Qed.
(* tie (3 <- 3): the code goes LEFT; the mirrored placement is rejected by scalar_placed although
   the literal reading of the property accepts it *)
Example tie_goes_left :
  alg [E; Homoth 7 2%Z s3; C] = Ok [Homoth 0 2%Z s3; E; C] /\
  scalar_placedb Z [Homoth 0 2%Z s3; E; C] = true /\
  scalar_placedb Z [E; C; Homoth 0 2%Z s3] = false.
Proof. vm_compute. auto. Qed.
Example tie_literal_reading_accepts_right : scalar_on_smaller_side Z [E; C; Homoth 0 2%Z s3].
Proof.
  intros _ _. split; [reflexivity|]. exists E, [C]. split; [reflexivity|].
  split; [|split]; cbn; intros H; try (exfalso; revert H; apply Nat.lt_irrefl). now right.
Qed.
(* a firing AFTER the relocation rewrites the first non-scalar factor (two rotations merge) without
   producing a scalar: the scalar stays where it was put, and that is still the right end *)
Example later_firing_keeps_placement :
  well_typed [R 10 (1#2)%Q; R 11 (1#2)%Q; Homoth 7 3%Z sQ; X] = true /\
  alg [R 10 (1#2)%Q; R 11 (1#2)%Q; Homoth 7 3%Z sQ; X] = Ok [R 0 1%Q; X; Homoth 0 3%Z s2] /\
  scalar_placedb Z [R 0 1%Q; X; Homoth 0 3%Z s2] = true.
Proof. vm_compute. auto. Qed.
(* a firing that PRODUCES a scalar (row @ column of scalar blocks): relocation on the whole chain *)
Example produced_scalar_is_relocated :
  well_typed [A; Block 12 BRow td1 [Homoth 13 2%Z s3]; Block 14 BCol td1 [Homoth 15 3%Z s3]; C] = true /\
  alg [A; Block 12 BRow td1 [Homoth 13 2%Z s3]; Block 14 BCol td1 [Homoth 15 3%Z s3]; C]
    = Ok [Homoth 0 6%Z s2; A; C].
Proof. vm_compute. auto. Qed.
(* a firing that CONSUMES the scalar (h @ h.I with h a scalar object): nothing left to place *)
Example consumed_scalar : well_typed [Hh; W; C] = true /\ alg [Hh; W; C] = Ok [C].
Proof. vm_compute. auto. Qed.
(* the theorem applied to a concrete chain *)
Example by_theorem : forall res, alg [R 10 (1#2)%Q; R 11 (1#2)%Q; Homoth 7 3%Z sQ; X] = Ok res ->
  scalar_placed Z res.
Proof.
  intros res H.
  apply (reduced_chain_scalar_placed_chain Z Z.eqb (fun a b => proj1 (Z.eqb_eq a b)) 1%Z Z.mul rr 200
           default_order [R 10 (1#2)%Q; R 11 (1#2)%Q; Homoth 7 3%Z sQ; X] res (reduce_keeps Z Z.eqb (fun a b => proj1 (Z.eqb_eq a b)) 1%Z Z.mul 6 default_order)
           eq_refl eq_refl eq_refl H).
Qed.
(* the predicate is not trivially true *)
Example wrong_side_rejected :
  scalar_placedb Z [A; Homoth 7 2%Z s3] = false /\ scalar_placedb Z [Homoth 7 2%Z s3; B] = false /\
  scalar_placedb Z [Homoth 7 2%Z s2; A; Homoth 8 2%Z s3] = false /\
  scalar_placedb Z [A; Homoth 7 2%Z s3; C] = false.
Proof. vm_compute. auto. Qed.
(* chain compatibility is needed: a scalar declared on a 6-element structure in front of a 3 -> 2
   operator (the constructors of furax refuse this composition) makes the code compare 6 <= 3 and
   put the scalar last, although the only non-scalar factor is wide *)
Example typed_needed :
  chain_ok [Homoth 7 7%Z s6; A] = false /\
  homothety_rule 1%Z Z.mul [Homoth 7 7%Z s6; A] = [A; Homoth 0 7%Z s3] /\
  scalar_placedb Z (homothety_rule 1%Z Z.mul [Homoth 7 7%Z s6; A]) = false.
Proof. vm_compute. auto. Qed.

(* a test by computation (not a proof): every chain-compatible list of 2 or 3 factors over a
   13-operand alphabet reduces to a list with its scalar placed; 350 of the 642 results contain one *)
Definition alphabet : list (op Z) :=
  [A; B; C; D; Homoth 7 2%Z s2; Homoth 8 3%Z s3; Hh; W;
   Block 12 BRow td1 [Homoth 13 2%Z s3]; Block 14 BCol td1 [Homoth 15 3%Z s3];
   Prim 30 CQURotation s3 s3 (PAngles [(1#2)%Q]); Prim 31 CHWP s3 s3 PNone; Prim 32 CLinearPolarizer s3 s2 PNone].
Fixpoint chains (n : nat) : list (list (op Z)) :=
  match n with O => [[]] | S n' => flat_map (fun t => map (fun a => a :: t) alphabet) (chains n') end.
Definition okchains n := filter (fun l => chain_ok l) (chains n).
Definition placed_after_reduction l :=
  match alg l with Ok res => scalar_placedb Z res | Err _ => false end.
Definition keeps_a_scalar l :=
  match alg l with Ok res => Nat.leb 2 (List.length res) && Nat.leb 1 (nhom Z res) | Err _ => false end.
Example small_chains_test :
  forallb placed_after_reduction (okchains 2 ++ okchains 3) = true /\
  List.length (okchains 2 ++ okchains 3) = 642 /\
  List.length (filter keeps_a_scalar (okchains 2 ++ okchains 3)) = 350.
Proof. vm_compute. auto. Qed.
