(* C08 - algebraic tags are truthful.
   Statements only; the proofs are in Lemmas/TagsL.v.  FuraxGen.TagTable is regenerated from the
   imported furax package on every run (tools/translate/tags.py): these theorems are about what the
   code declares NOW.  `sem q c` (Model/Tags.v) = for all legal parameters of class c the dense matrix
   has the property query q stands for (symmetric: M = M^T; diagonal/triangular: zeros;
   transpose_returns_self: M = M^T; inverse_is_transpose: M^T M = I = M M^T; square: what mv returns
   has the declared input structure).  K is any commutative ring (Z, R, ...). *)
From Coq Require Import ZArith List Bool String Ring.
From Furax Require Import Model.Op Model.Tags Lemmas.TagsL.
From FuraxGen Require Import TagTable.
Import ListNotations.

(* ---------- the T-tie: the regenerated tables against the model ---------- *)
Theorem tag_names_as_modelled : gen_tagq_names = map tagq_name tagqs.
Proof. vm_compute. reflexivity. Qed.
(* every `true` of the regenerated table has a proof in TagsL.proved_sound, and every row is complete
   (a class or a query the model does not know, or a `true` without a proof, breaks this) *)
Theorem every_declared_tag_has_a_proof : table_ok gen_tag_table = true.
Proof. vm_compute. reflexivity. Qed.
Theorem default_tags_as_modelled : default_tags_ok gen_default_tags = true.
Proof. vm_compute. reflexivity. Qed.
Theorem decorator_effects_are_implied : decorators_ok gen_decorators = true.
Proof. vm_compute. reflexivity. Qed.
(* the scalar check and the HomothetyOperator built by __rmul__ / __truediv__, as read from the source *)
Theorem scale_paths_as_modelled : gen_scale_paths = scale_paths_modelled.
Proof. vm_compute. reflexivity. Qed.
(* symmetric implies ... and A.T is A *)
Theorem symmetric_returns_self : symmetric_rows_return_self gen_tag_table = true.
Proof. vm_compute. reflexivity. Qed.

(* ---------- the property ---------- *)
Theorem tags_truthful :
  forall (K : Type) (k0 k1 : K) kadd kmul ksub kopp kinv kle,
  ring_theory k0 k1 kadd kmul ksub kopp (@eq K) ->
  forall c row q, In (c, row) gen_tag_table -> row_get row q = true ->
  sem K k0 k1 kadd kmul ksub kopp kinv kle q c.
Proof.
  intros K k0 k1 kadd kmul ksub kopp kinv kle Kth.
  exact (table_truthful K k0 k1 kadd kmul ksub kopp kinv kle Kth gen_tag_table every_declared_tag_has_a_proof).
Qed.
Print Assumptions tags_truthful.

(* `transpose` returns self  ->  the matrix is symmetric, for all parameters *)
Theorem self_transpose_ok :
  forall (K : Type) (k0 k1 : K) kadd kmul ksub kopp kinv kle,
  ring_theory k0 k1 kadd kmul ksub kopp (@eq K) ->
  forall c row, In (c, row) gen_tag_table -> row_get row QSelfT = true ->
  sem K k0 k1 kadd kmul ksub kopp kinv kle QSymmetric c.
Proof.
  intros K k0 k1 kadd kmul ksub kopp kinv kle Kth c row Hin Hq.
  exact (selfT_is_symmetric K k0 k1 kadd kmul ksub kopp kinv kle c
           (tags_truthful K k0 k1 kadd kmul ksub kopp kinv kle Kth c row QSelfT Hin Hq)).
Qed.
Print Assumptions self_transpose_ok.

(* `inverse is transpose`  ->  M^T M = I and M M^T = I, for all parameters *)
Theorem inv_is_T_ok :
  forall (K : Type) (k0 k1 : K) kadd kmul ksub kopp kinv kle,
  ring_theory k0 k1 kadd kmul ksub kopp (@eq K) ->
  forall c row, In (c, row) gen_tag_table -> row_get row QInvIsT = true ->
  sem K k0 k1 kadd kmul ksub kopp kinv kle QInvIsT c.
Proof.
  intros K k0 k1 kadd kmul ksub kopp kinv kle Kth c row Hin Hq.
  exact (tags_truthful K k0 k1 kadd kmul ksub kopp kinv kle Kth c row QInvIsT Hin Hq).
Qed.
Print Assumptions inv_is_T_ok.

(* `out_structure is in_structure`  ->  mv returns the input structure, for all parameters *)
Theorem square_ok :
  forall (K : Type) (k0 k1 : K) kadd kmul ksub kopp kinv kle,
  ring_theory k0 k1 kadd kmul ksub kopp (@eq K) ->
  forall c row, In (c, row) gen_tag_table -> row_get row QSquare = true ->
  sem K k0 k1 kadd kmul ksub kopp kinv kle QSquare c.
Proof.
  intros K k0 k1 kadd kmul ksub kopp kinv kle Kth c row Hin Hq.
  exact (tags_truthful K k0 k1 kadd kmul ksub kopp kinv kle Kth c row QSquare Hin Hq).
Qed.
Print Assumptions square_ok.

(* tags_truthful read contrapositively: a class for which a property can fail for some legal
   parameters is not tagged with it.  (A class for which it can fail has no entry in `proved`, so a
   `true` in the regenerated table makes every_declared_tag_has_a_proof fail - for all inputs at once.) *)
Theorem never_overtagged :
  forall (K : Type) (k0 k1 : K) kadd kmul ksub kopp kinv kle,
  ring_theory k0 k1 kadd kmul ksub kopp (@eq K) ->
  forall c row q, In (c, row) gen_tag_table ->
  ~ sem K k0 k1 kadd kmul ksub kopp kinv kle q c -> row_get row q = false.
Proof.
  intros K k0 k1 kadd kmul ksub kopp kinv kle Kth.
  exact (table_never_overtagged K k0 k1 kadd kmul ksub kopp kinv kle Kth gen_tag_table every_declared_tag_has_a_proof).
Qed.
Print Assumptions never_overtagged.

(* what a decorator does besides registering its own tag (calling other decorators, assigning
   transpose / inverse / out_structure) follows from the property its name declares *)
Theorem decorators_justified :
  forall (K : Type) (k0 k1 : K) kadd kmul kle,
  forall e p qs, In e gen_decorators -> deco_primary (fst e) = Some p ->
  deco_closure 6 gen_decorators (fst e) = Some qs ->
  forall q M, In q qs -> holds K k0 k1 kadd kmul kle p M -> holds K k0 k1 kadd kmul kle q M.
Proof.
  intros K k0 k1 kadd kmul kle.
  exact (decorators_sound K k0 k1 kadd kmul kle gen_decorators decorator_effects_are_implied).
Qed.
Print Assumptions decorators_justified.

(* QURotationOperator.T (= .I) is QURotationTransposeOperator, whose matrix is the transposed matrix *)
Theorem rotation_transpose_matrix :
  forall (K : Type) (k0 k1 : K) kadd kmul ksub kopp,
  ring_theory k0 k1 kadd kmul ksub kopp (@eq K) ->
  forall p, mat_eq K (cm_mat K (cm_qurotT K k0 k1 kadd kmul kopp) p)
                   (mtranspose K (cm_mat K (cm_qurot K k0 k1 kadd kmul ksub) p)).
Proof. exact qurotT_is_transpose. Qed.
Print Assumptions rotation_transpose_matrix.

(* MoveAxisOperator.T (= .I) is MoveAxisOperator(destination, source): the inverse relabelling, whose
   matrix is the transposed matrix *)
Theorem moveaxis_transpose_matrix :
  forall (K : Type) (k0 k1 : K) p, pm_legal p ->
  mat_eq K (matrix_of K k0 k1 (gather_mv K (pm_sigma p)) (pm_n p) (pm_n p))
           (mtranspose K (matrix_of K k0 k1 (gather_mv K (pm_tau p)) (pm_n p) (pm_n p))).
Proof. exact gather_transpose. Qed.
Print Assumptions moveaxis_transpose_matrix.

(* the public construction paths s * A, A * s, A / s, -A only build HomothetyOperators within the guard
   of the class (a 0-d value): what they accept (scale_ctor, tied to the source by
   scale_paths_as_modelled) is a legal parameter, so tags_truthful applies to what they return *)
Theorem scaling_builds_legal_homothety :
  forall (K : Type) (k0 k1 : K) kmul v, scale_ctor v = CtorOk ->
  forall k st, cm_legal K (cm_homothety K k0 k1 kmul) (mkHm K k v st).
Proof. exact scaled_homothety_legal. Qed.
Print Assumptions scaling_builds_legal_homothety.
Theorem scaling_accepts_only_scalars : forall v, scale_ctor v = CtorOk <-> v = [].
Proof. exact scale_ctor_iff. Qed.

(* ---------- non-vacuity ---------- *)
(* the ring hypothesis is inhabited, the table declares something, legal parameters exist *)
Example ring_hypothesis_inhabited : ring_theory 0%Z 1%Z Z.add Z.mul Z.sub Z.opp (@eq Z).
Proof. exact Zring. Qed.
Example table_declares_something :
  existsb (fun r : cls * list bool => existsb (row_get (snd r)) tagqs) gen_tag_table = true.
Proof. vm_compute. reflexivity. Qed.
Example legal_rotation_exists : qr_legal Z 1%Z Z.add Z.mul rotZ.
Proof. exact rotZ_legal. Qed.
Example legal_relabelling_exists : pm_legal cyc3.
Proof. exact cyc3_legal. Qed.
(* never_overtagged has bite: these queries do fail for some legal parameters (over Z) *)
Example rotation_is_not_symmetric : ~ semZ QSymmetric CQURotation.
Proof. exact rotation_not_symmetric. Qed.
Example rotation_is_not_diagonal : ~ semZ QDiagonal CQURotation.
Proof. exact rotation_not_diagonal. Qed.
Example toeplitz_is_not_diagonal : ~ semZ QDiagonal CToeplitz.
Proof. exact toeplitz_not_diagonal. Qed.
Example toeplitz_is_not_orthogonal : ~ semZ QInvIsT CToeplitz.
Proof. exact toeplitz_not_orthogonal. Qed.
Example homothety_is_not_orthogonal : ~ semZ QInvIsT CHomothety.
Proof. exact homothety_not_orthogonal. Qed.
Example moveaxis_is_not_symmetric : ~ semZ QSymmetric CMoveAxis.
Proof. exact moveaxis_not_symmetric. Qed.
(* the guard `not_wider` of the two classes without a constructor check is needed *)
Example toeplitz_square_guard_needed :
  let p := mkTp Z [] 3 [2%Z] [arr_of Z 0%Z [1%Z]; arr_of Z 0%Z [1%Z]] in
  not_wider (tp_xbatch Z p) (tp_bbatch Z p) = false /\
  cm_in Z (cm_toeplitz Z 0%Z) p = [[3%Z]] /\ cm_out Z (cm_toeplitz Z 0%Z) p = Some [[2%Z; 3%Z]].
Proof. exact toeplitz_square_needs_guard. Qed.
Example qurot_square_guard_needed :
  let p := mkQr Z SQU [3%Z] [2%Z; 3%Z] (fun _ => 1%Z) (fun _ => 0%Z) in
  not_wider (qr_shape Z p) (qr_ashape Z p) = false /\
  cm_in Z (cm_qurot Z 0%Z 1%Z Z.add Z.mul Z.sub) p = [[3%Z]; [3%Z]] /\
  cm_out Z (cm_qurot Z 0%Z 1%Z Z.add Z.mul Z.sub) p = Some [[2%Z; 3%Z]; [2%Z; 3%Z]].
Proof. exact qurot_square_needs_guard. Qed.
(* ... and so is the guard `0-d value` of HomothetyOperator, which the scalar check provides *)
Example homothety_square_guard_needed :
  let p := mkHm Z 2%Z [1%Z] [[]; [2%Z; 3%Z]] in
  let q := mkHm Z 2%Z [1%Z; 1%Z] [[3%Z]] in
  cm_in Z (cm_homothety Z 0%Z 1%Z Z.mul) p = [[]; [2%Z; 3%Z]] /\
  cm_out Z (cm_homothety Z 0%Z 1%Z Z.mul) p = Some [[1%Z]; [2%Z; 3%Z]] /\
  cm_in Z (cm_homothety Z 0%Z 1%Z Z.mul) q = [[3%Z]] /\
  cm_out Z (cm_homothety Z 0%Z 1%Z Z.mul) q = Some [[1%Z; 3%Z]].
Proof. exact homothety_square_needs_guard. Qed.
Example scalar_check_rejects_arrays :
  scale_ctor [] = CtorOk /\ scale_ctor [1%Z] = CtorValueError /\ scale_ctor [1%Z; 1%Z] = CtorValueError /\
  scale_ctor [2%Z] = CtorValueError.
Proof. exact scale_ctor_rejects_arrays. Qed.
