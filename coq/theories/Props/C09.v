(* C09 - all Toeplitz evaluation methods compute the same banded product.

   Compiled on every check against the arithmetic REGENERATED from furax/operators/toeplitz.py
   (FuraxGen.ToeplitzArith: METHODS, default_fft_size, ctor, direct_arith, fft_arith, os_arith,
   os_y_dtype).  Part 1 shows that the regenerated integer quantities meet the conditions the static
   lemmas (Lemmas/ToeplitzL.v) need - by computation and linear arithmetic only, so a changed formula
   in the Python source breaks it; Part 2 states the property, every proof being an application of a
   static lemma to Part 1. *)
From Coq Require Import ZArith List Bool Lia String ZifyBool.
From Furax Require Import Model.Toeplitz Lemmas.ToeplitzL.
From FuraxGen Require Import ToeplitzArith.
Import ListNotations.
Open Scope Z_scope.

(* ------------------------------------------------------------------------------------------ *)
(* Part 1 - the regenerated arithmetic *)

Ltac cdiv_facts :=
  repeat match goal with
         | |- context [cdiv ?a ?b] =>
             let H := fresh "Hc" in
             pose proof (cdiv_spec a b ltac:(lia)) as H;
             let c := fresh "c" in set (c := cdiv a b) in *; clearbody c
         end.

(* _apply_direct pads half_band_width = kernel.size // 2 = K - 1 on both sides *)
Lemma gen_direct Kb l :
  d_pad_lo (direct_arith (2 * (Kb - 1) + 1) l) = Kb - 1 /\ d_pad_hi (direct_arith (2 * (Kb - 1) + 1) l) = Kb - 1.
Proof. unfold direct_arith. cbv zeta. cbn [d_pad_lo d_pad_hi]. rewrite ?half_odd. lia. Qed.

Lemma gen_fft Kb l :
  let q := fft_arith (2 * (Kb - 1) + 1) l in
  f_H_len q = l + 2 * (Kb - 1) /\ f_pad_lo q = 0 /\ f_pad_hi q = 2 * (Kb - 1) /\
  f_whole q = (Kb - 1 =? 0) /\ f_lo q = Kb - 1 /\ f_hi q = - (Kb - 1).
Proof.
  unfold fft_arith. cbv zeta. cbn [f_H_len f_pad_lo f_pad_hi f_whole f_lo f_hi]. rewrite ?half_odd.
  repeat split; lia.
Qed.

(* _apply_overlap_save: with nb := the loop bound the source computes, the blocks cover the
   returned slice and no dynamic start index is clamped *)
Lemma gen_os F Kb l :
  1 <= l -> 1 <= Kb -> 2 * Kb - 1 <= F ->
  let q := os_arith F (2 * (Kb - 1) + 1) l in os_sem q l (Kb - 1) F (o_loop_hi q).
Proof.
  intros Hl HK HF. unfold os_arith, os_sem. cbv zeta.
  cbn [o_H_len o_pad_lo o_pad_hi o_y_len o_loop_lo o_loop_hi o_xb_start o_xb_size o_keep_start o_keep_size
       o_write_pos o_out_lo o_out_hi].
  rewrite ?half_odd. set (h := Kb - 1) in *. cdiv_facts.
  repeat match goal with |- _ /\ _ => split end; try (intros ib Hib; split); try reflexivity; try lia; nia.
Qed.

(* the constructor: what an accepted call guarantees (band values of shape batch ++ [Kb]) *)
Lemma ctor_ok_inv method fft_size batch Kb stored :
  1 <= batch -> 1 <= Kb ->
  ctor method fft_size (batch * Kb) Kb = Ok stored ->
  In method METHODS /\
  (method = "overlap_save"%string -> exists F, stored = Some F /\ 2 * Kb - 1 <= F).
Proof.
  intros Hb HK. unfold ctor. destruct (str_in method METHODS) eqn:Ein; cbn [negb]; [|discriminate].
  cbv zeta. intros Hc. split; [apply str_in_cases; exact Ein|]. intros ->.
  assert (Hp : startswith "overlap_save" "overlap_" = true) by reflexivity. rewrite Hp in Hc.
  destruct fft_size as [f|]; cbn [is_some is_none oget andb negb] in Hc.
  - match type of Hc with (if ?c then _ else _) = _ => destruct c eqn:E; [discriminate|] end.
    assert (Es : stored = Some f) by congruence. exists f. split; [exact Es | nia].
  - match type of Hc with Ok (Some ?v) = _ => assert (Es : stored = Some v) by congruence; exists v end.
    split; [exact Es|]. unfold default_fft_size. cbv zeta.
    match goal with
    | |- _ <= 2 ^ (?a + clog2 ?b) => destruct (pow_clog2 a b ltac:(nia) ltac:(lia)) as [Hp2 _]; nia
    end.
Qed.

(* ------------------------------------------------------------------------------------------ *)
(* Part 2 - the property *)

Section C09.
  Variable K : Type.
  Variables (k0 k1 : K) (kadd kmul ksub : K -> K -> K) (kopp : K -> K).
  Hypothesis Kth : ring_theory k0 k1 kadd kmul ksub kopp (@eq K).

  Notation arr := (arr K).
  Notation Tm := (Tm K k0).
  Notation Tx := (Tx K k0 kadd kmul).
  Notation is_Tx := (is_Tx K k0 kadd kmul).
  Notation get_kernel := (get_kernel K).

  (* T[i,j] = band[|i-j|] inside the band, 0 outside - for every n and every number of bands,
     alen band > n included (there the loop asks the scatter for positions beyond n^2: dropped) *)
  Theorem dense_spec : forall n band i j,
    1 <= n -> 1 <= alen band -> 0 <= i < n -> 0 <= j < n ->
    dense K k0 n band i j = if Z.abs (i - j) <? alen band then aget band (Z.abs (i - j)) else k0.
  Proof. exact (dense_spec_l K k0). Qed.

  Theorem T_symmetric : forall band i j, Tm band i j = Tm band j i.
  Proof. exact (T_symmetric_l K k0). Qed.

  (* the convolution kernel is a palindrome: the flip done by jnp.convolve is immaterial *)
  Theorem kernel_palindrome : forall band s,
    1 <= alen band -> 0 <= s < 2 * (alen band - 1) + 1 ->
    aget (get_kernel band) s = aget (get_kernel band) (2 * (alen band - 1) - s).
  Proof. intros band s HK Hs. exact (kernel_palindrome K band HK s Hs). Qed.

  (* each method returns an array of the input's length whose entry i is sum_j T[i,j] x[j] *)
  Theorem dense_eq : forall band x,
    1 <= alen x -> 1 <= alen band -> is_Tx band x (apply_dense K k0 kadd kmul x band).
  Proof. intros. apply apply_dense_l; assumption. Qed.

  Theorem direct_eq : forall band x,
    1 <= alen x -> 1 <= alen band ->
    is_Tx band x (apply_direct K k0 kadd kmul (direct_arith (alen (get_kernel band)) (alen x)) x band).
  Proof.
    intros band x Hn HK. rewrite kernel_len by assumption.
    destruct (gen_direct (alen band) (alen x)).
    eapply apply_direct_l; eassumption.
  Qed.

  Theorem fft_eq : forall band x,
    1 <= alen x -> 1 <= alen band ->
    is_Tx band x (apply_fft K k0 kadd kmul (fft_arith (alen (get_kernel band)) (alen x)) x band).
  Proof.
    intros band x Hn HK. rewrite kernel_len by assumption.
    destruct (gen_fft (alen band) (alen x)) as (?&?&?&?&?&?).
    eapply apply_fft_l; eassumption.
  Qed.

  Theorem overlap_save_eq : forall F band x,
    1 <= alen x -> 1 <= alen band -> 2 * alen band - 1 <= F ->
    is_Tx band x
      (apply_overlap_save K k0 kadd kmul (os_arith F (alen (get_kernel band)) (alen x)) x band).
  Proof.
    intros F band x Hn HK HF. rewrite kernel_len by assumption.
    eapply apply_overlap_save_l with (F := F); try eassumption; [lia | apply gen_os; assumption].
  Qed.

  (* end to end: an operator accepted by the constructor applies, row by broadcast row, the banded
     Toeplitz matrix of the band values selected for that row - whatever the method, the FFT size
     (given or default) and the batch shapes; no shape error, no clamped index, and the
     core-dimension check of jnp.vectorize passes.  x: batched rows of length n, band: batched rows of
     length Kb (band_values.size = batch * Kb), out = the broadcast batch shape. *)
  Theorem mv_correct : forall method fft_size Kb stored n (x band : barr K) out,
    1 <= Kb -> 1 <= n ->
    wf_barr x n -> wf_barr band Kb ->
    ctor method fft_size (zprod (bshape band) * Kb) Kb = Ok stored ->
    broadcast_shapes (bshape x) (bshape band) = Some out ->
    exists rows,
      mv K k0 kadd kmul direct_arith fft_arith os_arith method stored x band = Ok (out, rows) /\
      forall r, 0 <= r < zprod out ->
        is_Tx (brow K k0 band (bidx out (bshape band) r)) (brow K k0 x (bidx out (bshape x) r))
              (nth (Z.to_nat r) rows None).
  Proof.
    intros method fft_size Kb stored n x band out HK Hn Hwx Hwb Hc Hbc.
    assert (Hb : 1 <= zprod (bshape band)) by (apply zprod_pos, Hwb).
    assert (Hlen : forall r, 0 <= r < zprod out ->
              alen (brow K k0 x (bidx out (bshape x) r)) = n /\
              alen (brow K k0 band (bidx out (bshape band) r)) = Kb).
    { intros r Hr. eapply wf_rows; try eassumption. lia. }
    destruct (ctor_ok_inv _ _ _ _ _ Hb HK Hc) as [Hin Hos].
    cbn in Hin. destruct Hin as [<-|[<-|[<-|[<-|[]]]]].
    - eapply mv_rows_l; try eassumption; [reflexivity|]. intros. apply dense_eq; lia.
    - eapply mv_rows_l; try eassumption; [reflexivity|]. intros. apply direct_eq; lia.
    - eapply mv_rows_l; try eassumption; [reflexivity|]. intros. apply fft_eq; lia.
    - destruct (Hos eq_refl) as (F & -> & HF).
      eapply mv_rows_l; try eassumption; [reflexivity|]. intros xr br H1 H2. cbn [oget].
      apply overlap_save_eq; lia.
  Qed.

  (* as_matrix() is the block-diagonal matrix of the per-row Toeplitz matrices (a single block when
     there is no batch), hence symmetric *)
  Theorem as_matrix_blockdiag : forall xbatch n (band : barr K) size M,
    1 <= n -> as_matrix K k0 xbatch n band = Ok (size, M) ->
    exists out, broadcast_shapes xbatch (bshape band) = Some out /\ size = zprod out * n /\
      forall r r' i j, 0 <= r < zprod out -> 0 <= r' < zprod out -> 0 <= i < n -> 0 <= j < n ->
        1 <= alen (brow K k0 band (bidx out (bshape band) r)) ->
        M (r * n + i) (r' * n + j) =
        if r =? r' then Tm (brow K k0 band (bidx out (bshape band) r)) i j else k0.
  Proof. exact (as_matrix_spec_l K k0). Qed.

  Theorem as_matrix_symmetric : forall xbatch n (band : barr K) Kb size M,
    1 <= n -> 1 <= Kb -> Forall (fun d => 1 <= d) xbatch -> wf_barr band Kb ->
    as_matrix K k0 xbatch n band = Ok (size, M) ->
    forall p q, 0 <= p < size -> 0 <= q < size -> M p q = M q p.
  Proof.
    intros xbatch n band Kb size M Hn HK Hxb Hwb Has p q Hp Hq.
    destruct (as_matrix_spec_l K k0 _ _ _ _ _ Hn Has) as (out & Hbc & -> & HM).
    assert (Hrow : forall r, 0 <= r -> 1 <= alen (brow K k0 band (bidx out (bshape band) r))).
    { intros r Hr. destruct (bidx_range _ _ _ r Hbc Hxb ltac:(apply Hwb) Hr) as [_ H2].
      rewrite (wf_brow k0 band Kb _ Hwb H2). exact HK. }
    pose proof (Z.div_mod p n ltac:(lia)) as Ep. pose proof (Z.mod_pos_bound p n ltac:(lia)) as Bp.
    pose proof (Z.div_mod q n ltac:(lia)) as Eq. pose proof (Z.mod_pos_bound q n ltac:(lia)) as Bq.
    assert (0 <= p / n < zprod out) by (split; [apply Z.div_pos; lia | apply Z.div_lt_upper_bound; lia]).
    assert (0 <= q / n < zprod out) by (split; [apply Z.div_pos; lia | apply Z.div_lt_upper_bound; lia]).
    replace p with (p / n * n + p mod n) by lia. replace q with (q / n * n + q mod n) by lia.
    rewrite !HM by (try apply Hrow; lia).
    rewrite (Z.eqb_sym (q / n)). destruct (p / n =? q / n) eqn:E; [|reflexivity].
    apply Z.eqb_eq in E. rewrite E. apply T_symmetric.
  Qed.

  (* the matrix of as_matrix applied to the flattened input is mv, row by row *)
  Theorem as_matrix_times_x : forall n B blocks (xflat : Z -> K) r i,
    1 <= n -> 0 <= r < B -> 0 <= i < n ->
    sumZ K k0 kadd (fun q => kmul (as_matrix_entry K k0 n blocks (r * n + i) q) (xflat q)) 0 (Z.to_nat (B * n)) =
    sumZ K k0 kadd (fun j => kmul (nth (Z.to_nat r) blocks (fun _ _ => k0) i j) (xflat (r * n + j))) 0 (Z.to_nat n).
  Proof. intros. eapply as_matrix_mv_l; eassumption. Qed.
End C09.
Print Assumptions dense_spec.
Print Assumptions T_symmetric.
Print Assumptions kernel_palindrome.
Print Assumptions dense_eq.
Print Assumptions direct_eq.
Print Assumptions fft_eq.
Print Assumptions overlap_save_eq.
Print Assumptions mv_correct.
Print Assumptions as_matrix_blockdiag.
Print Assumptions as_matrix_symmetric.
Print Assumptions as_matrix_times_x.

(* the default FFT size is a power of two not smaller than the number of bands 2K-1 *)
Theorem default_fft_ok : forall Kb, 1 <= Kb ->
  2 * Kb - 1 <= default_fft_size (2 * Kb - 1) /\ exists e, 0 <= e /\ default_fft_size (2 * Kb - 1) = 2 ^ e.
Proof. intros Kb HK. unfold default_fft_size. cbv zeta. apply pow_clog2; lia. Qed.
Print Assumptions default_fft_ok.

(* illegal methods and FFT sizes are rejected (band values of shape batch ++ [Kb]) *)
Theorem ctor_rejects : forall method fft_size batch Kb,
  1 <= batch -> 1 <= Kb ->
  (~ In method METHODS \/
   (exists f, fft_size = Some f /\ startswith method "overlap_" = false) \/
   (exists f, fft_size = Some f /\ f < 2 * Kb - 1)) ->
  ctor method fft_size (batch * Kb) Kb = Err ValueError.
Proof.
  intros method fft_size batch Kb Hb HK H. unfold ctor. cbv zeta.
  destruct (str_in method METHODS) eqn:Ein; cbn [negb]; [|reflexivity].
  destruct H as [H | [(f & -> & H) | (f & -> & H)]].
  - exfalso. apply H. apply str_in_cases. exact Ein.
  - rewrite H. reflexivity.
  - cbn [is_some oget andb]. destruct (negb (startswith method "overlap_")); [reflexivity|].
    match goal with |- (if ?c then _ else _) = _ => replace c with true by nia end. reflexivity.
Qed.
Print Assumptions ctor_rejects.

(* every admissible call is accepted - whatever the batch shape of the band values - and stores the
   requested FFT size, the default one, or none for the non-overlap methods *)
Theorem ctor_accepts_admissible : forall method fft_size batch Kb,
  1 <= batch -> 1 <= Kb -> In method METHODS ->
  (fft_size = None \/ exists f, fft_size = Some f /\ startswith method "overlap_" = true /\ 2 * Kb - 1 <= f) ->
  ctor method fft_size (batch * Kb) Kb =
  Ok (if startswith method "overlap_"
      then Some (match fft_size with Some f => f | None => default_fft_size (2 * Kb - 1) end)
      else None).
Proof.
  intros method fft_size batch Kb Hb HK Hin H. unfold ctor. cbv zeta.
  destruct (str_in method METHODS) eqn:Ein; [|exfalso; exact (str_in_false _ _ Ein Hin)]. cbn [negb].
  destruct H as [-> | (f & -> & -> & H)].
  - cbn [is_some is_none oget andb negb]. destruct (startswith method "overlap_"); reflexivity.
  - cbn [is_some is_none oget andb negb]. replace (f <? 2 * Kb - 1) with false by lia. reflexivity.
Qed.
Print Assumptions ctor_accepts_admissible.

(* the output has the dtype of the input, in both 64-bit modes, for every method, provided the band
   values are not wider than the data *)
Theorem dtype_preserved : forall x64 method xd bd,
  dt_le bd xd = true -> dtype_out os_y_dtype x64 method xd bd = Ok xd.
Proof. intros. apply dtype_preserved_l; [unfold os_y_dtype; auto | assumption]. Qed.
Print Assumptions dtype_preserved.

(* the output has the batch shape of the input when the band values broadcast to it *)
Theorem output_shape : forall sx sb, fits_rev (rev sb) (rev sx) -> broadcast_shapes sx sb = Some sx.
Proof. exact broadcast_to_l. Qed.
Print Assumptions output_shape.

(* non-vacuity: the hypotheses are satisfiable and the model computes (K := Z) *)
Example example_overlap_save :
  zobs_mv direct_arith fft_arith os_arith ctor "overlap_save" (Some 7) [] [[1; 2; 3; 4; 5; 6]] [] [[4; 3; 2; 1]]
  = ObsOk (Some 7, [], [Some [20; 33; 48; 57; 58; 50]]).
Proof. vm_compute. reflexivity. Qed.
Example example_batched_K_gt_n :
  zobs_mv direct_arith fft_arith os_arith ctor "overlap_save" (Some 5) [2; 3]
    [[1; 2]; [3; 4]; [5; 6]; [1; 0]; [0; 1]; [1; 1]] [2; 1] [[1; 2; 3]; [4; 5; 6]]
  = ObsOk (Some 5, [2; 3], [Some [5; 4]; Some [11; 10]; Some [17; 16]; Some [4; 5]; Some [5; 4]; Some [9; 9]]).
Proof. vm_compute. reflexivity. Qed.
Example example_os_sem : os_sem (os_arith 7 7 6) 6 3 7 (o_loop_hi (os_arith 7 7 6)) /\ o_loop_hi (os_arith 7 7 6) = 12.
Proof. split; [apply (gen_os 7 4 6); lia | reflexivity]. Qed.
Example example_fits : fits_rev (rev [2; 1]) (rev [2; 3]).
Proof. cbn. auto. Qed.
Example example_wf :
  wf_barr (zbarr [2; 3] [[1; 2]; [3; 4]; [5; 6]; [1; 0]; [0; 1]; [1; 1]]) 2 /\
  wf_barr (zbarr [2; 1] [[1; 2; 3]; [4; 5; 6]]) 3 /\
  broadcast_shapes [2; 3] [2; 1] = Some [2; 3].
Proof. unfold wf_barr. cbn. repeat split; repeat constructor; lia. Qed.
