(* C10 - block operators act as the block matrices of their blocks.
   Statements only; proofs are `exact <lemma>` (Lemmas/BlocksL.v, Lemmas/Sound.v).
   Model: Model/Op.v `Block i b td l` (kind BRow/BDiag/BCol, tree shape td of the container, blocks l
   in pytree-leaf order), Model/Algebra.v (mk_block, structs, transpose, the block rules),
   Model/Denote.v (denote), Model/BlockMat.v (containers, tree maps, matrices, binv, steps). *)
From Coq Require Import List Ring ZArith String.
From Furax Require Import Base.Pytree Model.Op Model.Algebra Model.Denote Model.Wf Model.BlockMat
  Lemmas.DenoteL Lemmas.Sound Lemmas.BlocksL.
Import ListNotations.

Section C10.
  Variable K : Type.
  Variables (k0 k1 : K) (kadd kmul ksub : K -> K -> K) (kopp : K -> K) (kinv : K -> K).
  Hypothesis Kth : ring_theory k0 k1 kadd kmul ksub kopp (@eq K).
  Variable keqb : K -> K -> bool.
  Hypothesis keqb_eq : forall a b, keqb a b = true -> a = b.
  Variable leafsem : op K -> value K -> option (value K).
  Notation den := (denote kadd kmul leafsem).


  (* ---------- what the block operators compute (matrix-free), for ANY container ---------- *)
  (* containers are pytrees of operators: a bare operator `Leaf e`, lists / tuples / dicts (children in
     sorted-key order) `Node k cs`, nested at will; `block_of i b c` is the block operator over c.
     tmap2 / tmap1 / tzip are jax.tree.map and the pairing of blocks with the sub-trees of x, written
     directly on the nested container (Model/BlockMat.v). *)
  Theorem blockdiag_spec : forall i (c : container K) x,
    den (block_of i BDiag c) x = tmap2 den c x.
  Proof. exact (BlocksL.blockdiag_spec K kadd kmul leafsem). Qed.
  Theorem blockcol_spec : forall i (c : container K) x,
    den (block_of i BCol c) x = tmap1 (fun e => den e x) c.
  Proof. exact (BlocksL.blockcol_spec K kadd kmul leafsem). Qed.
  (* the sum over the blocks, in pytree-leaf order, of block(x_block); a single block is APPLIED *)
  Theorem blockrow_spec : forall i (c : container K) x,
    den (block_of i BRow c) x =
    obind (tzip c x) (fun ps => obind (omapl (fun p => den (fst p) (snd p)) ps) (vsum kadd)).
  Proof. exact (BlocksL.blockrow_spec K kadd kmul leafsem). Qed.
  Theorem blockrow_single_bare : forall i e x, den (block_of i BRow (Leaf e)) x = den e x.
  Proof. exact (BlocksL.blockrow_single_bare K kadd kmul leafsem). Qed.
  Theorem blockrow_single : forall i k e x, den (block_of i BRow (Node k [Leaf e])) (Node k [x]) = den e x.
  Proof. exact (BlocksL.blockrow_single K kadd kmul leafsem). Qed.
  (* every block term with as many blocks as leaves of its tree shape is such a container *)
  Theorem block_term_is_container : forall i b td (l : list (op K)), List.length l = nleaves td ->
    exists c : container K, Block i b td l = block_of i b c.
  Proof. exact (BlocksL.block_term_is_container K). Qed.

  (* ---------- matrix forms ---------- *)
  (* `acts_as f si so M`: on every value of structure si, f returns a value of structure so whose
     flattening (pytree-leaf then row-major order) is M times the flattened input; M has
     struct_size so rows of length struct_size si.  Blocks may have pytree inputs and outputs. *)
  Notation acts := (acts_as k0 kadd kmul).
  Theorem blockrow_matrix : forall i td (l : list (op K)) (Ms : list (matrix K)) so,
    List.length l = nleaves td -> l <> [] ->
    Forall2 (fun b M => acts (den b) (in_struct b) so M) l Ms ->
    acts (den (Block i BRow td l)) (in_struct (Block i BRow td l)) so (hstack Ms).
  Proof. exact (BlocksL.blockrow_matrix K k0 k1 kadd kmul ksub kopp Kth leafsem). Qed.
  Theorem blockdiag_matrix : forall i td (l : list (op K)) (Ms : list (matrix K)),
    List.length l = nleaves td ->
    Forall2 (fun b M => acts (den b) (in_struct b) (out_struct b) M) l Ms ->
    acts (den (Block i BDiag td l)) (in_struct (Block i BDiag td l)) (out_struct (Block i BDiag td l))
      (block_diag k0 (combine Ms (map (fun b => struct_size (in_struct b)) l))).
  Proof. exact (BlocksL.blockdiag_matrix K k0 k1 kadd kmul ksub kopp Kth leafsem). Qed.
  Theorem blockcol_matrix : forall i td (l : list (op K)) (Ms : list (matrix K)) si,
    List.length l = nleaves td ->
    Forall2 (fun b M => acts (den b) si (out_struct b) M) l Ms ->
    acts (den (Block i BCol td l)) si (out_struct (Block i BCol td l)) (vstack Ms).
  Proof. exact (BlocksL.blockcol_matrix K k0 kadd kmul leafsem). Qed.

  (* the matrix of `acts` is the dense matrix read off the basis vectors (pytree-leaf then row-major
     order), i.e. what AbstractLinearOperator.as_matrix builds and what Exec.mat computes *)
  Theorem matrix_is_basis_columns : forall (f : value K -> option (value K)) si so (M : matrix K),
    acts f si so M -> columns k0 k1 f si = Some (columns_of k0 (struct_size si) M).
  Proof. exact (BlocksL.acts_as_columns K k0 k1 kadd kmul ksub kopp Kth). Qed.
  Theorem blockrow_dense : forall i td (l : list (op K)) (Ms : list (matrix K)) so,
    List.length l = nleaves td -> l <> [] ->
    Forall2 (fun b M => acts (den b) (in_struct b) so M) l Ms ->
    columns k0 k1 (den (Block i BRow td l)) (in_struct (Block i BRow td l)) =
    Some (columns_of k0 (struct_size (in_struct (Block i BRow td l))) (hstack Ms)).
  Proof. exact (BlocksL.blockrow_dense K k0 k1 kadd kmul ksub kopp Kth leafsem). Qed.
  Theorem blockdiag_dense : forall i td (l : list (op K)) (Ms : list (matrix K)),
    List.length l = nleaves td ->
    Forall2 (fun b M => acts (den b) (in_struct b) (out_struct b) M) l Ms ->
    columns k0 k1 (den (Block i BDiag td l)) (in_struct (Block i BDiag td l)) =
    Some (columns_of k0 (struct_size (in_struct (Block i BDiag td l)))
            (block_diag k0 (combine Ms (map (fun b => struct_size (in_struct b)) l)))).
  Proof. exact (BlocksL.blockdiag_dense K k0 k1 kadd kmul ksub kopp Kth leafsem). Qed.
  Theorem blockcol_dense : forall i td (l : list (op K)) (Ms : list (matrix K)),
    List.length l = nleaves td -> l <> [] ->
    Forall2 (fun b M => acts (den b) (in_struct (Block i BCol td l)) (out_struct b) M) l Ms ->
    columns k0 k1 (den (Block i BCol td l)) (in_struct (Block i BCol td l)) =
    Some (columns_of k0 (struct_size (in_struct (Block i BCol td l))) (vstack Ms)).
  Proof. exact (BlocksL.blockcol_dense K k0 k1 kadd kmul ksub kopp Kth leafsem). Qed.

  (* ---------- adjointness closure ---------- *)
  Notation adj := (adjoint_pair k0 kadd kmul).
  Theorem blockrow_col_adjoint : forall i i' td (l l' : list (op K)),
    Forall2 (fun b b' => adj (den b) (den b')) l l' ->
    adj (den (Block i BRow td l)) (den (Block i' BCol td l')).
  Proof. exact (BlocksL.blockrow_col_adjoint K k0 k1 kadd kmul ksub kopp Kth leafsem). Qed.
  Theorem blockcol_row_adjoint : forall i i' td (l l' : list (op K)),
    Forall2 (fun b b' => adj (den b) (den b')) l l' ->
    adj (den (Block i BCol td l)) (den (Block i' BRow td l')).
  Proof. exact (BlocksL.blockcol_row_adjoint K k0 k1 kadd kmul ksub kopp Kth leafsem). Qed.
  Theorem blockdiag_adjoint : forall i i' td (l l' : list (op K)),
    Forall2 (fun b b' => adj (den b) (den b')) l l' ->
    adj (den (Block i BDiag td l)) (den (Block i' BDiag td l')).
  Proof. exact (BlocksL.blockdiag_adjoint K k0 k1 kadd kmul ksub kopp Kth leafsem). Qed.
  Theorem block_transpose_adjoint : forall i b td (l : list (op K)),
    Forall (fun x => adj (den x) (den (transpose x))) l ->
    adj (den (Block i b td l)) (den (transpose (Block i b td l))).
  Proof. exact (BlocksL.block_transpose_adjoint K k0 k1 kadd kmul ksub kopp Kth leafsem). Qed.

  (* ---------- constructors ---------- *)
  (* accepted exactly when the container is non-empty and the blocks share the output structure
     (row) / the input structure (column); the result is the block operator of those blocks *)
  Theorem ctor_ok_iff : forall b td (l : list (op K)) e,
    mk_block b td l = Ok e <->
    e = Block fresh b td l /\ List.length l = nleaves td /\ l <> [] /\ shared_ok b l.
  Proof. exact (mk_block_ok_iff K). Qed.
  Theorem ctor_accepts_match : forall b td (l : list (op K)),
    List.length l = nleaves td -> l <> [] -> shared_ok b l -> mk_block b td l = Ok (Block fresh b td l).
  Proof. exact (BlocksL.ctor_accepts_match K). Qed.
  Theorem ctor_rejects_mismatch : forall b td (l : list (op K)) x y,
    List.length l = nleaves td -> In x l -> In y l ->
    (b = BRow /\ out_struct x <> out_struct y) \/ (b = BCol /\ in_struct x <> in_struct y) ->
    mk_block b td l = Err ValueError.
  Proof. exact (BlocksL.ctor_rejects_mismatch K). Qed.
  (* the shared structures are compared as WHOLE pytrees - treedef (container kinds, dict keys, nesting) AND leaves:
     blocks whose shared structures differ in the container alone are refused, equal leaves notwithstanding *)
  Theorem ctor_rejects_other_container : forall b td (l : list (op K)) x y,
    List.length l = nleaves td -> In x l -> In y l ->
    (b = BRow /\ shape_of (out_struct x) <> shape_of (out_struct y)) \/
    (b = BCol /\ shape_of (in_struct x) <> shape_of (in_struct y)) ->
    mk_block b td l = Err ValueError.
  Proof. exact (BlocksL.ctor_rejects_other_container K). Qed.
  Theorem struct_eq_iff_treedef_leaves : forall s t : struct,
    s = t <-> shape_of s = shape_of t /\ flatten s = flatten t.
  Proof. exact (BlocksL.struct_eq_iff_treedef_leaves). Qed.
  Theorem ctor_error_kinds : forall b td (l : list (op K)),
    (exists e, mk_block b td l = Ok e) \/ mk_block b td l = Err ValueError \/ mk_block b td l = Err IndexError.
  Proof. exact (ctor_never_other K). Qed.
  Theorem ctor_result_wf : forall b td (l : list (op K)) e,
    mk_block b td l = Ok e -> Forall (fun x => wfo x = true) l -> wfo e = true.
  Proof. exact (BlocksL.ctor_result_wf K). Qed.

  (* ---------- transposes ---------- *)
  Theorem block_transposes : forall i b (c : container K),
    transpose (block_of i b c) = block_of fresh (tkind b) (pmap (@transpose K) c).
  Proof. exact (block_transposes_container K). Qed.
  Theorem block_transpose_structs : forall i b td (l : list (op K)),
    Forall (fun x => in_struct (transpose x) = out_struct x /\ out_struct (transpose x) = in_struct x) l ->
    in_struct (transpose (Block i b td l)) = out_struct (Block i b td l) /\
    out_struct (transpose (Block i b td l)) = in_struct (Block i b td l).
  Proof. exact (BlocksL.block_transpose_structs K). Qed.

  (* ---------- the block product rules ---------- *)
  Section Rules.
    Variable rr : op K -> result (op K).      (* reduce() of the operator a rule builds *)
    Theorem block_rules_fire_iff_same_treedef : forall reduced il bl tdl ll ir br tdr lr,
      block_rule keqb kmul rr reduced (Block il bl tdl ll) (Block ir br tdr lr) = Ok None <-> tdl <> tdr.
    Proof. exact (BlocksL.block_rules_fire_iff_same_treedef K kmul keqb rr). Qed.
    Theorem block_rule_result : forall reduced il bl td ll ir br lr new,
      block_rule keqb kmul rr reduced (Block il bl td ll) (Block ir br td lr) = Ok (Some new) ->
      exists prods built red,
        mapM2 (matmul keqb kmul) ll lr = Ok prods /\
        match reduced with
        | Some b => mk_block b td prods = Ok built
        | None => prods <> [] /\ built = AddOp fresh prods
        end /\
        rr built = Ok red /\ new = [red].
    Proof. exact (BlocksL.block_rule_result K kmul keqb rr). Qed.

    Hypothesis LF : leaf_facts K kadd kmul leafsem.
    Hypothesis Hrr : forall e e', rr e = Ok e' -> den_le kadd kmul leafsem e e'.
    Theorem block_rules_sound : forall ru l r new,
      In ru [RRowDiag; RDiagCol; RDiagDiag; RRowCol] ->
      guard_ok keqb (guard_of ru) l r = true ->
      apply_rule keqb kmul rr ru l r = Ok (Some new) ->
      forall x y1 y, den r x = Some y1 -> den l y1 = Some y -> chain kadd kmul leafsem new x = Some y.
    Proof. exact (BlocksL.block_rules_sound K k0 k1 kadd kmul ksub kopp Kth keqb keqb_eq leafsem rr LF Hrr). Qed.
    Theorem row_col_is_sum : forall il td ll ir lr new,
      block_rule keqb kmul rr None (Block il BRow td ll) (Block ir BCol td lr) = Ok (Some new) ->
      exists prods red, new = [red] /\ mapM2 (matmul keqb kmul) ll lr = Ok prods /\ rr (AddOp fresh prods) = Ok red /\
        forall x ys zs y,
          omapl (fun e => den e x) lr = Some ys -> omap2 den ll ys = Some zs -> vsum kadd zs = Some y ->
          den red x = Some y.
    Proof. exact (BlocksL.row_col_is_sum K k0 k1 kadd kmul ksub kopp Kth keqb keqb_eq leafsem rr LF Hrr). Qed.
  End Rules.

  (* ---------- inverse of a block-diagonal operator ---------- *)
  Theorem blockdiag_inverse : forall fuel order i td l,
    forallb (@is_square K) l = true ->
    binv k1 kmul keqb kinv fuel order (Block i BDiag td l) =
    bind (mapM (binv k1 kmul keqb kinv fuel order) l) (fun l' => Ok (Block fresh BDiag td l')).
  Proof. exact (BlocksL.blockdiag_inverse K k1 kmul kinv keqb). Qed.
  Theorem blockdiag_inverse_default : forall fuel order i td l,
    forallb (@is_square K) l = false ->
    binv k1 kmul keqb kinv fuel order (Block i BDiag td l) =
    if negb (is_square (Block i BDiag td l)) then Err ValueError
    else bind (reduce keqb k1 kmul fuel order (Block i BDiag td l)) (fun r => Ok (Wrap fresh WInverse r)).
  Proof. exact (BlocksL.blockdiag_inverse_default K k1 kmul kinv keqb). Qed.
  Theorem blockdiag_inverse_sound : forall i i' td l l',
    Forall2 (fun b b' => forall x y, den b x = Some y -> den b' y = Some x) l l' ->
    forall x y, den (Block i BDiag td l) x = Some y -> den (Block i' BDiag td l') y = Some x.
  Proof. exact (BlocksL.blockdiag_inverse_sound K kadd kmul leafsem). Qed.

  (* ---------- lazy wrappers as blocks; sequences op.T.I, op.I.T, op.I.I, ... ---------- *)
  (* the inverse of a lazily TRANSPOSED block (TransposeOperator(x), x.T of a class without its own transpose) is
     the lazy inverse of that transpose - never the wrapped operator x *)
  Theorem lazy_transpose_inverse : forall fuel order i (x e' : op K),
    binv k1 kmul keqb kinv fuel order (Wrap i WTranspose x) = Ok e' ->
    is_square (Wrap i WTranspose x) = true /\
    exists r, reduce keqb k1 kmul fuel order (Wrap i WTranspose x) = Ok r /\ e' = Wrap fresh WInverse r.
  Proof. exact (BlocksL.lazy_transpose_inverse K k1 kmul kinv keqb). Qed.
  (* only the lazy INVERSES (InverseOperator, DiagonalInverseOperator, the orthogonal lazy transposes) give back
     the operator they hold *)
  Theorem lazy_inverse_inverse : forall fuel order i w (x : op K),
    isinst (wcls w) [CAbstractLazyInverse] = true -> binv k1 kmul keqb kinv fuel order (Wrap i w x) = Ok x.
  Proof. exact (BlocksL.lazy_inverse_inverse K k1 kmul kinv keqb). Qed.
  (* any sequence of .T / .I on a block-diagonal operator is taken block by block, in the same container, as
     long as every list of blocks met by an inverse is a list of square blocks (steps [ST; SI] e = e.T.I) *)
  Theorem blockdiag_steps : forall fuel order s i td l e',
    square_along k1 kmul keqb kinv fuel order s l ->
    (steps k1 kmul keqb kinv fuel order s (Block i BDiag td l) = Ok e' <->
     exists l', mapM (steps k1 kmul keqb kinv fuel order s) l = Ok l' /\ e' = Block (oid_after s i) BDiag td l').
  Proof. exact (BlocksL.blockdiag_steps K k1 kmul kinv keqb). Qed.
End C10.
Print Assumptions blockdiag_spec.
Print Assumptions blockcol_spec.
Print Assumptions blockrow_spec.
Print Assumptions blockrow_single_bare.
Print Assumptions blockrow_single.
Print Assumptions block_term_is_container.
Print Assumptions blockrow_matrix.
Print Assumptions blockdiag_matrix.
Print Assumptions blockcol_matrix.
Print Assumptions matrix_is_basis_columns.
Print Assumptions blockrow_dense.
Print Assumptions blockdiag_dense.
Print Assumptions blockcol_dense.
Print Assumptions blockrow_col_adjoint.
Print Assumptions blockcol_row_adjoint.
Print Assumptions blockdiag_adjoint.
Print Assumptions block_transpose_adjoint.
Print Assumptions ctor_ok_iff.
Print Assumptions ctor_accepts_match.
Print Assumptions ctor_rejects_mismatch.
Print Assumptions ctor_rejects_other_container.
Print Assumptions struct_eq_iff_treedef_leaves.
Print Assumptions ctor_error_kinds.
Print Assumptions ctor_result_wf.
Print Assumptions block_transposes.
Print Assumptions block_transpose_structs.
Print Assumptions block_rules_fire_iff_same_treedef.
Print Assumptions block_rule_result.
Print Assumptions block_rules_sound.
Print Assumptions row_col_is_sum.
Print Assumptions blockdiag_inverse.
Print Assumptions blockdiag_inverse_default.
Print Assumptions blockdiag_inverse_sound.
Print Assumptions lazy_transpose_inverse.
Print Assumptions lazy_inverse_inverse.
Print Assumptions blockdiag_steps.

(* non-vacuity: the hypotheses are met by concrete operators over Z *)
Example c10_example :
  let s2 := Leaf (mkSds [2] 0) in let s3 := Leaf (mkSds [3] 0) in
  let h : op Z := Homoth 1%N 2%Z s2 in let i2 : op Z := Ident 2%N s2 in let i3 : op Z := Ident 3%N s3 in
  let td := Node KList [Leaf tt; Leaf tt] in let td' := Node KTuple [Leaf tt; Leaf tt] in
  mk_block BRow td [h; i2] = Ok (Block fresh BRow td [h; i2]) /\
  mk_block BRow td [h; i3] = Err ValueError /\
  mk_block BCol td [i3; i2] = Err ValueError /\
  mk_block BDiag td [h; i3] = Ok (Block fresh BDiag td [h; i3]) /\
  block_rule Z.eqb Z.mul (fun e => Ok e) (Some BRow) (Block 4%N BRow td [h; i2]) (Block 5%N BDiag td' [h; i2]) = Ok None /\
  block_rule Z.eqb Z.mul (fun e => Ok e) None (Block 4%N BRow td [h; i2]) (Block 5%N BCol td [h; i2])
    = Ok (Some [AddOp fresh [Homoth fresh 4%Z s2; i2]]) /\
  forallb (@is_square Z) [h; i3] = true /\
  denote Z.add Z.mul (fun _ _ => None) (Block 6%N BRow (Leaf tt) [h]) (Leaf [1; 2]%Z) = Some (Leaf [2; 4]%Z).
Proof. vm_compute. repeat split. Qed.

(* structures with the SAME leaves in another container are different shared structures: tuple / list / dict,
   dict keys, nesting, leaf against singleton tuple, Stokes class against tuple; the same structure is accepted *)
Example c10_container_mismatch_example :
  let s := Leaf (mkSds [2] 0) in
  let variants : list struct :=
    [ Node KTuple [s; s]; Node KList [s; s]; Node (KDict ["a"; "b"]%string) [s; s]; Node (KDict ["a"; "c"]%string) [s; s];
      Node (KStokes 2) [s; s]; Node KTuple [Node KTuple [s; s]]; Node KTuple [Node KTuple [s]; Node KTuple [s]] ] in
  let td := Node KList [Leaf tt; Leaf tt] in
  let col (a b : struct) := mk_block BCol td [Ident 1%N a; Homoth 2%N 2%Z b : op Z] in
  let row (a b : struct) := mk_block BRow td [Ident 1%N a; Homoth 2%N 2%Z b : op Z] in
  let refused r := match r with Err ValueError => true | _ => false end in
  let accepted r := match r with Ok _ => true | _ => false end in
  forallb (fun a => forallb (fun b => (Bool.eqb (accepted (col a b)) (struct_eqb a b) && Bool.eqb (refused (col a b)) (negb (struct_eqb a b))
                                   && Bool.eqb (accepted (row a b)) (struct_eqb a b) && Bool.eqb (refused (row a b)) (negb (struct_eqb a b)))%bool)
                           variants) variants = true /\
  forallb (fun a => forallb (fun b => struct_eqb (Node KList (map Leaf (flatten a))) (Node KList (map Leaf (flatten b)))) variants) variants = true /\
  refused (col s (Node KTuple [s])) = true /\ refused (row (Node KTuple [s]) s) = true /\
  refused (col (Node KTuple [Node KTuple [s; s]; s]) (Node KTuple [s; Node KTuple [s; s]])) = true.
Proof. vm_compute. repeat split. Qed.

(* lazy wrappers as blocks: diag(A.T, D^-1) with A a user-defined 2x2 operator (lazy transpose) and D^-1 a
   DiagonalInverseOperator; .I gives diag(InverseOperator(A.T), D), .T.I gives diag(InverseOperator(A), D),
   .I.I gives back the blocks; the hypothesis of blockdiag_steps holds along [SI; SI] *)
Example c10_wrapper_blocks_example :
  let s := Leaf (mkSds [2] 0) in
  let a : op Z := Prim 1%N CAtom s s (PKey 2%N) in let at_ := Wrap 2%N WTranspose a in
  let d : op Z := Prim 3%N CDiagonal s s (PKey 6%N) in let di := Wrap 4%N WDiagInv d in
  let td := Node (KDict ["x"; "y"]%string) [Leaf tt; Leaf tt] in
  let st := steps 1%Z Z.mul Z.eqb (fun k => k) 12 default_order in
  st [SI] (Block 5%N BDiag td [at_; di]) = Ok (Block fresh BDiag td [Wrap fresh WInverse at_; d]) /\
  st [ST; SI] (Block 5%N BDiag td [at_; di]) = Ok (Block fresh BDiag td [Wrap fresh WInverse a; d]) /\
  st [SI; SI] (Block 5%N BDiag td [at_; di]) = Ok (Block fresh BDiag td [at_; Wrap fresh WDiagInv d]) /\
  st [SI; ST] (Block 5%N BDiag td [at_; di]) = Ok (Block fresh BDiag td [Wrap fresh WTranspose (Wrap fresh WInverse at_); d]).
Proof. vm_compute. repeat split. Qed.
Example c10_square_along_witness :
  let s := Leaf (mkSds [2] 0) in
  let a : op Z := Prim 1%N CAtom s s (PKey 2%N) in let at_ := Wrap 2%N WTranspose a in
  let d : op Z := Prim 3%N CDiagonal s s (PKey 6%N) in let di := Wrap 4%N WDiagInv d in
  square_along 1%Z Z.mul Z.eqb (fun k => k) 12 default_order [SI; SI] [at_; di].
Proof.
  cbv zeta. cbn [square_along]. split; [vm_compute; reflexivity|].
  intros l' H. vm_compute in H. inversion H; subst l'. split; [vm_compute; reflexivity|]. intros; exact I.
Qed.

Example c10_acts_as_witness :
  let s := Leaf (mkSds [2] 0) in
  acts_as 0%Z Z.add Z.mul (denote Z.add Z.mul (fun _ _ => None) (Homoth 1%N 2%Z s)) s s [[2; 0]; [0; 2]]%Z.
Proof.
  cbn. split; [repeat constructor|]. split; [reflexivity|].
  intros x Hx. destruct x as [d|]; [|discriminate]. cbn in Hx.
  destruct d as [|a [|b [|? ?]]]; try discriminate.
  eexists. split; [reflexivity|]. split; [reflexivity|]. cbn. f_equal; [|f_equal]; ring.
Qed.

Example c10_adjoint_witness : forall s : struct,
  adjoint_pair 0%Z Z.add Z.mul (denote Z.add Z.mul (fun _ _ => None) (Ident 1%N s))
    (denote Z.add Z.mul (fun _ _ => None) (transpose (Ident 1%N s))).
Proof. intros s x y fx gy H1 H2. cbn in *. inversion H1; inversion H2; subst. reflexivity. Qed.

(* the executable dense matrix of the correspondence harness (Exec.mat) is `columns` at K = Qc *)
Example exec_mat_is_columns : forall tb e,
  Exec.mat tb e =
  option_map (fun cols => map (map (fun k => Exec.qpair (Qcanon.this k))) cols)
    (columns Exec.k0 Exec.k1 (Exec.den tb e) (in_struct e)).
Proof. intros tb e. reflexivity. Qed.

(* stage 2: the hypothesis `acts_as` of the matrix forms holds for the executable semantics of a
   leaf block whose action is a matrix measured on the real object (dimensions as declared) *)
Theorem exec_table_leaf_acts_as : forall (tb : Exec.table) i c si so p m,
  let e : Exec.xop := Prim i c si so p in
  (i =? 0)%N = false -> Exec.lookup tb (2 * i)%N = Some m ->
  Forall (fun row => List.length row = struct_size (in_struct e)) m ->
  List.length m = struct_size (out_struct e) ->
  acts_as Exec.k0 Qcanon.Qcplus Qcanon.Qcmult (Exec.leafsem tb e) (in_struct e) (out_struct e) m.
Proof. exact BlocksL.exec_table_leaf_acts_as. Qed.
Print Assumptions exec_table_leaf_acts_as.
