(* C11 - diagonal operators multiply along the requested axes.
   "A (broadcast) diagonal operator multiplies each input leaf by the stored values laid along the
   requested destination axes with NumPy broadcasting semantics, for every legal axis specification
   (non-negative or negative scalar, explicit tuple in any order, axes extending beyond the leaf rank
   on the left or right) and for pytrees whose leaves have different ranks.  The strict diagonal
   variant rejects any specification that would change a leaf's shape, scalar or pytree-valued values
   and duplicated or incompatible axes raise at construction, and the result never depends on
   anything but the values, the axes and the input."
   Statements only; every proof is `exact <lemma>` (Lemmas/DiagonalL.v) over the model
   Model/Diagonal.v (which reuses the moveaxis / n-d index model of Model/Axes.v).
   Pytrees are lists of leaves; K is an arbitrary carrier with a product kmul (no ring law is needed
   for the element formula; the dense-matrix and inverse statements name the laws they use). *)
From Coq Require Import ZArith NArith QArith List.
From Furax Require Import Model.Axes Lemmas.AxesL Model.Diagonal Lemmas.DiagonalL.
Import ListNotations.
Close Scope Q_scope.
Close Scope Z_scope.
Open Scope nat_scope.

(* ---------------------------------------------------------------------------------------------- *)
(* axis_destination: the two scalar conventions are the explicit tuples
   a >= 0 -> (a, a+1, ..., a+nd-1);   a < 0 -> (a-nd+1, ..., a-1, a) *)
Theorem scalar_axis_forms : forall cls v a ins,
  Diag_ctor cls v (AInt a) ins =
  Diag_ctor cls v (ASeq (match v with VLeaf vs => scalar_axes (length vs) a | VTree => [] end)) ins.
Proof. exact scalar_forms. Qed.
Print Assumptions scalar_axis_forms.

Theorem scalar_axis_tuple : forall nd a k, k < nd ->
  length (scalar_axes nd a) = nd /\
  nth k (scalar_axes nd a) 0%Z =
  (if (0 <=? a)%Z then a + Z.of_nat k else a - Z.of_nat (nd - 1 - k))%Z.
Proof. exact (fun nd a k H => conj (scalar_axes_length nd a) (scalar_axes_nth nd a k H)). Qed.
Print Assumptions scalar_axis_tuple.

(* left / right broadcast dimensions: the least L, R >= 0 with every normalised axis + L in [0, L+r+R) *)
Theorem broadcast_dims_minimal : forall ax r L R, lr_dims ax r = Ok (L, R) -> ax <> [] /\ lr_spec ax r L R.
Proof. exact lr_dims_spec. Qed.
Print Assumptions broadcast_dims_minimal.

(* ---------------------------------------------------------------------------------------------- *)
(* The element formula, one leaf (every rank, every values shape, every axis tuple of length
   values.ndim).  With vs = values shape, sh = leaf shape, ax = axes normalised BY THIS LEAF'S RANK,
   L / R the left / right broadcast dimensions, T = L + R + rank:
   - the reshaped values have shape dspec: vs[k] at position L + ax_k, 1 elsewhere;
   - the reshaped leaf, right-aligned, has shape xpad = (1,)*L + sh + (1,)*R;
   - the two are compatible position by position and the result has their broadcast shape;
   - y[I] = d[ I[L + ax_k] for k < nd ] * x[ I[L + j] for j < rank ], unit axes being read at index 0. *)
Theorem diag_elementwise_leaf : forall (K : Type) (k0 : K) (kmul : K -> K -> K) cls (d x : arr K) axes y,
  length axes = length (ashape d) ->
  mv_leaf K k0 kmul cls d axes x = Ok y ->
  let vs := ashape d in
  let sh := ashape x in
  let ax := map (norm_axis (length sh)) axes in
  exists L R,
    let T := L + R + length sh in
    let axn := shifted L ax in
    NoDup ax /\ lr_dims ax (length sh) = Ok (L, R) /\
    Forall2 compat (dspec vs axn T) (xpad sh L R) /\
    ashape y = zipw bmax (dspec vs axn T) (xpad sh L R) /\
    (cls = DStrict -> ashape y = sh) /\
    wf_arr y /\
    forall I, in_range (ashape y) I ->
      get K k0 y I = kmul (get K k0 d (d_index vs axn I)) (get K k0 x (x_index sh L I)).
Proof. exact mv_leaf_elementwise. Qed.
Print Assumptions diag_elementwise_leaf.

(* reading of dspec / xpad by axis *)
Theorem reshaped_shapes_by_axis : forall (vs : shape) (ax : list Z) (sh : shape) (L R : nat),
  length ax = length vs -> NoDup ax ->
  (forall a, In a ax -> (0 <= a + Z.of_nat L < Z.of_nat (L + R + length sh))%Z) ->
  let T := L + R + length sh in
  let axn := shifted L ax in
  (forall k, k < length vs -> nth (nth k axn 0) (dspec vs axn T) 0 = nth k vs 0) /\
  (forall m, m < T -> ~ In m axn -> nth m (dspec vs axn T) 0 = 1) /\
  (forall m, m < T -> nth m (xpad sh L R) 0 = axis_size sh (Z.of_nat m - Z.of_nat L)).
Proof.
  exact (fun vs ax sh L R H1 H2 H3 =>
    conj (dspec_at_axis vs ax (length sh) L R H1 H2 H3)
         (conj (dspec_off_axis vs ax (length sh) L R H1)
               (fun m Hm => xpad_nth sh L R m Hm))).
Qed.
Print Assumptions reshaped_shapes_by_axis.

(* The same for an accepted operator on a whole pytree: mv is defined on every input of the in
   structure, its shapes are out_structure(), and every leaf obeys the element formula with ITS OWN
   rank in the normalisation (leaf_spec is the conclusion of diag_elementwise_leaf). *)
Theorem diag_elementwise : forall (K : Type) (k0 : K) (kmul : K -> K -> K) cls v a ins op (d : arr K)
  (x : list (arr K)),
  Diag_ctor cls v a ins = Ok op -> length (d_axes op) = length (d_vshape op) ->
  ashape d = d_vshape op -> map ashape x = ins ->
  exists y, diag_mv K k0 kmul op d x = Ok y /\ d_out_structure op = Ok (map ashape y) /\
            Forall2 (leaf_spec K k0 kmul cls d (d_axes op)) x y.
Proof. exact diag_mv_elementwise. Qed.
Print Assumptions diag_elementwise.

(* leaves of different rank do not interact: a pytree is processed leaf by leaf *)
Theorem mixed_rank_leaves : forall (K : Type) (k0 : K) (kmul : K -> K -> K) op (d : arr K) x x',
  diag_mv K k0 kmul op d (x ++ x') =
  bind (diag_mv K k0 kmul op d x) (fun y => bind (diag_mv K k0 kmul op d x') (fun y' => Ok (y ++ y'))).
Proof. exact diag_mv_app. Qed.
Print Assumptions mixed_rank_leaves.

(* ---------------------------------------------------------------------------------------------- *)
(* construction: exact characterisation.  A specification is legal for a leaf iff the normalised axes
   are distinct and every values axis is compatible (equal, or one of them 1) with the leaf axis it
   lands on - an axis outside the leaf lands on a new unit axis; for the strict class the axis must lie
   inside the leaf and the values axis must be 1 or the leaf's size (see leaf_ok). *)
Theorem ctor_accepts_legal : forall cls vs a ins,
  let axes := axis_tuple (length vs) a in
  length axes = length vs ->
  (Diag_ctor cls (VLeaf vs) a ins = Ok (mkDiag cls vs axes ins) <-> legal_spec cls vs axes ins).
Proof. exact ctor_iff. Qed.
Print Assumptions ctor_accepts_legal.

(* pytree-valued values, rank-0 values, and every specification illegal for some leaf (duplicates after
   normalisation, incompatible sizes, strict: any shape change) raise ValueError at construction *)
Theorem ctor_rejects : forall cls v a ins,
  match v with
  | VTree => True
  | VLeaf vs => length (axis_tuple (length vs) a) = length vs /\
                ~ legal_spec cls vs (axis_tuple (length vs) a) ins
  end ->
  Diag_ctor cls v a ins = Err ValueError.
Proof. exact ctor_rejects_l. Qed.
Print Assumptions ctor_rejects.

Theorem ctor_result : forall cls v a ins op, Diag_ctor cls v a ins = Ok op ->
  exists vs, v = VLeaf vs /\ vs <> [] /\ op = mkDiag cls vs (axis_tuple (length vs) a) ins /\
             exists outs, d_out_structure op = Ok outs.
Proof. exact ctor_ok_fields. Qed.
Print Assumptions ctor_result.

Theorem leaf_legal_iff : forall cls vs axes sh, length axes = length vs -> vs <> [] ->
  ((exists pl, leaf_plan cls vs axes sh = Ok pl) <-> leaf_ok cls vs axes sh).
Proof. exact leaf_plan_iff. Qed.
Print Assumptions leaf_legal_iff.

(* the strict class accepts exactly the specifications the broadcast class accepts AND that leave
   every leaf's shape unchanged (for any values / axis argument whatsoever) *)
Theorem strict_preserves_shape : forall v a ins,
  (exists op, Diag_ctor DStrict v a ins = Ok op) <->
  (exists op', Diag_ctor DBroadcast v a ins = Ok op' /\ d_out_structure op' = Ok ins).
Proof. exact strict_iff_shape_preserving. Qed.
Print Assumptions strict_preserves_shape.

Theorem strict_out_is_in : forall v a ins op,
  Diag_ctor DStrict v a ins = Ok op -> d_out_structure op = Ok ins.
Proof. exact strict_out_structure. Qed.
Print Assumptions strict_out_is_in.

(* No state is carried from one leaf to the next ("the result never depends on anything but the values,
   the axes and the input"): the constructor accepts a pytree iff it accepts the values and EVERY leaf
   taken on its own - so the strict class rejects when ANY leaf, first, middle or last, of a rank already
   seen or not, would change shape (strict_preserves_shape on the one-leaf structures) ... *)
Theorem ctor_decided_leaf_by_leaf : forall cls v a ins,
  (exists op, Diag_ctor cls v a ins = Ok op) <->
  ((exists op, Diag_ctor cls v a [] = Ok op) /\
   Forall (fun sh => exists op, Diag_ctor cls v a [sh] = Ok op) ins).
Proof. exact ctor_leafwise. Qed.
Print Assumptions ctor_decided_leaf_by_leaf.

(* ... whatever the order of the leaves ... *)
Theorem ctor_leaf_order_irrelevant : forall cls v a ins ins', Permutation.Permutation ins ins' ->
  ((exists op, Diag_ctor cls v a ins = Ok op) <-> (exists op, Diag_ctor cls v a ins' = Ok op)).
Proof. exact ctor_order_irrelevant. Qed.
Print Assumptions ctor_leaf_order_irrelevant.

(* ... and each leaf of the result of a multi-leaf call is the result of the one-leaf call on it; a leaf
   on which the one-leaf call raises makes the whole call raise *)
Theorem mv_decided_leaf_by_leaf : forall (K : Type) (k0 : K) (kmul : K -> K -> K) op (d : arr K) x y,
  diag_mv K k0 kmul op d x = Ok y ->
  Forall2 (fun xi yi => diag_mv K k0 kmul op d [xi] = Ok [yi]) x y.
Proof. exact mv_leafwise. Qed.
Print Assumptions mv_decided_leaf_by_leaf.

Theorem mv_one_bad_leaf_raises : forall (K : Type) (k0 : K) (kmul : K -> K -> K) op (d : arr K) x xi e,
  In xi x -> diag_mv K k0 kmul op d [xi] = Err e -> exists e', diag_mv K k0 kmul op d x = Err e'.
Proof. exact mv_leaf_error. Qed.
Print Assumptions mv_one_bad_leaf_raises.

(* ---------------------------------------------------------------------------------------------- *)
(* DiagonalOperator.as_matrix() is the dense matrix of mv: column j = flattened image of the j-th basis
   vector (over any carrier where v*0 = 0 and v*1 = v) *)
Theorem diag_as_matrix : forall (K : Type) (k0 k1 : K) (kmul : K -> K -> K),
  (forall v, kmul v k0 = k0) -> (forall v, kmul v k1 = v) ->
  forall op (d : arr K) m, d_cls op = DStrict ->
  diag_as_matrix K k0 op d = Ok m ->
  columns K k0 k1 (diag_mv K k0 kmul op d) (d_in op) = Ok m.
Proof. exact diag_as_matrix_l. Qed.
Print Assumptions diag_as_matrix.

(* DiagonalInverseOperator: constructible whenever the operator was; its values are
   where(d != 0, 1/d, 0) entry by entry, and pinv(v) * v is 0 on zeros and 1 elsewhere *)
Theorem inverse_constructible : forall v a ins op,
  Diag_ctor DStrict v a ins = Ok op -> Diag_inverse_ctor op = Ok op.
Proof. exact inverse_ctor_same. Qed.
Print Assumptions inverse_constructible.

Theorem inverse_values_spec : forall (K : Type) (k0 : K) (kis0 : K -> bool) (kinv : K -> K) d J,
  in_range (ashape d) J -> wf_arr d ->
  get K k0 (inverse_values K k0 kis0 kinv d) J = pinv K k0 kis0 kinv (get K k0 d J).
Proof. exact inverse_values_get. Qed.
Print Assumptions inverse_values_spec.

Theorem pinv_is_pseudo_inverse : forall (K : Type) (k0 k1 : K) (kmul : K -> K -> K) (kis0 : K -> bool)
  (kinv : K -> K),
  (forall v, kis0 v = true <-> v = k0) -> (forall v, kmul k0 v = k0) ->
  (forall v, v <> k0 -> kmul (kinv v) v = k1) ->
  forall v, kmul (pinv K k0 kis0 kinv v) v = if kis0 v then k0 else k1.
Proof. exact pinv_mul. Qed.
Print Assumptions pinv_is_pseudo_inverse.

(* "the result never depends on anything but the values, the axes and the input": trivial in a pure
   model (mv is a Gallina function of (op, d, x)); the corresponding check on the Python side is the
   repeated / freshly-built / jitted evaluation of the harness *)
Theorem deterministic : forall (K : Type) (k0 : K) (kmul : K -> K -> K) op (d : arr K) x y y',
  diag_mv K k0 kmul op d x = Ok y -> diag_mv K k0 kmul op d x = Ok y' -> y = y'.
Proof. exact diag_mv_deterministic. Qed.
Print Assumptions deterministic.

(* ---------------------------------------------------------------------------------------------- *)
(* non-vacuity and boundary examples (computed) *)
Open Scope Z_scope.

(* the docstring examples of BroadcastDiagonalOperator *)
Example docstring_examples :
  obs_diag DBroadcast (VLeaf [2; 3]%nat) [1; 1; 1; 2; 1; 0] (AInt (-1)) [[3]%nat] [[1; 2; 3]] =
    Ok ([-2; -1], Ok [[2; 3]%nat], Ok [([2; 3]%nat, [1; 2; 3; 2; 2; 0])], Ok []) /\
  obs_diag DBroadcast (VLeaf [2; 3]%nat) [2; 3; 1; 1; 0; 1] (AInt 0) [[2]%nat] [[1; 2]] =
    Ok ([0; 1], Ok [[2; 3]%nat], Ok [([2; 3]%nat, [2; 3; 1; 2; 0; 2])], Ok []) /\
  obs_diag DStrict (VLeaf [2]%nat) [2; 1] (AInt 0) [[2; 3]%nat] [[0; 1; 2; 2; 3; 4]] =
    Ok ([0], Ok [[2; 3]%nat], Ok [([2; 3]%nat, [0; 2; 4; 2; 3; 4])], Ok [2; 2; 2; 1; 1; 1]).
Proof. repeat split; reflexivity. Qed.

(* the hypotheses of ctor_accepts_legal are satisfiable: a tuple in reversed order with a negative
   entry, on a pytree with leaves of ranks 2 and 3 (the axes mean different positions on each) *)
Example legal_spec_example :
  legal_spec DBroadcast [3; 2]%nat [-1; 0] [[2; 3]%nat; [2; 5; 3]%nat] /\
  Diag_ctor DBroadcast (VLeaf [3; 2]%nat) (ASeq [-1; 0]) [[2; 3]%nat; [2; 5; 3]%nat] =
    Ok (mkDiag DBroadcast [3; 2]%nat [-1; 0] [[2; 3]%nat; [2; 5; 3]%nat]).
Proof.
  assert (H : Diag_ctor DBroadcast (VLeaf [3; 2]%nat) (ASeq [-1; 0]) [[2; 3]%nat; [2; 5; 3]%nat] =
              Ok (mkDiag DBroadcast [3; 2]%nat [-1; 0] [[2; 3]%nat; [2; 5; 3]%nat])) by reflexivity.
  split; [|exact H]. apply (ctor_iff DBroadcast [3; 2]%nat (ASeq [-1; 0])); [reflexivity | exact H].
Qed.

(* mixed ranks: axis_destination=0 with gains of shape (3,) on {'tod': (3, 4), 'ground': (3,)} *)
Example mixed_rank_example :
  obs_diag DStrict (VLeaf [3]%nat) [2; 3; 5] (AInt 0) [[3; 2]%nat; [3]%nat] [[1; 1; 1; 1; 1; 1]; [1; 1; 1]] =
    Ok ([0], Ok [[3; 2]%nat; [3]%nat], Ok [([3; 2]%nat, [2; 2; 3; 3; 5; 5]); ([3]%nat, [2; 3; 5])],
        Ok [2; 2; 3; 3; 5; 5; 2; 3; 5]) /\
  (* the negative axis -1 is the second axis of the first leaf and the only axis of the second *)
  obs_diag DStrict (VLeaf [2]%nat) [2; 3] (AInt (-1)) [[3; 2]%nat; [2]%nat] [[1; 1; 1; 1; 1; 1]; [1; 1]] =
    Ok ([-1], Ok [[3; 2]%nat; [2]%nat], Ok [([3; 2]%nat, [2; 3; 2; 3; 2; 3]); ([2]%nat, [2; 3])],
        Ok [2; 3; 2; 3; 2; 3; 2; 3]).
Proof. split; reflexivity. Qed.

(* axes beyond the leaf rank on the left (-3 on rank 1) and on the right (2 on rank 1) *)
Example beyond_rank_examples :
  obs_diag DBroadcast (VLeaf [2]%nat) [1; 2] (AInt (-3)) [[3]%nat] [[5; 6; 7]] =
    Ok ([-3], Ok [[2; 1; 3]%nat], Ok [([2; 1; 3]%nat, [5; 6; 7; 10; 12; 14])], Ok []) /\
  obs_diag DBroadcast (VLeaf [2]%nat) [1; 2] (AInt 2) [[3]%nat] [[5; 6; 7]] =
    Ok ([2], Ok [[3; 1; 2]%nat], Ok [([3; 1; 2]%nat, [5; 10; 6; 12; 7; 14])], Ok []).
Proof. split; reflexivity. Qed.

(* rejections: duplicated after normalisation on the rank-1 leaf only (the test of the repository),
   incompatible sizes, shape change under the strict class, scalar and pytree values *)
Example rejection_examples :
  Diag_ctor DBroadcast (VLeaf [3; 3]%nat) (ASeq [0; -1]) [[3; 3]%nat; [3]%nat] = Err ValueError /\
  Diag_ctor DBroadcast (VLeaf [3; 3]%nat) (ASeq [0; -1]) [[3; 3]%nat] =
    Ok (mkDiag DBroadcast [3; 3]%nat [0; -1] [[3; 3]%nat]) /\
  Diag_ctor DBroadcast (VLeaf [2]%nat) (AInt (-1)) [[3]%nat] = Err ValueError /\
  Diag_ctor DStrict (VLeaf [2; 3]%nat) (AInt (-1)) [[3]%nat] = Err ValueError /\
  Diag_ctor DBroadcast (VLeaf [2; 3]%nat) (AInt (-1)) [[3]%nat] =
    Ok (mkDiag DBroadcast [2; 3]%nat [-2; -1] [[3]%nat]) /\
  Diag_ctor DBroadcast (VLeaf []) (AInt (-1)) [[3]%nat] = Err ValueError /\
  Diag_ctor DBroadcast VTree (AInt (-1)) [[3]%nat] = Err ValueError.
Proof. repeat split; reflexivity. Qed.

(* same-rank leaves: values (3,) along axis 0 - the strict class rejects when the offending leaf (1,2) comes
   first, last, or third after a leaf of its rank was already accepted; the broadcast class accepts and
   maps (1,2) to (3,2); the hypotheses of ctor_decided_leaf_by_leaf / ctor_leaf_order_irrelevant hold *)
Example same_rank_leaves_example :
  Diag_ctor DStrict (VLeaf [3]%nat) (AInt 0) [[1; 2]%nat; [3; 2]%nat] = Err ValueError /\
  Diag_ctor DStrict (VLeaf [3]%nat) (AInt 0) [[3; 2]%nat; [1; 2]%nat] = Err ValueError /\
  Diag_ctor DStrict (VLeaf [3]%nat) (AInt 0) [[3]%nat; [3; 4]%nat; [1]%nat] = Err ValueError /\
  Diag_ctor DStrict (VLeaf [3]%nat) (AInt 0) [[3; 2]%nat; [3; 5]%nat] =
    Ok (mkDiag DStrict [3]%nat [0] [[3; 2]%nat; [3; 5]%nat]) /\
  (exists op, Diag_ctor DBroadcast (VLeaf [3]%nat) (AInt 0) [[3; 2]%nat; [1; 2]%nat] = Ok op /\
              d_out_structure op = Ok [[3; 2]%nat; [3; 2]%nat]) /\
  Permutation.Permutation [[3; 2]%nat; [1; 2]%nat] [[1; 2]%nat; [3; 2]%nat].
Proof.
  repeat split; try reflexivity.
  - eexists; split; reflexivity.
  - apply Permutation.perm_swap.
Qed.

(* boundary (outside the documented "as many axes as dimensions"): a tuple shorter than values.ndim is
   not rejected as such; the remaining value axes keep their order (jnp.moveaxis) *)
Example short_tuple_boundary :
  Diag_ctor DStrict (VLeaf [2; 3]%nat) (ASeq [0]) [[2; 3]%nat] = Ok (mkDiag DStrict [2; 3]%nat [0] [[2; 3]%nat]) /\
  Diag_ctor DBroadcast (VLeaf [2; 3]%nat) (ASeq []) [[2; 3]%nat] = Err ValueError.
Proof. split; reflexivity. Qed.

(* the pseudo-inverse over Q: values (0, 2, 1/2) -> (0, 1/2, 2) *)
Example inverse_example :
  obs_inverse [3]%nat [0 # 1; 2 # 1; 1 # 2]%Q (AInt 0) [[3]%nat] [[1 # 1; 1 # 1; 1 # 1]%Q] =
    Ok ([0 # 1; 1 # 2; 2 # 1]%Q, Ok [([3]%nat, [0 # 1; 1 # 2; 2 # 1]%Q)],
        Ok [([3]%nat, [0 # 1; 1 # 1; 1 # 1]%Q)], Ok [0 # 1; 1 # 2; 2 # 1]%Q).
Proof. reflexivity. Qed.
