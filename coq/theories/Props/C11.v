(* C11 - diagonal operators multiply along the requested axes. *)
From Coq Require Import ZArith NArith List.
From Furax Require Import Model.Axes Lemmas.AxesL Model.Diagonal Lemmas.DiagonalL.
Import ListNotations.

Theorem scalar_axes_len : forall nd a, length (scalar_axes nd a) = nd.
Proof. exact scalar_axes_length. Qed.
Print Assumptions scalar_axes_len.
