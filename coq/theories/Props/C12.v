(* C12 - indexing and packing select, and their transposes scatter-add.
   "An index operator returns x[indices] for every leaf, for any combination of integers, slices, an
   ellipsis, integer arrays of any rank (negative and repeated entries allowed) and boolean masks, and
   can be constructed with or without an explicit output structure; its transpose accumulates the
   selected positions into a zero array.  P @ P.T is simplified to the identity only when no input
   element is selected twice, P.T @ P simplifies to the diagonal of selection multiplicities, and the
   pack operator behaves as indexing every leaf by its mask."
   Statements only; every proof is `exact <lemma>` (Lemmas/IndexL.v) over the model Model/Index.v and,
   where they overlap, the definitions of Model/Algebra.v (indexed_axes, py_nth, unique_counts,
   coverage_of, norm_index) used by the C01/C07 model of TransposeIndexRule.
   A gather is (output shape, list `sel` of flat input positions in row-major output order); the
   theorems of the first group hold for ARBITRARY sel, hence for every index expression; the group
   "every index tuple" instantiates them on `leaf_gather`, the gather the model COMPUTES for every tuple,
   tuples with several array entries (NumPy advanced indexing with broadcasting: index_adv) included. *)
From Coq Require Import ZArith NArith List Bool Arith Permutation Ring.
From Furax Require Import Model.Op Model.Algebra Model.Index Lemmas.IndexL.
Import ListNotations.
Local Open Scope nat_scope.

(* ---------------------------------------------------------------------------------------------- *)
(* arbitrary selections, over an arbitrary commutative ring *)

(* <P x, y> = <x, P^T y>: the transpose (scatter-add into zeros) is the adjoint of the gather *)
Theorem index_T_is_scatter_add : forall (K : Type) (k0 k1 : K) (kadd kmul ksub : K -> K -> K) (kopp : K -> K),
  ring_theory k0 k1 kadd kmul ksub kopp eq ->
  forall (sel : list nat) (x y : list K),
  dot k0 kadd kmul (gather_data k0 sel x) y = dot k0 kadd kmul x (scatter_add k0 kadd (length x) sel y).
Proof. exact adjoint_l. Qed.
Print Assumptions index_T_is_scatter_add.

(* P P^T is the identity exactly when no input element is selected twice *)
Theorem PPt_identity_iff : forall (K : Type) (k0 k1 : K) (kadd kmul ksub : K -> K -> K) (kopp : K -> K),
  ring_theory k0 k1 kadd kmul ksub kopp eq -> k1 <> k0 ->
  forall (n : nat) (sel : list nat), Forall (fun p => p < n) sel ->
  ((forall y, length y = length sel -> gather_data k0 sel (scatter_add k0 kadd n sel y) = y) <-> NoDup sel).
Proof. exact PPt_identity_iff_l. Qed.
Print Assumptions PPt_identity_iff.

(* (P^T P x)[i] = (number of times i is selected) . x[i] *)
Theorem PtP_multiplicity : forall (K : Type) (k0 : K) (kadd : K -> K -> K) (n : nat) (sel : list nat) (x : list K) (i : nat),
  i < n ->
  nth i (scatter_add k0 kadd n sel (gather_data k0 sel x)) k0 =
  nat_mul k0 kadd (count_occ Nat.eq_dec sel i) (nth i x k0).
Proof. exact PtP_multiplicity_l. Qed.
Print Assumptions PtP_multiplicity.

(* ---------------------------------------------------------------------------------------------- *)
(* native indexing: slices and masks never select an element twice *)

(* slice(start, stop, step).indices(n) for ANY start/stop/step (None, negative, out of range, negative
   steps): distinct coordinates, all inside the axis *)
Theorem slice_selects_distinct_in_range : forall n a b c cs, slice_coords n a b c = Ok cs ->
  NoDup cs /\ Forall (fun i => i < n) cs.
Proof. exact slice_coords_spec. Qed.
Print Assumptions slice_selects_distinct_in_range.

(* the gather computed for a tuple with one array entry and ints not adjacent to it (advanced dimension
   first) selects the same positions, as often, as the in-place outer product *)
Theorem index_leaf_is_outer_product : forall sh l g, index_leaf sh l = Ok (Some g) ->
  exists axs, resolve (length sh - consumed l) sh l = Ok axs /\
    Permutation (g_sel g) (outer (map a_dim axs) (map a_coords axs)).
Proof. exact index_leaf_perm. Qed.
Print Assumptions index_leaf_is_outer_product.

(* unique_indices inferred True (no integer array among the entries, no user flag needed) => the
   selection has no repeated position, for every leaf shape and EVERY int / slice / Ellipsis / mask
   expression: any number of masks of any rank, broadcast against each other and the ints, in place or
   in front (IndexOperator.__init__: `all(isinstance(_, (int, slice, EllipsisType)) or isinstance(_, Array)
   and _.dtype == bool)`; one integer array next to the masks and the inference says False unless the
   user says otherwise: ex_mask_plus_array_repeats) *)
Theorem unique_inference_sound : forall sh l g, infer_unique l None = true ->
  leaf_gather sh l = Ok g -> NoDup (g_sel g).
Proof. exact unique_inference_sound_all. Qed.
Print Assumptions unique_inference_sound.

(* the same on the part computed by index_leaf alone (at most one array entry) *)
Theorem unique_inference_sound_one_array : forall sh l g, infer_unique l None = true ->
  index_leaf sh l = Ok (Some g) -> NoDup (g_sel g).
Proof. exact unique_inference_sound_l. Qed.
Print Assumptions unique_inference_sound_one_array.

(* ---------------------------------------------------------------------------------------------- *)
(* every index tuple (several array entries included): the gather computed by the model *)

(* leaf_gather is index_leaf for at most one array entry, index_adv (broadcast advanced indices) beyond *)
Theorem leaf_gather_cases : forall sh l g, leaf_gather sh l = Ok g ->
  index_leaf sh l = Ok (Some g) \/ (index_leaf sh l = Ok None /\ index_adv sh l = Ok g).
Proof. exact leaf_gather_inv. Qed.
Print Assumptions leaf_gather_cases.

(* every selected position lies inside the leaf *)
Theorem gather_positions_in_range : forall sh l g, leaf_gather sh l = Ok g ->
  Forall (fun q => q < prod sh) (g_sel g).
Proof. exact leaf_gather_in_range. Qed.
Print Assumptions gather_positions_in_range.

(* the transpose of x[indices] is the scatter-add of the same position list into zeros(leaf shape) *)
Theorem index_T_is_scatter_add_any_tuple : forall (K : Type) (k0 k1 : K) (kadd kmul ksub : K -> K -> K) (kopp : K -> K),
  ring_theory k0 k1 kadd kmul ksub kopp eq ->
  forall sh l g (x y : list K), leaf_gather sh l = Ok g -> length x = prod sh ->
  dot k0 kadd kmul (gather_data k0 (g_sel g) x) y = dot k0 kadd kmul x (scatter_add k0 kadd (prod sh) (g_sel g) y).
Proof. exact leaf_adjoint_l. Qed.
Print Assumptions index_T_is_scatter_add_any_tuple.

(* P @ P.T is the identity exactly when the gather positions of the tuple are pairwise distinct *)
Theorem PPt_identity_iff_any_tuple : forall (K : Type) (k0 k1 : K) (kadd kmul ksub : K -> K -> K) (kopp : K -> K),
  ring_theory k0 k1 kadd kmul ksub kopp eq ->
  forall sh l g, k1 <> k0 -> leaf_gather sh l = Ok g ->
  ((forall y, length y = length (g_sel g) ->
      gather_data k0 (g_sel g) (scatter_add k0 kadd (prod sh) (g_sel g) y) = y) <-> NoDup (g_sel g)).
Proof. exact leaf_PPt_identity_iff_l. Qed.
Print Assumptions PPt_identity_iff_any_tuple.

(* hence IndexTransposeRule is sound on every operator whose flag was INFERRED (not user-given) *)
Theorem PPt_rule_sound_when_inferred : forall (K : Type) (k0 k1 : K) (kadd kmul ksub : K -> K -> K) (kopp : K -> K),
  ring_theory k0 k1 kadd kmul ksub kopp eq ->
  forall sh l g y, k1 <> k0 -> infer_unique l None = true -> leaf_gather sh l = Ok g ->
  length y = length (g_sel g) ->
  gather_data k0 (g_sel g) (scatter_add k0 kadd (prod sh) (g_sel g) y) = y.
Proof. exact leaf_PPt_inferred_l. Qed.
Print Assumptions PPt_rule_sound_when_inferred.

(* several array entries, none of them an integer array: the broadcast-first enumeration and the in-place
   one (one merged axis) never repeat a position *)
Theorem broadcast_masks_select_distinct : forall sh l g, forallb is_basic_or_mask l = true ->
  index_adv sh l = Ok g -> NoDup (g_sel g).
Proof. exact index_adv_nodup. Qed.
Print Assumptions broadcast_masks_select_distinct.

Theorem unique_inference_spec : forall l user,
  infer_unique l user = if forallb is_basic_or_mask l then true else match user with Some b => b | None => false end.
Proof. exact infer_unique_spec. Qed.
Print Assumptions unique_inference_spec.

(* ... whereas the presence of a mask alone would not be enough: a mask with one True entry next to an
   integer array that repeats a value selects an element twice; the code's inference answers False there
   (seeded mutant C12-r3m2 "unique as soon as there is a mask") *)
Theorem unique_if_any_mask_refuted : exists sh l g, existsb is_mask l = true /\ leaf_gather sh l = Ok g /\
  ~ NoDup (g_sel g) /\ infer_unique l None = false.
Proof. exact unique_if_any_mask_refuted_l. Qed.
Print Assumptions unique_if_any_mask_refuted.

(* ---------------------------------------------------------------------------------------------- *)
(* the multiplicity pipeline of TransposeIndexRule (definitions of Model/Algebra.v) *)

(* jnp.unique(size=n, fill_value=-1, return_counts=True) + zeros(n).at[unique].add(counts) on the
   NORMALISED index (code after fix 0c57282), for every n and every in-bounds array (flattened data of
   any rank, repeated entries, negative aliases): entry j is the number of times j is selected.
   This is the fact `lf_tindex` of Lemmas/Sound.v (C01) needs about coverage_of. *)
Theorem multiplicity_code_correct : forall n d j, Forall (zin_range n) d -> j < n ->
  nth j (coverage_of n (norm_index n d)) 0%Z = Z.of_nat (count_occ Nat.eq_dec (map (norm n) d) j).
Proof. exact multiplicity_code_correct_l. Qed.
Print Assumptions multiplicity_code_correct.

(* more generally the pipeline is right on RAW values whenever the distinct raw values fit in the n
   slots of unique(size=n) (fill rows count 0, the alias -1 = n-1 lands on one cell) ... *)
Theorem multiplicity_raw_bounded : forall n d j, Forall (zin_range n) d ->
  length (unique_counts d) <= n -> j < n ->
  nth j (coverage_of n d) 0%Z = Z.of_nat (count_occ Nat.eq_dec (map (norm n) d) j).
Proof. exact coverage_bounded. Qed.
Print Assumptions multiplicity_raw_bounded.

(* ... and wrong otherwise: the defect of the tree before fix 0c57282 (n = 1, index [0, -1]: the
   element is selected twice, the truncated pipeline counts 1) *)
Theorem multiplicity_raw_refuted : exists n d j, Forall (zin_range n) d /\ j < n /\
  nth j (coverage_of n d) 0%Z <> Z.of_nat (count_occ Nat.eq_dec (map (norm n) d) j).
Proof. exact coverage_raw_refuted. Qed.
Print Assumptions multiplicity_raw_refuted.

(* the diagonal with the computed coverage laid along axis a equals P^T P for the gather
   `sel_axis sh a (map (norm n) d)` (integer array d on axis a, every other axis whole), for every
   leaf shape, axis and in-bounds array (uses the C11 meaning of a 1-d DiagonalOperator: diag_along) *)
Theorem PtP_diagonal_on_axis : forall (K : Type) (k0 k1 : K) (kadd kmul ksub : K -> K -> K) (kopp : K -> K),
  ring_theory k0 k1 kadd kmul ksub kopp eq ->
  forall (sh : list nat) (a : nat) (d : list Z) (x : list K) (p : nat),
  a < length sh -> Forall (zin_range (nth a sh 0)) d -> p < prod sh ->
  let n := nth a sh 0 in
  let sel := sel_axis sh a (map (norm n) d) in
  let v := map (fun c => nat_mul k0 kadd (Z.to_nat c) k1) (coverage_of n (norm_index n d)) in
  nth p (scatter_add k0 kadd (prod sh) sel (gather_data k0 sel x)) k0 = nth p (diag_along k0 kmul sh a v x) k0.
Proof. exact PtP_rule_sound_l. Qed.
Print Assumptions PtP_diagonal_on_axis.

(* furax's indexed_axes logic meets NumPy's semantics: a tuple with exactly one indexed axis, whose entry
   at that (possibly negative) position is an integer array, gathers along the corresponding axis of
   the leaf and leaves every other axis whole - wherever the Ellipsis stands *)
Theorem single_indexed_array_gathers_along_axis : forall l sh axis ash d n g,
  indexed_axes (map abs_entry l) = [axis] -> py_nth l axis = Some (XArr ash d) -> py_nth sh axis = Some n ->
  index_leaf sh l = Ok (Some g) ->
  let a := axis_pos (length sh) axis in
  a < length sh /\ nth a sh 0 = n /\ Forall (zin_range n) d /\ g_sel g = sel_axis sh a (map (norm n) d).
Proof. exact single_array_gather. Qed.
Print Assumptions single_indexed_array_gathers_along_axis.

(* TransposeIndexRule is sound: whenever it fires, the DiagonalOperator(coverage, axis_destination=axis)
   it returns acts as P^T P on every leaf of the operator on which the index expression evaluates *)
Theorem PtP_rule_sound : forall (K : Type) (k0 k1 : K) (kadd kmul ksub : K -> K -> K) (kopp : K -> K),
  ring_theory k0 k1 kadd kmul ksub kopp eq ->
  forall o axis cov sh g (x : list K) p,
  TransposeIndex_rule o = Ok (Some (axis, cov)) -> In sh (i_in o) ->
  index_leaf sh (i_ix o) = Ok (Some g) -> p < prod sh ->
  let a := axis_pos (length sh) axis in
  let v := map (fun c => nat_mul k0 kadd (Z.to_nat c) k1) cov in
  nth p (scatter_add k0 kadd (prod sh) (g_sel g) (gather_data k0 (g_sel g) x)) k0 =
  nth p (diag_along k0 kmul sh a v x) k0.
Proof. exact PtP_rule_sound_full. Qed.
Print Assumptions PtP_rule_sound.

(* when the rule fires: not flagged unique, exactly one indexed axis, one common leaf shape, the entry
   at that (possibly negative) position is an integer array, coverage computed on shape[axis] *)
Theorem PtP_rule_fires_only_if : forall o axis cov, TransposeIndex_rule o = Ok (Some (axis, cov)) ->
  i_unique o = false /\ Index_axes o = [axis] /\
  exists sh rest ash d n, i_in o = sh :: rest /\ forallb (sh_eqb sh) rest = true /\
    py_nth (i_ix o) axis = Some (XArr ash d) /\ py_nth sh axis = Some n /\
    cov = coverage_of n (norm_index n d).
Proof. exact TransposeIndex_rule_inv. Qed.
Print Assumptions PtP_rule_fires_only_if.

Theorem PtP_rule_skips_unique : forall o, i_unique o = true -> TransposeIndex_rule o = Ok None.
Proof. exact TransposeIndex_rule_unique. Qed.
Print Assumptions PtP_rule_skips_unique.

(* P @ P.T -> identity fires exactly on operators flagged unique *)
Theorem PPt_rule_fires_iff_unique : forall o, IndexTranspose_rule o = if i_unique o then Some [] else None.
Proof. exact IndexTranspose_rule_spec. Qed.
Print Assumptions PPt_rule_fires_iff_unique.

(* ---------------------------------------------------------------------------------------------- *)
(* indexed_axes (Model/Algebra.v) *)

(* without Ellipsis: the positions of the entries that are not slice(None) ... *)
Theorem indexed_axes_spec_no_ellipsis : forall l, no_ell l -> indexed_axes l = nonfull_pos l 0.
Proof. exact indexed_axes_noell. Qed.
Print Assumptions indexed_axes_spec_no_ellipsis.

(* ... with one: positions before it, then positions after it numbered negatively from the end *)
Theorem indexed_axes_spec : forall pre post, no_ell pre ->
  indexed_axes (pre ++ IEll :: post) =
  nonfull_pos pre 0 ++ map (fun z => (z - Z.of_nat (length (pre ++ IEll :: post)))%Z) (nonfull_pos post (S (length pre))).
Proof. exact indexed_axes_ell. Qed.
Print Assumptions indexed_axes_spec.

Theorem nonfull_pos_spec : forall l k z, In z (nonfull_pos l k) <->
  exists j e, nth_error l j = Some e /\ is_slice_all e = false /\ z = Z.of_nat (k + j).
Proof. exact nonfull_pos_in. Qed.
Print Assumptions nonfull_pos_spec.

(* reduce() returns the identity only for operators that select every element of every leaf in order *)
Theorem reduce_identity_only_if_noop : forall o sh g, Index_reduce_is_identity o = true ->
  index_leaf sh (i_ix o) = Ok (Some g) -> g_sel g = seq 0 (prod sh) /\ g_out g = sh.
Proof. exact reduce_identity_only_if_noop_l. Qed.
Print Assumptions reduce_identity_only_if_noop.

(* ---------------------------------------------------------------------------------------------- *)
(* PackOperator *)

(* on every leaf the pack operator IS the index operator of the bare mask ... *)
Theorem pack_is_index_by_mask : forall msh bits ins,
  Pack_gathers (mkPop msh bits ins) = gathers ins (wrap (ASingle (XMask msh bits))).
Proof. exact pack_is_index_l. Qed.
Print Assumptions pack_is_index_by_mask.

(* ... which on a leaf of shape mask.shape ++ rest selects, in order, the rows at the True positions *)
Theorem pack_leaf_closed_form : forall msh bits rest, msh <> [] -> length bits = prod msh ->
  index_leaf (msh ++ rest) [XMask msh bits] =
  Ok (Some (mkG (length (true_positions bits) :: rest) (pack_sel bits (prod rest)))).
Proof. exact pack_leaf_l. Qed.
Print Assumptions pack_leaf_closed_form.

(* PackUnpackRule (pack @ pack.T -> identity, unconditionally) is sound: a mask never selects twice *)
Theorem pack_unpack_rule_sound : forall msh bits sh g, index_leaf sh [XMask msh bits] = Ok (Some g) -> NoDup (g_sel g).
Proof. exact pack_nodup_l. Qed.
Print Assumptions pack_unpack_rule_sound.

(* ---------------------------------------------------------------------------------------------- *)
(* the constructor, with or without out_structure *)

Theorem ctor_without_out_structure : forall a ins user gs, count_ell (wrap a) <= 1 ->
  existsb is_mask (wrap a) = false -> gathers ins (wrap a) = Ok gs ->
  Index_ctor a ins None user = Ok (mkIop (wrap a) ins (map g_out gs) (infer_unique (wrap a) user)).
Proof. exact ctor_without_out_l. Qed.
Print Assumptions ctor_without_out_structure.

Theorem ctor_with_out_structure : forall a ins o user, count_ell (wrap a) <= 1 ->
  Index_ctor a ins (Some o) user = Ok (mkIop (wrap a) ins o (infer_unique (wrap a) user)).
Proof. exact ctor_with_out_l. Qed.
Print Assumptions ctor_with_out_structure.

Theorem ctor_rejects : forall a ins outs user,
  (1 < count_ell (wrap a) \/ (outs = None /\ existsb is_mask (wrap a) = true)) ->
  Index_ctor a ins outs user = Err ValueError.
Proof. exact ctor_rejects_l. Qed.
Print Assumptions ctor_rejects.

Theorem ctor_accepted_inv : forall a ins outs user o, Index_ctor a ins outs user = Ok o ->
  count_ell (wrap a) <= 1 /\ i_ix o = wrap a /\ i_in o = ins /\ i_unique o = infer_unique (wrap a) user /\
  match outs with
  | Some s => i_out o = s
  | None => existsb is_mask (wrap a) = false /\ exists gs, gathers ins (wrap a) = Ok gs /\ i_out o = map g_out gs
  end.
Proof. exact ctor_ok_inv_l. Qed.
Print Assumptions ctor_accepted_inv.

(* ---------------------------------------------------------------------------------------------- *)
(* non-vacuity: the hypotheses are satisfiable, on non-trivial instances *)
Example ex_negative_step : slice_coords 5 (Some (-1)%Z) None (Some (-2)%Z) = Ok [4; 2; 0].
Proof. reflexivity. Qed.
Example ex_front_placement :
  index_leaf [2; 3; 4] [XSlice None None None; XInt 0; XEll; XArr [3] [1; 0; 2]%Z]
  = Ok (Some (mkG [3; 2] [1; 13; 0; 12; 2; 14])).
Proof. reflexivity. Qed.
Example ex_mask_unique : exists g, infer_unique [XEll; XMask [3] [true; false; true]] None = true /\
  index_leaf [2; 3] [XEll; XMask [3] [true; false; true]] = Ok (Some g) /\ g_sel g = [0; 2; 3; 5].
Proof. eexists. repeat split; reflexivity. Qed.
Example ex_multiplicity_aliases : coverage_of 2 (norm_index 2 [0; 1; -1; -2]%Z) = [2; 2]%Z.
Proof. reflexivity. Qed.
Example ex_rule_fires : exists o, Index_ctor (ATuple [XEll; XArr [3] [1; 1; -3]%Z]) [[2; 3]] None None = Ok o /\
  TransposeIndex_rule o = Ok (Some ((-1)%Z, [1; 2; 0]%Z)) /\ IndexTranspose_rule o = None.
Proof. eexists. repeat split; reflexivity. Qed.
Example ex_noop : exists o, Index_ctor (ATuple [XSlice None None None; XEll]) [[2; 3]] None None = Ok o /\
  Index_reduce_is_identity o = true.
Proof. eexists. split; reflexivity. Qed.
Example ex_ctor_mask_needs_out : Index_ctor (ASingle (XMask [2] [true; false])) [[2; 3]] None None = Err ValueError.
Proof. reflexivity. Qed.

(* several array entries: a mask and an integer array separated by a slice (broadcast axis in front), a
   rank-2 mask next to an array (in place), two masks (inferred unique, distinct positions), and a mask
   next to an integer array that repeats an element - for which the inference says False *)
Example ex_mask_array_front :
  leaf_gather [2; 3; 4] [XMask [2] [true; true]; XSlice None None None; XArr [2] [1; -1]%Z]
  = Ok (mkG [2; 3] [1; 5; 9; 15; 19; 23]).
Proof. reflexivity. Qed.
Example ex_mask2_array_in_place :
  leaf_gather [2; 3; 4] [XMask [2; 3] [true; false; true; false; false; true]; XArr [3] [1; -1; 0]%Z]
  = Ok (mkG [3] [1; 11; 20]).
Proof. reflexivity. Qed.
Example ex_broadcast_rank2 :
  leaf_gather [2; 3; 4] [XArr [2] [1; 0]%Z; XEll; XArr [2; 1] [1; -1]%Z]
  = Ok (mkG [2; 2; 3] [13; 17; 21; 1; 5; 9; 15; 19; 23; 3; 7; 11]).
Proof. reflexivity. Qed.
Example ex_two_masks_unique : exists g, infer_unique [XMask [2] [true; true]; XEll; XMask [3] [true; false; true]] None = true /\
  leaf_gather [2; 2; 3] [XMask [2] [true; true]; XEll; XMask [3] [true; false; true]] = Ok g /\ g_sel g = [0; 3; 8; 11].
Proof. eexists. repeat split; reflexivity. Qed.
Example ex_mask_plus_array_repeats : exists g,
  leaf_gather [2; 3] [XMask [2] [true; false]; XArr [2] [1; 1]%Z] = Ok g /\ g_sel g = [1; 1] /\
  infer_unique [XMask [2] [true; false]; XArr [2] [1; 1]%Z] None = false.
Proof. eexists. repeat split; reflexivity. Qed.
Example ex_broadcast_mismatch :
  leaf_gather [2; 3; 4] [XArr [3] [1; -1; 0]%Z; XArr [2] [2; 1]%Z] = Err ValueError.
Proof. reflexivity. Qed.
