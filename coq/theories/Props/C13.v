(* C13 - axis operators are exact relabellings.
   "Move-axis, ravel and reshape operators act on every leaf exactly as numpy.moveaxis, flattening of
   the axes between two given positions, and numpy.reshape (including inference of a -1 size), for
   all legal arguments and for pytrees with leaves of different shapes.  Each merely relabels elements,
   so its transpose is its inverse; arguments that cannot apply to some leaf are rejected at
   construction, and such an operator is reduced to the identity only if it leaves every leaf's shape
   unchanged."
   Statements only; every proof is `exact <lemma>` (Lemmas/AxesL.v) over the model Model/Axes.v.
   Pytrees are lists of leaves; K is an arbitrary element type (k0 is only the default of `nth`). *)
From Coq Require Import ZArith NArith List Permutation.
From Furax Require Import Model.Axes Lemmas.AxesL.
Import ListNotations.
Close Scope Z_scope.
Open Scope nat_scope.

(* ---------------------------------------------------------------------------------------------- *)
(* MoveAxisOperator *)

(* numpy.moveaxis' order, for every rank r and all legal (normalised) tuples of any length:
   a permutation of range(r) that puts source axis s_k at position d_k and keeps the remaining axes
   in increasing order *)
Theorem moveaxis_order_perm : forall r s d, legal r s d ->
  let p := moveaxis_order r s d in
  Permutation p (seq 0 r) /\
  (forall k, k < length s -> nth (nth k d 0) p 0 = nth k s 0) /\
  filter (nin s) p = filter (nin s) (seq 0 r).
Proof. exact moveaxis_order_perm_l. Qed.
Print Assumptions moveaxis_order_perm.

(* ... and that specification determines the order *)
Theorem moveaxis_order_unique : forall r s d p p', legal r s d ->
  mspec r s d p -> mspec r s d p' -> p = p'.
Proof. exact mspec_unique. Qed.
Print Assumptions moveaxis_order_unique.

(* decisions of jnp.moveaxis on integer axes of any sign: legal arguments are accepted ... *)
Theorem moveaxis_accepts_legal : forall r src dst, legalZ r src dst ->
  moveaxis_perm r src dst = Ok (moveaxis_order r (map (nz r) src) (map (nz r) dst)).
Proof. exact moveaxis_perm_legal. Qed.
Print Assumptions moveaxis_accepts_legal.

(* ... an out-of-range axis or tuples of different lengths raise ValueError ... *)
Theorem moveaxis_rejects : forall r src dst,
  (~ Forall (in_rangeZ r) src \/ ~ Forall (in_rangeZ r) dst \/ length src <> length dst) ->
  moveaxis_perm r src dst = Err ValueError.
Proof. exact moveaxis_perm_errors. Qed.
Print Assumptions moveaxis_rejects.

(* ... and whatever is accepted has in-range axes, equal lengths and no repeated source axis
   (a repeated destination is NOT rejected by jnp.moveaxis: see the boundary example below) *)
Theorem moveaxis_accepted_inv : forall r src dst p, moveaxis_perm r src dst = Ok p ->
  Forall (in_rangeZ r) src /\ Forall (in_rangeZ r) dst /\ length src = length dst /\
  NoDup (map (nz r) src) /\ p = moveaxis_order r (map (nz r) src) (map (nz r) dst).
Proof. exact moveaxis_perm_ok_inv. Qed.
Print Assumptions moveaxis_accepted_inv.

(* shape and element map: out.shape[d_k] = in.shape[s_k]; out[I] = in[J] with J[p[k]] = I[k] *)
Theorem moveaxis_spec : forall (K : Type) (k0 : K) (a : arr K) src dst, wf_arr a ->
  legalZ (length (ashape a)) src dst ->
  let r := length (ashape a) in
  let p := order_of K a src dst in
  exists b, moveaxis K k0 src dst a = Ok b /\ wf_arr b /\ ashape b = permute 0 (ashape a) p /\
    (forall k, k < length src ->
       nth (nz r (nth k dst 0%Z)) (ashape b) 0 = nth (nz r (nth k src 0%Z)) (ashape a) 0) /\
    forall I, in_range (ashape b) I ->
      let J := permute 0 I (invperm p) in
      get K k0 b I = get K k0 a J /\ in_range (ashape a) J /\
      forall k, k < r -> nth (nth k p 0) J 0 = nth k I 0.
Proof. exact moveaxis_spec_l. Qed.
Print Assumptions moveaxis_spec.

(* moveaxis(d, s) undoes moveaxis(s, d): every rank, tuples of any signs and lengths *)
Theorem moveaxis_inverse : forall (K : Type) (k0 : K) (a : arr K) src dst, wf_arr a ->
  legalZ (length (ashape a)) src dst ->
  bind (moveaxis K k0 src dst a) (moveaxis K k0 dst src) = Ok a.
Proof. exact moveaxis_inverse_l. Qed.
Print Assumptions moveaxis_inverse.

(* ... hence on pytrees whose leaves have different ranks, as long as the tuples are legal on each *)
Theorem moveaxis_inverse_pytree : forall (K : Type) (k0 : K) src dst ins ins' (x : list (arr K)),
  Forall (leaf_legal K src dst) x ->
  bind (ma_mv K k0 (mkMove src dst ins) x) (ma_mv K k0 (mkMove dst src ins')) = Ok x.
Proof. exact ma_mv_inverse. Qed.
Print Assumptions moveaxis_inverse_pytree.

(* transpose() = MoveAxisOperator(destination, source, out_structure): M^T o M = id ... *)
Theorem moveaxis_T_inverse : forall (K : Type) (k0 : K) op opT (x : list (arr K)),
  conforms K x (ma_in op) -> op_legal op -> ma_transpose op = Ok opT ->
  exists y, ma_mv K k0 op x = Ok y /\ conforms K y (ma_in opT) /\ ma_mv K k0 opT y = Ok x.
Proof. exact ma_T_after_op. Qed.
Print Assumptions moveaxis_T_inverse.

(* ... and op.T.T = op with op.T legal on the out structure, so that M o M^T = id as well (apply
   moveaxis_T_inverse to op.T): a relabelling whose transpose is a two-sided inverse.
   [moveaxis_T_adjoint: what is proved is this pair; <Mx,y> = <x,M^T y> follows for a bijective
   relabelling but is not stated over a ring here - see Check.partial] *)
Theorem moveaxis_T_involutive : forall op opT, op_legal op -> ma_transpose op = Ok opT ->
  op_legal opT /\ ma_transpose opT = Ok op.
Proof. exact ma_transpose_involutive. Qed.
Print Assumptions moveaxis_T_involutive.

(* MoveAxisInverseRule: whenever it fires, left o right is the identity (it compares the
   un-normalised tuples: it can miss an inverse pair, it cannot fire wrongly) *)
Theorem moveaxis_rule_sound : forall (K : Type) (k0 : K) l r (x : list (arr K)),
  moveaxis_rule l r = true -> Forall (leaf_legal K (ma_src r) (ma_dst r)) x ->
  bind (ma_mv K k0 r x) (ma_mv K k0 l) = Ok x.
Proof. exact moveaxis_rule_sound_l. Qed.
Print Assumptions moveaxis_rule_sound.

(* ---------------------------------------------------------------------------------------------- *)
(* RavelOperator *)

(* the constructor accepts iff on every leaf the normalised first axis is not after the last one *)
Theorem ravel_ctor_iff : forall oid first last ins, ins <> [] ->
  (Ravel_ctor oid first last ins = Ok (mkRavel oid first last ins) <->
   Forall (ravel_ordered first last) ins).
Proof. exact ravel_ctor_iff_l. Qed.
Print Assumptions ravel_ctor_iff.

Theorem ravel_ctor_rejects_with_ValueError : forall oid first last ins e,
  Ravel_ctor oid first last ins = Err e -> e = ValueError.
Proof. exact ravel_ctor_err. Qed.

(* `assert False, 'unreachable'` of RavelOperator.mv is unreachable *)
Theorem ravel_assert_unreachable : forall oid first last ins op,
  Ravel_ctor oid first last ins = Ok op ->
  forall sh, In sh (rv_in op) -> rv_leaf_shape (rv_first op) (rv_last op) sh <> Err AssertionError.
Proof. exact ravel_assert_unreachable_l. Qed.
Print Assumptions ravel_assert_unreachable.

(* shape = prefix ++ [product of the flattened block] ++ suffix, size preserved (in-range axes; no
   empty axis outside the block: jnp.reshape cannot infer a -1 beside a zero size) *)
Theorem ravel_spec : forall first last (sh : shape) f l,
  norm_axis (length sh) first = Z.of_nat f -> norm_axis (length sh) last = Z.of_nat l ->
  f <= l -> l < length sh ->
  prod (firstn f sh) * prod (skipn (S l) sh) <> 0 ->
  let out := firstn f sh ++ [prod (firstn (S l - f) (skipn f sh))] ++ skipn (S l) sh in
  rv_leaf_shape first last sh = Ok out /\ prod out = prod sh.
Proof. exact ravel_spec_l. Qed.
Print Assumptions ravel_spec.

(* ---------------------------------------------------------------------------------------------- *)
(* ReshapeOperator *)

(* accepted iff for every leaf the target has sizes >= -1 and either no -1 and the leaf's size, or one
   -1 that completes to the leaf's size in exactly one way (the inferred size is the unique one) *)
Theorem reshape_ctor_iff : forall oid t ins,
  Reshape_ctor oid t ins = Ok (mkReshape oid t ins) <-> Forall (valid_target t) ins.
Proof. exact reshape_ctor_iff_l. Qed.
Print Assumptions reshape_ctor_iff.

(* for an accepted target, furax's _normalize_shape and jnp's reshape agree on the completed shape,
   which has non-negative sizes and the leaf's size *)
Theorem reshape_completed_shape : forall t leaf, valid_target t leaf ->
  normalize_shape t leaf = Ok (target_shape t leaf) /\
  jnp_reshape_shape leaf t = Ok (map Z.to_nat (target_shape t leaf)) /\
  prodZ (target_shape t leaf) = sizeZ leaf /\
  existsb (fun x => (x <? 0)%Z) (target_shape t leaf) = false.
Proof. exact valid_target_shapes. Qed.
Print Assumptions reshape_completed_shape.

(* ---------------------------------------------------------------------------------------------- *)
(* both: values, lazy transpose, reduce, inverse rule *)

(* defined on the whole in structure as soon as out_structure() is; row-major data unchanged *)
Theorem reshape_defined_data_unchanged : forall (K : Type) (k0 : K) o (x : list (arr K)) outs,
  map ashape x = rr_in o -> rr_out o = Ok outs ->
  exists y, apply K k0 (OpRR o) x = Ok y /\ map ashape y = outs /\ map adata y = map adata x.
Proof. exact rr_defined. Qed.
Print Assumptions reshape_defined_data_unchanged.

(* hence the dense matrix (columns = images of the basis vectors) is the identity matrix returned
   by as_matrix(), and so is the dense matrix of the lazy transpose: transpose = inverse *)
Theorem reshape_data_identity : forall (K : Type) (k0 k1 : K) o outs, rr_out o = Ok outs ->
  columns K k0 k1 (apply K k0 (OpRR o)) (rr_in o) = Ok (rr_as_matrix K k0 k1 o) /\
  columns K k0 k1 (apply K k0 (OpRRT o)) outs = Ok (eye K k0 k1 (tree_size outs)) /\
  tree_size outs = tree_size (rr_in o).
Proof.
  exact (fun K k0 k1 o outs H =>
    conj (rr_matrix_identity K k0 k1 o outs H)
         (conj (rrT_matrix_identity K k0 k1 o outs H) (tree_size_out o outs H))).
Qed.
Print Assumptions reshape_data_identity.

(* ReshapeTransposeOperator gives back the operator's input (shapes and data) ... *)
Theorem reshapeT_restores_shape : forall (K : Type) (k0 : K) o (x y : list (arr K)),
  conforms K x (rr_in o) -> apply K k0 (OpRR o) x = Ok y -> apply K k0 (OpRRT o) y = Ok x.
Proof. exact reshapeT_restores_l. Qed.
Print Assumptions reshapeT_restores_shape.

(* ... and the operator undoes its transpose on the out structure *)
Theorem reshape_after_T : forall (K : Type) (k0 : K) o (y : list (arr K)) outs,
  rr_out o = Ok outs -> conforms K y outs ->
  exists x, apply K k0 (OpRRT o) y = Ok x /\ conforms K x (rr_in o) /\ apply K k0 (OpRR o) x = Ok y.
Proof. exact op_after_T_l. Qed.
Print Assumptions reshape_after_T.

(* reduce() returns the IdentityOperator iff out_structure == in_structure (every leaf keeps its
   shape), and then the operator is the identity map *)
Theorem reduce_identity_iff_noop : forall o s,
  reduce1 (OpRR o) = Ok (OpId s) <-> (rr_out o = Ok (rr_in o) /\ s = rr_in o).
Proof. exact reduce_identity_iff_l. Qed.
Print Assumptions reduce_identity_iff_noop.

Theorem reduce_noop_is_the_identity_map : forall (K : Type) (k0 : K) o (x : list (arr K)),
  rr_out o = Ok (rr_in o) -> map ashape x = rr_in o -> apply K k0 (OpRR o) x = Ok x.
Proof. exact reduce_noop_is_identity. Qed.
Print Assumptions reduce_noop_is_the_identity_map.

(* ReshapeInverseRule (`is`-based): when it fires on a composable pair whose object identifiers are
   faithful, the composition is the identity on every input of its in structure *)
Theorem reshape_rule_sound : forall (K : Type) (k0 : K) l r c,
  reshape_rule l r = true ->
  (forall a b, (l = OpRR a \/ l = OpRRT a) -> (r = OpRR b \/ r = OpRRT b) -> rr_oid a = rr_oid b -> a = b) ->
  matmul l r = Ok c ->
  forall ins (x : list (arr K)), in_structure r = Ok ins -> conforms K x ins -> apply K k0 c x = Ok x.
Proof. exact reshape_rule_sound_l. Qed.
Print Assumptions reshape_rule_sound.

(* ---------------------------------------------------------------------------------------------- *)
(* non-vacuity and boundary examples (computed) *)
Open Scope Z_scope.

Example legal_example : legal 4 [1; 0]%nat [2; 3]%nat /\ moveaxis_order 4 [1; 0]%nat [2; 3]%nat = [2; 3; 1; 0]%nat.
Proof.
  split; [|reflexivity]. unfold legal. repeat split; try reflexivity;
  try (repeat constructor; simpl; intuition discriminate);
  intros x H; simpl in H; intuition (subst; repeat constructor).
Qed.

Example legalZ_example : moveaxis_perm 3 [-1; 0] [0; -2] = Ok [2; 0; 1]%nat.
Proof. reflexivity. Qed.

(* a pytree with leaves of ranks 2 and 3; negative axes mean different axes on each *)
Example moveaxis_inverse_example :
  let x := [arange [2; 3]%nat; arange [2; 2; 3]%nat] in
  bind (ma_mv Z 0 (mkMove [-1] [0] []) x) (fun y => Ok (map ashape y)) = Ok [[3; 2]; [3; 2; 2]]%nat /\
  bind (ma_mv Z 0 (mkMove [-1] [0] []) x) (ma_mv Z 0 (mkMove [0] [-1] [])) = Ok x.
Proof. split; reflexivity. Qed.

(* the inverse rule can MISS: (0 -> 1) then (-1 -> 0) is the identity on rank 2, but the tuples
   (-1,) and (1,) differ, so no reduction; by moveaxis_rule_sound it can never fire wrongly *)
Example moveaxis_rule_can_miss :
  let r := mkMove [0] [1] [[2; 3]%nat] in
  let l := mkMove [-1] [0] [[3; 2]%nat] in
  moveaxis_rule l r = false /\
  bind (ma_mv Z 0 r [arange [2; 3]%nat]) (ma_mv Z 0 l) = Ok [arange [2; 3]%nat].
Proof. split; reflexivity. Qed.

(* boundary: jnp.moveaxis accepts a repeated destination (numpy raises), rejects a repeated source *)
Example jnp_accepts_repeated_destination : moveaxis_perm 2 [0; 1] [0; 0] = Ok [1; 0]%nat.
Proof. reflexivity. Qed.
Example jnp_rejects_repeated_source : moveaxis_perm 2 [0; 0] [0; 1] = Err TypeError.
Proof. reflexivity. Qed.

Example ravel_examples :
  Ravel_ctor 1 0 (-1) [[2; 3]; [2; 2; 2]]%nat = Ok (mkRavel 1 0 (-1) [[2; 3]; [2; 2; 2]]%nat) /\
  Ravel_ctor 1 1 (-3) [[1; 2; 3]%nat] = Err ValueError /\
  Ravel_ctor 1 1 0 [[1; 2; 3]%nat] = Err ValueError /\
  rv_leaf_shape (-2) (-1) [2; 2; 3]%nat = Ok [2; 6]%nat.
Proof. repeat split; reflexivity. Qed.

(* boundary: out-of-range axes are accepted and append a unit axis; an empty axis outside the
   flattened block makes jnp.reshape fail (the guard of ravel_spec is needed) *)
Example ravel_out_of_range_accepted :
  Ravel_ctor 1 3 5 [[2; 3]%nat] = Ok (mkRavel 1 3 5 [[2; 3]%nat]) /\
  rv_leaf_shape 3 5 [2; 3]%nat = Ok [2; 3; 1]%nat.
Proof. split; reflexivity. Qed.
Example ravel_guard_needed : rv_leaf_shape 1 2 [0; 2; 3]%nat = Err ZeroDivisionError.
Proof. reflexivity. Qed.

Example reshape_examples :
  valid_target [2; -1] [2; 3]%nat /\ valid_target [1; -1; 4] [1; 6; 2; 4]%nat /\
  Reshape_ctor 1 [-1; 2; -1] [[1; 2; 3]%nat] = Err ValueError /\
  Reshape_ctor 1 [7; -1; 1] [[1; 2; 3]%nat] = Err ValueError /\
  Reshape_ctor 1 [0; -1] [[2; 3]%nat] = Err ZeroDivisionError /\
  Reshape_ctor 1 [2; -1] [[2; 3]; [2; 5]]%nat = Ok (mkReshape 1 [2; -1] [[2; 3]; [2; 5]]%nat).
Proof.
  split; [apply check_leaf_iff; reflexivity|]. split; [apply check_leaf_iff; reflexivity|].
  repeat split; reflexivity.
Qed.

Example reduce_examples :
  reduce1 (OpRR (RRavel (mkRavel 1 1 1 [[2; 3; 4]; [4; 3; 2]]%nat))) = Ok (OpId [[2; 3; 4]; [4; 3; 2]]%nat) /\
  reduce1 (OpRR (RRavel (mkRavel 1 0 1 [[2; 3]%nat]))) = Ok (OpRR (RRavel (mkRavel 1 0 1 [[2; 3]%nat]))) /\
  (* same size, different shape: not the identity operator *)
  reduce1 (OpRR (RReshape (mkReshape 1 [3; 2] [[2; 3]%nat]))) = Ok (OpRR (RReshape (mkReshape 1 [3; 2] [[2; 3]%nat]))).
Proof. repeat split; reflexivity. Qed.

Example reshape_rule_examples :
  let a := RReshape (mkReshape 1 [-1] [[2; 3]%nat]) in
  let b := RReshape (mkReshape 2 [-1] [[2; 3]%nat]) in
  reshape_rule (OpRRT a) (OpRR a) = true /\ reshape_rule (OpRR a) (OpRRT a) = true /\
  reshape_rule (OpRRT b) (OpRR a) = false /\
  bind (matmul (OpRRT a) (OpRR a)) reduce = Ok (OpId [[2; 3]%nat]) /\
  bind (matmul (OpRR a) (OpRRT a)) reduce = Ok (OpId [[6]%nat]).
Proof. repeat split; reflexivity. Qed.

(* two DIFFERENT relabellings of one in-structure (re-chunking): r2 @ r1.T and r2.T @ r1 compose, the rule
   does not fire in either order, the composition is kept and is not the identity map *)
Example reshape_rule_different_operators :
  let r1 := RRavel (mkRavel 1 0 (-1) [[2; 3]%nat]) in
  let r2 := RReshape (mkReshape 2 [3; 2] [[2; 3]%nat]) in
  let r3 := RRavel (mkRavel 3 0 (-1) [[3; 2]%nat]) in
  bind (matmul (OpRR r2) (OpRRT r1)) reduce = Ok (OpComp (OpRR r2) (OpRRT r1)) /\
  bind (matmul (OpRRT r1) (OpRR r3)) reduce = Ok (OpComp (OpRRT r1) (OpRR r3)) /\
  out_structure (OpComp (OpRR r2) (OpRRT r1)) = Ok [[3; 2]%nat] /\
  in_structure (OpComp (OpRR r2) (OpRRT r1)) = Ok [[6]%nat] /\
  datas (apply Z 0 (OpComp (OpRRT r1) (OpRR r3)) [arange [3; 2]%nat]) = Ok [([2; 3]%nat, [0; 1; 2; 3; 4; 5])].
Proof. repeat split; reflexivity. Qed.
