(* C14 - the dense block-diagonal (einsum) operator and its rewritten-subscript transpose agree.
   Statements only; every proof is `exact <lemma>` (Lemmas/EinsumL.v) or a closed computation.

   Model: Model/Einsum.v.  `transposed_subscripts` / `transposed_triple` transcribe
   DenseBlockDiagonalOperator._get_transposed_subscripts of the tree WITH fix D1
   (fixes/D1-dense-transposed-subscripts.diff); `*_pinned` transcribe the pinned tree and are kept
   for the record of the defect (`*_refuted_pinned` below). *)
From Coq Require Import ZArith List String Ascii Ring.
From Furax Require Import Model.Einsum Lemmas.EinsumL.
Import ListNotations.

(* ---------------------------------------------------------------------------------------- *)
(* (a) What an accepted rewriting is, for ALL strings (raw characters, any dots):
   the leaf and output subscripts are kept; there is exactly one contracted letter sa (in blocks
   and leaf, not in the output) and exactly one free block letter ta (in blocks and output, not in
   the leaf); the output subscript with ta replaced by sa IS the leaf subscript; the blocks'
   subscript has sa and ta exchanged at EVERY occurrence. *)
Theorem rewrite_facts : forall l r o l' r' o',
  transposed_triple l r o = Ok (l', r', o') ->
  r' = r /\ o' = o /\
  exists sa ta,
    (forall c, contracted l r o c <-> c = sa) /\
    (forall c, free_axis l r o c <-> c = ta) /\
    sa <> ta /\
    replace_first ta sa o = r /\
    l' = map (swap_chr sa ta) l.
Proof. exact rewrite_facts_l. Qed.
Print Assumptions rewrite_facts.

(* for ellipsis-free subscripts: the two letters simply trade places in all three subscripts *)
Theorem rewrite_facts_letters : forall l r o l' r' o',
  no_dots l -> no_dots r -> no_dots o -> transposed_triple l r o = Ok (l', r', o') ->
  r' = r /\ o' = o /\
  exists sa ta, In sa l /\ In sa r /\ ~ In sa o /\ In ta l /\ In ta o /\ ~ In ta r /\ sa <> ta /\
    map (swap_chr sa ta) o = r /\ map (swap_chr sa ta) r = o /\ l' = map (swap_chr sa ta) l.
Proof. exact accepted_nodots. Qed.
Print Assumptions rewrite_facts_letters.

(* the string-level function is parse + rewrite + join *)
Theorem transposed_subscripts_spec : forall s s',
  transposed_subscripts s = Ok s' <->
  exists l r o l', parse_subscripts s = Ok (l, r, o) /\ transposed_triple l r o = Ok (l', r, o) /\
                   s' = join_subscripts l' r o.
Proof. exact transposed_ok. Qed.
Print Assumptions transposed_subscripts_spec.

Theorem parse_is_split : forall s l r o,
  parse_subscripts s = Ok (l, r, o) -> s = join_subscripts l r o /\ ~ In c_comma l.
Proof. intros s l r o H. split; [exact (parse_join _ _ _ _ H) | exact (parse_no_comma _ _ _ _ H)]. Qed.

(* ---------------------------------------------------------------------------------------- *)
(* (b) Exactly when a string is rejected, and how. *)
Theorem accepts_iff : forall l r o,
  (exists t, transposed_triple l r o = Ok t) <->
  exists sa ta,
    (forall c, contracted l r o c <-> c = sa) /\
    (forall c, free_axis l r o c <-> c = ta) /\
    replace_first ta sa o = r.
Proof. exact accepts_iff_l. Qed.
Print Assumptions accepts_iff.

Theorem rejects_without_rewriting : forall l r o e,
  transposed_triple l r o = Err e ->
  e = ValueError /\
  ~ exists sa ta,
      (forall c, contracted l r o c <-> c = sa) /\
      (forall c, free_axis l r o c <-> c = ta) /\
      replace_first ta sa o = r.
Proof. exact rejects_l. Qed.
Print Assumptions rejects_without_rewriting.

(* no third outcome: a rewriting or ValueError (never another exception, never a silent guess) *)
Theorem outcome_total : forall l r o,
  (exists t, transposed_triple l r o = Ok t) \/ transposed_triple l r o = Err ValueError.
Proof. exact (core_total swap_left_fixed). Qed.

Theorem every_rejection_is_ValueError : forall s e, transposed_subscripts s = Err e -> e = ValueError.
Proof. exact transposed_err. Qed.
Print Assumptions every_rejection_is_ValueError.

(* ---------------------------------------------------------------------------------------- *)
(* (c) Transposing twice gives the subscripts back (so op.T.T is op: same blocks, same string).
   The guard says that every dot of the blocks' subscript belongs to a '...'; without it the
   statement is false (see involutive_needs_wellformed_dots); einsum rejects such strings. *)
Theorem rewrite_involutive : forall s s1 l r o,
  parse_subscripts s = Ok (l, r, o) -> dots_wellformed l ->
  transposed_subscripts s = Ok s1 -> transposed_subscripts s1 = Ok s.
Proof. exact involutive_l. Qed.
Print Assumptions rewrite_involutive.

Open Scope string_scope.

Example involutive_needs_wellformed_dots :
  transposed_s "iii.,i->." = Ok "...i,i->." /\ transposed_s "...i,i->." = Err ValueError.
Proof. split; vm_compute; reflexivity. Qed.

(* ---------------------------------------------------------------------------------------- *)
(* (d) The rewritten subscripts, with the SAME block data, compute the exact adjoint:
   over any commutative ring, for all ellipsis-free subscripts, all blocks B, all leaves x on which
   einsum is defined (ranks fit, repeated letters have one size, output letters are bound) and all
   y in the output structure:  einsum(s')(B, y) is defined, has the structure of x, and
   <einsum(s)(B,x), y> = <x, einsum(s')(B,y)>. *)
Theorem rewrite_adjoint :
  forall (K : Type) (k0 k1 : K) (kadd kmul ksub : K -> K -> K) (kopp : K -> K),
  ring_theory k0 k1 kadd kmul ksub kopp (@eq K) ->
  forall l r o l' r' o' (B x y Ax : arr K),
  no_dots l -> no_dots r -> no_dots o ->
  transposed_triple l r o = Ok (l', r', o') ->
  einsum K k0 kadd kmul l r o B x = Some Ax ->
  shape y = shape Ax -> wf_arr K y ->
  exists ATy, einsum K k0 kadd kmul l' r' o' B y = Some ATy /\ shape ATy = shape x /\
              dot K k0 kadd kmul Ax y = dot K k0 kadd kmul x ATy.
Proof. exact adjoint_einsum. Qed.
Print Assumptions rewrite_adjoint.

(* the same for the operator on a pytree of leaves: one shared block array (Shared B) or one block
   array per leaf (PerLeaf Bs); the inner product of pytrees is the sum over the leaves; the
   structures are swapped (rewrite_structs is the middle conjunct) *)
Theorem rewrite_adjoint_mv :
  forall (K : Type) (k0 k1 : K) (kadd kmul ksub : K -> K -> K) (kopp : K -> K),
  ring_theory k0 k1 kadd kmul ksub kopp (@eq K) ->
  forall l r o l' r' o' (bl : blocks K) (xs ys Axs : list (arr K)),
  no_dots l -> no_dots r -> no_dots o ->
  transposed_triple l r o = Ok (l', r', o') ->
  mv K k0 kadd kmul l r o bl xs = Some Axs ->
  Forall2 (fun y Ax => shape y = shape Ax /\ wf_arr K y) ys Axs ->
  exists ATys, mv K k0 kadd kmul l' r' o' bl ys = Some ATys /\
               Forall2 (fun a x => shape a = shape x) ATys xs /\
               dot_leaves K k0 kadd kmul Axs ys = dot_leaves K k0 kadd kmul xs ATys.
Proof. exact adjoint_mv. Qed.
Print Assumptions rewrite_adjoint_mv.

(* The first clause of C14 ("applies einsum(subscripts, blocks, leaf) to each leaf: one shared block
   array, or one block array per leaf"), for every carrier and ALL strings, block arrays and pytrees
   of leaves: mv is defined iff every per-leaf einsum is (and the two trees have the same number of
   leaves), and then the n-th output leaf IS einsum(l,r->o)(B, n-th leaf) resp.
   einsum(l,r->o)(n-th block array, n-th leaf); a pytree without leaves is mapped to itself.
   The array library of blocks and leaves (jax.Array / numpy.ndarray) is not part of the model:
   the harness runs every layout with both and compares with this one model. *)
Theorem mv_applies_einsum_to_each_leaf_shared :
  forall (K : Type) (k0 : K) (kadd kmul : K -> K -> K) l r o (B : arr K) xs ys,
  mv K k0 kadd kmul l r o (Shared B) xs = Some ys <->
  List.length ys = List.length xs /\
  forall n x, nth_error xs n = Some x ->
              exists y, nth_error ys n = Some y /\ einsum K k0 kadd kmul l r o B x = Some y.
Proof. exact mv_shared_each_leaf. Qed.
Print Assumptions mv_applies_einsum_to_each_leaf_shared.

Theorem mv_applies_einsum_to_each_leaf_perleaf :
  forall (K : Type) (k0 : K) (kadd kmul : K -> K -> K) l r o (Bs xs ys : list (arr K)),
  mv K k0 kadd kmul l r o (PerLeaf Bs) xs = Some ys <->
  List.length Bs = List.length xs /\ List.length ys = List.length xs /\
  forall n B x, nth_error Bs n = Some B -> nth_error xs n = Some x ->
                exists y, nth_error ys n = Some y /\ einsum K k0 kadd kmul l r o B x = Some y.
Proof. exact mv_perleaf_each_leaf. Qed.
Print Assumptions mv_applies_einsum_to_each_leaf_perleaf.

Theorem mv_pytree_without_leaves :
  forall (K : Type) (k0 : K) (kadd kmul : K -> K -> K) l r o (B : arr K),
  mv K k0 kadd kmul l r o (Shared B) [] = Some [] /\ mv K k0 kadd kmul l r o (PerLeaf []) [] = Some [].
Proof. exact mv_no_leaves. Qed.

(* non-vacuity: 'ij,j->i' with one shared 2x3 block array on two leaves *)
Example mv_shared_two_leaves :
  option_map (map (fun a => (shape a, data a)))
    (mvZ ["i"; "j"]%char ["j"]%char ["i"]%char (Shared (mkZ [2; 3] [1; 2; 3; 4; 5; 6]%Z))
         [mkZ [3] [1; 0; 0]%Z; mkZ [3] [1; 1; 1]%Z])
  = Some [([2], [1; 4]%Z); ([2], [6; 15]%Z)].
Proof. vm_compute. reflexivity. Qed.

(* the general form behind (d): <einsum(l,r->o)(B,x), y> is the sum over ALL assignments of the
   letters of B[l] x[r] y[o], and that triple sum is invariant under renaming the letters along
   any involution p with p(o) = r *)
Theorem inner_product_is_triple_sum :
  forall (K : Type) (k0 k1 : K) (kadd kmul ksub : K -> K -> K) (kopp : K -> K),
  ring_theory k0 k1 kadd kmul ksub kopp (@eq K) ->
  forall l r o d (B x y : arr K),
  shape y = map d o -> wf_arr K y ->
  dot K k0 kadd kmul (einsum_d K k0 kadd kmul l r o d B x) y = Phi K k0 kadd kmul l r o d B x y.
Proof. exact inner_einsum. Qed.

Theorem triple_sum_renaming :
  forall (K : Type) (k0 k1 : K) (kadd kmul ksub : K -> K -> K) (kopp : K -> K),
  ring_theory k0 k1 kadd kmul ksub kopp (@eq K) ->
  forall (p : ascii -> ascii) l r o d (B x y : arr K),
  (forall c, p (p c) = c) -> map p o = r ->
  Phi K k0 kadd kmul l r o d B x y = Phi K k0 kadd kmul (map p l) r o (fun c => d (p c)) B y x.
Proof. exact Phi_rename. Qed.
Print Assumptions triple_sum_renaming.

(* ---------------------------------------------------------------------------------------- *)
(* Defect D1 (pinned tree): the literal first-occurrence swap breaks (a) and (d) as soon as a
   letter is repeated in the blocks' subscript. *)
Definition dotZ := dot Z 0%Z Z.add Z.mul.

Example rewrite_facts_refuted_pinned :
  transposed_pinned_s "iij,j->i" = Ok "jii,j->i" /\
  transposed_s "iij,j->i" = Ok "jji,j->i".
Proof. split; vm_compute; reflexivity. Qed.

Example rewrite_adjoint_refuted_pinned :
  exists l r o l' r' o' (B x y Ax ATy : arrZ),
    parse3 "iij,j->i" = Some (l, r, o) /\ no_dots l /\ no_dots r /\ no_dots o /\
    transposed_triple_pinned l r o = Ok (l', r', o') /\
    einsumZ l r o B x = Some Ax /\ shape y = shape Ax /\ wf_arr Z y /\
    einsumZ l' r' o' B y = Some ATy /\
    dotZ Ax y = 1%Z /\ dotZ x ATy = 3%Z.
Proof.
  exists (s2l "iij"), (s2l "j"), (s2l "i"), (s2l "jii"), (s2l "j"), (s2l "i").
  exists (mkZ [2; 2; 2] [0; 1; 2; 3; 4; 5; 6; 7]%Z), (mkZ [2] [0; 1]%Z), (mkZ [2] [1; 0]%Z).
  exists (mkZ [2] [1; 7]%Z), (mkZ [2] [0; 3]%Z).
  repeat split; try (vm_compute; reflexivity);
    unfold no_dots; vm_compute; intuition discriminate.
Qed.

(* non-vacuity of (d): the same input under the fixed rewriting satisfies every hypothesis, and the
   two inner products agree *)
Example rewrite_adjoint_example :
  exists l r o l' r' o' (B x y Ax ATy : arrZ),
    parse3 "iij,j->i" = Some (l, r, o) /\ no_dots l /\ no_dots r /\ no_dots o /\
    transposed_triple l r o = Ok (l', r', o') /\
    einsumZ l r o B x = Some Ax /\ shape y = shape Ax /\ wf_arr Z y /\
    einsumZ l' r' o' B y = Some ATy /\
    dotZ Ax y = 1%Z /\ dotZ x ATy = 1%Z.
Proof.
  exists (s2l "iij"), (s2l "j"), (s2l "i"), (s2l "jji"), (s2l "j"), (s2l "i").
  exists (mkZ [2; 2; 2] [0; 1; 2; 3; 4; 5; 6; 7]%Z), (mkZ [2] [0; 1]%Z), (mkZ [2] [1; 0]%Z).
  exists (mkZ [2] [1; 7]%Z), (mkZ [2] [0; 1]%Z).
  repeat split; try (vm_compute; reflexivity);
    unfold no_dots; vm_compute; intuition discriminate.
Qed.

(* (d) instantiated at the integers (the instance the correspondence harness evaluates) *)
Theorem rewrite_adjoint_Z : forall l r o l' r' o' (B x y Ax : arrZ),
  no_dots l -> no_dots r -> no_dots o ->
  transposed_triple l r o = Ok (l', r', o') ->
  einsumZ l r o B x = Some Ax -> shape y = shape Ax -> wf_arr Z y ->
  exists ATy, einsumZ l' r' o' B y = Some ATy /\ shape ATy = shape x /\ dotZ Ax y = dotZ x ATy.
Proof. exact (adjoint_einsum Z 0%Z 1%Z Z.add Z.mul Z.sub Z.opp InitialRing.Zth). Qed.
Print Assumptions rewrite_adjoint_Z.

(* Boundary of the property with an ellipsis (not a theorem about all shapes): when the blocks
   carry MORE ellipsis dimensions than the leaf, einsum broadcasts the leaf, and no rewriting of
   the subscripts can be the adjoint - the transposed map does not even return the leaf's shape. *)
Example ellipsis_needs_leaf_to_contain_block_dims :
  exists (B x y Ax ATy : arrZ),
    transposed_s "ij...,j...->i..." = Ok "ji...,j...->i..." /\
    einsumZ (s2l "ij...") (s2l "j...") (s2l "i...") B x = Some Ax /\ shape y = shape Ax /\
    einsumZ (s2l "ji...") (s2l "j...") (s2l "i...") B y = Some ATy /\
    shape x = [3] /\ shape ATy = [3; 2].
Proof.
  exists (mkZ [2; 3; 2] [1; 2; 3; 4; 5; 6; 7; 8; 9; 10; 11; 12]%Z), (mkZ [3] [1; 0; 2]%Z).
  exists (mkZ [2; 2] [1; 0; 0; 1]%Z), (mkZ [2; 2] [11; 14; 29; 32]%Z).
  eexists. repeat split; vm_compute; reflexivity.
Qed.
