(* C15 - polarimetry operators realise their Mueller matrices.
   Statements only; every proof is `exact <lemma of Lemmas/MuellerL.v>`.

   Setting: K any commutative ring with a constant `half` (the literal 0.5); A any type of angles with
   c = cos(2 .), s = sin(2 .) : A -> K and + - neg on A obeying the addition formulas (Section
   hypotheses, discharged by instances: the exact executable one below, the real numbers in
   Props/C15Real.v).  A Stokes value of kind I / QU / IQU / IQUV is `mk [i]`, `mk [q; u]`, `mk [i; q; u]`,
   `mk [i; q; u; v]` with flat component arrays of m elements (`view m x = Some ls`); an angle ARRAY `a`
   of any shape broadcastable to the component shape sh reaches position p through NumPy broadcasting
   (`field_of sh a p`); `mueller_comps M m ls` applies the 4x4 matrix M(p), restricted to the components
   that are present, at every position p. *)
From Coq Require Import List Bool Arith NArith ZArith QArith Qcanon Ring.
From Furax Require Import Base.Pytree Model.Mueller Lemmas.MuellerL.
Import ListNotations.
Local Close Scope Q_scope.
Local Close Scope Qc_scope.
Local Open Scope nat_scope.

Section C15.
  Variable K : Type.
  Variables (k0 k1 : K) (kadd kmul ksub : K -> K -> K) (kopp : K -> K).
  Hypothesis Kth : ring_theory k0 k1 kadd kmul ksub kopp (@eq K).
  Variable half : K.
  Variable A : Type.
  Variable a0 : A.
  Variables (aadd asub : A -> A -> A) (aneg : A -> A).
  Variables (c s : A -> K).
  Variable aeqb : A -> A -> bool.
  Hypothesis aeqb_eq : forall a b, aeqb a b = true -> a = b.
  Hypothesis c_add : forall a b, c (aadd a b) = ksub (kmul (c a) (c b)) (kmul (s a) (s b)).
  Hypothesis s_add : forall a b, s (aadd a b) = kadd (kmul (s a) (c b)) (kmul (c a) (s b)).
  Hypothesis c_0 : c a0 = k1.
  Hypothesis s_0 : s a0 = k0.
  Hypothesis c_neg : forall a, c (aneg a) = c a.
  Hypothesis s_neg : forall a, s (aneg a) = kopp (s a).
  Hypothesis a_sub : forall a b, asub a b = aadd a (aneg b).

  Local Notation ALL L := (L K k0 k1 kadd kmul ksub kopp Kth half A a0 aadd asub aneg c s aeqb aeqb_eq
                                c_add s_add c_0 s_0 c_neg s_neg a_sub) (only parsing).
  Notation value := (value K).
  Notation field := (field A).
  Notation hwp_mv := (hwp_mv kopp).
  Notation rot_mv := (rot_mv k0 kadd kmul ksub c s).
  Notation rotT_mv := (rotT_mv k0 kadd kmul kopp c s).
  Notation pol_mv := (pol_mv k0 kadd kmul half).
  Notation M_hwp := (M_hwp k0 k1 kopp).
  Notation M_rot := (M_rot k0 k1 kopp c s).
  Notation M_pol := (M_pol k0 half).
  Notation M_id := (M_id k0 k1).
  Notation mueller_comps := (mueller_comps k0 kadd kmul).
  Notation mueller_row := (mueller_row k0 kadd kmul).
  Notation mmul := (mmul k0 kadd kmul).
  Notation rowmul := (rowmul k0 kadd kmul).
  Notation mtrans := (mtrans k0).
  Notation field_of := (field_of a0).
  Notation arr_bin := (arr_bin a0).
  Notation arr_neg := (arr_neg aneg).
  Notation mv := (mv k0 kadd kmul ksub kopp half a0 c s).
  Notation chain_mv := (chain_mv k0 kadd kmul ksub kopp half a0 c s).
  Notation chain_le := (chain_le k0 kadd kmul ksub kopp half a0 c s).
  Notation rules := (rules a0 aadd asub aneg aeqb).
  Notation reduce_chain := (reduce_chain a0 aadd asub aneg aeqb).
  Notation unit_ang := (unit_ang k1 kadd kmul c s).
  Notation good_arr := (good_arr k1 kadd kmul c s).
  Notation good_op := (good_op k1 kadd kmul c s).

  (* ---- 1. each operator is its Mueller matrix, on all four Stokes kinds, at every position ---- *)
  (* HWP = diag(1, 1, -1, -1) *)
  Theorem hwp_mueller : forall m (x : value) ls, view m x = Some ls ->
    hwp_mv m x = Some (mk (mueller_comps (fun _ => M_hwp) m ls)).
  Proof. exact (ALL hwp_mueller_l). Qed.
  (* R(a) = [[1,0,0,0],[0,c,-s,0],[0,s,c,0],[0,0,0,1]] with the angle seen at each position *)
  Theorem rot_mueller : forall m (f : field) (x : value) ls, view m x = Some ls ->
    rot_mv m f x = Some (mk (mueller_comps (fun p => M_rot (f p)) m ls)).
  Proof. exact (ALL rot_mueller_l). Qed.
  (* R(a).T is the transposed matrix, which is the rotation by -a *)
  Theorem rotT_mueller : forall m (f : field) (x : value) ls, view m x = Some ls ->
    rotT_mv m f x = Some (mk (mueller_comps (fun p => mtrans (M_rot (f p))) m ls)) /\
    rotT_mv m f x = rot_mv m (fun p => aneg (f p)) x /\
    (forall p, mtrans (M_rot (f p)) = M_rot (aneg (f p))).
  Proof. exact (ALL rotT_mueller_l). Qed.
  (* ... and the inverse, both ways, when the angles are angles (cos^2 + sin^2 = 1) *)
  Theorem rotT_is_inverse : forall m (f : field) (x : value) ls,
    (forall p, p < m -> unit_ang (f p)) -> view m x = Some ls ->
    Mueller.obind (rot_mv m f x) (rotT_mv m f) = Some x /\ Mueller.obind (rotT_mv m f x) (rot_mv m f) = Some x.
  Proof.
    exact (fun m f x ls Hu E => conj
      (ALL rotT_rot_mv m f x ls Hu E)
      (ALL rot_rotT_mv m f x ls Hu E)).
  Qed.
  (* polariser = the detector row (1/2, 1/2, 0, 0): (I+Q)/2, I/2 on I, Q/2 on QU *)
  Theorem pol_mueller : forall m (x : value) ls, view m x = Some ls ->
    pol_mv m x = Some (Leaf (mueller_row (fun _ => M_pol) m ls)).
  Proof. exact (ALL pol_mueller_l). Qed.
  (* anything that is not one of the four Stokes classes with components of m elements is rejected *)
  Theorem mv_outside_domain : forall m (f : field) (x : value), view m x = None ->
    hwp_mv m x = None /\ rot_mv m f x = None /\ rotT_mv m f x = None /\ pol_mv m x = None.
  Proof. exact (ALL mv_none). Qed.

  (* ---- 2. the algebra of the matrices ---- *)
  Theorem mueller_matrix_algebra : forall a b,
    mmul (M_rot a) (M_rot b) = M_rot (aadd a b) /\ M_rot a0 = M_id /\
    mtrans (M_rot a) = M_rot (aneg a) /\
    mmul (M_rot a) M_hwp = mmul M_hwp (M_rot (aneg a)) /\
    mmul M_hwp M_hwp = M_id /\ rowmul M_pol M_hwp = M_pol.
  Proof.
    exact (fun a b => conj (ALL M_rot_mul a b)
      (conj (ALL M_rot_zero)
      (conj (eq_sym (ALL M_rot_neg_transpose a))
      (conj (ALL M_rot_hwp a)
      (conj (ALL M_hwp_involution) (ALL M_pol_hwp)))))).
  Qed.

  (* ---- 3. NumPy broadcasting, as used by `x.q * cos(2 * angles)` and `left.angles + right.angles` ---- *)
  Theorem broadcast_laws : forall sh sa sb, bcable sh sa = true -> bcable sh sb = true ->
    (forall p, p < size sh -> bc sh sa p < size sa) /\
    exists sm, bshape sa sb = Some sm /\ bcable sh sm = true /\
      forall p, p < size sh -> bc sm sa (bc sh sm p) = bc sh sa p /\ bc sm sb (bc sh sm p) = bc sh sb p.
  Proof.
    intros sh sa sb Ha Hb. split; [intros p Hp; now apply bc_lt|].
    destruct (bshape_spec sh sa sb Ha Hb) as (sm & Hs & Hm & Hma & Hmb).
    exists sm. repeat split; auto using bc_comp.
  Qed.
  (* the array the rule computes, seen from a component, is the pointwise operation *)
  Theorem rule_angles_pointwise : forall sh (op : A -> A -> A) (a b : aarr A),
    wf_arr sh a = true -> wf_arr sh b = true ->
    exists ab, arr_bin op a b = Some ab /\ wf_arr sh ab = true /\
      (forall p, p < size sh -> field_of sh ab p = op (field_of sh a p) (field_of sh b p)) /\
      (forall t, In t (adata ab) -> exists ta tb, In ta (adata a) /\ In tb (adata b) /\ t = op ta tb).
  Proof. exact (ALL field_of_bin). Qed.

  (* ---- 4. the rules, EXACTLY with the angle expressions the code computes, on every input x ---- *)
  (* QURotationRule: left.angles + right.angles *)
  Theorem rot_rot : forall sh i j (a b ab : aarr A) (x : value), wf_arr sh a = true -> wf_arr sh b = true ->
    arr_bin aadd a b = Some ab -> chain_mv sh [PRot i a; PRot j b] x = mv sh (PRot 0%N ab) x.
  Proof. exact (ALL rot_rot_l). Qed.
  (* left.angles - right.operator.angles *)
  Theorem rot_rotT : forall sh i j (a b ab : aarr A) (x : value), wf_arr sh a = true -> wf_arr sh b = true ->
    arr_bin asub a b = Some ab -> chain_mv sh [PRot i a; PRotT j b] x = mv sh (PRot 0%N ab) x.
  Proof. exact (ALL rot_rotT_l). Qed.
  (* right.angles - left.operator.angles *)
  Theorem rotT_rot : forall sh i j (a b ab : aarr A) (x : value), wf_arr sh a = true -> wf_arr sh b = true ->
    arr_bin asub b a = Some ab -> chain_mv sh [PRotT i a; PRot j b] x = mv sh (PRot 0%N ab) x.
  Proof. exact (ALL rotT_rot_l). Qed.
  (* -left.operator.angles - right.operator.angles *)
  Theorem rotT_rotT : forall sh i j (a b ab : aarr A) (x : value), wf_arr sh a = true -> wf_arr sh b = true ->
    arr_bin asub (arr_neg a) b = Some ab -> chain_mv sh [PRotT i a; PRotT j b] x = mv sh (PRot 0%N ab) x.
  Proof. exact (ALL rotT_rotT_l). Qed.
  (* QURotationHWPRule: R(a) HWP = HWP R(a).T (= HWP R(-a) by rotT_mueller), R(a).T HWP = HWP R(a) *)
  Theorem rot_hwp : forall sh i (a : aarr A) (x : value),
    chain_mv sh [PRot i a; PHwp A] x = chain_mv sh [PHwp A; PRotT i a] x /\
    chain_mv sh [PRotT i a; PHwp A] x = chain_mv sh [PHwp A; PRot i a] x.
  Proof.
    exact (fun sh i a x => conj (ALL rot_hwp_l sh i a x)
                                (ALL rotT_hwp_l sh i a x)).
  Qed.
  (* LinearPolarizerHWPRule: P HWP = P *)
  Theorem pol_hwp : forall sh (x : value), chain_mv sh [PPol A; PHwp A] x = chain_mv sh [PPol A] x.
  Proof. exact (ALL pol_hwp_l). Qed.

  (* ---- 5. reduce() of any chain over {R, R.T, HWP, P}: any length, any angle arrays, any fuel ---- *)
  (* the first registered rule that matches a pair (InverseBinary, QURotation, QURotationHWP, LinearPolarizerHWP) *)
  Theorem fire_sound : forall sh l r new, good_op sh l -> good_op sh r ->
    fire rules l r = Red new -> Forall (good_op sh) new /\ chain_le sh [l; r] new.
  Proof. exact (ALL fire_sound_l). Qed.
  Theorem fire_never_raises : forall sh l r, good_op sh l -> good_op sh r -> fire rules l r <> Fail A.
  Proof. exact (ALL fire_no_fail_l). Qed.
  (* the while loop with its index bookkeeping *)
  Theorem scan_sound : forall sh fuel ops index res, Forall (good_op sh) ops ->
    scan fuel rules ops index = Some res -> Forall (good_op sh) res /\ chain_le sh ops res.
  Proof. exact (ALL scan_sound_l). Qed.
  (* CompositionOperator.reduce: every input the chain accepts gives the same result through the reduced chain *)
  Theorem reduce_chain_sound : forall sh fuel ops res, Forall (good_op sh) ops ->
    reduce_chain fuel ops = Some res ->
    Forall (good_op sh) res /\ forall x y, chain_mv sh ops x = Some y -> chain_mv sh res x = Some y.
  Proof. exact (ALL reduce_chain_sound_l). Qed.

  (* ---- 6. the factories are the products of the matrices, before and after reduction ---- *)
  (* HWPOperator.create(angles=a) = R(a).T HWP R(a) *)
  Theorem hwp_create_is_product : forall sh i (a : aarr A) (x : value) ls, view (size sh) x = Some ls ->
    chain_mv sh (hwp_create i (Some a)) x =
    Some (mk (mueller_comps (fun p => mmul (mtrans (M_rot (field_of sh a p))) (mmul M_hwp (M_rot (field_of sh a p)))) (size sh) ls)).
  Proof. exact (ALL hwp_create_product_l). Qed.
  (* LinearPolarizerOperator.create(angles=a) = P R(a) *)
  Theorem pol_create_is_product : forall sh i (a : aarr A) (x : value) ls, view (size sh) x = Some ls ->
    chain_mv sh (pol_create i (Some a)) x =
    Some (Leaf (mueller_row (fun p => rowmul M_pol (M_rot (field_of sh a p))) (size sh) ls)).
  Proof. exact (ALL pol_create_product_l). Qed.
  (* QURotationOperator.create(angles=a) = R(a); without angles the factories are HWP and P themselves *)
  Theorem plain_factories : forall sh i (a : aarr A) (x : value),
    chain_mv sh (rot_create i a) x = rot_mv (size sh) (field_of sh a) x /\
    chain_mv sh (hwp_create i None) x = hwp_mv (size sh) x /\
    chain_mv sh (pol_create i None) x = pol_mv (size sh) x.
  Proof. intros. repeat split. Qed.
  (* reduce() turns HWPOperator.create(angles=a) into HWP R(a + a); by reduce_chain_sound the map is kept *)
  Theorem hwp_create_reduces : forall sh i (a : aarr A) fuel, good_arr sh a ->
    exists aa, arr_bin aadd a a = Some aa /\ reduce_chain (5 + fuel) (hwp_create i (Some a)) = Some [PHwp A; PRot 0%N aa].
  Proof. exact (ALL hwp_create_reduce_l). Qed.
End C15.

Print Assumptions hwp_mueller.
Print Assumptions rot_mueller.
Print Assumptions rotT_mueller.
Print Assumptions rotT_is_inverse.
Print Assumptions pol_mueller.
Print Assumptions mueller_matrix_algebra.
Print Assumptions broadcast_laws.
Print Assumptions rule_angles_pointwise.
Print Assumptions rot_rot.
Print Assumptions rot_rotT.
Print Assumptions rotT_rot.
Print Assumptions rotT_rotT.
Print Assumptions rot_hwp.
Print Assumptions pol_hwp.
Print Assumptions fire_sound.
Print Assumptions scan_sound.
Print Assumptions reduce_chain_sound.
Print Assumptions hwp_create_is_product.
Print Assumptions pol_create_is_product.
Print Assumptions hwp_create_reduces.

(* ---- 7. the hypotheses are satisfiable: the exact executable instance (K = Qc, an angle = its doubled
   unit vector (cos 2a, sin 2a), + = complex multiplication, neg = conjugation) used by the correspondence ---- *)
Theorem x_reduce_sound : forall sh fuel (ops res : list xpop),
  Forall (good_op (Q2Qc 1) Qcplus Qcmult xc xs sh) ops -> x_reduce fuel ops = Some res ->
  forall x y, x_chain sh ops x = Some y -> x_chain sh res x = Some y.
Proof.
  exact (fun sh fuel ops res Hg Hr => proj2 (reduce_chain_sound Qc (Q2Qc 0) (Q2Qc 1) Qcplus Qcmult Qcminus Qcopp Qcrt xhalf
    xang x0 xadd xsub xneg xc xs xeqb xeqb_eq x_c_add x_s_add x_c_0 x_s_0 x_c_neg x_s_neg x_a_sub sh fuel ops res Hg Hr)).
Qed.
Theorem x_rot_rot : forall sh i j (a b ab : xarr) (x : xvalue), wf_arr sh a = true -> wf_arr sh b = true ->
  arr_bin x0 xadd a b = Some ab -> x_chain sh [PRot i a; PRot j b] x = x_mv sh (PRot 0%N ab) x.
Proof.
  exact (rot_rot Qc (Q2Qc 0) (Q2Qc 1) Qcplus Qcmult Qcminus Qcopp Qcrt xhalf xang x0 xadd xsub xneg xc xs xeqb xeqb_eq
           x_c_add x_s_add x_c_0 x_s_0 x_c_neg x_s_neg x_a_sub).
Qed.
Print Assumptions x_reduce_sound.
Print Assumptions x_rot_rot.

(* non-vacuity: a concrete well-formed chain with broadcast angle arrays (2,1) and (1,3) on IQU components
   of shape (2,3); its reduction; and a Stokes value in the domain *)
Definition ex_a : xarr := mkArr [2; 1] [qang 3 5 4 5; qang 0 1 1 1].
Definition ex_b : xarr := mkArr [1; 3] [qang 1 1 0 1; qang 0 1 (-1) 1; qang 5 13 12 13].
Definition ex_chain : list xpop := [PPol _; PRot 1%N ex_a; PRotT 2%N ex_b; PHwp _; PRotT 1%N ex_a; PRot 1%N ex_a].
Definition ex_x : xvalue := zstokes [[1; 2; 3; 4; 5; 6]; [1; 0; 0; 1; 0; 2]; [0; 1; 0; 2; 3; 1]]%Z.
Example ex_chain_good : Forall (good_op (Q2Qc 1) Qcplus Qcmult xc xs [2; 3]) ex_chain.
Proof.
  repeat (apply Forall_cons || apply Forall_nil); try exact I; (split; [reflexivity|]);
    repeat (apply Forall_cons || apply Forall_nil); apply Qc_is_canon; reflexivity.
Qed.
Example ex_chain_reduces :
  option_map (map show_op) (x_reduce 100 ex_chain) =
    Some [(3, 0%N, ([], []));
          (0, 0%N, ([2; 3], [((3, 5), (-4, 5)); ((-4, 5), (-3, 5)); ((63, 65), (16, 65));
                             ((0, 1), (-1, 1)); ((-1, 1), (0, 1)); ((12, 13), (-5, 13))]%Z))].
Proof. vm_compute. reflexivity. Qed.
Example ex_x_in_domain : view (size [2; 3]) ex_x <> None /\ x_chain [2; 3] ex_chain ex_x <> None.
Proof. split; vm_compute; discriminate. Qed.

(* ---- 8. second stage: C15 discharges what C01 assumes about these operators ----
   Lemmas/Sound.v (C01) proves reduce() sound for ANY leaf semantics satisfying `leaf_facts`; seven fields
   of that record are facts about QU rotations, HWP and polariser.  For the executable leaf semantics of
   Model/Exec.v (quarter-turn angles, operators evaluated by their own definitions: empty table) they are
   theorems.  The statements below are the record fields verbatim. *)
From Furax Require Import Model.Op Model.Algebra Model.Denote Model.Exec Lemmas.Sound Lemmas.MuellerExecL.
Theorem exec_rr : forall il sil sol la ir sir sor ra x y1 y,
  lsem (R K ir sir sor ra) x = Some y1 -> lsem (R K il sil sol la) y1 = Some y ->
  lsem (R K fresh sir sir (qadd la ra)) x = Some y.
Proof. exact exec_lf_rr. Qed.
Theorem exec_rrT : forall il sil sol la ir jr sjr sojr ra x y1 y,
  lsem (Wrap ir WQURotT (R K jr sjr sojr ra)) x = Some y1 -> lsem (R K il sil sol la) y1 = Some y ->
  lsem (R K fresh sjr sjr (qsub la ra)) x = Some y.
Proof. exact exec_lf_rrT. Qed.
Theorem exec_rTr : forall il jl sjl sojl la ir sir sor ra x y1 y,
  lsem (R K ir sir sor ra) x = Some y1 -> lsem (Wrap il WQURotT (R K jl sjl sojl la)) y1 = Some y ->
  lsem (R K fresh sir sir (qsub ra la)) x = Some y.
Proof. exact exec_lf_rTr. Qed.
Theorem exec_rTrT : forall il jl sjl sojl la ir jr sjr sojr ra x y1 y,
  lsem (Wrap ir WQURotT (R K jr sjr sojr ra)) x = Some y1 ->
  lsem (Wrap il WQURotT (R K jl sjl sojl la)) y1 = Some y ->
  lsem (R K fresh sjr sjr (qsub (qneg la) ra)) x = Some y.
Proof. exact exec_lf_rTrT. Qed.
Theorem exec_rot_hwp : forall il sil sol pl r x y1 y, is_a r [CHWP] = true ->
  xden r x = Some y1 -> lsem (Prim il CQURotation sil sol pl) y1 = Some y ->
  exists y2, lsem (Wrap fresh WQURotT (Prim il CQURotation sil sol pl)) x = Some y2 /\ xden r y2 = Some y.
Proof. exact exec_lf_rot_hwp. Qed.
Theorem exec_rotT_hwp : forall il lx r x y1 y, is_a r [CHWP] = true ->
  xden r x = Some y1 -> lsem (Wrap il WQURotT lx) y1 = Some y ->
  exists y2, xden lx x = Some y2 /\ xden r y2 = Some y.
Proof. exact exec_lf_rotT_hwp. Qed.
Theorem exec_pol_hwp : forall l r x y1 y, is_a l [CLinearPolarizer] = true -> is_a r [CHWP] = true ->
  xden r x = Some y1 -> xden l y1 = Some y -> xden l x = Some y.
Proof. exact exec_lf_pol_hwp. Qed.
Print Assumptions exec_rr.
Print Assumptions exec_rTrT.
Print Assumptions exec_rot_hwp.
Print Assumptions exec_rotT_hwp.
Print Assumptions exec_pol_hwp.
