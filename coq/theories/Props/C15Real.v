(* C15 over the real numbers: K = R, angles A = R, c = cos(2 .), s = sin(2 .).  Shows that the abstract
   hypotheses of Props/C15.v are what trigonometry provides, and instantiates the main theorems.
   Depends on the standard library's axiomatisation of the reals (reported by Print Assumptions and
   named in the trusted base). *)
From Coq Require Import List Reals.
From Furax Require Import Base.Pytree Model.Mueller Lemmas.MuellerL.
Import ListNotations.
Local Open Scope R_scope.

Definition rc (a : R) : R := cos (2 * a).
Definition rs (a : R) : R := sin (2 * a).
Definition req (a b : R) : bool := false.     (* `is` on angle data is never needed to be decided over R *)

Lemma rc_add a b : rc (a + b) = rc a * rc b - rs a * rs b.
Proof. unfold rc, rs. rewrite Rmult_plus_distr_l. apply cos_plus. Qed.
Lemma rs_add a b : rs (a + b) = rs a * rc b + rc a * rs b.
Proof. unfold rc, rs. rewrite Rmult_plus_distr_l. apply sin_plus. Qed.
Lemma rc_0 : rc 0 = 1.
Proof. unfold rc. rewrite Rmult_0_r. apply cos_0. Qed.
Lemma rs_0 : rs 0 = 0.
Proof. unfold rs. rewrite Rmult_0_r. apply sin_0. Qed.
Lemma rc_neg a : rc (- a) = rc a.
Proof. unfold rc. rewrite <- Ropp_mult_distr_r. apply cos_neg. Qed.
Lemma rs_neg a : rs (- a) = - rs a.
Proof. unfold rs. rewrite <- Ropp_mult_distr_r. apply sin_neg. Qed.
Lemma r_sub a b : a - b = a + - b.
Proof. reflexivity. Qed.
Lemma req_eq a b : req a b = true -> a = b.
Proof. discriminate. Qed.
(* every real angle is an angle: cos^2 + sin^2 = 1 *)
Lemma r_unit a : unit_ang 1 Rplus Rmult rc rs a.
Proof. unfold unit_ang, rc, rs. rewrite Rplus_comm. apply (sin2_cos2 (2 * a)). Qed.

Definition RT := RTheory.

(* R(a) R(b) = R(a + b) for real angle arrays of any broadcastable shapes, on every input *)
Theorem real_rot_rot : forall sh i j (a b ab : aarr R) x, wf_arr sh a = true -> wf_arr sh b = true ->
  arr_bin 0 Rplus a b = Some ab ->
  chain_mv 0 Rplus Rmult Rminus Ropp (/ 2) 0 rc rs sh [PRot i a; PRot j b] x =
  mv 0 Rplus Rmult Rminus Ropp (/ 2) 0 rc rs sh (PRot 0%N ab) x.
Proof.
  exact (rot_rot_l R 0 1 Rplus Rmult Rminus Ropp RT (/ 2) R 0 Rplus Rminus Ropp rc rs req req_eq
           rc_add rs_add rc_0 rs_0 rc_neg rs_neg r_sub).
Qed.
(* reduce() of any chain over {R(a), R(b).T, HWP, P} with real angles keeps the map *)
Theorem real_reduce_chain_sound : forall sh fuel ops res,
  Forall (good_op 1 Rplus Rmult rc rs sh) ops ->
  reduce_chain 0 Rplus Rminus Ropp req fuel ops = Some res ->
  Forall (good_op 1 Rplus Rmult rc rs sh) res /\
  chain_le 0 Rplus Rmult Rminus Ropp (/ 2) 0 rc rs sh ops res.
Proof.
  exact (reduce_chain_sound_l R 0 1 Rplus Rmult Rminus Ropp RT (/ 2) R 0 Rplus Rminus Ropp rc rs req req_eq
           rc_add rs_add rc_0 rs_0 rc_neg rs_neg r_sub).
Qed.
(* the transposed rotation is the inverse, for all real angle fields *)
Theorem real_rotT_inverse : forall m (f : nat -> R) x ls, view m x = Some ls ->
  Mueller.obind (rot_mv 0 Rplus Rmult Rminus rc rs m f x) (rotT_mv 0 Rplus Rmult Ropp rc rs m f) = Some x.
Proof.
  exact (fun m f x ls E => rotT_rot_mv R 0 1 Rplus Rmult Rminus Ropp RT (/ 2) R 0 Rplus Rminus Ropp rc rs req req_eq
           rc_add rs_add rc_0 rs_0 rc_neg rs_neg r_sub m f x ls (fun p _ => r_unit (f p)) E).
Qed.
Print Assumptions real_rot_rot.
Print Assumptions real_reduce_chain_sound.
Print Assumptions real_rotT_inverse.
