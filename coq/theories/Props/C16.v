(* C16 - the acquisition operator equals the explicit pointing model (PARTIAL: pixel lookup).

   Compiled on every check against FuraxGen.EulerMatrix, REGENERATED from furax/projections.py
   (the nine entries of the jnp.array literal of get_rotation_matrix with the sin/cos and
   phi/theta/pa bindings resolved, and the einsum of create_projection_operator by its index
   meaning).  Part 1 proves the facts about the regenerated code by `ring` (a flipped sign, a swapped
   entry, exchanged angles or transposed subscripts in the source break it for all angles at once);
   Part 2 states the property over Model/Acquisition.v, every proof being `exact <lemma>`
   (Lemmas/AcquisitionL.v).  The model follows the code after fixes/C16-acquisition-tod-structure.diff.

   Vocabulary.  K: any commutative ring (ring_theory); `half`: the literal 0.5.  A Stokes value `sv`
   is one of the four pytree classes with flat leaves; cI/cQ/cU/cV read a component at a position
   (0 for a component the kind does not have - `kind_of` and `wf` say which leaves exist and how long
   they are).  A time-ordered leaf has one element per (detector[, direction], sample), element j
   belonging to sample t = j mod nsamp (`bc nsamp a j` = a[t]); c2/s2 = cos/sin of 2*pa per sample.
   `pix` (flat, one pixel number per element) is ARBITRARY: the theorems hold for every pixel table.

   NOT proved (partial): that pix[d,t] is the HEALPix pixel containing the rotated direction
   (vec2dir = arccos/arctan2 in floating point, jax_healpy.ang2pix): cross-checked numerically by
   harness/c16.py against an independent NumPy Rz.Ry.Rz + healpy (numerical_tests_not_proof). *)
From Coq Require Import List ZArith QArith Qcanon Ring String.
From Furax Require Import Model.Algebra Model.Acquisition Lemmas.AcquisitionL.
From FuraxGen Require Import EulerMatrix.
Import ListNotations.
Local Close Scope Q_scope.
Local Close Scope Qc_scope.
Local Open Scope nat_scope.

(* ------------------------------------------------------------------------------------------ *)
(* Part 1 - the regenerated rotation matrix and einsum *)
Section Euler.
  Variable K : Type.
  Variables (k0 k1 : K) (kadd kmul ksub : K -> K -> K) (kopp : K -> K).
  Hypothesis Kth : ring_theory k0 k1 kadd kmul ksub kopp (@eq K).
  Add Ring KringE : Kth.
  Local Notation "a + b" := (kadd a b).
  Local Notation "a * b" := (kmul a b).
  Local Notation euler := (euler_entries K k0 k1 kadd kmul ksub kopp).

  (* the matrix of get_rotation_matrix is Rz(phi) . Ry(theta) . Rz(pa), for all angles *)
  Theorem euler_is_ZYZ : forall s_phi c_phi s_theta c_theta s_pa c_pa,
    euler s_phi c_phi s_theta c_theta s_pa c_pa =
    ZYZ k0 k1 kadd kmul kopp s_phi c_phi s_theta c_theta s_pa c_pa.
  Proof.
    intros. unfold euler_entries, ZYZ, mmul, Rz, Ry, tab; cbn [map seq]; unfold ent; cbn [nth].
    repeat match goal with |- _ :: _ = _ :: _ => f_equal end; ring.
  Qed.

  (* it is orthogonal as soon as cos^2 + sin^2 = 1 for the three angles *)
  Theorem euler_orthogonal : forall s_phi c_phi s_theta c_theta s_pa c_pa,
    c_phi * c_phi + s_phi * s_phi = k1 -> c_theta * c_theta + s_theta * s_theta = k1 ->
    c_pa * c_pa + s_pa * s_pa = k1 ->
    let M := euler s_phi c_phi s_theta c_theta s_pa c_pa in
    mmul k0 kadd kmul (mT k0 M) M = I3 k0 k1.
  Proof. intros. subst M. rewrite euler_is_ZYZ. now apply (ZYZ_orth K k0 k1 kadd kmul ksub kopp Kth). Qed.

  (* hence rotated directions keep their norm and mutual angles (a unit detector direction stays
     a unit vector: the r of vec2dir is 1) *)
  Theorem euler_preserves_dot : forall s_phi c_phi s_theta c_theta s_pa c_pa u v,
    c_phi * c_phi + s_phi * s_phi = k1 -> c_theta * c_theta + s_theta * s_theta = k1 ->
    c_pa * c_pa + s_pa * s_pa = k1 ->
    let M := euler s_phi c_phi s_theta c_theta s_pa c_pa in
    vdot k0 kadd kmul (mvec k0 kadd kmul M u) (mvec k0 kadd kmul M v) = vdot k0 kadd kmul u v.
  Proof.
    intros. apply (orth_preserves_dot K k0 k1 kadd kmul ksub kopp Kth).
    now apply euler_orthogonal.
  Qed.

  (* the boresight (0,0,1) is sent to the direction of colatitude theta and longitude phi *)
  Theorem euler_boresight : forall s_phi c_phi s_theta c_theta s_pa c_pa,
    mvec k0 kadd kmul (euler s_phi c_phi s_theta c_theta s_pa c_pa) [k0; k0; k1] =
    [c_phi * s_theta; s_phi * s_theta; c_theta].
  Proof. intros. rewrite euler_is_ZYZ. apply (ZYZ_boresight K k0 k1 kadd kmul ksub kopp Kth). Qed.

  (* the einsum: rotated_coords[:, l, m, k] = rot[:, :, k] . coords[:, l, m]  (matrix of sample k
     applied to direction m of detector l) *)
  Theorem einsum_is_matvec : forall (M : nat -> m3 K) (v : nat -> nat -> list K) i l m k, i < 3 ->
    einsum_rotated K k0 k1 kadd kmul ksub kopp (fun a b c => ent k0 (M c) a b) (fun a b c => vent k0 (v b c) a) i l m k =
    vent k0 (mvec k0 kadd kmul (M k) (v l m)) i.
  Proof.
    intros M v i l m k Hi. unfold einsum_rotated, mvec, vent at 4.
    rewrite nth_tab by assumption. reflexivity.
  Qed.
End Euler.
Print Assumptions euler_is_ZYZ.
Print Assumptions euler_orthogonal.
Print Assumptions euler_preserves_dot.
Print Assumptions euler_boresight.
Print Assumptions einsum_is_matvec.

(* the source binds alpha, beta, gamma to phi, theta, pa and uses these einsum subscripts *)
Example source_bindings :
  map snd angle_binding = ["phi"; "theta"; "pa"]%string /\ einsum_subscripts = "ijk,jlm->ilmk"%string.
Proof. split; reflexivity. Qed.

(* ------------------------------------------------------------------------------------------ *)
(* Part 2 - the acquisition algebra, for an arbitrary pixel table *)
Section C16.
  Variable K : Type.
  Variables (k0 k1 : K) (kadd kmul ksub : K -> K -> K) (kopp : K -> K).
  Hypothesis Kth : ring_theory k0 k1 kadd kmul ksub kopp (@eq K).
  Variable half : K.
  Local Notation "a + b" := (kadd a b).
  Local Notation "a * b" := (kmul a b).
  Local Notation "a - b" := (ksub a b).
  Local Notation at_ := (at_ k0).
  Local Notation bc := (bc k0).
  Local Notation cI := (cI k0).
  Local Notation cQ := (cQ k0).
  Local Notation cU := (cU k0).
  Local Notation cV := (cV k0).
  Local Notation projection := (projection k0 kadd kmul ksub).
  Local Notation acquisition_built := (acquisition_built k0 kadd kmul ksub kopp half).
  Local Notation acquisition_reduced := (acquisition_reduced k0 kadd kmul ksub half).
  Local Notation ptp_built := (ptp_built k0 kadd kmul ksub kopp).
  Local Notation ptp_reduced := (ptp_reduced k0 k1 kadd kmul kopp).
  Local Notation kofN := (kofN k0 k1 kadd).

  (* the projection returns, for element j = (d[, m], t), the sky Stokes vector at pix[j] with (Q,U)
     rotated by 2 psi_t; I and V untouched; same Stokes kind; every leaf has one element per pix entry *)
  Theorem projection_formula : forall nsamp c2 s2 pix (sky : sv K) j, j < List.length pix ->
    let y := projection nsamp c2 s2 pix sky in
    let p := nth j pix 0 in
    cI y j = cI sky p /\
    cQ y j = cQ sky p * bc nsamp c2 j - cU sky p * bc nsamp s2 j /\
    cU y j = cQ sky p * bc nsamp s2 j + cU sky p * bc nsamp c2 j /\
    cV y j = cV sky p.
  Proof. exact (projection_formula_l K k0 k1 kadd kmul ksub kopp Kth). Qed.
  Theorem projection_shape : forall nsamp c2 s2 pix (sky : sv K),
    kind_of (projection nsamp c2 s2 pix sky) = kind_of sky /\
    wf (List.length pix) (projection nsamp c2 s2 pix sky).
  Proof. intros. split; [apply projection_kind|apply projection_wf]. Qed.

  (* the acquisition as built (polarizer @ hwp @ projection) returns (I + Q cos 2psi_t - U sin 2psi_t)/2
     at pix[j], for the four Stokes kinds (a missing component contributes nothing) *)
  Theorem acquisition_formula : forall nsamp c2 s2 pix (sky : sv K) j, j < List.length pix ->
    let p := nth j pix 0 in
    at_ (acquisition_built nsamp c2 s2 pix sky) j =
    half * (cI sky p + cQ sky p * bc nsamp c2 j - cU sky p * bc nsamp s2 j).
  Proof. exact (acquisition_formula_l K k0 k1 kadd kmul ksub kopp Kth half). Qed.
  Theorem acquisition_length : forall nsamp c2 s2 pix (sky : sv K),
    List.length (acquisition_built nsamp c2 s2 pix sky) = List.length pix.
  Proof. exact (acquisition_length K k0 kadd kmul ksub kopp half). Qed.
  (* identical before and after reduction: the reduced chain [LinearPolarizer, QURotation, Index
     (, Ravel)] (HWP absorbed) computes the same array *)
  Theorem acquisition_reduce_equal : forall keep_ravel nsamp c2 s2 pix (sky : sv K),
    acquisition_reduced keep_ravel nsamp c2 s2 pix sky = acquisition_built nsamp c2 s2 pix sky.
  Proof. exact (fun keep nsamp c2 s2 pix => acquisition_reduce_equal_l K k0 kadd kmul ksub kopp half nsamp c2 s2 pix keep). Qed.

  (* P.T @ P, as built (Ravel.T @ Index.T @ R.T @ R @ Index @ Ravel), multiplies every pixel of
     every Stokes component by the number of (detector, direction, sample) entries that hit it *)
  Theorem PtP_hits : forall npix nsamp c2 s2 pix (sky : sv K) p,
    0 < nsamp -> (forall t, t < nsamp -> at_ c2 t * at_ c2 t + at_ s2 t * at_ s2 t = k1) ->
    p < npix ->
    let y := ptp_built npix nsamp c2 s2 pix sky in
    kind_of y = kind_of sky /\ wf npix y /\
    cI y p = kofN (hits pix p) * cI sky p /\ cQ y p = kofN (hits pix p) * cQ sky p /\
    cU y p = kofN (hits pix p) * cU sky p /\ cV y p = kofN (hits pix p) * cV sky p.
  Proof.
    intros npix nsamp c2 s2 pix sky p Hn Ht Hp.
    rewrite (ptp_built_eq K k0 k1 kadd kmul ksub kopp Kth nsamp c2 s2 pix Hn Ht).
    now apply (hit_scaled_formula K k0 k1 kadd kmul ksub kopp Kth).
  Qed.
  (* ... and so does its reduction [ReshapeTranspose(Ravel), Diagonal(coverage_of)]: the diagonal
     computed by TransposeIndexRule (jnp.unique with counts, truncated to npix entries, scatter-add)
     holds the hit counts *)
  Theorem PtP_reduce_equal : forall npix nsamp c2 s2 pix (sky : sv K),
    0 < nsamp -> (forall t, t < nsamp -> at_ c2 t * at_ c2 t + at_ s2 t * at_ s2 t = k1) ->
    wf npix sky -> Forall (fun p => p < npix) pix ->
    ptp_reduced npix pix sky = ptp_built npix nsamp c2 s2 pix sky.
  Proof. exact (fun npix nsamp c2 s2 pix sky Hn Ht => ptp_reduce_equal_l K k0 k1 kadd kmul ksub kopp Kth nsamp c2 s2 pix Hn Ht npix sky). Qed.
End C16.
Theorem multiplicity_is_hit_count : forall npix pix, Forall (fun p => p < npix) pix ->
  multiplicity npix pix = tab npix (fun p => Z.of_nat (hits pix p)).
Proof. exact coverage_counts. Qed.
Print Assumptions projection_formula.
Print Assumptions projection_shape.
Print Assumptions acquisition_formula.
Print Assumptions acquisition_length.
Print Assumptions acquisition_reduce_equal.
Print Assumptions PtP_hits.
Print Assumptions PtP_reduce_equal.
Print Assumptions multiplicity_is_hit_count.

(* ------------------------------------------------------------------------------------------ *)
(* non-vacuity: the rationals with half = 1/2; a 3-4-5 angle (cos 2psi = 3/5, sin 2psi = 4/5);
   2 detectors x 3 samples on a 4-pixel IQU map with prime values *)
Example acquisition_example :
  run_acq SIQU false 4 3 [1#1; 0#1; 3#5]%Q [0#1; 1#1; 4#5]%Q [0; 1; 3; 0; 1; 3]
          [[2; 3; 5; 7]; [11; 13; 17; 19]; [23; 29; 31; 37]]%Z =
  Some (mkObs
    [[(2, 1); (3, 1); (7, 1); (2, 1); (3, 1); (7, 1)];
     [(11, 1); (-29, 1); (-91, 5); (11, 1); (-29, 1); (-91, 5)];
     [(23, 1); (13, 1); (187, 5); (23, 1); (13, 1); (187, 5)]]%Z
    [(13, 2); (-13, 1); (-28, 5); (13, 2); (-13, 1); (-28, 5)]%Z
    [(13, 2); (-13, 1); (-28, 5); (13, 2); (-13, 1); (-28, 5)]%Z
    [[(4, 1); (6, 1); (0, 1); (14, 1)]; [(22, 1); (26, 1); (0, 1); (38, 1)]; [(46, 1); (58, 1); (0, 1); (74, 1)]]%Z
    [[(4, 1); (6, 1); (0, 1); (14, 1)]; [(22, 1); (26, 1); (0, 1); (38, 1)]; [(46, 1); (58, 1); (0, 1); (74, 1)]]%Z
    [2; 2; 0; 2]).
Proof. vm_compute. reflexivity. Qed.
(* the hypotheses of PtP_hits are satisfiable over the rationals (3-4-5 angles) *)
Example trig_hypothesis_satisfiable :
  let c2 := [Q2Qc 1; Q2Qc 0; Q2Qc (3 # 5)] in
  let s2 := [Q2Qc 0; Q2Qc 1; Q2Qc (4 # 5)] in
  forallb (fun t => Qc_eq_bool (Qcplus (Qcmult (at_ (Q2Qc 0) c2 t) (at_ (Q2Qc 0) c2 t))
                                       (Qcmult (at_ (Q2Qc 0) s2 t) (at_ (Q2Qc 0) s2 t))) (Q2Qc 1))
          [0; 1; 2] = true.
Proof. vm_compute. reflexivity. Qed.
(* the model of reduce() (Model/Algebra.v, proved sound in C01) run on the chains: the reduced
   acquisition is [LinearPolarizer, QURotation, Index] for a 1-d map (+ Ravel for a 2-d one), and
   reduce(P.T @ P) is [ReshapeTranspose(Ravel), Diagonal] with the hit counts on the diagonal *)
Example reduced_skeletons :
  reduced_names (acq_op SIQU [4] [2; 3] [0; 1; 3; 0; 1; 3]) =
    Ok ["LinearPolarizerOperator"; "QURotationOperator"; "IndexOperator"]%string /\
  reduced_names (acq_op SIQU [2; 4] [2; 3] [0; 1; 3; 0; 1; 3]) =
    Ok ["LinearPolarizerOperator"; "QURotationOperator"; "IndexOperator"; "RavelOperator"]%string /\
  reduced_names (ptp_op SIQU [4] [2; 3] [0; 1; 3; 0; 1; 3]) =
    Ok ["ReshapeTransposeOperator(RavelOperator)"; "DiagonalOperator"]%string /\
  reduced_diag (ptp_op SIQU [4] [2; 3] [0; 1; 3; 0; 1; 3]) = Ok (Some [(2, 1); (2, 1); (0, 1); (2, 1)]%Z).
Proof. split; [|split; [|split]]; vm_compute; reflexivity. Qed.
