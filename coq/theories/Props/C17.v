(* C17 - sky pixelisation maps coordinates to indices consistently.
   Statements only; every proof is `exact <lemma>` (Lemmas/LandscapeL.v).  The model
   (Model/Landscape.v) is the FIXED code (fixes/c17-pixel2index-dtype.diff): int32 iff N <= 2^31-1;
   get_coverage counts every sample of broadcast(theta, phi, pa) (furax commit 9b83753).

   Vocabulary: ps = pixel_shape (first axis fastest), N = prod ps, `fin qs` = a tuple of real
   (rational - every finite float is one) coordinates, `ints cs` = integer coordinates,
   `rounded qs` = round-half-even of each, x64 = jax_enable_x64, `width x64 N` = bits of the returned
   dtype, `fits x64 N` = N <= 2^31-1, or x64 enabled and N <= 2^63-1 (the guard under which the
   chosen dtype is wide enough and available; examples below show it is needed).

   NOT proved here (partial): agreement of HealpixLandscape.world2pixel (jax_healpy.ang2pix) with
   healpy's ring scheme - third-party floating-point code, tested numerically by harness/c17.py. *)
From Coq Require Import ZArith QArith Qabs List Bool Sorted.
From Furax Require Import Model.Landscape Lemmas.LandscapeL.
Import ListNotations.
Open Scope Z_scope.

(* ---- constructors ---- *)
(* rejected (TypeError) exactly when both or neither of shape / pixel_shape are given *)
Theorem ctor_exclusive : forall s p n,
  (exists e, stokes_landscape s p n = inr e) <-> ((s = None /\ p = None) \/ (s <> None /\ p <> None)).
Proof. exact stokes_landscape_rejects. Qed.
Print Assumptions ctor_exclusive.
Theorem ctor_error_is_TypeError : forall s p n e, stokes_landscape s p n = inr e -> e = TypeError.
Proof. exact stokes_landscape_error_kind. Qed.
(* pixel_shape is the reversed shape, len = product, size = len(stokes) * len *)
Theorem ctor_reversal_len_size : forall s p n l, stokes_landscape s p n = inl l ->
  l_pixel_shape l = rev (l_shape l) /\ len l = prod (l_shape l) /\ len l = prod (l_pixel_shape l) /\
  size l = n * len l.
Proof. exact stokes_landscape_len. Qed.
Print Assumptions ctor_reversal_len_size.
Theorem ctor_shape_or_pixel_shape : forall p n,
  stokes_landscape None (Some p) n = stokes_landscape (Some (rev p)) None n.
Proof. exact stokes_landscape_either. Qed.
Theorem ctor_pixel2index : forall s p n l x64 cs, stokes_landscape s p n = inl l ->
  landscape_p2i x64 l cs = p2i x64 (l_pixel_shape l) cs.
Proof. exact stokes_landscape_p2i. Qed.

(* ---- rounding to the nearest pixel centre, ties to even ---- *)
Theorem round_nearest : forall q, let i := round_half_even q in
  (Qabs (q - inject_Z i) <= 1 # 2)%Q /\ ((Qabs (q - inject_Z i) == 1 # 2)%Q -> Z.even i = true).
Proof. exact rhe_spec. Qed.
Print Assumptions round_nearest.
Theorem round_tie : forall i, round_half_even (inject_Z i + (1 # 2)) = if Z.even i then i else i + 1.
Proof. exact rhe_tie. Qed.

(* ---- pixel2index, all numbers of dimensions, all positive shapes, all real coordinates ---- *)
(* complete specification: the row-major index of the rounded coordinates, or -1 *)
Theorem p2i_spec : forall x64 ps qs, all_pos ps -> fits x64 (prod ps) -> qs <> [] -> ps <> [] ->
  p2i x64 ps (fin qs) =
  Index (width x64 (prod ps)) (if in_map (rounded qs) ps then ravel (rounded qs) ps else -1).
Proof. exact p2i_spec_l. Qed.
Print Assumptions p2i_spec.

(* index = sum_k c_k * prod_{j<k} n_j *)
Theorem p2i_formula : forall x64 ps cs, all_pos ps -> fits x64 (prod ps) -> ps <> [] ->
  length cs = length ps -> in_map cs ps = true ->
  p2i x64 ps (fin (ints cs)) = Index (width x64 (prod ps)) (stride_sum cs ps).
Proof. exact p2i_formula_l. Qed.
Print Assumptions p2i_formula.

(* = the row-major (C order) flat index of element (c_{d-1},...,c_0) in an array of shape
   self.shape = reversed pixel_shape *)
Theorem p2i_row_major : forall x64 ps cs, all_pos ps -> fits x64 (prod ps) -> ps <> [] ->
  length cs = length ps -> in_map cs ps = true ->
  p2i x64 ps (fin (ints cs)) = Index (width x64 (prod ps)) (c_order (rev cs) (rev ps)).
Proof. exact p2i_row_major_l. Qed.
Print Assumptions p2i_row_major.
(* pixel2index() without coordinates is rejected *)
Theorem p2i_zero_coordinates : forall x64 ps, fits x64 (prod ps) -> p2i x64 ps [] = Raised TypeError.
Proof. exact p2i_zero_coordinates_l. Qed.

Theorem p2i_range : forall x64 ps cs, all_pos ps -> fits x64 (prod ps) -> ps <> [] ->
  length cs = length ps -> in_map cs ps = true ->
  exists i, p2i x64 ps (fin (ints cs)) = Index (width x64 (prod ps)) i /\ 0 <= i < prod ps.
Proof. exact p2i_range_l. Qed.
Print Assumptions p2i_range.

(* bijection between the integer coordinates of the map and 0..N-1, with index2pixel (repeated
   mod / div) as the inverse *)
Theorem p2i_bijection_injective : forall x64 ps cs cs', all_pos ps -> fits x64 (prod ps) -> ps <> [] ->
  length cs = length ps -> in_map cs ps = true ->
  length cs' = length ps -> in_map cs' ps = true ->
  p2i x64 ps (fin (ints cs)) = p2i x64 ps (fin (ints cs')) -> cs = cs'.
Proof. exact p2i_injective_l. Qed.
Print Assumptions p2i_bijection_injective.
Theorem p2i_bijection_surjective : forall x64 ps i, all_pos ps -> fits x64 (prod ps) -> ps <> [] ->
  0 <= i < prod ps ->
  length (index2pixel ps i) = length ps /\ in_map (index2pixel ps i) ps = true /\
  p2i x64 ps (fin (ints (index2pixel ps i))) = Index (width x64 (prod ps)) i.
Proof. exact p2i_surjective_l. Qed.
Print Assumptions p2i_bijection_surjective.
Theorem p2i_bijection_inverse : forall x64 ps cs i, all_pos ps -> fits x64 (prod ps) -> ps <> [] ->
  length cs = length ps -> in_map cs ps = true ->
  p2i x64 ps (fin (ints cs)) = Index (width x64 (prod ps)) i -> index2pixel ps i = cs.
Proof. exact p2i_inverse_l. Qed.
Print Assumptions p2i_bijection_inverse.

(* a coordinate that rounds outside [0, n_k) in any one dimension yields -1 ... *)
Theorem p2i_outside : forall x64 ps qs k, all_pos ps -> fits x64 (prod ps) -> ps <> [] ->
  (k < length qs)%nat -> (k < length ps)%nat ->
  ~ (0 <= round_half_even (nth k qs 0%Q) < nth k ps 0) ->
  p2i x64 ps (fin qs) = Index (width x64 (prod ps)) (-1).
Proof. exact p2i_outside_l. Qed.
Print Assumptions p2i_outside.
(* ... and -1 is returned for nothing else; otherwise the index is in [0, N) *)
Theorem p2i_minus_one_iff : forall x64 ps qs, all_pos ps -> fits x64 (prod ps) -> ps <> [] ->
  length qs = length ps ->
  (p2i x64 ps (fin qs) = Index (width x64 (prod ps)) (-1) <-> in_map (rounded qs) ps = false).
Proof. exact p2i_minus_one_l. Qed.
Theorem p2i_total : forall x64 ps qs, all_pos ps -> fits x64 (prod ps) -> ps <> [] ->
  length qs = length ps ->
  exists i, p2i x64 ps (fin qs) = Index (width x64 (prod ps)) i /\
            ((in_map (rounded qs) ps = false /\ i = -1) \/
             (in_map (rounded qs) ps = true /\ 0 <= i < prod ps)).
Proof. exact p2i_total_l. Qed.
Print Assumptions p2i_total.
(* +inf / -inf in any dimension: -1 (the conversion saturates, it does not wrap) *)
Theorem p2i_infinite : forall x64 ps cs k, all_pos ps -> fits x64 (prod ps) -> ps <> [] ->
  (k < length ps)%nat -> (nth_error cs k = Some PInf \/ nth_error cs k = Some NInf) ->
  p2i x64 ps cs = Index (width x64 (prod ps)) (-1).
Proof. exact p2i_infinite_l. Qed.
Print Assumptions p2i_infinite.

(* every point strictly within half a pixel of the integer point (i_k) has the index of (i_k);
   no guard: this holds for every shape, width and mode *)
Theorem p2i_rounding : forall x64 ps qs is,
  Forall2 (fun q i => (Qabs (q - inject_Z i) < 1 # 2)%Q) qs is ->
  p2i x64 ps (fin qs) = p2i x64 ps (fin (ints is)).
Proof. exact p2i_rounding_l. Qed.
Print Assumptions p2i_rounding.
Theorem p2i_representation_independent : forall x64 ps qs qs', Forall2 Qeq qs qs' ->
  p2i x64 ps (fin qs) = p2i x64 ps (fin qs').
Proof. exact p2i_Qeq_l. Qed.

(* ---- width ---- *)
(* the machine computation (clamping conversion, wrapping arithmetic, weakly typed Python ints)
   equals the computation over unbounded integers, for EVERY coordinate tuple, valid or not,
   and for landscapes whose len N exceeds prod pixel_shape (FrequencyLandscape) *)
Theorem p2i_no_wrap : forall x64 N ps cs, all_pos ps -> prod ps <= N -> fits x64 N ->
  cs <> [] -> ps <> [] ->
  p2i_gen requested_width x64 N ps cs =
  Index (width x64 N) (p2i_ideal ps (map (ideal_of (width x64 N)) cs)).
Proof. exact p2i_gen_ideal_coords. Qed.
Print Assumptions p2i_no_wrap.
(* for valid coordinates every manipulated integer (dims, strides, per-axis indices, products,
   partial sums) fits the chosen width *)
Theorem p2i_no_wrap_values : forall x64 N ps is, all_pos ps -> prod ps <= N -> fits x64 N ->
  in_map is ps = true ->
  Forall (fun v => in_range (width x64 N) v = true) (p2i_values ps is).
Proof. exact p2i_values_fit_l. Qed.
Print Assumptions p2i_no_wrap_values.
(* for invalid ones the later arithmetic may wrap: it is masked whatever it yields *)
Theorem p2i_invalid_masked : forall x64 w ias dims stride ind r,
  p2i_fold x64 w ias dims stride ind false = Some r -> snd r = false.
Proof. exact p2i_fold_masked. Qed.

Theorem dtype_wide_enough : forall x64 N, 0 <= N -> fits x64 N ->
  in_range (width x64 N) N = true /\ in_range (width x64 N) (N - 1) = true.
Proof. exact dtype_wide_enough_l. Qed.
Print Assumptions dtype_wide_enough.
Theorem dtype_dims_strides_fit : forall x64 N ps, all_pos ps -> prod ps <= N -> fits x64 N ->
  Forall (fun n => in_range (width x64 N) n = true) ps /\
  forall k, in_range (width x64 N) (prod (firstn k ps)) = true.
Proof. exact dims_strides_fit_l. Qed.
Theorem dtype_int32_iff : forall N, requested_width N = 32 <-> N <= int_max 32.
Proof. exact width_32_iff. Qed.

(* HEALPix and frequency landscapes: a ring pixel number is its own index *)
Theorem healpix_index_is_pixel : forall x64 nside nf n p, 0 < nside -> 0 < nf ->
  fits x64 (nf * (12 * nside ^ 2)) -> 0 <= p < 12 * nside ^ 2 ->
  landscape_p2i x64 (frequency_landscape nside nf n) (fin (ints [p])) =
  Index (width x64 (nf * (12 * nside ^ 2))) p.
Proof. exact healpix_p2i_l. Qed.
Print Assumptions healpix_index_is_pixel.

(* ---- coverage ---- *)
Theorem coverage_histogram : forall N idx, 0 <= N -> Forall (fun i => 0 <= i < N) idx ->
  length (get_coverage N idx) = Z.to_nat N /\
  (forall p, 0 <= p < N ->
     nth (Z.to_nat p) (get_coverage N idx) 0 = Z.of_nat (count_occ Z.eq_dec idx p)) /\
  zsum (get_coverage N idx) = Z.of_nat (length idx).
Proof. exact coverage_histogram_l. Qed.
Print Assumptions coverage_histogram.
(* the hints passed to the scatter (indices_are_sorted, unique_indices) are true *)
Theorem coverage_unique_sorted : forall l,
  StronglySorted (fun a b : Z * Z => fst a < fst b) (unique_counts l).
Proof. exact unique_counts_sorted. Qed.

(* ---- Sampling fields of different but broadcastable shapes (0-d theta with a vector phi, theta (ndet,1)
   with phi (1,n), position angles of a larger shape): world2index broadcasts theta and phi, get_coverage
   counts every sample of the broadcast of the indices against pa (furax commit 9b83753) ---- *)
(* the broadcast shape is one both shapes broadcast to (NumPy rule: aligned on the last axis, equal or 1) *)
Theorem broadcast_shape_sound : forall s1 s2 t, bshape s1 s2 = Some t ->
  broadcasts_to s1 t /\ broadcasts_to s2 t /\ (all_nonneg s1 -> all_nonneg s2 -> all_nonneg t).
Proof. exact bshape_spec. Qed.
Print Assumptions broadcast_shape_sound.
(* a broadcast array has as many elements as its shape says, all of them elements of the original *)
Theorem broadcast_size : forall (A : Type) s t (d : list A), broadcasts_to s t -> all_nonneg t ->
  length d = Z.to_nat (prod s) -> length (broadcast_to s t d) = Z.to_nat (prod t).
Proof. exact broadcast_to_length. Qed.
Theorem broadcast_elements : forall (A : Type) s t (d : list A) x, In x (broadcast_to s t d) -> In x d.
Proof. exact broadcast_to_In. Qed.
(* world2index returns one index per element of the broadcast of theta and phi; the coverage has one
   entry per pixel, entry p counts the samples (broadcast against pa) whose index is p, and the
   coverage sums to the number of samples prod u = np.broadcast(theta, phi, pa).size = len(sampling) *)
Theorem coverage_of_broadcast_sampling : forall x64 l theta phi pa t w idx cov,
  well_formed theta -> well_formed phi -> all_nonneg pa ->
  sampling_coverage x64 (inl l) theta phi pa = Coverage t w idx cov ->
  bshape (f_shape theta) (f_shape phi) = Some t /\
  length idx = Z.to_nat (prod t) /\
  exists u, bshape t pa = Some u /\ 0 <= prod u /\
    cov = get_coverage (len l) (broadcast_to t u idx) /\
    length (broadcast_to t u idx) = Z.to_nat (prod u) /\
    (0 <= len l -> Forall (fun i => 0 <= i < len l) idx ->
       length cov = Z.to_nat (len l) /\ zsum cov = prod u /\
       forall p, 0 <= p < len l ->
         nth (Z.to_nat p) cov 0 = Z.of_nat (count_occ Z.eq_dec (broadcast_to t u idx) p)).
Proof. exact sampling_coverage_spec_l. Qed.
Print Assumptions coverage_of_broadcast_sampling.
(* witnesses: a constant-x scan (0-d theta, phi of shape (4,)) on a map of shape (4,6) seen by two
   detectors sharing the pointing (pa of shape (2,1)): 4 directions, 8 samples [the pinned tree counted 4];
   theta (2,1) x phi (1,3): 6 samples; (2,3) and (2,) cannot be broadcast *)
Example coverage_broadcast_example :
  let l := stokes_landscape (Some [4; 6]) None 1 in
  let theta := mkField [] [Fin 2] in let phi := mkField [4] [Fin 0; Fin 1; Fin 1; Fin 3] in
  well_formed theta /\ well_formed phi /\ all_nonneg [2; 1] /\
  sampling_coverage false l theta phi [2; 1] =
    Coverage [4] 32 [2; 8; 8; 20] [0; 0; 2; 0; 0; 0; 0; 0; 4; 0; 0; 0; 0; 0; 0; 0; 0; 0; 0; 0; 2; 0; 0; 0] /\
  sampling_coverage false l theta phi [] =
    Coverage [4] 32 [2; 8; 8; 20] [0; 0; 1; 0; 0; 0; 0; 0; 2; 0; 0; 0; 0; 0; 0; 0; 0; 0; 0; 0; 1; 0; 0; 0] /\
  sampling_coverage false l (mkField [2; 1] [Fin 0; Fin 5]) (mkField [1; 3] [Fin 0; Fin 1; Fin 0]) [] =
    Coverage [2; 3] 32 [0; 6; 0; 5; 11; 5] [2; 0; 0; 0; 0; 2; 1; 0; 0; 0; 0; 1; 0; 0; 0; 0; 0; 0; 0; 0; 0; 0; 0; 0] /\
  bshape [2; 3] [2] = None /\ bshape [3; 1] [4] = Some [3; 4] /\ bshape [] [] = Some [].
Proof.
  cbv zeta. split. { split; [constructor|reflexivity]. }
  split. { split; [repeat constructor; discriminate|reflexivity]. }
  split. { repeat constructor; discriminate. }
  repeat split; vm_compute; reflexivity.
Qed.

(* ---- non-vacuity and boundary witnesses ---- *)
(* a 3-axis map, pixel_shape (2,3,4): hypotheses hold, index 1 + 2*2 + 6*3 = 23 = N-1, int32 *)
Example p2i_example :
  all_pos [2; 3; 4] /\ fits false (prod [2; 3; 4]) /\ in_map [1; 2; 3] [2; 3; 4] = true /\
  p2i false [2; 3; 4] (fin (ints [1; 2; 3])) = Index 32 23 /\
  stride_sum [1; 2; 3] [2; 3; 4] = 23 /\ index2pixel [2; 3; 4] 23 = [1; 2; 3] /\
  p2i false [2; 3; 4] (fin [5 # 4; 7 # 4; 13 # 4]) = Index 32 23 /\   (* (1.25, 1.75, 3.25) *)
  p2i false [2; 3; 4] (fin [3 # 2; 2 # 1; 3 # 1]) = Index 32 (-1) /\   (* 1.5 -> 2: outside *)
  p2i false [2; 3; 4] (fin [-1 # 2; 5 # 2; 7 # 2]) = Index 32 (-1) /\  (* 3.5 -> 4: outside *)
  p2i false [2; 3; 4] (fin [-1 # 2; 5 # 2; 5 # 2]) = Index 32 16.       (* -0.5 -> 0, 2.5 -> 2, 2.5 -> 2 *)
Proof.
  split. { repeat constructor. }
  split. { left. vm_compute. discriminate. }
  repeat split; vm_compute; reflexivity.
Qed.
(* a map that needs int64: 70000 x 70000 with x64 enabled *)
Example p2i_example_int64 :
  fits true (prod [70000; 70000]) /\ width true (prod [70000; 70000]) = 64 /\
  p2i true [70000; 70000] (fin (ints [69999; 69999])) = Index 64 4899999999.
Proof.
  split. { right. split; [reflexivity|vm_compute; discriminate]. }
  split; vm_compute; reflexivity.
Qed.
(* the guard `fits` is needed: with x64 disabled the same map silently gets int32 and the index
   wraps (boundary: limitation of x64-disabled JAX, which warns) *)
Example x64_off_wraps :
  p2i false [70000; 70000] (fin (ints [69999; 69999])) = Index 32 605032703 /\
  p2i false [70000; 70000] (fin (ints [30681; 30678])) = Index 32 (-2147476615) /\
  p2i false [70000; 70000; 2] (fin (ints [0; 0; 0])) = Raised OverflowError.
Proof. repeat split; vm_compute; reflexivity. Qed.
(* the dtype rule of the pinned tree (len - 1 <= int32 max) is refuted at N = 2^31: the dimension
   2^31 meets the int32 index array, wraps to -2^31, and every coordinate is reported outside
   (x64 enabled; OverflowError when disabled).  The fixed rule gives int64 and the right index. *)
Example pinned_dtype_rule_refuted :
  p2i_gen requested_width_pinned true (2 ^ 31) [2 ^ 31] (fin (ints [0])) = Index 32 (-1) /\
  p2i_gen requested_width_pinned false (2 ^ 31) [2 ^ 31] (fin (ints [0])) = Raised OverflowError /\
  p2i_gen requested_width_pinned true (2 ^ 31) [2; 2 ^ 30] (fin (ints [1; 5])) = Index 32 11 /\
  p2i true [2 ^ 31] (fin (ints [0])) = Index 64 0 /\
  p2i true [2 ^ 31] (fin (ints [2 ^ 31 - 1])) = Index 64 (2 ^ 31 - 1).
Proof. repeat split; vm_compute; reflexivity. Qed.
(* nan is not a real coordinate: the conversion gives 0, hence pixel 0 (boundary) *)
Example nan_is_pixel_0 : p2i false [3] [NaN] = Index 32 0 /\ p2i false [3] [PInf] = Index 32 (-1).
Proof. split; vm_compute; reflexivity. Qed.
(* zero coordinates: TypeError; fewer coordinates than dimensions: the missing axes are ignored;
   more: the extra coordinates are ignored (zip) *)
Example p2i_arity :
  p2i false [2; 5] [] = Raised TypeError /\ p2i false [] [Fin 0] = Raised IndexError /\
  p2i false [2; 5] (fin (ints [1])) = Index 32 1 /\ p2i false [2; 5] (fin (ints [1; 2; 3])) = Index 32 5.
Proof. repeat split; vm_compute; reflexivity. Qed.
(* coverage of the repository's own test, flat: shape (5,2), 7 samples *)
Example coverage_example :
  get_coverage 10 [0; 1; 0; 7; 1; 3; 0] = [3; 2; 0; 1; 0; 0; 0; 1; 0; 0] /\
  zsum (get_coverage 10 [0; 1; 0; 7; 1; 3; 0]) = 7.
Proof. split; vm_compute; reflexivity. Qed.
(* the guard "all indices valid" is needed: an out-of-map sample (-1) is counted in the LAST pixel
   (negative index convention of .at[]), so the map is then not the histogram of hits (boundary:
   cannot happen on HEALPix landscapes, where every direction is in the map) *)
Example coverage_outside_lands_in_last_pixel : get_coverage 3 [0; -1; 2; -1] = [1; 0; 3].
Proof. vm_compute; reflexivity. Qed.
