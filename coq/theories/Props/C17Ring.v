(* C17, HEALPix clause - the arithmetic behind the known finding
   `healpix-nside-not-power-of-two-equatorial-belt` (KNOWN_FINDINGS.txt, DESIGN 10.3b).

   In the equatorial belt the RING scheme places a direction at position  ip = (t1 / 2) mod (4 nside)  of its
   ring (healpy: `(t1>>1) % nl4` when nside is not a power of two).  jax_healpy.pixelfunc._zphi2pix_ring - the
   function HealpixLandscape.world2pixel calls - computes  ip = (t1 >> 1) & (4 nside - 1)  for EVERY nside.
   Statements only: the mask IS the remainder for every power-of-two resolution (so the two agree there, for all
   t1), and it is NOT for nside = 3 (witness found by vm_compute; the failing input replayed on the implementation
   is in KNOWN_FINDINGS.txt).  This file models the dependency, not furax: it explains the boundary of the finding
   and is NOT a proof that power-of-two resolutions agree with healpy end to end (that remains the numerical
   cross-check of the C17 harness). *)
From Coq Require Import NArith Lia.
Local Open Scope N_scope.

Definition ip_mask (nside t1 : N) : N := N.land (N.shiftr t1 1) (4 * nside - 1).
Definition ip_mod (nside t1 : N) : N := (N.shiftr t1 1) mod (4 * nside).

Lemma four_pow k : 4 * 2 ^ k = 2 ^ (k + 2).
Proof. rewrite N.pow_add_r. change (2 ^ 2) with 4. lia. Qed.

Theorem ring_mask_is_mod_for_pow2 : forall k t1, ip_mask (2 ^ k) t1 = ip_mod (2 ^ k) t1.
Proof.
  intros k t1. unfold ip_mask, ip_mod. rewrite four_pow.
  replace (2 ^ (k + 2) - 1) with (N.ones (k + 2)) by (rewrite N.ones_equiv; lia).
  apply N.land_ones.
Qed.
Print Assumptions ring_mask_is_mod_for_pow2.

(* the position is always inside the ring when the remainder is used *)
Theorem ip_mod_in_ring : forall nside t1, 0 < nside -> ip_mod nside t1 < 4 * nside.
Proof. intros nside t1 H. unfold ip_mod. apply N.mod_lt. lia. Qed.
Print Assumptions ip_mod_in_ring.

(* nside = 3: the mask 11 = 0b1011 drops bit 2 - position 4 of the ring becomes position 0 *)
Theorem ring_mask_refuted_nside3 : exists t1, ip_mask 3 t1 <> ip_mod 3 t1.
Proof. exists 8. vm_compute. discriminate. Qed.
Print Assumptions ring_mask_refuted_nside3.

(* more generally the mask can never produce a position whose bit pattern is outside 4 nside - 1, so it cannot be a
   bijection of the ring unless 4 nside is a power of two *)
Theorem ring_mask_loses_positions_nside3 : forall t1, ip_mask 3 t1 <> 4.
Proof.
  intros t1 H. unfold ip_mask in H. change (4 * 3 - 1) with 11 in H.
  assert (B : N.testbit (N.land (N.shiftr t1 1) 11) 2 = false).
  { rewrite N.land_spec. change (N.testbit 11 2) with false. apply Bool.andb_false_r. }
  rewrite H in B. vm_compute in B. discriminate.
Qed.
Print Assumptions ring_mask_loses_positions_nside3.
