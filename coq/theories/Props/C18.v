(* C18 - results do not depend on JIT compilation or pytree round trips (PARTIAL).
   "Every operator and every landscape is a JAX pytree whose flatten/unflatten round trip yields an
   object with the same structures and the same action, and applying an operator inside a jitted
   function that closes over it returns the same values, shapes and dtypes as eager application.  The
   same holds when the operator is passed as an argument to a jit that keeps non-array fields static,
   for every operator that does not select elements through a boolean-mask array."

   What is proved here (over Model/PytreeReg.v, tied to the source by the tables regenerated on every
   run: FuraxGen.PytreeReg, FuraxGen.FieldTable):
   (a) the hand-registered pytree nodes (landscapes): unflatten (flatten obj) = Ok obj, field-wise, for
       every registered class and ALL constructor arguments;
   (b) the static/dynamic field partition of every operator class is consistent with how mv uses each
       field: no field consulted by Python-level control flow is traced by a filtering jit.
   (c) the static part of an operator (the cache key of a jit taking the operator as argument): every
       dataclass field of every operator class and of ConfigState is compared, hence equal keys have
       equal static field values.
   NOT proved (tested by harness/c18.py, reported as numerical tests): that JAX tracing, XLA and
   equinox's generic module flattening preserve values.
   Statements only; proofs are `exact <lemma>` (Lemmas/PytreeRegL.v) or finite decisions on the
   regenerated tables (vm_compute). *)
From Coq Require Import ZArith List String Bool.
From Furax Require Import Model.PytreeReg Lemmas.PytreeRegL.
From FuraxGen Require Import PytreeReg FieldTable.
Import ListNotations.
Open Scope string_scope.

(* ---------------------------------------------------------------------------------------------- *)
(* (a) registered pytree nodes: what is decided on the regenerated table alone *)

(* decided directly on the regenerated table (independently of the pinned copy): every aux key is a
   constructor parameter and every parameter without default is an aux key *)
Theorem registered_keys_accepted : forallb keys_ok gen_table = true.
Proof. vm_compute. reflexivity. Qed.

(* ... and that condition is necessary, for ALL field values: with an aux key the constructor does
   not accept, unflatten of any flattened object raises TypeError *)
Theorem unaccepted_key_always_fails : forall t d self,
  keys_accepted d = false -> c_unflatten d = UKwargs ->
  forall ch aux, flatten d self = Ok (ch, aux) -> unflatten t d ch aux = Err TypeError.
Proof. exact unaccepted_key_always_fails_l. Qed.
Print Assumptions unaccepted_key_always_fails.

(* ... and sufficient for the call itself, for ANY regenerated table (no reference to the pinned copy):
   with distinct accepted keys that cover the parameters without default, cls( **aux_data ) binds its
   arguments whatever the field values are *)
Theorem unflatten_call_always_binds : forall d self ch aux, In d gen_table ->
  flatten d self = Ok (ch, aux) -> exists loc, bind_call (c_params d) [] aux = Ok loc.
Proof. apply call_binds_table_l. vm_compute. reflexivity. Qed.
Print Assumptions unflatten_call_always_binds.

(* ConfigState defines a (lossy) tree_flatten/tree_unflatten pair but is not a registered node *)
Theorem configstate_not_registered :
  gen_unregistered = ["ConfigState"] /\ find_class "ConfigState" gen_table = None /\
  unregistered_ok gen_unregistered gen_table = true.
Proof. repeat split; vm_compute; reflexivity. Qed.

(* ---------------------------------------------------------------------------------------------- *)
(* (b) field partition of the operator classes *)

(* every dataclass field of every operator class of the package is classified by the model, and its
   declaration (static flag, kind of the annotation) is consistent with how mv uses it; a new class,
   a new field, a reordered field, a flipped static flag or a changed annotation breaks this *)
Theorem partition_sound : forall cls fs f st k, In (cls, fs) gen_fields -> In (f, (st, k)) fs ->
  exists use, use_of model_uses cls f = Some use /\ consistent st k use = true.
Proof. apply partition_sound_l. vm_compute. reflexivity. Qed.
Print Assumptions partition_sound.

(* the logic behind "trace-safe": a field consulted by Python-level control flow (loop bounds, shape
   arithmetic, axis tuples, method names, subscripts, structures) or the solver configuration is never
   a traced leaf under a jit that keeps non-array fields static *)
Theorem no_shape_level_field_traced : forall cls fs f st k, In (cls, fs) gen_fields -> In (f, (st, k)) fs ->
  (use_of model_uses cls f = Some UShapeLevel \/ use_of model_uses cls f = Some UConfigUse) ->
  may_be_traced st k = false.
Proof. apply partition_no_shape_level_traced. vm_compute. reflexivity. Qed.
Print Assumptions no_shape_level_field_traced.

(* fields used as numbers are dynamic array leaves *)
Theorem value_level_fields_dynamic : forall st k, consistent st k UValue = true ->
  st = false /\ may_be_traced st k = true.
Proof. exact value_level_dynamic. Qed.

(* the only fields through which array VALUES can determine a shape (boolean masks) belong to the
   two classes the property excludes from the filtering-jit clause *)
Theorem mask_fields_excluded : forall cls f u,
  use_of model_uses cls f = Some u -> field_is_mask u = true -> cls = "IndexOperator" \/ cls = "PackOperator".
Proof. exact mask_fields_only_in_index_and_pack. Qed.

(* every class the model classifies exists in the package (the toast classes are optional) *)
Theorem classified_classes_exist : forall cls fs, In (cls, fs) model_uses ->
  In cls (map fst gen_fields) \/ In cls optional_classes.
Proof. apply coverage_sound_l. vm_compute. reflexivity. Qed.

(* ---------------------------------------------------------------------------------------------- *)
(* (c) the static part of an operator is the cache key of a jit that takes the operator as argument *)

(* every dataclass field of every operator class, and every field of the dataclass stored in a static
   field (ConfigState in InverseOperator.config), is declared with compare=True (regenerated flags) *)
Theorem static_fields_all_compared :
  all_compared gen_field_compare = true /\ all_compared gen_static_records = true /\
  config_record_present gen_fields gen_static_records = true.
Proof. repeat split; vm_compute; reflexivity. Qed.

(* hence, for ANY field values: two records of a regenerated class that compare equal (generated
   dataclass __eq__ over a sound equality of values) agree on every field - operators that differ in a
   field of their static configuration never share a cache entry *)
Theorem equal_static_records_have_equal_fields : forall cls flags, In (cls, flags) gen_static_records ->
  forall (V : Type) (veq : V -> V -> bool) a b, (forall x y, veq x y = true -> x = y) ->
  rec_eq veq flags a b = true ->
  forall f, In f (map fst flags) -> assoc f a = assoc f b /\ assoc f a <> None.
Proof. apply static_key_sound_l. vm_compute. reflexivity. Qed.
Print Assumptions equal_static_records_have_equal_fields.

(* the hypothesis is satisfiable and the conclusion not vacuous: ConfigState is in the table with its
   four fields; and the condition is necessary - an uncompared field is ignored whatever its values *)
Example configstate_record_example :
  exists flags, In ("ConfigState", flags) gen_static_records /\ In "solver_options" (map fst flags).
Proof. eexists. split; [left; reflexivity|]. vm_compute. tauto. Qed.
Example uncompared_field_conflates :
  rec_eq Nat.eqb [("solver_options", false)] [("solver_options", 0%nat)] [("solver_options", 1%nat)] = true.
Proof. exact (rec_eq_ignores_uncompared_l nat Nat.eqb "solver_options" 0%nat 1%nat). Qed.

(* ---------------------------------------------------------------------------------------------- *)
(* (a, continued) the round trip itself, for all constructor arguments *)

(* T-tie: the registered classes, their constructors (parameters, defaults, bodies), the children and
   aux keys of their tree_flatten, the call made by their tree_unflatten and the unregistered pairs are
   those the proofs were written against; an unknown class or any change fails closed *)
Theorem table_unchanged : gen_table = pinned_table /\ gen_unregistered = pinned_unregistered.
Proof. split; vm_compute; reflexivity. Qed.

(* for every registered class and ALL constructor arguments (positional and keyword, any values):
   whatever object the constructor produces is returned field-wise equal - same attributes, same
   values, same order - by tree_unflatten (tree_flatten obj) *)
Theorem roundtrip_ok : forall d args kw obj, In d gen_table -> c_registered d = true ->
  construct gen_table d args kw = Ok obj -> roundtrip gen_table d obj = Ok obj.
Proof. exact (roundtrip_of_equal gen_table (proj1 table_unchanged)). Qed.
Print Assumptions roundtrip_ok.

(* hence every observation that is a function of the attributes - structure, size, full(), normal(),
   world2index() of a landscape - is the same on the round-tripped object *)
Theorem roundtrip_same_structure_and_action : forall d args kw obj, In d gen_table -> c_registered d = true ->
  construct gen_table d args kw = Ok obj ->
  forall (A : Type) (f : env -> A), exists obj', roundtrip gen_table d obj = Ok obj' /\ f obj' = f obj.
Proof. exact (roundtrip_same_action gen_table roundtrip_ok). Qed.

Theorem roundtrip_idempotent : forall d args kw obj, In d gen_table -> c_registered d = true ->
  construct gen_table d args kw = Ok obj ->
  bind (roundtrip gen_table d obj) (roundtrip gen_table d) = Ok obj.
Proof. intros d args kw obj. exact (roundtrip_twice gen_table d args kw obj roundtrip_ok). Qed.


(* ---------------------------------------------------------------------------------------------- *)
(* non-vacuity and the finding *)

Open Scope Z_scope.
Example healpix_roundtrip_example :
  observe gen_table "HealpixLandscape" [VInt 2] [("stokes", VStr "QU")] =
  Some (let obj := [("shape", VTuple [VInt 48]); ("dtype", VObj 1 None); ("stokes", VStr "QU");
                    ("pixel_shape", VTuple [VInt 48]); ("nside", VInt 2)] in
        RDone obj [] [("dtype", VObj 1 None); ("stokes", VStr "QU"); ("nside", VInt 2)] (Ok obj)).
Proof. vm_compute. reflexivity. Qed.

Example frequency_roundtrip_example :
  observe gen_table "FrequencyLandscape" [VInt 1; VObj 7 (Some 3)] [] =
  Some (let obj := [("shape", VTuple [VInt 3; VInt 12]); ("dtype", VObj 1 None); ("stokes", VStr "IQU");
                    ("pixel_shape", VTuple [VInt 12]); ("nside", VInt 1); ("frequencies", VObj 7 (Some 3))] in
        RDone obj [] [("dtype", VObj 1 None); ("stokes", VStr "IQU"); ("nside", VInt 1);
                      ("frequencies", VObj 7 (Some 3))] (Ok obj)).
Proof. vm_compute. reflexivity. Qed.

Example stokes_by_pixel_shape_example :
  exists obj, construct gen_table d_stokes [] [("pixel_shape", VTuple [VInt 5; VInt 2])] = Ok obj /\
              lookup "shape" obj = Some (VTuple [VInt 2; VInt 5]) /\ roundtrip gen_table d_stokes obj = Ok obj.
Proof. eexists. repeat split; vm_compute; reflexivity. Qed.

(* D4 (fixed by fixes/C18-landscape-unflatten.diff): before the fix tree_flatten of HealpixLandscape
   (and FrequencyLandscape) carried `shape`; no such object survived the round trip *)
Example d4_before_fix :
  keys_ok prefix_healpix = false /\
  forall self ch aux, flatten prefix_healpix self = Ok (ch, aux) ->
    unflatten pinned_table prefix_healpix ch aux = Err TypeError.
Proof.
  split; [vm_compute; reflexivity|].
  intros self ch aux. apply unaccepted_key_always_fails; vm_compute; reflexivity.
Qed.
