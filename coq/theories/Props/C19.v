(* C19 - solver configuration is scoped, restored and captured correctly.
   Statements only; every proof is `exact <lemma>` (Lemmas/ConfigL.v). *)
From Coq Require Import ZArith List.
From Furax Require Import Model.Config Lemmas.ConfigL.
Import ListNotations.

(* The event language separates BUILDING a Config object (Build k: Config.__init__ under the active
   configuration; the object is kept as the next preset), ENTERING one (EnterP i: __enter__ of preset i,
   at any later point, at any depth, any number of times) and the inline `with Config(k)` (Enter k: both
   at once).  A history is well nested from np presets (track np) when every exit has a matching enter
   and every EnterP refers to an object that has been built.

   Leaving blocks, normally or by exception, restores exactly what was active before, at any depth,
   whether the blocks were opened inline or by entering objects built elsewhere. *)
Theorem restore : forall s h, well_nested (length (presets s)) h ->
  cur (final s h) = cur s /\ stack (final s h) = stack s.
Proof. exact restore_l. Qed.
Print Assumptions restore.

(* After any prefix whose open blocks are ks (innermost first), the active configuration is `active`:
   an inline block overrides the configuration around it, a preset block makes the preset's own
   instance active. *)
Theorem innermost_wins : forall s h ks, track (length (presets s)) h [] = Some ks ->
  cur (final s h) = active (presets (final s h)) (cur s) ks.
Proof. exact innermost_l. Qed.
Print Assumptions innermost_wins.
(* ... which for inline blocks only is the starting configuration overridden by the enclosing
   blocks from the outermost to the innermost (outer settings inherited, named settings overridden) *)
Theorem inline_blocks_override : forall ps base ks,
  active ps base (map BKw ks) = fold_left replace (rev ks) base.
Proof. exact active_kw_l. Qed.

Theorem ends_with_defaults : forall h, well_nested 0 h -> cur (final init h) = default_cfg.
Proof. exact ends_with_defaults_l. Qed.
Print Assumptions ends_with_defaults.

(* A Config object holds replace(configuration active when it was BUILT, kwargs), whatever happens
   afterwards. *)
Theorem preset_holds_build_time_configuration : forall s h1 k h2,
  nth_error (presets (final s (h1 ++ Build k :: h2))) (length (presets (final s h1)))
  = Some (replace (cur (final s h1)) k).
Proof. exact preset_built_l. Qed.
Print Assumptions preset_holds_build_time_configuration.

(* Entering preset i after ANY history h makes its instance active; it is active again whenever the
   blocks opened inside (h' well nested) are closed; leaving the block - normally or by an exception -
   restores the configuration that was active when the block was ENTERED (cur (final s h)), wherever
   and under whatever configuration the object was BUILT, however often it has been entered before. *)
Theorem preset_block_scopes_and_restores_enter_time : forall s h i c h' x,
  nth_error (presets (final s h)) i = Some c -> (x = Exit \/ x = ExitExc) ->
  well_nested (length (presets (final s h))) h' ->
  cur (final s (h ++ [EnterP i])) = c /\
  cur (final s (h ++ EnterP i :: h')) = c /\
  cur (final s (h ++ EnterP i :: h' ++ [x])) = cur (final s h) /\
  stack (final s (h ++ EnterP i :: h' ++ [x])) = stack (final s h).
Proof. exact enter_preset_l. Qed.
Print Assumptions preset_block_scopes_and_restores_enter_time.
(* RE-ENTRY.  preset_block_scopes_and_restores_enter_time holds after ANY history h - in particular one in
   which the block of preset i itself is still open: the stack discipline does not care whether two frames
   come from the same Config object (with p: with p: ..., at any distance).  Spelled out for the direct case:
   the inner exit gives back the preset's instance, the outer exit the configuration active before the
   outer enter.  [Code: this needs the tokens of the open blocks to be kept per CONTEXT (fixes/
   C19-config-reentrant.diff); with one token slot per Config object the outer exit raises.] *)
Theorem reentered_preset_block : forall s h i c x y,
  nth_error (presets (final s h)) i = Some c -> (x = Exit \/ x = ExitExc) -> (y = Exit \/ y = ExitExc) ->
  cur (final s (h ++ [EnterP i; EnterP i])) = c /\
  cur (final s (h ++ [EnterP i; EnterP i; x])) = c /\
  cur (final s (h ++ [EnterP i; EnterP i; x; y])) = cur (final s h) /\
  stack (final s (h ++ [EnterP i; EnterP i; x; y])) = stack (final s h).
Proof. exact reenter_l. Qed.
Print Assumptions reentered_preset_block.
Theorem inline_block_scopes_and_restores_enter_time : forall s h k h' x,
  (x = Exit \/ x = ExitExc) -> well_nested (length (presets (final s h))) h' ->
  cur (final s (h ++ [Enter k])) = replace (cur (final s h)) k /\
  cur (final s (h ++ Enter k :: h')) = replace (cur (final s h)) k /\
  cur (final s (h ++ Enter k :: h' ++ [x])) = cur (final s h) /\
  stack (final s (h ++ Enter k :: h' ++ [x])) = stack (final s h).
Proof. exact enter_inline_l. Qed.
Print Assumptions inline_block_scopes_and_restores_enter_time.

Theorem reads_observe_active : forall s h,
  observe s (h ++ [Read]) = observe s h ++ [Some (cur (final s h))].
Proof. exact read_l. Qed.
Print Assumptions reads_observe_active.

(* A lazy inverse keeps the configuration active at its creation, whatever happens afterwards. *)
Theorem capture : forall s h1 h2,
  let i := length (invs (final s h1)) in
  observe s (h1 ++ NewInverse :: h2 ++ [ApplyInverse i]) =
  observe s (h1 ++ NewInverse :: h2) ++ [Some (cur (final s h1))].
Proof. exact capture_l. Qed.
Print Assumptions capture.

(* ... in particular one created inside a preset block keeps the preset's instance *)
Theorem capture_inside_preset_block : forall s h i c h2,
  nth_error (presets (final s h)) i = Some c ->
  let j := length (invs (final s h)) in
  observe s (h ++ EnterP i :: NewInverse :: h2 ++ [ApplyInverse j]) =
  observe s (h ++ EnterP i :: NewInverse :: h2) ++ [Some c].
Proof. exact capture_in_preset_l. Qed.
Print Assumptions capture_inside_preset_block.

(* ... and what is kept is what is USED: the effect of applying the inverse (exception or returned
   value, statistics, callback that runs - Model.Config.mv) is the effect of the configuration active
   at creation, whatever is active at application time, for every probed system (fails). *)
Theorem capture_effect : forall fails s h1 h2,
  let i := length (invs (final s h1)) in
  effects fails (observe s (h1 ++ NewInverse :: h2 ++ [ApplyInverse i])) =
  effects fails (observe s (h1 ++ NewInverse :: h2)) ++ [Some (mv fails (cur (final s h1)))].
Proof. exact capture_effect_l. Qed.
Print Assumptions capture_effect.

(* AFTER the creation.  Objects are numbered in creation order: the lazy inverses (NewInverse) and
   whatever is derived from an object - an expression holding it that is reduced (Derive DReduce), a
   pytree round trip (Derive DRoundTrip), .I.I (Derive DInvInv: a new lazy inverse).  `prov h` gives
   for every object the position in h of the creation event it stems from (the NewInverse at the
   root of any chain of reductions / round trips; the .I.I itself).  Whatever happens between the
   creation and the application, and whatever the route of application - eager, jitted closure,
   ARGUMENT of a jitted function whose cache compares the static configuration with
   ConfigState.__eq__, generic as_matrix - the configuration used is the one that was active just
   before that creation event. *)
Theorem capture_everywhere : forall s h r j p, invs s = [] ->
  nth_error (prov h) j = Some p ->
  observe s (h ++ [ApplyVia r j]) = observe s h ++ [Some (cur (final s (firstn p h)))].
Proof. exact capture_everywhere_l. Qed.
Print Assumptions capture_everywhere.
Theorem capture_everywhere_effect : forall fails s h r j p, invs s = [] ->
  nth_error (prov h) j = Some p ->
  effects fails (observe s (h ++ [ApplyVia r j])) =
  effects fails (observe s h) ++ [Some (mv fails (cur (final s (firstn p h))))].
Proof. exact capture_everywhere_effect_l. Qed.
Print Assumptions capture_everywhere_effect.
(* every object has a provenance, and stores the configuration of its provenance *)
Theorem provenance : forall s h, invs s = [] ->
  length (prov h) = length (invs (final s h)) /\
  forall j p, nth_error (prov h) j = Some p ->
    (p < length h)%nat /\ nth_error (invs (final s h)) j = Some (cur (final s (firstn p h))).
Proof. exact provenance_l. Qed.
Print Assumptions provenance.
(* one step spelled out: reducing an expression that holds object i / a round trip, under ANY active
   configuration, yields an object with the configuration of object i; .I.I is a new creation *)
Theorem derive_keeps : forall s h d i c, d <> DInvInv ->
  nth_error (invs (final s h)) i = Some c ->
  invs (final s (h ++ [Derive d i])) = invs (final s h) ++ [c].
Proof. exact derive_keeps_l. Qed.
Theorem inv_inv_is_new : forall s h i c,
  nth_error (invs (final s h)) i = Some c ->
  invs (final s (h ++ [Derive DInvInv i])) = invs (final s h) ++ [cur (final s h)].
Proof. exact inv_inv_is_new_l. Qed.
(* every route observes what is stored for the object (the jit cache cannot substitute another
   configuration) ... *)
Theorem every_route_uses_the_stored_configuration : forall s h r j,
  observe s (h ++ [ApplyVia r j]) = observe s h ++ [nth_error (invs (final s h)) j].
Proof. exact apply_via_l. Qed.
Print Assumptions every_route_uses_the_stored_configuration.
(* ... because ConfigState equality compares every field: a cache hit hands back the configuration
   itself; with solver_options out of the comparison it would not *)
Theorem configstate_eq_is_identity : forall a b, cfg_eqb a b = true <-> a = b.
Proof. exact cfg_eqb_sound_l. Qed.
Theorem jit_cache_hit_is_own_configuration : forall (eqb : cfg -> cfg -> bool) fn c cache c',
  (forall a b, eqb a b = true -> a = b) -> jit_lookup eqb fn c cache = Some c' -> c' = c.
Proof. exact jit_lookup_sound_l. Qed.
Example equality_ignoring_a_field_conflates :
  jit_lookup eqb_ignoring_options 0 (mkCfg 0 0 1 0) [(0%nat, mkCfg 0 0 0 0)] = Some (mkCfg 0 0 0 0).
Proof. exact jit_lookup_unsound_example_l. Qed.

(* non-vacuity: an inverse created with options 2 in a block; after the block its composition is
   reduced inside ANOTHER block (callback 3), round-tripped under the defaults, then .I.I under
   solver 1; two inverses that differ in solver_options only go through the same jitted function *)
Example derived_example :
  let h := [Enter [(SOptions, 2%Z)]; NewInverse; Exit; Enter [(SCallback, 3%Z)]; Derive DReduce 0; Exit;
            Derive DRoundTrip 1; Enter [(SSolver, 1%Z)]; Derive DInvInv 2; Exit; NewInverse;
            ApplyVia (RJitArg 0) 4; ApplyVia (RJitArg 0) 2; ApplyVia RMatrix 3; ApplyVia (RJitArg 0) 0] in
  well_nested 0 h /\ prov h = [1; 1; 1; 8; 10]%nat /\
  observe init h = [None; None; None; None; None; None; None; None; None; None; None;
                    Some default_cfg; Some (mkCfg 0 0 2 0); Some (mkCfg 1 0 0 0); Some (mkCfg 0 0 2 0)].
Proof. repeat split; reflexivity. Qed.

(* The effect distinguishes every individual setting (so the correspondence on effects checks each
   field of the captured record, not the record as a blob): a returned value identifies solver,
   options and callback; an exception means exactly "the solve failed and solver_throw is set"; a
   failing probe together with a succeeding probe determine all four settings. *)
Theorem returned_identifies : forall fails c s o k,
  mv fails c = Returned s o k -> c_solver c = s /\ c_options c = o /\ c_callback c = k.
Proof. exact mv_returned_l. Qed.
Theorem raised_iff : forall fails c,
  mv fails c = Raised <-> fails (c_solver c) (c_options c) = true /\ c_throw c <> 0%Z.
Proof. exact mv_raised_l. Qed.
Theorem effects_determine_every_setting : forall c c',
  mv all_fail c = mv all_fail c' -> mv none_fail c = mv none_fail c' ->
  (c_throw c =? 0)%Z = (c_throw c' =? 0)%Z /\ c_solver c = c_solver c' /\
  c_options c = c_options c' /\ c_callback c = c_callback c'.
Proof. exact effects_determine_l. Qed.
Print Assumptions effects_determine_every_setting.
Theorem solver_throw_visible_when_solve_fails : forall fails c c',
  fails (c_solver c) (c_options c) = true -> c_solver c' = c_solver c -> c_options c' = c_options c ->
  (c_throw c =? 0)%Z <> (c_throw c' =? 0)%Z -> mv fails c <> mv fails c'.
Proof. exact throw_visible_l. Qed.
Theorem other_settings_visible_when_value_returned : forall fails c c',
  (fails (c_solver c) (c_options c) = false \/ c_throw c = 0%Z) ->
  (c_solver c <> c_solver c' \/ c_options c <> c_options c' \/ c_callback c <> c_callback c') ->
  mv fails c <> mv fails c'.
Proof. exact others_visible_l. Qed.

(* For every schedule l of the events of all threads, thread t's final state and observations are
   those of its own history run alone. *)
Theorem thread_isolation : forall l g t,
  (forall e, In e l -> touches t e = true -> match e with Ev _ _ => True | _ => False end) ->
  fst (grun g l) t = final (g t) (project t l) /\
  obs_of t (snd (grun g l)) = observe (g t) (project t l).
Proof. exact isolation_l. Qed.
Print Assumptions thread_isolation.

Theorem other_threads_invisible : forall g e t, touches t e = false -> fst (gstep g e) t = g t.
Proof. exact frame_l. Qed.
Print Assumptions other_threads_invisible.

Theorem forked_context_is_a_copy : forall g t t', cur (fst (gstep g (Fork t t')) t') = cur (g t).
Proof. exact fork_copy_l. Qed.
Theorem new_thread_has_defaults : forall g t, cur (fst (gstep g (Spawn t)) t) = default_cfg.
Proof. exact spawn_default_l. Qed.
(* a new thread that is handed Config objects built by another thread still starts from the defaults,
   and gets exactly those objects *)
Theorem handed_thread_has_defaults : forall g t t',
  cur (fst (gstep g (Hand t t')) t') = default_cfg /\ stack (fst (gstep g (Hand t t')) t') = [] /\
  presets (fst (gstep g (Hand t t')) t') = presets (g t).
Proof. exact hand_default_l. Qed.

(* non-vacuity: a nested history with an exceptional exit is well nested and observable *)
Example history_example :
  let h := [Enter [(SThrow, 1%Z)]; Enter [(SOptions, 2%Z)]; Read; NewInverse; ExitExc; Read; Exit;
            ApplyInverse 0; Read] in
  well_nested 0 h /\
  observe init h = [None; None; Some (mkCfg 0 1 2 0); None; None; Some (mkCfg 0 1 0 0); None;
                    Some (mkCfg 0 1 2 0); Some default_cfg].
Proof. split; reflexivity. Qed.

(* non-vacuity of the effect layer: created under (solver 1, throw set), applied under throw unset
   and another callback: the failing solve raises; created with throw unset it returns solver 1's
   iterate and runs the captured callback 2, not the active callback 3 *)
Example effect_example :
  let fails := in_tbl [(1, 0)]%Z in
  effects fails (observe init [Enter [(SSolver, 1); (SThrow, 1)]%Z; NewInverse; Exit; ApplyInverse 0]) =
    [None; None; None; Some Raised] /\
  effects fails (observe init [Enter [(SSolver, 1); (SCallback, 2)]%Z; NewInverse; Exit;
                               Enter [(SThrow, 1); (SCallback, 3)]%Z; ApplyInverse 0; Exit]) =
    [None; None; None; None; Some (Returned 1 0 2); None].
Proof. split; reflexivity. Qed.

(* non-vacuity of the preset layer: p0 = Config(callback=3) is built under the defaults, p1 = Config(options=2)
   inside `with Config(throw=1)`; p0 is entered inside a solver=1 block (its instance does NOT inherit solver 1,
   and leaving it restores solver 1 - not the defaults active when p0 was built); p1 is entered after every block
   is closed (it still holds throw=1) and p0 again inside it, left by an exception; an inverse created in p0's
   block keeps p0's instance *)
Example preset_example :
  let h := [Build [(SCallback, 3%Z)]; Enter [(SThrow, 1%Z)]; Build [(SOptions, 2%Z)]; Exit;
            Enter [(SSolver, 1%Z)]; EnterP 0; Read; NewInverse; Exit; Read; Exit;
            EnterP 1; Read; EnterP 0; Read; ExitExc; Read; Exit; Read; ApplyInverse 0] in
  well_nested 0 h /\
  observe init h = [None; None; None; None; None; None; Some (mkCfg 0 0 0 3); None; None; Some (mkCfg 1 0 0 0); None;
                    None; Some (mkCfg 0 1 2 0); None; Some (mkCfg 0 0 0 3); None; Some (mkCfg 0 1 2 0); None;
                    Some default_cfg; Some (mkCfg 0 0 0 3)].
Proof. split; reflexivity. Qed.

(* non-vacuity of re-entry: p0 = Config(throw=1) entered inside a solver=1 block, entered again while open
   (directly, and once more under an inline options=2 block nested in it); every exit peels one frame *)
Example reentry_example :
  let h := [Build [(SThrow, 1%Z)]; Enter [(SSolver, 1%Z)]; EnterP 0; EnterP 0; Read; Enter [(SOptions, 2%Z)]; Read;
            EnterP 0; Read; ExitExc; Read; Exit; Read; Exit; Read; Exit; Read; Exit; Read] in
  well_nested 0 h /\
  observe init h = [None; None; None; None; Some (mkCfg 0 1 0 0); None; Some (mkCfg 0 1 2 0); None; Some (mkCfg 0 1 0 0);
                    None; Some (mkCfg 0 1 2 0); None; Some (mkCfg 0 1 0 0); None; Some (mkCfg 0 1 0 0); None;
                    Some (mkCfg 1 0 0 0); None; Some default_cfg].
Proof. split; reflexivity. Qed.
