(* C19 - solver configuration is scoped, restored and captured correctly.
   Statements only; every proof is `exact <lemma>` (Lemmas/ConfigL.v). *)
From Coq Require Import ZArith List.
From Furax Require Import Model.Config Lemmas.ConfigL.
Import ListNotations.

(* Leaving blocks, normally or by exception, restores exactly what was active before, at any depth. *)
Theorem restore : forall s h, well_nested h ->
  cur (final s h) = cur s /\ stack (final s h) = stack s.
Proof. exact restore_l. Qed.
Print Assumptions restore.

(* After any prefix whose open blocks are ks (innermost first), the active configuration is the
   starting one overridden by the enclosing blocks from the outermost to the innermost. *)
Theorem innermost_wins : forall s h ks, track h [] = Some ks ->
  cur (final s h) = fold_left replace (rev ks) (cur s).
Proof. exact innermost_l. Qed.
Print Assumptions innermost_wins.

Theorem ends_with_defaults : forall h, well_nested h -> cur (final init h) = default_cfg.
Proof. exact ends_with_defaults_l. Qed.
Print Assumptions ends_with_defaults.

Theorem reads_observe_active : forall s h,
  observe s (h ++ [Read]) = observe s h ++ [Some (cur (final s h))].
Proof. exact read_l. Qed.
Print Assumptions reads_observe_active.

(* A lazy inverse keeps the configuration active at its creation, whatever happens afterwards. *)
Theorem capture : forall s h1 h2,
  let i := length (invs (final s h1)) in
  observe s (h1 ++ NewInverse :: h2 ++ [ApplyInverse i]) =
  observe s (h1 ++ NewInverse :: h2) ++ [Some (cur (final s h1))].
Proof. exact capture_l. Qed.
Print Assumptions capture.

(* ... and what is kept is what is USED: the effect of applying the inverse (exception or returned
   value, statistics, callback that runs - Model.Config.mv) is the effect of the configuration active
   at creation, whatever is active at application time, for every probed system (fails). *)
Theorem capture_effect : forall fails s h1 h2,
  let i := length (invs (final s h1)) in
  effects fails (observe s (h1 ++ NewInverse :: h2 ++ [ApplyInverse i])) =
  effects fails (observe s (h1 ++ NewInverse :: h2)) ++ [Some (mv fails (cur (final s h1)))].
Proof. exact capture_effect_l. Qed.
Print Assumptions capture_effect.

(* The effect distinguishes every individual setting (so the correspondence on effects checks each
   field of the captured record, not the record as a blob): a returned value identifies solver,
   options and callback; an exception means exactly "the solve failed and solver_throw is set"; a
   failing probe together with a succeeding probe determine all four settings. *)
Theorem returned_identifies : forall fails c s o k,
  mv fails c = Returned s o k -> c_solver c = s /\ c_options c = o /\ c_callback c = k.
Proof. exact mv_returned_l. Qed.
Theorem raised_iff : forall fails c,
  mv fails c = Raised <-> fails (c_solver c) (c_options c) = true /\ c_throw c <> 0%Z.
Proof. exact mv_raised_l. Qed.
Theorem effects_determine_every_setting : forall c c',
  mv all_fail c = mv all_fail c' -> mv none_fail c = mv none_fail c' ->
  (c_throw c =? 0)%Z = (c_throw c' =? 0)%Z /\ c_solver c = c_solver c' /\
  c_options c = c_options c' /\ c_callback c = c_callback c'.
Proof. exact effects_determine_l. Qed.
Print Assumptions effects_determine_every_setting.
Theorem solver_throw_visible_when_solve_fails : forall fails c c',
  fails (c_solver c) (c_options c) = true -> c_solver c' = c_solver c -> c_options c' = c_options c ->
  (c_throw c =? 0)%Z <> (c_throw c' =? 0)%Z -> mv fails c <> mv fails c'.
Proof. exact throw_visible_l. Qed.
Theorem other_settings_visible_when_value_returned : forall fails c c',
  (fails (c_solver c) (c_options c) = false \/ c_throw c = 0%Z) ->
  (c_solver c <> c_solver c' \/ c_options c <> c_options c' \/ c_callback c <> c_callback c') ->
  mv fails c <> mv fails c'.
Proof. exact others_visible_l. Qed.

(* For every schedule l of the events of all threads, thread t's final state and observations are
   those of its own history run alone. *)
Theorem thread_isolation : forall l g t,
  (forall e, In e l -> touches t e = true -> match e with Ev _ _ => True | _ => False end) ->
  fst (grun g l) t = final (g t) (project t l) /\
  obs_of t (snd (grun g l)) = observe (g t) (project t l).
Proof. exact isolation_l. Qed.
Print Assumptions thread_isolation.

Theorem other_threads_invisible : forall g e t, touches t e = false -> fst (gstep g e) t = g t.
Proof. exact frame_l. Qed.
Print Assumptions other_threads_invisible.

Theorem forked_context_is_a_copy : forall g t t', cur (fst (gstep g (Fork t t')) t') = cur (g t).
Proof. exact fork_copy_l. Qed.
Theorem new_thread_has_defaults : forall g t, cur (fst (gstep g (Spawn t)) t) = default_cfg.
Proof. exact spawn_default_l. Qed.

(* non-vacuity: a nested history with an exceptional exit is well nested and observable *)
Example history_example :
  let h := [Enter [(SThrow, 1%Z)]; Enter [(SOptions, 2%Z)]; Read; NewInverse; ExitExc; Read; Exit;
            ApplyInverse 0; Read] in
  well_nested h /\
  observe init h = [None; None; Some (mkCfg 0 1 2 0); None; None; Some (mkCfg 0 1 0 0); None;
                    Some (mkCfg 0 1 2 0); Some default_cfg].
Proof. split; reflexivity. Qed.

(* non-vacuity of the effect layer: created under (solver 1, throw set), applied under throw unset
   and another callback: the failing solve raises; created with throw unset it returns solver 1's
   iterate and runs the captured callback 2, not the active callback 3 *)
Example effect_example :
  let fails := in_tbl [(1, 0)]%Z in
  effects fails (observe init [Enter [(SSolver, 1); (SThrow, 1)]%Z; NewInverse; Exit; ApplyInverse 0]) =
    [None; None; None; Some Raised] /\
  effects fails (observe init [Enter [(SSolver, 1); (SCallback, 2)]%Z; NewInverse; Exit;
                               Enter [(SThrow, 1); (SCallback, 3)]%Z; ApplyInverse 0; Exit]) =
    [None; None; None; None; Some (Returned 1 0 2); None].
Proof. split; reflexivity. Qed.
