(* C19 - solver configuration is scoped, restored and captured correctly.
   Statements only; every proof is `exact <lemma>` (Lemmas/ConfigL.v). *)
From Coq Require Import ZArith List.
From Furax Require Import Model.Config Lemmas.ConfigL.
Import ListNotations.

(* Leaving blocks, normally or by exception, restores exactly what was active before, at any depth. *)
Theorem restore : forall s h, well_nested h ->
  cur (final s h) = cur s /\ stack (final s h) = stack s.
Proof. exact restore_l. Qed.
Print Assumptions restore.

(* After any prefix whose open blocks are ks (innermost first), the active configuration is the
   starting one overridden by the enclosing blocks from the outermost to the innermost. *)
Theorem innermost_wins : forall s h ks, track h [] = Some ks ->
  cur (final s h) = fold_left replace (rev ks) (cur s).
Proof. exact innermost_l. Qed.
Print Assumptions innermost_wins.

Theorem ends_with_defaults : forall h, well_nested h -> cur (final init h) = default_cfg.
Proof. exact ends_with_defaults_l. Qed.
Print Assumptions ends_with_defaults.

Theorem reads_observe_active : forall s h,
  observe s (h ++ [Read]) = observe s h ++ [Some (cur (final s h))].
Proof. exact read_l. Qed.
Print Assumptions reads_observe_active.

(* A lazy inverse keeps the configuration active at its creation, whatever happens afterwards. *)
Theorem capture : forall s h1 h2,
  let i := length (invs (final s h1)) in
  observe s (h1 ++ NewInverse :: h2 ++ [ApplyInverse i]) =
  observe s (h1 ++ NewInverse :: h2) ++ [Some (cur (final s h1))].
Proof. exact capture_l. Qed.
Print Assumptions capture.

(* ... and what is kept is what is USED: the effect of applying the inverse (exception or returned
   value, statistics, callback that runs - Model.Config.mv) is the effect of the configuration active
   at creation, whatever is active at application time, for every probed system (fails). *)
Theorem capture_effect : forall fails s h1 h2,
  let i := length (invs (final s h1)) in
  effects fails (observe s (h1 ++ NewInverse :: h2 ++ [ApplyInverse i])) =
  effects fails (observe s (h1 ++ NewInverse :: h2)) ++ [Some (mv fails (cur (final s h1)))].
Proof. exact capture_effect_l. Qed.
Print Assumptions capture_effect.

(* AFTER the creation.  Objects are numbered in creation order: the lazy inverses (NewInverse) and
   whatever is derived from an object - an expression holding it that is reduced (Derive DReduce), a
   pytree round trip (Derive DRoundTrip), .I.I (Derive DInvInv: a new lazy inverse).  `prov h` gives
   for every object the position in h of the creation event it stems from (the NewInverse at the
   root of any chain of reductions / round trips; the .I.I itself).  Whatever happens between the
   creation and the application, and whatever the route of application - eager, jitted closure,
   ARGUMENT of a jitted function whose cache compares the static configuration with
   ConfigState.__eq__, generic as_matrix - the configuration used is the one that was active just
   before that creation event. *)
Theorem capture_everywhere : forall s h r j p, invs s = [] ->
  nth_error (prov h) j = Some p ->
  observe s (h ++ [ApplyVia r j]) = observe s h ++ [Some (cur (final s (firstn p h)))].
Proof. exact capture_everywhere_l. Qed.
Print Assumptions capture_everywhere.
Theorem capture_everywhere_effect : forall fails s h r j p, invs s = [] ->
  nth_error (prov h) j = Some p ->
  effects fails (observe s (h ++ [ApplyVia r j])) =
  effects fails (observe s h) ++ [Some (mv fails (cur (final s (firstn p h))))].
Proof. exact capture_everywhere_effect_l. Qed.
Print Assumptions capture_everywhere_effect.
(* every object has a provenance, and stores the configuration of its provenance *)
Theorem provenance : forall s h, invs s = [] ->
  length (prov h) = length (invs (final s h)) /\
  forall j p, nth_error (prov h) j = Some p ->
    (p < length h)%nat /\ nth_error (invs (final s h)) j = Some (cur (final s (firstn p h))).
Proof. exact provenance_l. Qed.
Print Assumptions provenance.
(* one step spelled out: reducing an expression that holds object i / a round trip, under ANY active
   configuration, yields an object with the configuration of object i; .I.I is a new creation *)
Theorem derive_keeps : forall s h d i c, d <> DInvInv ->
  nth_error (invs (final s h)) i = Some c ->
  invs (final s (h ++ [Derive d i])) = invs (final s h) ++ [c].
Proof. exact derive_keeps_l. Qed.
Theorem inv_inv_is_new : forall s h i c,
  nth_error (invs (final s h)) i = Some c ->
  invs (final s (h ++ [Derive DInvInv i])) = invs (final s h) ++ [cur (final s h)].
Proof. exact inv_inv_is_new_l. Qed.
(* every route observes what is stored for the object (the jit cache cannot substitute another
   configuration) ... *)
Theorem every_route_uses_the_stored_configuration : forall s h r j,
  observe s (h ++ [ApplyVia r j]) = observe s h ++ [nth_error (invs (final s h)) j].
Proof. exact apply_via_l. Qed.
Print Assumptions every_route_uses_the_stored_configuration.
(* ... because ConfigState equality compares every field: a cache hit hands back the configuration
   itself; with solver_options out of the comparison it would not *)
Theorem configstate_eq_is_identity : forall a b, cfg_eqb a b = true <-> a = b.
Proof. exact cfg_eqb_sound_l. Qed.
Theorem jit_cache_hit_is_own_configuration : forall (eqb : cfg -> cfg -> bool) fn c cache c',
  (forall a b, eqb a b = true -> a = b) -> jit_lookup eqb fn c cache = Some c' -> c' = c.
Proof. exact jit_lookup_sound_l. Qed.
Example equality_ignoring_a_field_conflates :
  jit_lookup eqb_ignoring_options 0 (mkCfg 0 0 1 0) [(0%nat, mkCfg 0 0 0 0)] = Some (mkCfg 0 0 0 0).
Proof. exact jit_lookup_unsound_example_l. Qed.

(* non-vacuity: an inverse created with options 2 in a block; after the block its composition is
   reduced inside ANOTHER block (callback 3), round-tripped under the defaults, then .I.I under
   solver 1; two inverses that differ in solver_options only go through the same jitted function *)
Example derived_example :
  let h := [Enter [(SOptions, 2%Z)]; NewInverse; Exit; Enter [(SCallback, 3%Z)]; Derive DReduce 0; Exit;
            Derive DRoundTrip 1; Enter [(SSolver, 1%Z)]; Derive DInvInv 2; Exit; NewInverse;
            ApplyVia (RJitArg 0) 4; ApplyVia (RJitArg 0) 2; ApplyVia RMatrix 3; ApplyVia (RJitArg 0) 0] in
  well_nested h /\ prov h = [1; 1; 1; 8; 10]%nat /\
  observe init h = [None; None; None; None; None; None; None; None; None; None; None;
                    Some default_cfg; Some (mkCfg 0 0 2 0); Some (mkCfg 1 0 0 0); Some (mkCfg 0 0 2 0)].
Proof. repeat split; reflexivity. Qed.

(* The effect distinguishes every individual setting (so the correspondence on effects checks each
   field of the captured record, not the record as a blob): a returned value identifies solver,
   options and callback; an exception means exactly "the solve failed and solver_throw is set"; a
   failing probe together with a succeeding probe determine all four settings. *)
Theorem returned_identifies : forall fails c s o k,
  mv fails c = Returned s o k -> c_solver c = s /\ c_options c = o /\ c_callback c = k.
Proof. exact mv_returned_l. Qed.
Theorem raised_iff : forall fails c,
  mv fails c = Raised <-> fails (c_solver c) (c_options c) = true /\ c_throw c <> 0%Z.
Proof. exact mv_raised_l. Qed.
Theorem effects_determine_every_setting : forall c c',
  mv all_fail c = mv all_fail c' -> mv none_fail c = mv none_fail c' ->
  (c_throw c =? 0)%Z = (c_throw c' =? 0)%Z /\ c_solver c = c_solver c' /\
  c_options c = c_options c' /\ c_callback c = c_callback c'.
Proof. exact effects_determine_l. Qed.
Print Assumptions effects_determine_every_setting.
Theorem solver_throw_visible_when_solve_fails : forall fails c c',
  fails (c_solver c) (c_options c) = true -> c_solver c' = c_solver c -> c_options c' = c_options c ->
  (c_throw c =? 0)%Z <> (c_throw c' =? 0)%Z -> mv fails c <> mv fails c'.
Proof. exact throw_visible_l. Qed.
Theorem other_settings_visible_when_value_returned : forall fails c c',
  (fails (c_solver c) (c_options c) = false \/ c_throw c = 0%Z) ->
  (c_solver c <> c_solver c' \/ c_options c <> c_options c' \/ c_callback c <> c_callback c') ->
  mv fails c <> mv fails c'.
Proof. exact others_visible_l. Qed.

(* For every schedule l of the events of all threads, thread t's final state and observations are
   those of its own history run alone. *)
Theorem thread_isolation : forall l g t,
  (forall e, In e l -> touches t e = true -> match e with Ev _ _ => True | _ => False end) ->
  fst (grun g l) t = final (g t) (project t l) /\
  obs_of t (snd (grun g l)) = observe (g t) (project t l).
Proof. exact isolation_l. Qed.
Print Assumptions thread_isolation.

Theorem other_threads_invisible : forall g e t, touches t e = false -> fst (gstep g e) t = g t.
Proof. exact frame_l. Qed.
Print Assumptions other_threads_invisible.

Theorem forked_context_is_a_copy : forall g t t', cur (fst (gstep g (Fork t t')) t') = cur (g t).
Proof. exact fork_copy_l. Qed.
Theorem new_thread_has_defaults : forall g t, cur (fst (gstep g (Spawn t)) t) = default_cfg.
Proof. exact spawn_default_l. Qed.

(* non-vacuity: a nested history with an exceptional exit is well nested and observable *)
Example history_example :
  let h := [Enter [(SThrow, 1%Z)]; Enter [(SOptions, 2%Z)]; Read; NewInverse; ExitExc; Read; Exit;
            ApplyInverse 0; Read] in
  well_nested h /\
  observe init h = [None; None; Some (mkCfg 0 1 2 0); None; None; Some (mkCfg 0 1 0 0); None;
                    Some (mkCfg 0 1 2 0); Some default_cfg].
Proof. split; reflexivity. Qed.

(* non-vacuity of the effect layer: created under (solver 1, throw set), applied under throw unset
   and another callback: the failing solve raises; created with throw unset it returns solver 1's
   iterate and runs the captured callback 2, not the active callback 3 *)
Example effect_example :
  let fails := in_tbl [(1, 0)]%Z in
  effects fails (observe init [Enter [(SSolver, 1); (SThrow, 1)]%Z; NewInverse; Exit; ApplyInverse 0]) =
    [None; None; None; Some Raised] /\
  effects fails (observe init [Enter [(SSolver, 1); (SCallback, 2)]%Z; NewInverse; Exit;
                               Enter [(SThrow, 1); (SCallback, 3)]%Z; ApplyInverse 0; Exit]) =
    [None; None; None; None; Some (Returned 1 0 2); None].
Proof. split; reflexivity. Qed.
