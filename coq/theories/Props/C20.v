(* C20 - Stokes containers and pytree helpers act leaf-wise and consistently.
   "Stokes containers behave as component-wise arrays: binary arithmetic with scalars, JAX arrays or
   containers of the same kind (including the reflected forms, respecting operand order), negation,
   abs, indexing, ravel/reshape and the factories act independently and identically on every
   component and reject unknown Stokes kinds.  The pytree helpers agree with them: dot is the
   Hermitian sum of leaf inner products, the *_like helpers reproduce tree structure, shapes and
   dtypes, and as_promoted_dtype casts every leaf to the common promoted dtype."
   Statements only; every proof is `exact <lemma>` (Lemmas/StokesTreeL.v) over Model/StokesTree.v.
   The leaf type A and the leaf operation are ARBITRARY: `g` is any binary function, so operand
   order and component mix-ups are visible in the statements. *)
From Coq Require Import ZArith QArith List String Ring.
From Furax Require Import Base.Pytree Model.StokesTree Lemmas.StokesTreeL.
Import ListNotations.
Open Scope nat_scope.

(* ---- binary arithmetic ------------------------------------------------------------------------- *)

(* same kind: a container of that kind whose component c is g(a.c, b.c), in that order *)
Theorem binop_componentwise : forall (A : Type) (g : A -> A -> A) (a b : stokes A),
  wf a -> wf b -> sk a = sk b ->
  py_binop (lift2 g) (OS a) (OS b) = Ok (mkS (sk a) (zip_with g (comps a) (comps b))).
Proof. exact binop_componentwise_l. Qed.
Print Assumptions binop_componentwise.

Theorem binop_component : forall (A : Type) (g : A -> A -> A) (d : A) (a b : stokes A) c,
  wf a -> wf b -> sk a = sk b -> c < arity (sk a) ->
  exists r, py_binop (lift2 g) (OS a) (OS b) = Ok r /\ wf r /\ sk r = sk a /\
            comp d r c = g (comp d a c) (comp d b c).
Proof. exact binop_component_l. Qed.
Print Assumptions binop_component.

(* container <op> scalar-or-array, and the reflected form with the operands in the written order *)
Theorem binop_scalar : forall (A : Type) (g : A -> A -> A) (a : stokes A) (v : A),
  py_binop (lift2 g) (OS a) (OV v) = Ok (mkS (sk a) (map (fun x => g x v) (comps a))).
Proof. exact binop_scalar_l. Qed.
Print Assumptions binop_scalar.
Theorem rbinop_scalar : forall (A : Type) (g : A -> A -> A) (a : stokes A) (v : A),
  py_binop (lift2 g) (OV v) (OS a) = Ok (mkS (sk a) (map (fun x => g v x) (comps a))).
Proof. exact rbinop_scalar_l. Qed.
Print Assumptions rbinop_scalar.

(* leaf operations that may raise: exactly when the call succeeds, and with what *)
Theorem operation_same_kind_iff : forall (A : Type) (op : A -> A -> res A) (a b r : stokes A),
  sk a = sk b ->
  (operation op a (OS b) = Ok r <->
   sk r = sk a /\ Forall3 (fun x y z => op x y = Ok z) (comps a) (comps b) (comps r)).
Proof. exact operation_same_ok. Qed.
Theorem roperation_same_kind_iff : forall (A : Type) (op : A -> A -> res A) (a b r : stokes A),
  sk a = sk b ->
  (roperation op b (OS a) = Ok r <->
   sk r = sk b /\ Forall3 (fun x y z => op x y = Ok z) (comps a) (comps b) (comps r)).
Proof. exact roperation_same_ok. Qed.
Theorem operation_scalar_iff : forall (A : Type) (op : A -> A -> res A) (a : stokes A) v r,
  operation op a (OV v) = Ok r <->
  sk r = sk a /\ Forall2 (fun x z => op x v = Ok z) (comps a) (comps r).
Proof. exact operation_val_ok. Qed.
Theorem roperation_scalar_iff : forall (A : Type) (op : A -> A -> res A) (a : stokes A) v r,
  roperation op a (OV v) = Ok r <->
  sk r = sk a /\ Forall2 (fun x z => op v x = Ok z) (comps a) (comps r).
Proof. exact roperation_val_ok. Qed.
(* the exception of the first failing component is the outcome *)
Theorem operation_scalar_error : forall (A : Type) (op : A -> A -> res A) (a : stokes A) v e,
  operation op a (OV v) = Err e <->
  exists l1 x l2, comps a = l1 ++ x :: l2 /\ op x v = Err e /\
                  Forall (fun y => exists z, op y v = Ok z) l1.
Proof. exact operation_val_err. Qed.
Print Assumptions operation_scalar_error.

(* a container of another kind or an unsupported object: TypeError, in both orders *)
Theorem other_kind_rejected : forall (A : Type) (op : A -> A -> res A) (a b : stokes A),
  sk a <> sk b -> py_binop op (OS a) (OS b) = Err TypeError.
Proof. exact py_binop_other_kind. Qed.
Theorem unsupported_rejected : forall (A : Type) (op : A -> A -> res A) (a : stokes A),
  py_binop op (OS a) OX = Err TypeError /\ py_binop op OX (OS a) = Err TypeError.
Proof. intros; split; [apply py_binop_unsupported_r | apply py_binop_unsupported_l]. Qed.
Print Assumptions other_kind_rejected.

(* component c of the result depends only on components c of the operands *)
Theorem independence : forall (A : Type) (op : A -> A -> res A) (d : A) (a a' b b' r r' : stokes A) c,
  sk a = sk b -> sk a' = sk b' -> c < List.length (comps a) -> c < List.length (comps a') ->
  comp d a c = comp d a' c -> comp d b c = comp d b' c ->
  py_binop op (OS a) (OS b) = Ok r -> py_binop op (OS a') (OS b') = Ok r' ->
  comp d r c = comp d r' c.
Proof. exact independence_l. Qed.
Print Assumptions independence.
Theorem independence_scalar : forall (A : Type) (op : A -> A -> res A) (d : A) (a a' : stokes A) v r r' c,
  c < List.length (comps a) -> c < List.length (comps a') -> comp d a c = comp d a' c ->
  py_binop op (OS a) (OV v) = Ok r -> py_binop op (OS a') (OV v) = Ok r' ->
  comp d r c = comp d r' c.
Proof. exact independence_scalar_l. Qed.

(* ---- unary operations, indexing, ravel, reshape ------------------------------------------------ *)
Theorem unary_componentwise : forall (A : Type) (h : A -> A) (s : stokes A),
  smapM (lift1 h) s = Ok (mkS (sk s) (map h (comps s))).
Proof. exact smapM_total. Qed.
Print Assumptions unary_componentwise.
Theorem mapped_componentwise : forall (A : Type) (f : A -> res A) (s r : stokes A),
  smapM f s = Ok r <-> sk r = sk s /\ Forall2 (fun x z => f x = Ok z) (comps s) (comps r).
Proof. exact smapM_ok. Qed.
(* __getitem__, ravel and reshape are such maps: the same leaf function on every component *)
Theorem getitem_componentwise : forall (E : Type) ix (d : val E) (s r : stokes (val E)) c,
  stokes_getitem ix s = Ok r -> c < List.length (comps s) ->
  on_arr (arr_getitem ix) (comp d s c) = Ok (comp d r c) /\ List.length (comps r) = List.length (comps s).
Proof. intros E ix d s r c. exact (smapM_component _ _ d s r c). Qed.
Theorem ravel_componentwise : forall (E : Type) (d : val E) (s r : stokes (val E)) c,
  stokes_ravel s = Ok r -> c < List.length (comps s) ->
  on_arr (fun a => Ok (arr_ravel a)) (comp d s c) = Ok (comp d r c) /\ List.length (comps r) = List.length (comps s).
Proof. intros E d s r c. exact (smapM_component _ _ d s r c). Qed.
Theorem reshape_componentwise : forall (E : Type) new (d : val E) (s r : stokes (val E)) c,
  stokes_reshape new s = Ok r -> c < List.length (comps s) ->
  on_arr (arr_reshape new) (comp d s c) = Ok (comp d r c) /\ List.length (comps r) = List.length (comps s).
Proof. intros E new d s r c. exact (smapM_component _ _ d s r c). Qed.
(* the same for ANY index expression (integers, slices with steps, Ellipsis, None, integer arrays,
   boolean masks of every rank, tuples of these): one leaf indexing function, applied to every component *)
Theorem index_componentwise : forall (E : Type) es (d : val E) (s r : stokes (val E)) c,
  stokes_index es s = Ok r -> c < List.length (comps s) ->
  on_arr (arr_index es) (comp d s c) = Ok (comp d r c) /\ List.length (comps r) = List.length (comps s).
Proof. intros E es d s r c. exact (smapM_component _ _ d s r c). Qed.
Print Assumptions getitem_componentwise.
Print Assumptions index_componentwise.

(* ---- kinds and factories ----------------------------------------------------------------------- *)
Theorem kind_rejected : forall s, ~ In s valid_names -> class_for s = Err ValueError.
Proof. exact kind_rejected_l. Qed.
Theorem kind_accepted : forall k, class_for (kname k) = Ok k.
Proof. exact class_for_valid_l. Qed.
Theorem class_for_cases : forall s,
  (exists k, class_for s = Ok k /\ s = kname k) \/ class_for s = Err ValueError.
Proof. exact class_for_cases_l. Qed.
Print Assumptions kind_rejected.

Theorem structure_for_spec : forall (A : Type) k (leaf d : A),
  wf (structure_for k leaf) /\ forall c, c < arity k -> comp d (structure_for k leaf) c = leaf.
Proof. intros; split; [apply structure_for_wf_l | intros; now apply structure_for_comp_l]. Qed.
(* zeros / ones / full: every component has the requested shape, the canonical dtype, the value *)
Theorem factories_spec : forall (E : Type) x64 k shape d (fill : E),
  factory_full x64 k shape d fill =
  Ok (mkS k (repeat (VArr (mkArr shape (mkTy (canon x64 d) false) (repeat fill (prod shape)))) (arity k))).
Proof. exact @factory_full_spec_l. Qed.
Print Assumptions factories_spec.
(* normal / uniform: component j is drawn with its own sub-key j *)
Theorem random_factories_spec : forall x64 ds k shape d, dist_ok ds (canon x64 d) = true ->
  factory_random x64 ds k shape d = Ok (mkS k (map (fun j => (shape, canon x64 d, j)) (seq 0 (arity k)))).
Proof. exact factory_random_spec_l. Qed.
Theorem random_factories_reject : forall x64 ds k shape d, dist_ok ds (canon x64 d) = false ->
  factory_random x64 ds k shape d = Err ValueError.
Proof. exact factory_random_rejects_l. Qed.

(* from_stokes: the class is chosen by the number of arguments, which are promoted together *)
Theorem from_stokes_arity : forall (A : Type) (P : list A -> res (list A)),
  (forall l l', P l = Ok l' -> List.length l' = List.length l) ->
  forall args s, from_stokes P args [] = Ok s ->
  wf s /\ arity (sk s) = List.length args /\ 1 <= List.length args <= 4 /\ P args = Ok (comps s).
Proof. exact from_stokes_arity_l. Qed.
Print Assumptions from_stokes_arity.
Theorem from_stokes_positional_iff : forall (A : Type) (P : list A -> res (list A)),
  (forall l l', P l = Ok l' -> List.length l' = List.length l) ->
  forall args s, from_stokes P args [] = Ok s <->
  exists a', P args = Ok a' /\ kind_of_arity (List.length args) = Some (sk s) /\ comps s = a'.
Proof. exact from_stokes_positional_l. Qed.
Theorem from_stokes_exclusive : forall (A : Type) (P : list A -> res (list A)) x args k kw,
  from_stokes P (x :: args) (k :: kw) = Err TypeError.
Proof. exact from_stokes_both_l. Qed.
Theorem from_stokes_bad_keywords : forall (A : Type) (P : list A -> res (list A)) k kw,
  name_kind (String.concat "" (sort_str (map fst (k :: kw)))) = None ->
  from_stokes P [] (k :: kw) = Err TypeError.
Proof. exact from_stokes_bad_keywords_l. Qed.
(* no argument at all: rejected with the arity TypeError (after fixes/C20-as-promoted-dtype-empty.diff;
   the pinned tree raised jnp.result_type's ValueError instead) *)
Theorem from_stokes_nothing : forall (E : Type) x64,
  from_stokes (@promote_list E true x64) [] [] = Err TypeError /\
  from_stokes (@promote_list E false x64) [] [] = Err ValueError.
Proof. intros; split; [apply from_stokes_nothing_fixed_l | apply from_stokes_nothing_pinned_l]. Qed.
Theorem from_iquv_spec : forall (A : Type) (P : list A -> res (list A)) k i q u v,
  from_iquv P k i q u v =
  match k with
  | SI => Ok (mkS SI [i])
  | SQU => rmap (mkS SQU) (P [q; u])
  | SIQU => rmap (mkS SIQU) (P [i; q; u])
  | SIQUV => rmap (mkS SIQUV) (P [i; q; u; v])
  end.
Proof. exact from_iquv_spec_l. Qed.

(* ---- dtype promotion --------------------------------------------------------------------------- *)
(* the table `edges` generates a partial order in which `join` is the least upper bound
   (finite: decided by computation over all 12 nodes) *)
Theorem promote_order : (forall a, nle a a = true) /\
  (forall a b, nle a b = true -> nle b a = true -> a = b) /\
  (forall a b c, nle a b = true -> nle b c = true -> nle a c = true) /\
  (forall a b, In b (edges a) -> nle a b = true /\ a <> b).
Proof. repeat split; [apply nle_refl_l | apply nle_antisym_l | apply nle_trans_l | apply edges_sound_l | apply edges_sound_l]; assumption. Qed.
Theorem join_is_lub : forall a b,
  nle a (join a b) = true /\ nle b (join a b) = true /\
  forall c, nle a c = true -> nle b c = true -> nle (join a b) c = true.
Proof. intros a b. destruct (join_ub_l a b). repeat split; auto. intros c. apply join_least_l. Qed.
Theorem join_laws : (forall a b, join a b = join b a) /\
  (forall a b c, join a (join b c) = join (join a b) c) /\ (forall a, join a a = a).
Proof. repeat split; [apply join_comm_l | apply join_assoc_l | apply join_idem_l]. Qed.
Print Assumptions join_is_lub.

(* as_promoted_dtype: same tree, same shapes, every leaf has THE common dtype ... *)
Theorem promoted_is_join : forall (E : Type) eo x64 (t t' : pt (val E)), flatten t <> [] ->
  as_promoted_dtype eo x64 t = Ok t' ->
  exists tys r,
    Forall2 (fun x ty_ => val_ty x = Some ty_) (flatten t) tys /\
    result_ty x64 tys = Some r /\
    shape_of t' = shape_of t /\
    Forall2 (fun x y => val_shape y = val_shape x /\ val_dt y = Some (tdt r)) (flatten t) (flatten t').
Proof. exact @promoted_spec_l. Qed.
Print Assumptions promoted_is_join.
(* ... which is the least upper bound of the leaf types *)
Theorem result_type_is_lub : forall x64 t ts r, result_ty x64 (t :: ts) = Some r ->
  exists n, r = node_ty x64 n /\
    (forall u, In u (t :: ts) -> nle (node_of u) n = true) /\
    (forall c, (forall u, In u (t :: ts) -> nle (node_of u) c = true) -> nle n c = true).
Proof. exact result_ty_lub_l. Qed.
Print Assumptions result_type_is_lub.
(* a tree without leaves is returned unchanged (fixed code; the pinned code raised ValueError) *)
Theorem promoted_no_leaves : forall (E : Type) x64 (t : pt (val E)), flatten t = [] ->
  as_promoted_dtype true x64 t = Ok t /\ as_promoted_dtype false x64 t = Err ValueError.
Proof. intros; split; [now apply promoted_empty_fixed_l | now apply promoted_empty_pinned_l]. Qed.

(* ---- *_like helpers ---------------------------------------------------------------------------- *)
Theorem like_helpers_preserve_structure : forall (E : Type) x64 (fill : E) t t',
  full_like x64 fill t = Ok t' ->
  shape_of t' = shape_of t /\
  Forall2 (fun x y => exists d, val_dt x = Some d /\
             y = VArr (mkArr (val_shape x) (mkTy (canon x64 d) false) (repeat fill (prod (val_shape x)))))
          (flatten t) (flatten t').
Proof. exact @full_like_spec_l. Qed.
Print Assumptions like_helpers_preserve_structure.
Theorem as_structure_preserves_structure : forall (E : Type) x64 (t t' : pt (val E)),
  as_structure x64 t = Ok t' ->
  shape_of t' = shape_of t /\
  Forall2 (fun x y => exists d w, val_dt x = Some d /\ y = VSds (val_shape x) (canon x64 d) w)
          (flatten t) (flatten t').
Proof. exact @as_structure_spec_l. Qed.
Theorem tree_map_preserves_structure : forall (A B : Type) (f : A -> res B) t t',
  pmapM f t = Ok t' ->
  shape_of t' = shape_of t /\ Forall2 (fun x y => f x = Ok y) (flatten t) (flatten t').
Proof. exact @pmapM_ok. Qed.
Theorem is_leaf_spec : forall (A : Type) (t : pt A),
  is_leaf t = true <-> (exists a, t = Leaf a) \/ (exists k, t = Node k []).
Proof. exact @is_leaf_spec_l. Qed.

(* ---- dot --------------------------------------------------------------------------------------- *)
Section Dot.
  Variable K : Type.
  Variables (zero one : K) (add mul sub : K -> K -> K) (opp : K -> K) (conj : K -> K).
  Hypothesis Rth : ring_theory zero one add mul sub opp (@eq K).
  Hypothesis conj_add : forall a b, conj (add a b) = add (conj a) (conj b).
  Hypothesis conj_mul : forall a b, conj (mul a b) = mul (conj a) (conj b).
  Hypothesis conj_inv : forall a, conj (conj a) = a.

  (* dot(x, y) is defined exactly when the trees have the same structure and leaf sizes, and is
     the sum over the leaves of sum_i conj(x_i) * y_i: the conjugate is on the FIRST argument *)
  Theorem dot_hermitian_sum : forall x y v, tree_dot K zero add mul conj x y = Ok v ->
    shape_of x = shape_of y /\
    Forall2 (fun a b => List.length a = List.length b) (flatten x) (flatten y) /\
    v = sum_vdots K zero add mul conj (flatten x) (flatten y).
  Proof. exact (dot_hermitian_sum_l K zero one add mul sub opp conj Rth). Qed.
  (* sesquilinearity of the leaf product: linear in y, conjugate-linear in x, Hermitian symmetric *)
  Theorem vdot_linear_right : forall c x y y', List.length y = List.length y' ->
    vdot K zero add mul conj x (zip_with add y y') = add (vdot K zero add mul conj x y) (vdot K zero add mul conj x y') /\
    vdot K zero add mul conj x (map (mul c) y) = mul c (vdot K zero add mul conj x y).
  Proof. intros; split; [now apply (vdot_add_r K zero one add mul sub opp conj Rth) | apply (vdot_scale_r K zero one add mul sub opp conj Rth)]. Qed.
  Theorem vdot_conjugate_linear_left : forall c x x' y, List.length x = List.length x' ->
    vdot K zero add mul conj (zip_with add x x') y = add (vdot K zero add mul conj x y) (vdot K zero add mul conj x' y) /\
    vdot K zero add mul conj (map (mul c) x) y = mul (conj c) (vdot K zero add mul conj x y).
  Proof. intros; split; [now apply (vdot_add_l K zero one add mul sub opp conj Rth conj_add) | apply (vdot_scale_l K zero one add mul sub opp conj Rth conj_mul)]. Qed.
  Theorem vdot_hermitian_symmetric : forall x y,
    vdot K zero add mul conj y x = conj (vdot K zero add mul conj x y).
  Proof. exact (vdot_hermitian K zero one add mul sub opp conj Rth conj_add conj_mul conj_inv). Qed.
End Dot.
Print Assumptions dot_hermitian_sum.
Print Assumptions vdot_hermitian_symmetric.

(* ---- non-vacuity ------------------------------------------------------------------------------- *)
(* the hypotheses of the Dot section are satisfied by the Gaussian integers *)
Example gaussian_integers_instance :
  ring_theory gz0 gz1 gz_add gz_mul gz_sub gz_opp (@eq gz) /\
  (forall a b, gz_conj (gz_add a b) = gz_add (gz_conj a) (gz_conj b)) /\
  (forall a b, gz_conj (gz_mul a b) = gz_mul (gz_conj a) (gz_conj b)) /\
  (forall a, gz_conj (gz_conj a) = a).
Proof. split; [apply gz_ring_l | split; [apply gz_conj_add_l | split; [apply gz_conj_mul_l | apply gz_conj_inv_l]]]. Qed.
Example dot_conjugates_first :
  tree_dot gz gz0 gz_add gz_mul gz_conj (Leaf [(1, 2); (0, 3)]%Z) (Leaf [(5, 1); (7, -2)]%Z) = Ok (1, -30)%Z.
Proof. reflexivity. Qed.
(* order is visible: 2 - s and s - 2 differ, with subtraction as the arbitrary function *)
Example reflected_subtraction :
  py_binop (lift2 Z.sub) (OV 2%Z) (OS (mkS SQU [3; 5]%Z)) = Ok (mkS SQU [-1; -3]%Z) /\
  py_binop (lift2 Z.sub) (OS (mkS SQU [3; 5]%Z)) (OV 2%Z) = Ok (mkS SQU [1; 3]%Z) /\
  py_binop (lift2 Z.sub) (OS (mkS SQU [3; 5]%Z)) (OS (mkS SIQU [1; 1; 1]%Z)) = Err TypeError.
Proof. repeat split; reflexivity. Qed.
Example promotion_example :
  result_ty false [mkTy DI32 false; mkTy DF16 false; mkTy DF64 true] = Some (mkTy DF16 false) /\
  result_ty true [mkTy DF16 false; mkTy DBF16 false] = Some (mkTy DF32 false) /\
  join NF64 NC64 = NC128.
Proof. repeat split; reflexivity. Qed.
(* general indexing on a (2,3) array [[0,1,2],[3,4,5]]: a full-rank mask selects ENTRIES (shape (k,)), a
   leading-axis mask selects rows; x[::-1, None, [2,0]]; advanced indices separated by a slice go in front *)
Example index_examples :
  let a := mkArr [2; 3] (mkTy DF32 false) [0; 1; 2; 3; 4; 5]%Z in
  arr_index [EMask [2; 3] [true; false; false; false; true; true]] a = Ok (mkArr [3] (mkTy DF32 false) [0; 4; 5]%Z) /\
  arr_index [EMask [2] [false; true]] a = Ok (mkArr [1; 3] (mkTy DF32 false) [3; 4; 5]%Z) /\
  arr_index [ESlice None None (-1); ENew; EIArr [2] [2; 0]%Z] a = Ok (mkArr [2; 1; 2] (mkTy DF32 false) [5; 3; 2; 0]%Z) /\
  arr_index [EInt (-1); EEllipsis] a = Ok (mkArr [3] (mkTy DF32 false) [3; 4; 5]%Z) /\
  arr_index [EInt 0; EInt 0; EInt 0] a = Err IndexError /\
  arr_index [EIArr [2] [0; 1]%Z; ESlice None None 1; EIArr [2] [1; 0]%Z]
            (mkArr [2; 2; 2] (mkTy DF32 false) [0; 1; 2; 3; 4; 5; 6; 7]%Z) = Ok (mkArr [2; 2] (mkTy DF32 false) [1; 3; 4; 6]%Z).
Proof. repeat split; reflexivity. Qed.
