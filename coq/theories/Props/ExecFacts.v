(* Second stage of the core properties (C01, C03, C04, C06): the assumptions the core theorems make about
   LEAF operators are satisfied by the executable leaf semantics `Exec.leafsem tb` that the correspondence
   harness runs, for an ARBITRARY table `tb` of measured matrices.  Statements only; proofs are
   `exact <lemma>` (Lemmas/ExecFactsL.v).
   (1) unconditional: every leaf is linear - `lin_facts` of C04 in full, `lf_hom` of C01's leaf_facts,
       hence C04's theorems for `Exec.den tb` with no hypothesis left;
   (2) under the decidable consistency condition `table_okb tb e` (evaluated by vm_compute on the encoded
       expression): honesty of every leaf (C05's premise), C04's apply_is_matvec, lf_inv_l / lf_inv_r
       (C01; if_lazy_* / if_diag_* / if_rot_* of C06) for lazy inverses with a measured matrix, and the
       adjointness facts af_linear_transpose / af_rotT / af_reshapeT / af_obsT (C03) for lazy transposes with
       a measured matrix. *)
From Coq Require Import List Bool Arith NArith ZArith QArith Qcanon.
From Furax Require Import Base.Pytree Model.Op Model.Algebra Model.Denote Model.Wf Model.Exec Model.Structs
  Model.AsMatrix Model.Adjoint Model.Inverse
  Lemmas.Sound Lemmas.AsMatrixL Lemmas.StructsL Lemmas.TransposeExecL Lemmas.ExecFactsL.
Import ListNotations.
Local Close Scope Q_scope.
Local Close Scope Qc_scope.
Local Open Scope nat_scope.

(* ---------------- (1) linearity, for every table ---------------- *)
(* la_hom and la_add of C04's lin_facts: homogeneity and additivity of every leaf operator *)
Theorem exec_lin_facts : forall tb, lin_facts K Qcplus Qcmult (leafsem tb).
Proof. exact ExecFactsL.exec_lin_facts. Qed.
(* the field lf_hom of Sound.leaf_facts (C01), literally *)
Theorem exec_lf_hom : forall tb (e : xop) k x, leaflike K e = true ->
  leafsem tb e (vscale Qcmult k x) = option_map (vscale Qcmult k) (leafsem tb e x).
Proof. exact ExecFactsL.exec_lf_hom. Qed.
(* C04 denote_homogeneous / denote_additive / denote_linear for the executable model: no hypothesis *)
Theorem exec_denote_homogeneous : forall tb (e : xop) k x,
  den tb e (vscale Qcmult k x) = option_map (vscale Qcmult k) (den tb e x).
Proof. exact ExecFactsL.exec_denote_homogeneous. Qed.
Theorem exec_denote_additive : forall tb (e : xop) x y z x' y', vadd Qcplus x y = Some z ->
  den tb e x = Some x' -> den tb e y = Some y' ->
  exists z', vadd Qcplus x' y' = Some z' /\ den tb e z = Some z'.
Proof. exact ExecFactsL.exec_denote_additive. Qed.
Theorem exec_denote_linear : forall tb (e : xop) a b x y x' y' z, den tb e x = Some x' -> den tb e y = Some y' ->
  vadd Qcplus (vscale Qcmult a x) (vscale Qcmult b y) = Some z ->
  exists z', vadd Qcplus (vscale Qcmult a x') (vscale Qcmult b y') = Some z' /\ den tb e z = Some z'.
Proof. exact ExecFactsL.exec_denote_linear. Qed.

(* ---------------- (2) under the consistency condition on the table ---------------- *)
(* every leaf of an expression that passes the check returns values of its declared output structure
   (leaf_honest: the premise of C05's out_structure_honest and of C04's honesty) *)
Theorem exec_leaves_honest : forall tb (e : xop), table_okb tb e = true ->
  Forall (leaf_honest K (leafsem tb)) (leaves e).
Proof. exact table_ok_leaves. Qed.
Theorem exec_honest : forall tb (e : xop), wfo e = true -> table_okb tb e = true ->
  honest K Qcplus Qcmult (leafsem tb) e.
Proof. exact exec_honest_ok. Qed.
(* C04 apply_is_matvec for the executable model: both premises discharged *)
Theorem exec_apply_is_matvec : forall tb (e : xop) cols, wfo e = true -> table_okb tb e = true ->
  generic_columns K k0 k1 Qcplus Qcmult (leafsem tb) e = Some cols ->
  forall x y, has_struct x (in_struct e) = true -> den tb e x = Some y ->
  vflatten y = matvec_cols K k0 Qcplus Qcmult (out_size e) cols (vflatten x).
Proof. exact exec_den_flat. Qed.

(* lf_inv_l / lf_inv_r of Sound.leaf_facts: a lazy inverse wrapper (InverseOperator, DiagonalInverseOperator,
   QURotationTransposeOperator) whose measured matrix passed the check undoes its operand on both sides.
   lf_inv_l is stated on inputs of the operand's declared input structure; when the operand is itself a
   leaf operator this is automatic (exec_lf_inv_l_leaf: exactly the field). *)
Theorem exec_lf_inv_l : forall tb i w (e : xop) N,
  wfo e = true -> table_okb tb (Wrap i w e) = true ->
  isinst (wcls w) [CAbstractLazyInverse] = true -> stored tb i = Some N ->
  forall x y1 y, has_struct x (in_struct e) = true ->
    den tb e x = Some y1 -> leafsem tb (Wrap i w e) y1 = Some y -> y = x.
Proof. exact ExecFactsL.exec_lf_inv_l. Qed.
Theorem exec_lf_inv_l_leaf : forall tb i w (e : xop) N, leaflike K e = true ->
  wfo e = true -> table_okb tb (Wrap i w e) = true ->
  isinst (wcls w) [CAbstractLazyInverse] = true -> stored tb i = Some N ->
  forall x y1 y, den tb e x = Some y1 -> leafsem tb (Wrap i w e) y1 = Some y -> y = x.
Proof. exact ExecFactsL.exec_lf_inv_l_leaf. Qed.
Theorem exec_lf_inv_r : forall tb i w (e : xop) N,
  wfo e = true -> table_okb tb (Wrap i w e) = true ->
  isinst (wcls w) [CAbstractLazyInverse] = true -> stored tb i = Some N ->
  forall x y1 y, leafsem tb (Wrap i w e) x = Some y1 -> den tb e y1 = Some y -> y = x.
Proof. exact ExecFactsL.exec_lf_inv_r. Qed.

(* af_linear_transpose / af_rotT / af_reshapeT / af_obsT of C03's adj_facts: a lazy transpose wrapper whose
   measured matrix passed the check is the adjoint of its operand *)
Theorem exec_af_lazyT : forall tb i w (x0 : xop) N,
  wfo x0 = true -> table_okb tb (Wrap i w x0) = true -> lazyT w = true -> stored tb i = Some N ->
  forall x y fx gy, has_struct x (in_struct x0) = true ->
    den tb x0 x = Some fx -> leafsem tb (Wrap i w x0) y = Some gy -> xinner fx y = xinner x gy.
Proof. exact ExecFactsL.exec_af_lazyT. Qed.
Theorem exec_af_lazyT_leaf : forall tb i w (x0 : xop) N, leaflike K x0 = true ->
  wfo x0 = true -> table_okb tb (Wrap i w x0) = true -> lazyT w = true -> stored tb i = Some N ->
  adjoint k0 Qcplus Qcmult (den tb x0) (leafsem tb (Wrap i w x0)).
Proof. exact ExecFactsL.exec_af_lazyT_leaf. Qed.

(* af_self of C03's adj_facts for every table: a class whose transpose() returns self acts through a measured
   matrix that is symmetric between equal structures (`sym_leaf_okb`, decidable), or through its closed form
   (half-wave plate, 1-d diagonal), or not at all *)
Theorem exec_af_self : forall tb i c si so p, returns_self_on_transpose c = true ->
  sym_leaf_okb tb (Prim i c si so p) = true ->
  adjoint k0 Qcplus Qcmult (leafsem tb (Prim i c si so p)) (leafsem tb (Prim i c si so p)).
Proof. exact ExecFactsL.exec_af_self. Qed.
(* af_dinv: DiagonalInverseOperator with a measured symmetric matrix *)
Theorem exec_af_dinv : forall tb i (x0 : xop), dinv_okb tb i x0 = true ->
  adjoint k0 Qcplus Qcmult (leafsem tb (Wrap i WDiagInv x0)) (leafsem tb (Wrap i WDiagInv x0)).
Proof. exact ExecFactsL.exec_af_dinv. Qed.
(* the lazy transposes WITHOUT a measured matrix of their own (created by transpose(), object id 0): adjoint
   as soon as the wrapped primitive acts through the matrix found under its key (`fresh_okb`, decidable) *)
Theorem exec_af_fresh : forall tb i w (x0 : xop), stored tb i = None -> fresh_okb tb i w x0 = true ->
  (w = WTranspose \/ w = WReshapeT \/ w = WObsT) ->
  adjoint k0 Qcplus Qcmult (den tb x0) (leafsem tb (Wrap i w x0)).
Proof. exact ExecFactsL.exec_af_fresh. Qed.
(* af_dense: the re-created dense operator acts through the matrix under the adjoint key *)
Theorem exec_af_dense : forall tb i si so k, dense_okb tb i si so k = true ->
  adjoint k0 Qcplus Qcmult (leafsem tb (Prim i CDense si so (PKey k)))
    (leafsem tb (Prim fresh CDense so si (PKey (tkey k)))).
Proof. exact ExecFactsL.exec_af_dense. Qed.
(* af_move: true for `leafsem tb` only because the re-created MoveAxisOperator (object id 0) has no action under
   it - the C03 harness uses Adjoint.leafsemT for it; the real fact is C13 moveaxis_T_inverse *)
Theorem exec_af_move_vacuous : forall tb i si so s d,
  adjoint k0 Qcplus Qcmult (leafsem tb (Prim i CMoveAxis si so (PAxes s d)))
    (leafsem tb (Prim fresh CMoveAxis so si (PAxes d s))).
Proof. exact ExecFactsL.exec_af_move_vacuous. Qed.

Print Assumptions exec_lin_facts.
Print Assumptions exec_lf_hom.
Print Assumptions exec_denote_homogeneous.
Print Assumptions exec_denote_additive.
Print Assumptions exec_denote_linear.
Print Assumptions exec_leaves_honest.
Print Assumptions exec_honest.
Print Assumptions exec_apply_is_matvec.
Print Assumptions exec_lf_inv_l.
Print Assumptions exec_lf_inv_l_leaf.
Print Assumptions exec_lf_inv_r.
Print Assumptions exec_af_lazyT.
Print Assumptions exec_af_lazyT_leaf.
Print Assumptions exec_af_self.
Print Assumptions exec_af_dinv.
Print Assumptions exec_af_fresh.
Print Assumptions exec_af_dense.
Print Assumptions exec_af_move_vacuous.

(* ---- non-vacuity: a concrete table passes the check, a wrong one does not ---- *)
Definition q (n : Z) (d : positive) : K := Q2Qc (Qmake n d).
Definition s2 : struct := Leaf (mkSds [2] 0).
(* an opaque user operator A = [[2, 1], [0, 4]] (object 1), its lazy inverse (object 2) with the measured
   matrix A^-1 = [[1/2, -1/8], [0, 1/4]], its lazy transpose (object 3) with the measured matrix A^T *)
Definition opA : xop := Prim 1 CAtom s2 s2 PNone.
Definition tbA : table :=
  [ (2%N, [[q 2 1; q 1 1]; [q 0 1; q 4 1]]);
    (4%N, [[q 1 2; q (-1) 8]; [q 0 1; q 1 4]]);
    (6%N, [[q 2 1; q 0 1]; [q 1 1; q 4 1]]) ].
Definition exprA : xop := Comp 9 [Wrap 2 WInverse opA; Wrap 3 WTranspose opA; opA].
Example table_ok_example : wfo exprA = true /\ table_okb tbA exprA = true.
Proof. vm_compute. split; reflexivity. Qed.
(* a one-sided or wrong "inverse" and a non-transposed "transpose" are rejected *)
Definition tbBad : table :=
  [ (2%N, [[q 2 1; q 1 1]; [q 0 1; q 4 1]]);
    (4%N, [[q 1 2; q 0 1]; [q 0 1; q 1 4]]);
    (6%N, [[q 2 1; q 1 1]; [q 0 1; q 4 1]]) ].
Example table_bad_example :
  table_okb tbBad (Wrap 2 WInverse opA) = false /\ table_okb tbBad (Wrap 3 WTranspose opA) = false.
Proof. vm_compute. split; reflexivity. Qed.
(* the lazy inverse of the example really undoes A on a concrete vector, as exec_lf_inv_r says
   (entries printed as numerator/denominator pairs) *)
Definition show (o : option xvalue) : option (list (Z * Z)) :=
  option_map (fun y => map (fun k => qpair (this k)) (vflatten y)) o.
Example inverse_undoes_example :
  show (obind (leafsem tbA (Wrap 2 WInverse opA) (Leaf [q 3 1; q 5 1])) (den tbA opA)) = Some [(3, 1); (5, 1)]%Z /\
  show (leafsem tbA (Wrap 2 WInverse opA) (Leaf [q 3 1; q 5 1])) = Some [(7, 8); (5, 4)]%Z.
Proof. split; vm_compute; reflexivity. Qed.
(* the premises of the theorems are met by the example, so their conclusions hold for it *)
Example inverse_theorem_applies : forall x y1 y,
  leafsem tbA (Wrap 2 WInverse opA) x = Some y1 -> den tbA opA y1 = Some y -> y = x.
Proof.
  apply (exec_lf_inv_r tbA 2%N WInverse opA [[q 1 2; q (-1) 8]; [q 0 1; q 1 4]]); vm_compute; reflexivity.
Qed.
Example transpose_theorem_applies : adjoint k0 Qcplus Qcmult (den tbA opA) (leafsem tbA (Wrap 3 WTranspose opA)).
Proof.
  apply (exec_af_lazyT_leaf tbA 3%N WTranspose opA [[q 2 1; q 0 1]; [q 1 1; q 4 1]]); vm_compute; reflexivity.
Qed.
(* linearity is not vacuous: the table-backed leaf is defined on the probe *)
Example linear_example :
  show (den tbA opA (vscale Qcmult (q 3 1) (Leaf [q 1 1; q 2 1]))) = Some [(12, 1); (24, 1)]%Z /\
  show (den tbA opA (Leaf [q 1 1; q 2 1])) = Some [(4, 1); (8, 1)]%Z.
Proof. split; vm_compute; reflexivity. Qed.
(* a symmetric measured matrix passes the self-adjointness check, a non-symmetric one does not; the lazy
   transpose created by transpose() (object id 0) around the opaque operator A passes fresh_okb *)
Definition tbS : table := [ (2%N, [[q 2 1; q 1 1]; [q 1 1; q 4 1]]) ].
Example sym_ok_example :
  sym_leaf_okb tbS (Prim 1 CToeplitz s2 s2 PNone) = true /\ sym_leaf_okb tbA (Prim 1 CToeplitz s2 s2 PNone) = false /\
  fresh_okb tbA 0%N WTranspose opA = true.
Proof. vm_compute. repeat split; reflexivity. Qed.
