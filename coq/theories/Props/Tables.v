(* T-tie: the tables regenerated from the imported furax package on every run agree with the
   model (rule guards, class hierarchy, method resolution, lineax tags). *)
From Coq Require Import List Bool String.
From Furax Require Import Model.Op Model.Algebra Model.Pinned Lemmas.TablesL.
From FuraxGen Require Import Tables.
Import ListNotations.

Theorem rule_guards_as_modelled : guards_as_modelled gen_rules = true.
Proof. vm_compute. reflexivity. Qed.
Theorem rule_order_is_registry : map fst gen_rules = gen_order.
Proof. vm_compute. reflexivity. Qed.
Theorem every_modelled_rule_registered_once : all_registered gen_order = true.
Proof. vm_compute. reflexivity. Qed.
Theorem class_hierarchy_as_modelled : subclass_as_modelled gen_classes gen_subclass = true.
Proof. vm_compute. reflexivity. Qed.
Theorem method_resolution_unchanged : gen_methods = pinned_methods /\ gen_method_names = pinned_method_names.
Proof. split; vm_compute; reflexivity. Qed.
Theorem lineax_tags_unchanged : gen_tags = pinned_tags /\ gen_tag_names = pinned_tag_names.
Proof. split; vm_compute; reflexivity. Qed.
