(* T-tie: the tables regenerated from the imported furax package on every run agree with the
   model (rule guards, class hierarchy, method resolution, lineax tags). *)
From Coq Require Import List Bool String.
From Furax Require Import Model.Op Model.Algebra Model.Pinned Lemmas.TablesL.
From FuraxGen Require Import Tables.
Import ListNotations.

Theorem rule_guards_as_modelled : guards_as_modelled gen_rules = true.
Proof. vm_compute. reflexivity. Qed.
Theorem rule_order_is_registry : map fst gen_rules = gen_order.
Proof. vm_compute. reflexivity. Qed.
Theorem every_modelled_rule_registered_once : all_registered gen_order = true.
Proof. vm_compute. reflexivity. Qed.
Theorem class_hierarchy_as_modelled : subclass_as_modelled gen_classes gen_subclass = true.
Proof. vm_compute. reflexivity. Qed.
Theorem method_resolution_unchanged : gen_methods = pinned_methods /\ gen_method_names = pinned_method_names.
Proof. split; vm_compute; reflexivity. Qed.
Theorem lineax_tags_unchanged : gen_tags = pinned_tags /\ gen_tag_names = pinned_tag_names.
Proof. split; vm_compute; reflexivity. Qed.

(* The generic guards every binary rule goes through: the body of AbstractBinaryRule.check, translated statement by
   statement on every run (gen_generic_check), is the model's guard_ok - for every guard triple and all operands.
   `fires` (Model/Algebra.v) consults a rule exactly when guard_ok holds, so the model uses these guards and no
   others; a guard dropped from / added to / weakened in check() makes this proof fail. *)
Theorem generic_check_as_modelled :
  forall (K : Type) (keqb : K -> K -> bool) (g : guard) (l r : op K),
    @gen_generic_check K keqb g l r = @guard_ok K keqb g l r.
Proof.
  intros K keqb [a gl gr] l r.
  unfold gen_generic_check, guard_ok, py_isinstance, operator_is, attr_set; simpl.
  rewrite !attr_is_transpose.
  set (tl := is_exactly_transpose gl); set (tr := is_exactly_transpose gr); clearbody tl tr.
  destruct a as [ca|], gl as [cl|], gr as [cr|], tl, tr; simpl;
    repeat (match goal with
            | |- context [is_a ?e ?c] => destruct (is_a e c)
            | |- context [wrapped ?e] => destruct (wrapped e)
            | |- context [same ?k ?x ?y] => destruct (same k x y)
            end; simpl);
    reflexivity.
Qed.
Print Assumptions generic_check_as_modelled.
(* every registered rule resolves check() to the generic one, except InverseBinaryRule whose override (calling the
   generic check, then the identity test modelled in apply_rule RInverse) is pinned by its normalised source *)
Theorem rule_check_resolution_as_modelled : check_owners_as_modelled gen_check_owners = true.
Proof. vm_compute. reflexivity. Qed.
Theorem inverse_rule_check_unchanged : gen_inverse_check_src = pinned_inverse_check_src.
Proof. vm_compute. reflexivity. Qed.
