"""Operand alphabet and expression generators shared by the operator-algebra checks."""
from __future__ import annotations

import itertools
import json

import algebra as A

IQU2 = {'stokes': 'IQU', 'shape': [2]}

# name -> JSON description (see algebra.build_operand).  Later entries may refer to earlier ones.
LET: dict = {
    # opaque dense atoms: square, SPD, wide, tall
    'A22': {'k': 'dense', 'm': [[1, 2], [0, 3]]},
    'B22': {'k': 'dense', 'm': [[2, -1], [1, 1]]},
    'S22': {'k': 'dense', 'm': [[2, 1], [1, 3]]},
    'S22b': {'k': 'dense', 'm': [[2, 1], [1, 3]]},  # equal to S22 but a distinct object
    'A23': {'k': 'dense', 'm': [[1, 0, 2], [-1, 1, 0]]},
    'A32': {'k': 'dense', 'm': [[1, 1], [0, 2], [3, 0]]},
    'A33': {'k': 'dense', 'm': [[1, 0, 1], [2, 1, 0], [0, 0, 1]]},
    # identity, scalars
    'I2': {'k': 'ident', 's': [2]},
    'I3': {'k': 'ident', 's': [3]},
    'H2': {'k': 'homoth', 'v': 2, 's': [2]},
    'Hh2': {'k': 'homoth', 'v': 0.5, 's': [2]},
    'Hm3': {'k': 'homoth', 'v': -1, 's': [3]},
    'H3': {'k': 'homoth', 'v': 4, 's': [3]},
    # diagonal
    'D2': {'k': 'diag', 'v': [2, 4], 's': [2]},
    'D3': {'k': 'diag', 'v': [1, 2, -4], 's': [3]},
    # indexing / packing
    'X3u': {'k': 'index', 'idx': [{'arr': [2, 0]}], 's': [3], 'unique': True},
    'X3r': {'k': 'index', 'idx': [{'arr': [1, 1, 2]}], 's': [3]},
    'X3n': {'k': 'index', 'idx': [{'arr': [-1, 0, -1]}], 's': [3]},
    'X2a': {'k': 'index', 'idx': [{'arr': [0, 1, -1, -2]}], 's': [2]},  # more distinct raw values than elements
    'X4s': {'k': 'index', 'idx': [{'slice': [0, 2, None]}], 's': [4]},
    'X23': {'k': 'index', 'idx': [':', {'arr': [0, 2, 2]}], 's': [2, 3], 'tuple': True},
    'X23e': {'k': 'index', 'idx': ['...', {'arr': [1, 1]}], 's': [2, 3], 'tuple': True},
    'X3id': {'k': 'index', 'idx': [':'], 's': [3], 'tuple': True},
    # near misses of the index rules: two indexed axes (int + array, strided slice + array), unique data without the flag
    'X23i': {'k': 'index', 'idx': [0, {'arr': [1, 1, 2]}], 's': [2, 3], 'tuple': True},
    'X43s': {'k': 'index', 'idx': [{'slice': [None, None, 2]}, {'arr': [0, 2, 2]}], 's': [4, 3], 'tuple': True},
    'X23es': {'k': 'index', 'idx': ['...', {'slice': [0, 2, None]}], 's': [2, 3], 'tuple': True},  # unique by inference
    'X23ie': {'k': 'index', 'idx': [1, '...'], 's': [2, 3], 'tuple': True},
    'X3nu': {'k': 'index', 'idx': [{'arr': [2, 0]}], 's': [3]},
    'P3': {'k': 'pack', 'mask': [True, False, True], 's': [3]},
    # axes
    'M23': {'k': 'moveaxis', 'src': 0, 'dst': 1, 's': [2, 3]},
    'M32': {'k': 'moveaxis', 'src': 1, 'dst': 0, 's': [3, 2]},
    'M32n': {'k': 'moveaxis', 'src': -1, 'dst': 0, 's': [3, 2]},  # same permutation, other tuple
    # move-axis pairs on a pytree whose leaves have different ranks: inverse on the first leaf only
    'Mp01': {'k': 'moveaxis', 'src': 0, 'dst': 1, 's': {'list': [[2, 3], [2, 3, 2]]}},
    'Mpm10': {'k': 'moveaxis', 'src': -1, 'dst': 0, 's': {'list': [[3, 2], [3, 2, 2]]}},
    'Mp10': {'k': 'moveaxis', 'src': 1, 'dst': 0, 's': {'list': [[3, 2], [3, 2, 2]]}},
    # multi-axis moves: a true inverse pair and a pair using the same axis sets with a crossed pairing
    'Mx1': {'k': 'moveaxis', 'src': [0, 1], 'dst': [1, 2], 's': [2, 3, 2]},
    'Mx1i': {'k': 'moveaxis', 'src': [1, 2], 'dst': [0, 1], 's': [2, 2, 3]},
    'Mx2': {'k': 'moveaxis', 'src': [1, 2], 'dst': [1, 0], 's': [2, 2, 3]},
    'M23b': {'k': 'moveaxis', 'src': [0], 'dst': [-1], 's': [2, 3]},  # same map as M23, other tuple
    'Sh23b': {'k': 'reshape', 'shape': [3, 2], 's': [2, 3]},  # equal to Sh23 but a distinct object
    'R23': {'k': 'ravel', 's': [2, 3]},
    'R6': {'k': 'ravel', 's': [6]},  # no-op ravel
    'R32': {'k': 'ravel', 's': [3, 2]},  # another ravel sharing the flat side with R23
    'Sh23': {'k': 'reshape', 'shape': [3, 2], 's': [2, 3]},
    'Sh32': {'k': 'reshape', 'shape': [2, 3], 's': [3, 2]},
    'A66': {'k': 'dense', 'm': [[1, 0, 0, 0, 0, 2], [0, 1, 0, 0, 0, 0], [0, 0, 1, 0, 1, 0], [0, 0, 0, 1, 0, 0], [0, 3, 0, 0, 1, 0], [0, 0, 0, 0, 0, 1]]},
    # polarimetry
    'Q1': {'k': 'qurot', 'stokes': 'IQU', 'shape': [2], 'q': [1]},
    'Q2': {'k': 'qurot', 'stokes': 'IQU', 'shape': [2], 'q': [2, 3], 'vec': True},
    'Q3': {'k': 'qurot', 'stokes': 'IQU', 'shape': [2], 'q': [-1]},
    'W': {'k': 'hwp', 'stokes': 'IQU', 'shape': [2]},
    'Pl': {'k': 'pol', 'stokes': 'IQU', 'shape': [2]},
    'Hs': {'k': 'homoth', 'v': 2, 's': IQU2},
    'Is': {'k': 'ident', 's': IQU2},
    'Qq': {'k': 'qurot', 'stokes': 'QU', 'shape': [2], 'q': [1, 2], 'vec': True},
    'Wq': {'k': 'hwp', 'stokes': 'QU', 'shape': [2]},
    'Plq': {'k': 'pol', 'stokes': 'QU', 'shape': [2]},
    'Qv': {'k': 'qurot', 'stokes': 'IQUV', 'shape': [1], 'q': [3]},
    'Wv': {'k': 'hwp', 'stokes': 'IQUV', 'shape': [1]},
    'Plv': {'k': 'pol', 'stokes': 'IQUV', 'shape': [1]},
    # lazy duals of the above (same objects inside)
    'S22I': {'k': 'expr', 'e': {'I': 'S22'}},
    'D2I': {'k': 'expr', 'e': {'I': 'D2'}},
    'X3uT': {'k': 'expr', 'e': {'T': 'X3u'}},
    'X3rT': {'k': 'expr', 'e': {'T': 'X3r'}},
    'X3nT': {'k': 'expr', 'e': {'T': 'X3n'}},
    'X2aT': {'k': 'expr', 'e': {'T': 'X2a'}},
    'X23T': {'k': 'expr', 'e': {'T': 'X23'}},
    'X23iT': {'k': 'expr', 'e': {'T': 'X23i'}},
    'X23esT': {'k': 'expr', 'e': {'T': 'X23es'}},
    'X23ieT': {'k': 'expr', 'e': {'T': 'X23ie'}},
    'X43sT': {'k': 'expr', 'e': {'T': 'X43s'}},
    'X3nuT': {'k': 'expr', 'e': {'T': 'X3nu'}},
    'Sh23bT': {'k': 'expr', 'e': {'T': 'Sh23b'}},
    'Sh32T': {'k': 'expr', 'e': {'T': 'Sh32'}},
    'X23eT': {'k': 'expr', 'e': {'T': 'X23e'}},
    'P3T': {'k': 'expr', 'e': {'T': 'P3'}},
    'R23T': {'k': 'expr', 'e': {'T': 'R23'}},
    'Sh23T': {'k': 'expr', 'e': {'T': 'Sh23'}},
    'Q1T': {'k': 'expr', 'e': {'T': 'Q1'}},
    'Q2T': {'k': 'expr', 'e': {'T': 'Q2'}},
    'QqT': {'k': 'expr', 'e': {'T': 'Qq'}},
    'A23T': {'k': 'expr', 'e': {'T': 'A23'}},
    # named compositions and sums (operands that are themselves composites, reused across expressions)
    'CAB': {'k': 'expr', 'e': {'mm': ['A22', 'B22']}},
    'CW': {'k': 'expr', 'e': {'mm': ['A23', 'A33']}},
    'SAB': {'k': 'expr', 'e': {'add': ['A22', 'B22']}},
    'SW': {'k': 'expr', 'e': {'add': ['A32', 'A32']}},
    'NS': {'k': 'expr', 'e': {'neg': 'SAB'}},
    # block operators
    'BD': {'k': 'bdiagop', 'blocks': ['A22', 'B22']},
    'BD2': {'k': 'bdiagop', 'blocks': ['B22', 'S22']},
    'BR': {'k': 'row', 'blocks': ['A22', 'B22']},
    'BC': {'k': 'col', 'blocks': ['B22', 'A22']},
    'BDt': {'k': 'bdiagop', 'blocks': {'tuple': ['A22', 'B22']}},
    'BDd': {'k': 'bdiagop', 'blocks': {'dict': {'b': 'A22', 'a': 'B22'}}},
    'BRd': {'k': 'row', 'blocks': {'dict': {'a': 'A22', 'b': 'S22'}}},
    'BCd': {'k': 'col', 'blocks': {'dict': {'a': 'B22', 'b': 'A22'}}},
    'BD1': {'k': 'bdiagop', 'blocks': ['A22']},
    'BR1': {'k': 'row', 'blocks': ['B22']},
    'BC1': {'k': 'col', 'blocks': ['A22']},
    'BDi': {'k': 'bdiagop', 'blocks': ['I2', 'I2']},
    'BDh': {'k': 'bdiagop', 'blocks': ['H2', 'A22']},
    'BDw': {'k': 'bdiagop', 'blocks': ['A23', 'A32']},  # non-square blocks
    'BDq': {'k': 'bdiagop', 'blocks': ['Q1', 'Q2']},
    'BDqT': {'k': 'bdiagop', 'blocks': ['Q1T', 'Q2T']},
    'BDwq': {'k': 'bdiagop', 'blocks': ['W', 'W']},
    'BDrv': {'k': 'bdiagop', 'blocks': ['R23', 'R23']},  # blocks without array fields that are not identities
    'BDpl': {'k': 'bdiagop', 'blocks': {'dict': {'f090': 'W', 'f150': 'Pl'}}},
    'BRq': {'k': 'row', 'blocks': ['Pl', 'Pl']},
    # blocks that become identities only through their own reduce() (rule-cancelled products, no-op index / ravel)
    'BDm': {'k': 'bdiagop', 'blocks': ['M23', 'M23']},
    'BDmI': {'k': 'bdiagop', 'blocks': ['M32', 'M32']},
    'BDnoop': {'k': 'bdiagop', 'blocks': ['X3id', 'R6']},
    'BDii': {'k': 'bdiagop', 'blocks': {'dict': {'a': 'BDi', 'b': 'I2'}}},
    'BDn': {'k': 'bdiagop', 'blocks': [['A22', 'B22'], 'S22']},
    'BDn2': {'k': 'bdiagop', 'blocks': [['B22', 'A22'], 'A22']},
    'BRn': {'k': 'row', 'blocks': [['A22', 'B22'], 'S22']},
    # containers equal as structures but nested on one side only (D7)
    'BRR': {'k': 'row', 'blocks': ['BR', 'A22']},
    'BDnn': {'k': 'bdiagop', 'blocks': [['A22', 'B22'], 'A22']},
    'BRI': {'k': 'row', 'blocks': ['I2', 'H2']},
    'BCI': {'k': 'col', 'blocks': ['S22I', 'S22']},
}

_env = {}


def env():
    if not _env:
        _env.update(A.build_env(LET))
    return _env


def key(s) -> str:
    """Type-matching key of a structure: struct_repr plus the dict keys (which struct_repr, mirroring the model's
    show_struct, does not print)."""
    def go(t):
        ch = A.tree_children(t)
        if ch is None:
            return A.struct_repr(t)
        (k, arg), kids = ch
        return [k, arg, [go(c) for c in kids]]

    return json.dumps(go(s))


_typed = {}


def typed():
    """name -> (in key, out key)"""
    if not _typed:
        for n, o in env().items():
            if isinstance(o, A.Unbuildable):
                continue
            try:
                _typed[n] = (key(o.in_structure()), key(o.out_structure()))
            except Exception:
                continue
    return _typed


def chains(maxlen: int, names=None):
    """All type-compatible chains (left operand applied last) of 2..maxlen operand names."""
    t = typed()
    names = list(names or t)
    by_out = {}
    for n in names:
        by_out.setdefault(t[n][1], []).append(n)
    out = []

    def extend(chain):
        if len(chain) >= 2:
            out.append(list(chain))
        if len(chain) >= maxlen:
            return
        # the next operand (to the right) must output what the last one takes
        for n in by_out.get(t[chain[-1]][0], []):
            chain.append(n)
            extend(chain)
            chain.pop()

    for n in names:
        extend([n])
    return out


def used_names(e, acc=None):
    acc = set() if acc is None else acc
    if isinstance(e, str):
        acc.add(e)
        d = LET.get(e)
        if d and d['k'] == 'expr':
            used_names(d['e'], acc)
        if d and 'blocks' in d:
            _container_names(d['blocks'], acc)
    elif isinstance(e, dict):
        for v in e.values():
            used_names(v, acc)
    elif isinstance(e, list):
        for v in e:
            used_names(v, acc)
    return acc


def _container_names(c, acc):
    if isinstance(c, str):
        used_names(c, acc)
    elif isinstance(c, list):
        for v in c:
            _container_names(v, acc)
    elif isinstance(c, dict):
        for v in (c.get('tuple') or list((c.get('dict') or {}).values())):
            _container_names(v, acc)


# the documented reduction patterns (C07), as chains of operand names
PATTERNS = {
    'identity': ['I2'],
    'identity3': ['I3'],
    'scalars': ['H2', 'Hh2'],
    'inverse-left': ['S22I', 'S22'],
    'inverse-right': ['S22', 'S22I'],
    'diag-inverse': ['D2I', 'D2'],
    'rot-rot': ['Q1', 'Q2'],
    'rot-rotT': ['Q1', 'Q2T'],
    'rotT-rot': ['Q1T', 'Q2'],
    'rotT-rotT': ['Q1T', 'Q2T'],
    'rot-own-T': ['Q1', 'Q1T'],
    'rot-hwp': ['Q2', 'W'],
    'rotT-hwp': ['Q1T', 'W'],
    'pol-hwp': ['Pl', 'W'],
    'row-diag': ['BR', 'BD'],
    'diag-col': ['BD', 'BC'],
    'diag-diag': ['BD', 'BD2'],
    'row-col': ['BR', 'BC'],
    'diag-diag-dict': ['BDd', 'BDd'],
    'diag-diag-nested': ['BDn', 'BDn2'],
    'index-indexT-unique': ['X3u', 'X3uT'],
    'pack-packT': ['P3', 'P3T'],
    'indexT-index': ['X3rT', 'X3r'],
    'indexT-index-neg': ['X3nT', 'X3n'],
    'indexT-index-alias': ['X2aT', 'X2a'],
    'indexT-index-axis1': ['X23T', 'X23'],
    'indexT-index-ellipsis': ['X23eT', 'X23e'],
    'reshape-reshapeT': ['Sh23', 'Sh23T'],
    'reshapeT-reshape': ['Sh23T', 'Sh23'],
    'ravelT-ravel': ['R23T', 'R23'],
    'moveaxis-pair': ['M32', 'M23'],
    'moveaxis-multi-pair': ['Mx1i', 'Mx1'],
    'near-moveaxis-crossed-pairing': ['Mx2', 'Mx1'],
    'index-indexT-ellipsis-slice': ['X23es', 'X23esT'],
    'index-indexT-int-ellipsis': ['X23ie', 'X23ieT'],
    'moveaxis-pair2': ['M23', 'M32'],
    'blockdiag-rot-rotT': ['BDq', 'BDqT'],
    'blockdiag-moveaxis-cancel': ['BDmI', 'BDm'],
    'blockdiag-noop-blocks': ['BDnoop'],
    'blockdiag-nested-identities': ['BDii'],
    # near misses: pairs that look like a pattern but must NOT be rewritten (or only partly)
    'near-indexT-index-int-axis': ['X23iT', 'X23i'],
    'near-indexT-index-strided': ['X43sT', 'X43s'],
    'near-index-indexT-unflagged': ['X3nu', 'X3nuT'],
    'near-indexT-index-unique': ['X3uT', 'X3u'],
    'near-moveaxis-ranks': ['Mpm10', 'Mp01'],
    'near-moveaxis-ranks-ok': ['Mp10', 'Mp01'],
    'near-moveaxis-other-tuple': ['M32', 'M23b'],
    'near-reshape-distinct-object': ['Sh23', 'Sh23bT'],
    'near-reshapeT-distinct-object': ['Sh23bT', 'Sh23'],
    'near-reshapeT-different-operator': ['R23T', 'R32'],
    'near-reshape-different-operator': ['Sh23', 'R23T'],
    'near-ravel-different-operator': ['R32', 'Sh32T'],
    'near-inverse-distinct-object': ['S22I', 'S22b'],
}
