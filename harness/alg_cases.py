"""Operand alphabet and expression generators shared by the operator-algebra checks."""
from __future__ import annotations

import itertools
import json

import algebra as A

IQU2 = {'stokes': 'IQU', 'shape': [2]}

# name -> JSON description (see algebra.build_operand).  Later entries may refer to earlier ones.
LET: dict = {
    # opaque dense atoms: square, SPD, wide, tall
    'A22': {'k': 'dense', 'm': [[1, 2], [0, 3]]},
    'B22': {'k': 'dense', 'm': [[2, -1], [1, 1]]},
    'S22': {'k': 'dense', 'm': [[2, 1], [1, 3]]},
    'S22b': {'k': 'dense', 'm': [[2, 1], [1, 3]]},  # equal to S22 but a distinct object
    'A23': {'k': 'dense', 'm': [[1, 0, 2], [-1, 1, 0]]},
    'A32': {'k': 'dense', 'm': [[1, 1], [0, 2], [3, 0]]},
    'A33': {'k': 'dense', 'm': [[1, 0, 1], [2, 1, 0], [0, 0, 1]]},
    # identity, scalars
    'I2': {'k': 'ident', 's': [2]},
    'I3': {'k': 'ident', 's': [3]},
    'H2': {'k': 'homoth', 'v': 2, 's': [2]},
    'Hh2': {'k': 'homoth', 'v': 0.5, 's': [2]},
    'Hm3': {'k': 'homoth', 'v': -1, 's': [3]},
    'H3': {'k': 'homoth', 'v': 4, 's': [3]},
    # diagonal
    'D2': {'k': 'diag', 'v': [2, 4], 's': [2]},
    'D3': {'k': 'diag', 'v': [1, 2, -4], 's': [3]},
    # indexing / packing
    'X3u': {'k': 'index', 'idx': [{'arr': [2, 0]}], 's': [3], 'unique': True},
    'X3r': {'k': 'index', 'idx': [{'arr': [1, 1, 2]}], 's': [3]},
    'X3n': {'k': 'index', 'idx': [{'arr': [-1, 0, -1]}], 's': [3]},
    'X2a': {'k': 'index', 'idx': [{'arr': [0, 1, -1, -2]}], 's': [2]},  # more distinct raw values than elements
    'X4s': {'k': 'index', 'idx': [{'slice': [0, 2, None]}], 's': [4]},
    'X23': {'k': 'index', 'idx': [':', {'arr': [0, 2, 2]}], 's': [2, 3], 'tuple': True},
    'X23e': {'k': 'index', 'idx': ['...', {'arr': [1, 1]}], 's': [2, 3], 'tuple': True},
    'X3id': {'k': 'index', 'idx': [':'], 's': [3], 'tuple': True},
    # near misses of the index rules: two indexed axes (int + array, strided slice + array), unique data without the flag
    'X23i': {'k': 'index', 'idx': [0, {'arr': [1, 1, 2]}], 's': [2, 3], 'tuple': True},
    'X43s': {'k': 'index', 'idx': [{'slice': [None, None, 2]}, {'arr': [0, 2, 2]}], 's': [4, 3], 'tuple': True},
    'X23es': {'k': 'index', 'idx': ['...', {'slice': [0, 2, None]}], 's': [2, 3], 'tuple': True},  # unique by inference
    'X23ie': {'k': 'index', 'idx': [1, '...'], 's': [2, 3], 'tuple': True},
    'X3nu': {'k': 'index', 'idx': [{'arr': [2, 0]}], 's': [3]},
    'P3': {'k': 'pack', 'mask': [True, False, True], 's': [3]},
    # axes
    'M23': {'k': 'moveaxis', 'src': 0, 'dst': 1, 's': [2, 3]},
    'M32': {'k': 'moveaxis', 'src': 1, 'dst': 0, 's': [3, 2]},
    'M32n': {'k': 'moveaxis', 'src': -1, 'dst': 0, 's': [3, 2]},  # same permutation, other tuple
    # move-axis pairs on a pytree whose leaves have different ranks: inverse on the first leaf only
    'Mp01': {'k': 'moveaxis', 'src': 0, 'dst': 1, 's': {'list': [[2, 3], [2, 3, 2]]}},
    'Mpm10': {'k': 'moveaxis', 'src': -1, 'dst': 0, 's': {'list': [[3, 2], [3, 2, 2]]}},
    'Mp10': {'k': 'moveaxis', 'src': 1, 'dst': 0, 's': {'list': [[3, 2], [3, 2, 2]]}},
    # multi-axis moves: a true inverse pair and a pair using the same axis sets with a crossed pairing
    'Mx1': {'k': 'moveaxis', 'src': [0, 1], 'dst': [1, 2], 's': [2, 3, 2]},
    'Mx1i': {'k': 'moveaxis', 'src': [1, 2], 'dst': [0, 1], 's': [2, 2, 3]},
    'Mx2': {'k': 'moveaxis', 'src': [1, 2], 'dst': [1, 0], 's': [2, 2, 3]},
    'M23b': {'k': 'moveaxis', 'src': [0], 'dst': [-1], 's': [2, 3]},  # same map as M23, other tuple
    'Sh23b': {'k': 'reshape', 'shape': [3, 2], 's': [2, 3]},  # equal to Sh23 but a distinct object
    'R23': {'k': 'ravel', 's': [2, 3]},
    'R6': {'k': 'ravel', 's': [6]},  # no-op ravel
    'R32': {'k': 'ravel', 's': [3, 2]},  # another ravel sharing the flat side with R23
    'Sh23': {'k': 'reshape', 'shape': [3, 2], 's': [2, 3]},
    'Sh32': {'k': 'reshape', 'shape': [2, 3], 's': [3, 2]},
    'A66': {'k': 'dense', 'm': [[1, 0, 0, 0, 0, 2], [0, 1, 0, 0, 0, 0], [0, 0, 1, 0, 1, 0], [0, 0, 0, 1, 0, 0], [0, 3, 0, 0, 1, 0], [0, 0, 0, 0, 0, 1]]},
    # polarimetry
    'Q1': {'k': 'qurot', 'stokes': 'IQU', 'shape': [2], 'q': [1]},
    'Q2': {'k': 'qurot', 'stokes': 'IQU', 'shape': [2], 'q': [2, 3], 'vec': True},
    'Q3': {'k': 'qurot', 'stokes': 'IQU', 'shape': [2], 'q': [-1]},
    'W': {'k': 'hwp', 'stokes': 'IQU', 'shape': [2]},
    'Pl': {'k': 'pol', 'stokes': 'IQU', 'shape': [2]},
    'Hs': {'k': 'homoth', 'v': 2, 's': IQU2},
    'Is': {'k': 'ident', 's': IQU2},
    'Qq': {'k': 'qurot', 'stokes': 'QU', 'shape': [2], 'q': [1, 2], 'vec': True},
    'Wq': {'k': 'hwp', 'stokes': 'QU', 'shape': [2]},
    'Plq': {'k': 'pol', 'stokes': 'QU', 'shape': [2]},
    'Qv': {'k': 'qurot', 'stokes': 'IQUV', 'shape': [1], 'q': [3]},
    'Wv': {'k': 'hwp', 'stokes': 'IQUV', 'shape': [1]},
    'Plv': {'k': 'pol', 'stokes': 'IQUV', 'shape': [1]},
    # lazy duals of the above (same objects inside)
    'S22I': {'k': 'expr', 'e': {'I': 'S22'}},
    'D2I': {'k': 'expr', 'e': {'I': 'D2'}},
    'X3uT': {'k': 'expr', 'e': {'T': 'X3u'}},
    'X3rT': {'k': 'expr', 'e': {'T': 'X3r'}},
    'X3nT': {'k': 'expr', 'e': {'T': 'X3n'}},
    'X2aT': {'k': 'expr', 'e': {'T': 'X2a'}},
    'X23T': {'k': 'expr', 'e': {'T': 'X23'}},
    'X23iT': {'k': 'expr', 'e': {'T': 'X23i'}},
    'X23esT': {'k': 'expr', 'e': {'T': 'X23es'}},
    'X23ieT': {'k': 'expr', 'e': {'T': 'X23ie'}},
    'X43sT': {'k': 'expr', 'e': {'T': 'X43s'}},
    'X3nuT': {'k': 'expr', 'e': {'T': 'X3nu'}},
    'Sh23bT': {'k': 'expr', 'e': {'T': 'Sh23b'}},
    'Sh32T': {'k': 'expr', 'e': {'T': 'Sh32'}},
    'X23eT': {'k': 'expr', 'e': {'T': 'X23e'}},
    'P3T': {'k': 'expr', 'e': {'T': 'P3'}},
    'R23T': {'k': 'expr', 'e': {'T': 'R23'}},
    'Sh23T': {'k': 'expr', 'e': {'T': 'Sh23'}},
    'Q1T': {'k': 'expr', 'e': {'T': 'Q1'}},
    'Q2T': {'k': 'expr', 'e': {'T': 'Q2'}},
    'QqT': {'k': 'expr', 'e': {'T': 'Qq'}},
    'A23T': {'k': 'expr', 'e': {'T': 'A23'}},
    # named compositions and sums (operands that are themselves composites, reused across expressions)
    'CAB': {'k': 'expr', 'e': {'mm': ['A22', 'B22']}},
    'CW': {'k': 'expr', 'e': {'mm': ['A23', 'A33']}},
    'SAB': {'k': 'expr', 'e': {'add': ['A22', 'B22']}},
    'SW': {'k': 'expr', 'e': {'add': ['A32', 'A32']}},
    'NS': {'k': 'expr', 'e': {'neg': 'SAB'}},
    # block operators
    'BD': {'k': 'bdiagop', 'blocks': ['A22', 'B22']},
    'BD2': {'k': 'bdiagop', 'blocks': ['B22', 'S22']},
    'BR': {'k': 'row', 'blocks': ['A22', 'B22']},
    'BC': {'k': 'col', 'blocks': ['B22', 'A22']},
    'BDt': {'k': 'bdiagop', 'blocks': {'tuple': ['A22', 'B22']}},
    'BDd': {'k': 'bdiagop', 'blocks': {'dict': {'b': 'A22', 'a': 'B22'}}},
    'BRd': {'k': 'row', 'blocks': {'dict': {'a': 'A22', 'b': 'S22'}}},
    'BCd': {'k': 'col', 'blocks': {'dict': {'a': 'B22', 'b': 'A22'}}},
    'BD1': {'k': 'bdiagop', 'blocks': ['A22']},
    'BR1': {'k': 'row', 'blocks': ['B22']},
    'BC1': {'k': 'col', 'blocks': ['A22']},
    'BDi': {'k': 'bdiagop', 'blocks': ['I2', 'I2']},
    'BDh': {'k': 'bdiagop', 'blocks': ['H2', 'A22']},
    'BDw': {'k': 'bdiagop', 'blocks': ['A23', 'A32']},  # non-square blocks
    'BDq': {'k': 'bdiagop', 'blocks': ['Q1', 'Q2']},
    'BDqT': {'k': 'bdiagop', 'blocks': ['Q1T', 'Q2T']},
    'BDwq': {'k': 'bdiagop', 'blocks': ['W', 'W']},
    'BDrv': {'k': 'bdiagop', 'blocks': ['R23', 'R23']},  # blocks without array fields that are not identities
    'BDpl': {'k': 'bdiagop', 'blocks': {'dict': {'f090': 'W', 'f150': 'Pl'}}},
    'BRq': {'k': 'row', 'blocks': ['Pl', 'Pl']},
    # blocks that become identities only through their own reduce() (rule-cancelled products, no-op index / ravel)
    'BDm': {'k': 'bdiagop', 'blocks': ['M23', 'M23']},
    'BDmI': {'k': 'bdiagop', 'blocks': ['M32', 'M32']},
    'BDnoop': {'k': 'bdiagop', 'blocks': ['X3id', 'R6']},
    'BDii': {'k': 'bdiagop', 'blocks': {'dict': {'a': 'BDi', 'b': 'I2'}}},
    'BDn': {'k': 'bdiagop', 'blocks': [['A22', 'B22'], 'S22']},
    'BDn2': {'k': 'bdiagop', 'blocks': [['B22', 'A22'], 'A22']},
    'BRn': {'k': 'row', 'blocks': [['A22', 'B22'], 'S22']},
    # containers equal as structures but nested on one side only (D7)
    'BRR': {'k': 'row', 'blocks': ['BR', 'A22']},
    'BDnn': {'k': 'bdiagop', 'blocks': [['A22', 'B22'], 'A22']},
    'BRI': {'k': 'row', 'blocks': ['I2', 'H2']},
    'BCI': {'k': 'col', 'blocks': ['S22I', 'S22']},
}

# Operands used by the reduce checks (C01 / C07) only.  The other checks copy LET at import time and iterate over
# it, so additions meant for reduce() go here (names must not clash with LET; entries may refer to LET).
LET_EXT: dict = {
    # --- foreign wrappers: a lazy transpose / inverse next to an operator of the wrapped object's CLASS that is not
    # the wrapped OBJECT (different parameters, so that a wrong cancellation changes the map) ---
    'P3b': {'k': 'pack', 'mask': [True, True, False], 's': [3]},    # same count as P3, other mask
    'P3c': {'k': 'pack', 'mask': [False, True, False], 's': [3]},   # other count
    'P3all': {'k': 'pack', 'mask': [True, True, True], 's': [3]},   # square pack
    'P3bT': {'k': 'expr', 'e': {'T': 'P3b'}},
    'P3cT': {'k': 'expr', 'e': {'T': 'P3c'}},
    'P3allT': {'k': 'expr', 'e': {'T': 'P3all'}},
    'X3u2': {'k': 'index', 'idx': [{'arr': [0, 1]}], 's': [3], 'unique': True},
    'X3u2T': {'k': 'expr', 'e': {'T': 'X3u2'}},
    'X3r2': {'k': 'index', 'idx': [{'arr': [0, 2, 2]}], 's': [3]},
    'X3r2T': {'k': 'expr', 'e': {'T': 'X3r2'}},
    'D3I': {'k': 'expr', 'e': {'I': 'D3'}},
    'D3b': {'k': 'diag', 'v': [2, 1, 4], 's': [3]},
    'D3bI': {'k': 'expr', 'e': {'I': 'D3b'}},
    'S22c': {'k': 'dense', 'm': [[3, 1], [1, 2]]},
    'S22cI': {'k': 'expr', 'e': {'I': 'S22c'}},
    'Q1b': {'k': 'qurot', 'stokes': 'IQU', 'shape': [2], 'q': [1]},  # equal to Q1 but a distinct object
    'PlT': {'k': 'expr', 'e': {'T': 'Pl'}},
    # --- corner index arrays: one element, 0-d, empty, all equal, a full permutation (flagged / not), a 2-d array ---
    'X3k1': {'k': 'index', 'idx': [{'arr': [1]}], 's': [3]},
    'X3k1n': {'k': 'index', 'idx': [{'arr': [-1]}], 's': [3]},
    'X3k0': {'k': 'index', 'idx': [{'arr': 2}], 's': [3]},                                   # 0-d integer array
    'X3k00': {'k': 'index', 'idx': [{'arr': []}], 's': [3]},                                 # selects nothing
    'X3eq': {'k': 'index', 'idx': [{'arr': [1, 1, 1]}], 's': [3]},
    'X3perm': {'k': 'index', 'idx': [{'arr': [2, 0, 1]}], 's': [3]},
    'X3permu': {'k': 'index', 'idx': [{'arr': [2, 0, 1]}], 's': [3], 'unique': True},
    'X3d2': {'k': 'index', 'idx': [{'arr': [[0, 1], [1, 2]]}], 's': [3]},
    'X23k1': {'k': 'index', 'idx': ['...', {'arr': [1]}], 's': [2, 3], 'tuple': True},
    'X23k0': {'k': 'index', 'idx': [':', {'arr': 0}], 's': [2, 3], 'tuple': True},
    'X3k1T': {'k': 'expr', 'e': {'T': 'X3k1'}},
    'X3k1nT': {'k': 'expr', 'e': {'T': 'X3k1n'}},
    'X3k0T': {'k': 'expr', 'e': {'T': 'X3k0'}},
    'X3k00T': {'k': 'expr', 'e': {'T': 'X3k00'}},
    'X3eqT': {'k': 'expr', 'e': {'T': 'X3eq'}},
    'X3permT': {'k': 'expr', 'e': {'T': 'X3perm'}},
    'X3permuT': {'k': 'expr', 'e': {'T': 'X3permu'}},
    'X3d2T': {'k': 'expr', 'e': {'T': 'X3d2'}},
    'X23k1T': {'k': 'expr', 'e': {'T': 'X23k1'}},
    'X23k0T': {'k': 'expr', 'e': {'T': 'X23k0'}},
    # --- index operators on pytrees with several leaves (TransposeIndexRule needs equal leaf shapes) ---
    'Xm2': {'k': 'index', 'idx': ['...', {'arr': [1, 1, 0]}], 's': {'list': [[2, 3], [2, 3]]}, 'tuple': True},
    'Xm2T': {'k': 'expr', 'e': {'T': 'Xm2'}},
    'Xm2d': {'k': 'index', 'idx': ['...', {'arr': [1, 1, 0]}], 's': {'list': [[2, 3], [3]]}, 'tuple': True},
    'Xm2dT': {'k': 'expr', 'e': {'T': 'Xm2d'}},
    'Xm2id': {'k': 'index', 'idx': ['...'], 's': {'list': [[2, 3], [3]]}, 'tuple': True},  # no-op on every leaf
    # --- leaf-wise operators on pytrees whose leaves have DIFFERENT ranks: a no-op on some leaves and a real change
    # on the others, with the untouched leaf first and last ---
    'Rm12': {'k': 'ravel', 's': {'list': [[4], [2, 2]]}},                                   # axes (0, -1)
    'Rm21': {'k': 'ravel', 's': {'list': [[2, 2], [4]]}},
    'Rm23': {'k': 'ravel', 'first': 1, 'last': -1, 's': {'list': [[2, 2], [2, 2, 2]]}},     # axes (1, -1)
    'Rm32': {'k': 'ravel', 'first': 1, 'last': -1, 's': {'list': [[2, 2, 2], [2, 2]]}},
    'Rmd': {'k': 'ravel', 'first': 1, 'last': -1, 's': {'dict': {'cube': [2, 2, 2], 'map': [2, 2]}}},
    'Rm3': {'k': 'ravel', 'first': -2, 'last': -1, 's': {'tuple': [[2, 2], [3], [1, 2, 2]]}},  # no-op on the middle leaf only
    'Rm11': {'k': 'ravel', 'first': 1, 'last': 1, 's': {'list': [[2, 2], [2, 2, 2]]}},      # no-op on every leaf
    'Rmall': {'k': 'ravel', 's': {'list': [[2, 2], [2, 1, 2]]}},                             # a real change on every leaf
    'Shm12': {'k': 'reshape', 'shape': [4], 's': {'list': [[4], [2, 2]]}},
    'Shm21': {'k': 'reshape', 'shape': [4], 's': {'list': [[2, 2], [4]]}},
    'Shm44': {'k': 'reshape', 'shape': [4], 's': {'list': [[4], [4]]}},                      # no-op on every leaf
    'Mm12': {'k': 'moveaxis', 'src': 0, 'dst': -1, 's': {'list': [[3], [2, 3]]}},
    'Mm21': {'k': 'moveaxis', 'src': 0, 'dst': -1, 's': {'list': [[2, 3], [3]]}},
    'Mm12i': {'k': 'moveaxis', 'src': -1, 'dst': 0, 's': {'list': [[3], [3, 2]]}},
    'Rm12T': {'k': 'expr', 'e': {'T': 'Rm12'}},
    'Rm21T': {'k': 'expr', 'e': {'T': 'Rm21'}},
    'Rm23T': {'k': 'expr', 'e': {'T': 'Rm23'}},
    'Rm32T': {'k': 'expr', 'e': {'T': 'Rm32'}},
    'Shm12T': {'k': 'expr', 'e': {'T': 'Shm12'}},
    'Im12': {'k': 'ident', 's': {'list': [[4], [2, 2]]}},
    'Hm12': {'k': 'homoth', 'v': 2, 's': {'list': [[4], [4]]}},
    'BDrm': {'k': 'bdiagop', 'blocks': {'dict': {'r': 'Rm12', 'i': 'I2'}}},
    'BDrm2': {'k': 'bdiagop', 'blocks': ['Rm32', 'Rm23']},
    'BDrmn': {'k': 'bdiagop', 'blocks': ['Rm11', 'Shm44']},   # becomes an identity through the blocks' own reduce()
    'BCrm': {'k': 'col', 'blocks': ['Rm12', 'Shm12']},
}

ALL = {**LET, **LET_EXT}
assert len(ALL) == len(LET) + len(LET_EXT)

_env = {}
_env_ext = {}


def env(ext=False):
    """The real operator objects of LET (ext: of LET and LET_EXT; the objects of LET are then the same objects)."""
    if not _env:
        _env.update(A.build_env(LET))
    if not ext:
        return _env
    if not _env_ext:
        _env_ext.update(_env)
        for name, d in LET_EXT.items():
            try:
                _env_ext[name] = A.build_operand(d, _env_ext)
            except Exception as e:  # reported by the cases that use the operand
                _env_ext[name] = A.Unbuildable(name, e)
    return _env_ext


def key(s) -> str:
    """Type-matching key of a structure: struct_repr plus the dict keys (which struct_repr, mirroring the model's
    show_struct, does not print)."""
    def go(t):
        ch = A.tree_children(t)
        if ch is None:
            return A.struct_repr(t)
        (k, arg), kids = ch
        return [k, arg, [go(c) for c in kids]]

    return json.dumps(go(s))


_typed = {}
_typed_ext = {}


def typed(ext=False):
    """name -> (in key, out key)"""
    tt = _typed_ext if ext else _typed
    if not tt:
        for n, o in env(ext).items():
            if isinstance(o, A.Unbuildable):
                continue
            try:
                tt[n] = (key(o.in_structure()), key(o.out_structure()))
            except Exception:
                continue
    return tt


def chains(maxlen: int, names=None, ext=False):
    """All type-compatible chains (left operand applied last) of 2..maxlen operand names."""
    t = typed(ext)
    names = list(names or t)
    by_out = {}
    for n in names:
        by_out.setdefault(t[n][1], []).append(n)
    out = []

    def extend(chain):
        if len(chain) >= 2:
            out.append(list(chain))
        if len(chain) >= maxlen:
            return
        # the next operand (to the right) must output what the last one takes
        for n in by_out.get(t[chain[-1]][0], []):
            chain.append(n)
            extend(chain)
            chain.pop()

    for n in names:
        extend([n])
    return out


def used_names(e, acc=None):
    acc = set() if acc is None else acc
    if isinstance(e, str):
        acc.add(e)
        d = ALL.get(e)
        if d and d['k'] == 'expr':
            used_names(d['e'], acc)
        if d and 'blocks' in d:
            _container_names(d['blocks'], acc)
    elif isinstance(e, dict):
        for v in e.values():
            used_names(v, acc)
    elif isinstance(e, list):
        for v in e:
            used_names(v, acc)
    return acc


def _container_names(c, acc):
    if isinstance(c, str):
        used_names(c, acc)
    elif isinstance(c, list):
        for v in c:
            _container_names(v, acc)
    elif isinstance(c, dict):
        for v in (c.get('tuple') or list((c.get('dict') or {}).values())):
            _container_names(v, acc)


# the documented reduction patterns (C07), as chains of operand names
PATTERNS = {
    'identity': ['I2'],
    'identity3': ['I3'],
    'scalars': ['H2', 'Hh2'],
    'inverse-left': ['S22I', 'S22'],
    'inverse-right': ['S22', 'S22I'],
    'diag-inverse': ['D2I', 'D2'],
    'rot-rot': ['Q1', 'Q2'],
    'rot-rotT': ['Q1', 'Q2T'],
    'rotT-rot': ['Q1T', 'Q2'],
    'rotT-rotT': ['Q1T', 'Q2T'],
    'rot-own-T': ['Q1', 'Q1T'],
    'rot-hwp': ['Q2', 'W'],
    'rotT-hwp': ['Q1T', 'W'],
    'pol-hwp': ['Pl', 'W'],
    'row-diag': ['BR', 'BD'],
    'diag-col': ['BD', 'BC'],
    'diag-diag': ['BD', 'BD2'],
    'row-col': ['BR', 'BC'],
    'diag-diag-dict': ['BDd', 'BDd'],
    'diag-diag-nested': ['BDn', 'BDn2'],
    'index-indexT-unique': ['X3u', 'X3uT'],
    'pack-packT': ['P3', 'P3T'],
    'indexT-index': ['X3rT', 'X3r'],
    'indexT-index-neg': ['X3nT', 'X3n'],
    'indexT-index-alias': ['X2aT', 'X2a'],
    'indexT-index-axis1': ['X23T', 'X23'],
    'indexT-index-ellipsis': ['X23eT', 'X23e'],
    'reshape-reshapeT': ['Sh23', 'Sh23T'],
    'reshapeT-reshape': ['Sh23T', 'Sh23'],
    'ravelT-ravel': ['R23T', 'R23'],
    'moveaxis-pair': ['M32', 'M23'],
    'moveaxis-multi-pair': ['Mx1i', 'Mx1'],
    'near-moveaxis-crossed-pairing': ['Mx2', 'Mx1'],
    'index-indexT-ellipsis-slice': ['X23es', 'X23esT'],
    'index-indexT-int-ellipsis': ['X23ie', 'X23ieT'],
    'moveaxis-pair2': ['M23', 'M32'],
    'blockdiag-rot-rotT': ['BDq', 'BDqT'],
    'blockdiag-moveaxis-cancel': ['BDmI', 'BDm'],
    'blockdiag-noop-blocks': ['BDnoop'],
    'blockdiag-nested-identities': ['BDii'],
    # near misses: pairs that look like a pattern but must NOT be rewritten (or only partly)
    'near-indexT-index-int-axis': ['X23iT', 'X23i'],
    'near-indexT-index-strided': ['X43sT', 'X43s'],
    'near-index-indexT-unflagged': ['X3nu', 'X3nuT'],
    'near-indexT-index-unique': ['X3uT', 'X3u'],
    'near-moveaxis-ranks': ['Mpm10', 'Mp01'],
    'near-moveaxis-ranks-ok': ['Mp10', 'Mp01'],
    'near-moveaxis-other-tuple': ['M32', 'M23b'],
    'near-reshape-distinct-object': ['Sh23', 'Sh23bT'],
    'near-reshapeT-distinct-object': ['Sh23bT', 'Sh23'],
    'near-reshapeT-different-operator': ['R23T', 'R32'],
    'near-reshape-different-operator': ['Sh23', 'R23T'],
    'near-ravel-different-operator': ['R32', 'Sh32T'],
    'near-inverse-distinct-object': ['S22I', 'S22b'],
}

# patterns over LET_EXT (reduce checks only)
PATTERNS_EXT = {
    # the genuine patterns on the new operands
    'pack-packT-b': ['P3b', 'P3bT'],
    'pack-packT-square': ['P3all', 'P3allT'],
    'indexT-index-2': ['X3r2T', 'X3r2'],
    'diag3-inverse': ['D3I', 'D3'],
    'indexT-index-two-leaves': ['Xm2T', 'Xm2'],
    'near-indexT-index-leaf-shapes': ['Xm2dT', 'Xm2d'],
    'index-noop-mixed-ranks': ['Xm2id'],
    # index.T @ index (-> diagonal of the coverage) and index @ index.T (-> identity iff flagged unique) on the corner
    # index arrays
    'indexT-index-size1': ['X3k1T', 'X3k1'],
    'indexT-index-size1-neg': ['X3k1nT', 'X3k1n'],
    'indexT-index-0d': ['X3k0T', 'X3k0'],
    'indexT-index-empty': ['X3k00T', 'X3k00'],
    'indexT-index-all-equal': ['X3eqT', 'X3eq'],
    'indexT-index-permutation': ['X3permT', 'X3perm'],
    'indexT-index-2d-array': ['X3d2T', 'X3d2'],
    'indexT-index-size1-axis1': ['X23k1T', 'X23k1'],
    'indexT-index-0d-axis1': ['X23k0T', 'X23k0'],
    'index-indexT-permutation-flagged': ['X3permu', 'X3permuT'],
    'near-indexT-index-permutation-flagged': ['X3permuT', 'X3permu'],
    'near-index-indexT-size1': ['X3k1', 'X3k1T'],
    'near-index-indexT-0d': ['X3k0', 'X3k0T'],
    'near-index-indexT-empty': ['X3k00', 'X3k00T'],
    'near-index-indexT-permutation-unflagged': ['X3perm', 'X3permT'],
    'near-index-indexT-size1-axis1': ['X23k1', 'X23k1T'],
    # leaf-wise operators acting on some leaves only: alone, against their own transpose, in blocks
    'ravel-mixed-ranks-noop-first': ['Rm12'],
    'ravel-mixed-ranks-noop-last': ['Rm21'],
    'ravel1-mixed-ranks-noop-first': ['Rm23'],
    'ravel1-mixed-ranks-noop-last': ['Rm32'],
    'ravel1-mixed-ranks-dict': ['Rmd'],
    'ravel-mixed-ranks-noop-middle': ['Rm3'],
    'ravel-mixed-ranks-noop-all': ['Rm11'],
    'ravel-mixed-ranks-none-noop': ['Rmall'],
    'reshape-mixed-ranks-noop-first': ['Shm12'],
    'reshape-mixed-ranks-noop-last': ['Shm21'],
    'reshape-two-leaves-noop-all': ['Shm44'],
    'moveaxis-mixed-ranks-noop-first': ['Mm12'],
    'moveaxis-mixed-ranks-noop-last': ['Mm21'],
    'moveaxis-mixed-ranks-pair': ['Mm12i', 'Mm12'],
    'ravelT-ravel-mixed-ranks': ['Rm12T', 'Rm12'],
    'ravel-ravelT-mixed-ranks': ['Rm12', 'Rm12T'],
    'ravelT-ravel-mixed-ranks-last': ['Rm21T', 'Rm21'],
    'ravel1T-ravel1-mixed-ranks': ['Rm23T', 'Rm23'],
    'ravel1-ravel1T-mixed-ranks': ['Rm32', 'Rm32T'],
    'near-reshape-ravelT-mixed-ranks': ['Shm12', 'Rm12T'],
    'near-ravel-reshapeT-mixed-ranks': ['Rm12', 'Shm12T'],
    'near-scalar-ravel-mixed-ranks': ['Hm12', 'Rm12'],   # (the scalar already stands on the right side)
    'ravel-identity-mixed-ranks': ['Rm12', 'Im12'],
    'blockdiag-ravel-mixed-ranks': ['BDrm'],
    'blockdiag-ravel1-mixed-ranks': ['BDrm2'],
    'blockdiag-noop-mixed-ranks': ['BDrmn'],
    'blockcol-ravel-mixed-ranks': ['BCrm'],
    # a foreign wrapper that becomes adjacent only during the scan (after the pair in between has cancelled)
    'near-pack-otherT-after-cancel': ['P3', 'D3I', 'D3', 'P3bT'],
    'near-pack-otherT-after-own': ['P3', 'P3bT', 'P3b', 'P3bT'],
    'near-index-otherT-after-cancel': ['X3u', 'D3I', 'D3', 'X3u2T'],
    'near-indexT-other-after-cancel': ['X3r2T', 'D3I', 'D3', 'X3r'],
    'near-inverse-other-after-cancel': ['D3bI', 'X3rT', 'X3r', 'D3'],
}


def _is_wrapper(o) -> bool:
    return isinstance(o, A.J()['core']._AbstractLazyDualOperator)


def _guard_classes(rule):
    """(any, left, right) operand classes of a registered binary rule, each None or a tuple of classes."""
    def tup(c):
        return None if c is None else (c if isinstance(c, tuple) else (c,))

    return tup(rule.operator_class), tup(rule.left_operator_class), tup(rule.right_operator_class)


def foreign_wrapper_pairs(ext=True) -> dict:
    """Near misses of every rule that has to decide whether a lazy wrapper (transpose / inverse / their subclasses)
    wraps THE operator next to it: all type-compatible ordered pairs (w, x) and (x, w) of alphabet operands in which
    w is a wrapper, x is not the wrapped object, and either x has the class of the wrapped object or the classes of
    the pair are accepted by the class test of a registered rule whose guard names a wrapper class.
    Generated from the alphabet and the imported registry, so that a new operand or rule extends the set."""
    ev, t = env(ext), typed(ext)
    core, rules = A.J()['core'], A.J()['rules']
    guards = []
    for r in rules.BINARY_RULE_REGISTRY:
        anyc, lc, rc = _guard_classes(r)
        if any(issubclass(c, core._AbstractLazyDualOperator) for cs in (anyc, lc, rc) if cs for c in cs):
            guards.append((anyc, lc, rc))

    def by_rule(a, b, w):
        for anyc, lc, rc in guards:
            if anyc is not None:
                if isinstance(w, anyc) and type((b if w is a else a)) is type(w.operator):
                    return True
            elif (lc is None or isinstance(a, lc)) and (rc is None or isinstance(b, rc)):
                return True
        return False

    out = {}
    names = [n for n in t if not isinstance(ev[n], A.Unbuildable)]
    for na in names:
        for nb in names:
            if t[na][0] != t[nb][1]:
                continue
            a, b = ev[na], ev[nb]
            for w, x in ((a, b), (b, a)):
                if not _is_wrapper(w) or w.operator is x or w is x:
                    continue
                if type(x) is type(w.operator) or by_rule(a, b, w):
                    out[f'near-foreign-{na}-{nb}'] = [na, nb]
                    break
    return out
