"""Shared machinery of the operator-algebra checks (C01-C08, C10, C15, C16):
real furax objects built from JSON descriptions, their encoding as Coq terms of Model/Op.v (with
object identities and the dense matrices of the leaf operators measured on the real code), the
implementation-side skeleton / structures / dense matrix, and the decoding of the model's
`observation` values.
"""
from __future__ import annotations

import math
from fractions import Fraction

import numpy as np

import coqparse
from lib import cbool, clist, cstr


def cn(n) -> str:
    return f'{int(n)}%nat'


def cz(z) -> str:
    return f'({int(z)})%Z'

_jx = {}


def J():
    """Lazy imports of jax/furax (so that pure-Coq runs do not pay for them)."""
    if _jx:
        return _jx
    import jax
    import jax.numpy as jnp

    import furax  # noqa: F401
    from furax._base import axes, blocks, core, dense, diagonal, indices, linear, rules
    from furax.landscapes import StokesPyTree
    from furax.operators import hwp, polarizers, qu_rotations, toeplitz

    _jx.update(
        jax=jax, jnp=jnp, core=core, rules=rules, blocks=blocks, dense=dense, diagonal=diagonal, indices=indices,
        linear=linear, axes=axes, hwp=hwp, pol=polarizers, qu=qu_rotations, toeplitz=toeplitz, Stokes=StokesPyTree,
    )
    return _jx


DTYPES = {'float32': 0, 'float64': 1, 'int32': 2, 'int64': 3, 'float16': 4, 'bool': 5, 'complex64': 6}
STOKES_N = {'I': 1, 'QU': 2, 'IQU': 3, 'IQUV': 4}


# ---------------------------------------------------------------------------------------------
# structures


def mk_struct(desc):
    """JSON -> pytree of ShapeDtypeStruct.  desc: [2,3] | {'shape':[..],'dtype':..} | {'list':[..]} |
    {'tuple':[..]} | {'dict':{..}} | {'stokes':'IQU','shape':[..]}"""
    j = J()
    jax, jnp = j['jax'], j['jnp']
    if isinstance(desc, list) and all(isinstance(i, int) for i in desc):
        return jax.ShapeDtypeStruct(tuple(desc), jnp.float32)
    if isinstance(desc, list):
        return [mk_struct(d) for d in desc]
    if 'shape' in desc and 'stokes' not in desc:
        return jax.ShapeDtypeStruct(tuple(desc['shape']), jnp.dtype(desc.get('dtype', 'float32')))
    if 'list' in desc:
        return [mk_struct(d) for d in desc['list']]
    if 'tuple' in desc:
        return tuple(mk_struct(d) for d in desc['tuple'])
    if 'dict' in desc:
        return {k: mk_struct(v) for k, v in desc['dict'].items()}
    if 'stokes' in desc:
        cls = j['Stokes'].class_for(desc['stokes'])
        return cls.structure_for(tuple(desc['shape']), jnp.dtype(desc.get('dtype', 'float32')))
    raise ValueError(desc)


def is_stokes(x):
    return isinstance(x, J()['Stokes'])


def tree_children(x):
    """(kind, children) of one container level, None for a leaf."""
    if isinstance(x, list):
        return ('list', None), list(x)
    if isinstance(x, tuple):
        return ('tuple', None), list(x)
    if isinstance(x, dict):
        keys = sorted(x)
        return ('dict', keys), [x[k] for k in keys]
    if is_stokes(x):
        return ('stokes', len(x.stokes)), [getattr(x, s.lower()) for s in x.stokes]
    return None


def ckind_coq(kind):
    k, arg = kind
    if k == 'list':
        return 'KList'
    if k == 'tuple':
        return 'KTuple'
    if k == 'dict':
        return f'(KDict {clist(arg, cstr)})'
    if k == 'stokes':
        return f'(KStokes {cn(arg)})'
    raise ValueError(kind)


def struct_coq(s) -> str:
    ch = tree_children(s)
    if ch is None:
        dt = DTYPES.get(str(np.dtype(s.dtype)), 99)
        return f'(Leaf (mkSds {clist(s.shape, cn)} {cn(dt)}))'
    kind, kids = ch
    return f'(Node {ckind_coq(kind)} {clist(kids, struct_coq)})'


def struct_repr(s):
    """Canonical JSON form of a structure, identical to the decoding of the model's show_struct."""
    ch = tree_children(s)
    if ch is None:
        return ['leaf', DTYPES.get(str(np.dtype(s.dtype)), 99), [int(i) for i in s.shape]]
    (k, arg), kids = ch
    return [k, arg if k == 'stokes' else 0, [struct_repr(c) for c in kids]]


def decode_struct(sk):
    tag, oid, params, kids = sk['a']
    if tag == 'leaf':
        return ['leaf', oid, [int(p[0]) for p in params]]
    return [tag, oid, [decode_struct(k) for k in kids]]


def struct_size(s) -> int:
    return sum(int(np.prod(l.shape)) for l in J()['jax'].tree.leaves(s))


# ---------------------------------------------------------------------------------------------
# operands from JSON


def container(desc, env):
    """JSON container of operand names -> pytree of operators."""
    if isinstance(desc, str):
        return env[desc]
    if isinstance(desc, list):
        return [container(d, env) for d in desc]
    if 'tuple' in desc:
        return tuple(container(d, env) for d in desc['tuple'])
    if 'dict' in desc:
        return {k: container(v, env) for k, v in desc['dict'].items()}
    raise ValueError(desc)


def q_angles(q, shape):
    """Angles given in units of pi/4, as a float32/float64 array of the given shape (or scalar list)."""
    jnp = J()['jnp']
    a = np.array(q, dtype=np.float64) * (math.pi / 4)
    return jnp.asarray(a.reshape(shape) if shape is not None else a)


def build_operand(d, env):
    j = J()
    jax, jnp = j['jax'], j['jnp']
    k = d['k']
    if k == 'dense':
        m = np.array(d['m'], dtype=np.float32)
        s = jax.ShapeDtypeStruct((m.shape[1],), jnp.float32)
        return j['dense'].DenseBlockDiagonalOperator(jnp.asarray(m), s, 'ij,j->i')
    if k == 'ident':
        return j['core'].IdentityOperator(mk_struct(d['s']))
    if k == 'homoth':
        return j['core'].HomothetyOperator(jnp.asarray(d['v'], dtype=jnp.float32), mk_struct(d['s']))
    if k == 'diag':
        return j['diagonal'].DiagonalOperator(
            jnp.asarray(d['v'], dtype=jnp.float32), axis_destination=d.get('axis', 0), in_structure=mk_struct(d['s'])
        )
    if k == 'bdiag':
        return j['diagonal'].BroadcastDiagonalOperator(
            jnp.asarray(d['v'], dtype=jnp.float32), axis_destination=d.get('axis', 0), in_structure=mk_struct(d['s'])
        )
    if k == 'index':
        idx = tuple(index_entry(e) for e in d['idx'])
        kw = {}
        if 'unique' in d:
            kw['unique_indices'] = d['unique']
        if 'out' in d:
            kw['out_structure'] = mk_struct(d['out'])
        return j['indices'].IndexOperator(idx if len(idx) != 1 or d.get('tuple') else idx[0], in_structure=mk_struct(d['s']), **kw)
    if k == 'pack':
        return j['linear'].PackOperator(jnp.asarray(d['mask'], dtype=bool), mk_struct(d['s']))
    if k == 'moveaxis':
        return j['axes'].MoveAxisOperator(as_axis(d['src']), as_axis(d['dst']), in_structure=mk_struct(d['s']))
    if k == 'ravel':
        return j['axes'].RavelOperator(d.get('first', 0), d.get('last', -1), in_structure=mk_struct(d['s']))
    if k == 'reshape':
        return j['axes'].ReshapeOperator(tuple(d['shape']), in_structure=mk_struct(d['s']))
    if k == 'qurot':
        s = mk_struct({'stokes': d['stokes'], 'shape': d['shape']})
        ashape = tuple(d['ashape']) if 'ashape' in d else (() if len(d['q']) == 1 and not d.get('vec') else (len(d['q']),))
        return j['qu'].QURotationOperator(q_angles(d['q'], ashape).astype(jnp.float32), s)
    if k == 'hwp':
        return j['hwp'].HWPOperator(mk_struct({'stokes': d['stokes'], 'shape': d['shape']}))
    if k == 'pol':
        return j['pol'].LinearPolarizerOperator(mk_struct({'stokes': d['stokes'], 'shape': d['shape']}))
    if k == 'toeplitz':
        return j['toeplitz'].SymmetricBandToeplitzOperator(
            jnp.asarray(d['band'], dtype=jnp.float32), mk_struct(d['s']), method=d.get('method', 'dense')
        )
    if k in ('row', 'bdiagop', 'col'):
        cls = {'row': j['blocks'].BlockRowOperator, 'bdiagop': j['blocks'].BlockDiagonalOperator, 'col': j['blocks'].BlockColumnOperator}[k]
        return cls(container(d['blocks'], env))
    if k == 'expr':
        return eval_expr(d['e'], env)
    raise ValueError(f'unknown operand kind {k}')


def as_axis(a):
    return a if isinstance(a, int) else tuple(a)


def index_entry(e):
    jnp = J()['jnp']
    if isinstance(e, int):
        return e
    if e == '...':
        return Ellipsis
    if e == ':':
        return slice(None)
    if isinstance(e, dict) and 'slice' in e:
        return slice(*e['slice'])
    if isinstance(e, dict) and 'arr' in e:
        return jnp.asarray(e['arr'], dtype=jnp.int32)
    if isinstance(e, dict) and 'mask' in e:
        return jnp.asarray(e['mask'], dtype=bool)
    raise ValueError(e)


def scalar_value(k):
    """JSON scalar -> Python/NumPy/JAX scalar.  {'np':2.0} / {'jax':2.0} / {'jax1d':[2.0]} / {'np1d':[..]}."""
    jnp = J()['jnp']
    if isinstance(k, dict):
        if 'np' in k:
            return np.float32(k['np'])
        if 'jax' in k:
            return jnp.asarray(k['jax'], dtype=jnp.float32)
        if 'jax1d' in k:
            return jnp.asarray(k['jax1d'], dtype=jnp.float32)
        if 'np0d' in k:
            return np.array(k['np0d'], dtype=np.float32)
        if 'frac' in k:
            return k['frac'][0] / k['frac'][1]
    return k


def eval_expr(e, env):
    """Expression over the public API: names, @ + - unary-, scalar *, /, .T, .I, direct constructors."""
    j = J()
    if isinstance(e, str):
        return env[e]
    (kind, arg), = e.items()
    if kind == 'mm':
        a, b = (eval_expr(x, env) for x in arg)
        return a @ b
    if kind == 'chain':  # left-associated product of several operands
        ops = [eval_expr(x, env) for x in arg]
        r = ops[0]
        for o in ops[1:]:
            r = r @ o
        return r
    if kind == 'rchain':  # right-associated product
        ops = [eval_expr(x, env) for x in arg]
        r = ops[-1]
        for o in reversed(ops[:-1]):
            r = o @ r
        return r
    if kind == 'add':
        a, b = (eval_expr(x, env) for x in arg)
        return a + b
    if kind == 'sub':
        a, b = (eval_expr(x, env) for x in arg)
        return a - b
    if kind == 'neg':
        return -eval_expr(arg, env)
    if kind == 'pos':
        return +eval_expr(arg, env)
    if kind == 'smul':
        return scalar_value(arg[0]) * eval_expr(arg[1], env)
    if kind == 'mulr':
        return eval_expr(arg[0], env) * scalar_value(arg[1])
    if kind == 'div':
        return eval_expr(arg[0], env) / scalar_value(arg[1])
    if kind == 'T':
        return eval_expr(arg, env).T
    if kind == 'I':
        with quiet_config():
            return eval_expr(arg, env).I
    if kind == 'comp':  # CompositionOperator([...]) directly
        return j['core'].CompositionOperator([eval_expr(x, env) for x in arg])
    if kind == 'sum':  # AdditionOperator([...]) directly
        return j['core'].AdditionOperator([eval_expr(x, env) for x in arg])
    if kind == 'reduce':
        return eval_expr(arg, env).reduce()
    raise ValueError(e)


def quiet_config():
    from furax import Config

    return Config(solver_callback=_noop)


def _noop(solution):
    return None


class Unbuildable:
    """Placeholder for an operand whose construction raised (the cases using it report it)."""

    def __init__(self, name, exc):
        self.name = name
        self.error = f'{type(exc).__name__}: {str(exc)[:200]}'


def build_env(let: dict) -> dict:
    env = {}
    for name, d in let.items():
        try:
            env[name] = build_operand(d, env)
        except Exception as e:  # reported by the cases that use the operand
            env[name] = Unbuildable(name, e)
    return env


# ---------------------------------------------------------------------------------------------
# dense matrices on the implementation


def basis_inputs(struct):
    """All basis vectors of the flattened input space, as pytrees matching `struct`."""
    j = J()
    jax, jnp = j['jax'], j['jnp']
    leaves, treedef = jax.tree.flatten(struct)
    n = sum(int(np.prod(l.shape)) for l in leaves)
    for col in range(n):
        out, pos = [], 0
        for l in leaves:
            size = int(np.prod(l.shape))
            v = np.zeros(size, dtype=np.dtype(l.dtype))
            if pos <= col < pos + size:
                v[col - pos] = 1
            out.append(jnp.asarray(v.reshape(l.shape)))
            pos += size
        yield jax.tree.unflatten(treedef, out)


def flat(y) -> np.ndarray:
    jax = J()['jax']
    leaves = jax.tree.leaves(y)
    if not leaves:
        return np.zeros(0)
    return np.concatenate([np.asarray(l, dtype=np.float64).ravel() for l in leaves])


def dense(op) -> np.ndarray:
    """Dense matrix of the operator obtained by applying it to every basis vector."""
    cols = [flat(op.mv(x)) for x in basis_inputs(op.in_structure())]
    if not cols:
        return np.zeros((struct_size(op.out_structure()), 0))
    return np.stack(cols, axis=1)


_leaf_cache: dict = {}


def leaf_matrix(op) -> np.ndarray:
    """Dense matrix of a leaf operator measured on the real object (cached per object)."""
    hit = _leaf_cache.get(id(op))
    if hit is not None and hit[0] is op:
        return hit[1]
    core = J()['core']
    if isinstance(op, core.InverseOperator):
        m = np.linalg.inv(reference_matrix(op.operator))
    else:
        m = dense(op)
    _leaf_cache[id(op)] = (op, m)
    return m


def reference_matrix(op) -> np.ndarray:
    """Independent NumPy reference: composites are assembled from the matrices of their parts."""
    j = J()
    core, blocks = j['core'], j['blocks']
    import scipy.linalg

    if isinstance(op, core.CompositionOperator):
        m = None
        for o in op.operands:
            mo = reference_matrix(o)
            m = mo if m is None else m @ mo
        return m
    if isinstance(op, core.AdditionOperator):
        return sum(reference_matrix(o) for o in op.operand_leaves)
    if isinstance(op, blocks.BlockRowOperator):
        return np.hstack([reference_matrix(o) for o in op.block_leaves])
    if isinstance(op, blocks.BlockColumnOperator):
        return np.vstack([reference_matrix(o) for o in op.block_leaves])
    if isinstance(op, blocks.BlockDiagonalOperator):
        return scipy.linalg.block_diag(*[reference_matrix(o) for o in op.block_leaves])
    if isinstance(op, core.InverseOperator):
        return np.linalg.inv(reference_matrix(op.operator))
    if isinstance(op, core.IdentityOperator):
        return np.eye(struct_size(op.in_structure()))
    if isinstance(op, core.HomothetyOperator):
        return float(op.value) * np.eye(struct_size(op.in_structure()))
    return leaf_matrix(op)


def to_frac(v: float, tol=2e-5):
    """Nearest small rational of a float measured on the real code (exact for the dyadic inputs used)."""
    fr = Fraction(float(v)).limit_denominator(4096)
    if abs(float(fr) - float(v)) > tol * max(1.0, abs(float(v))):
        fr = Fraction(float(v)).limit_denominator(10**6)
    return fr


def frac_matrix(m: np.ndarray):
    return [[to_frac(v) for v in row] for row in np.asarray(m, dtype=np.float64)]


def mat_json(m):
    return [[(int(f) if f.denominator == 1 else f'{f.numerator}/{f.denominator}') for f in row] for row in m]


def mat_close(a, b, tol=1e-4) -> bool:
    """a, b: JSON matrices (ints or 'n/d' strings)."""
    if a is None or b is None:
        return a is b
    if len(a) != len(b):
        return False
    for ra, rb in zip(a, b):
        if len(ra) != len(rb):
            return False
        for x, y in zip(ra, rb):
            fx, fy = float(Fraction(x)), float(Fraction(y))
            if abs(fx - fy) > tol * max(1.0, abs(fx), abs(fy)):
                return False
    return True


# ---------------------------------------------------------------------------------------------
# encoding of real operator objects as terms of Model/Op.v


def cq(fr) -> str:
    fr = Fraction(fr)
    n = f'({fr.numerator})' if fr.numerator < 0 else str(fr.numerator)
    return f'({n} # {fr.denominator})%Q'


def cqc(fr) -> str:
    return f'(Q2Qc {cq(fr)})'


WRAPS = None


def wrap_kind(op):
    j = J()
    global WRAPS
    if WRAPS is None:
        from furax._base.axes import ReshapeTransposeOperator
        from furax._base.diagonal import DiagonalInverseOperator
        from furax.operators.qu_rotations import QURotationTransposeOperator

        WRAPS = [
            (QURotationTransposeOperator, 'WQURotT'),
            (ReshapeTransposeOperator, 'WReshapeT'),
            (DiagonalInverseOperator, 'WDiagInv'),
            (j['core'].InverseOperator, 'WInverse'),
        ]
        try:
            from furax.toast.obs_matrix import ToastObservationMatrixTransposeOperator

            WRAPS.insert(0, (ToastObservationMatrixTransposeOperator, 'WObsT'))
        except Exception:
            pass
    for cls, w in WRAPS:
        if type(op) is cls:
            return w
    if type(op) is j['core'].TransposeOperator:
        return 'WTranspose'
    return None


PRIM_CLASSES = {
    'DenseBlockDiagonalOperator': 'CDense', 'IndexOperator': 'CIndex', 'PackOperator': 'CPack',
    'MoveAxisOperator': 'CMoveAxis', 'RavelOperator': 'CRavel', 'ReshapeOperator': 'CReshape',
    'QURotationOperator': 'CQURotation', 'HWPOperator': 'CHWP', 'LinearPolarizerOperator': 'CLinearPolarizer',
    'SymmetricBandToeplitzOperator': 'CToeplitz', 'BroadcastDiagonalOperator': 'CBroadcastDiagonal',
    'DiagonalOperator': 'CDiagonal', 'ToastObservationMatrixOperator': 'CObsMatrix',
}


def quarter_units(angles, leaf_shape):
    """Angles (radians) broadcast to the leaf shape, in units of pi/4, as Fractions (None if not
    exactly representable with denominator <= 64)."""
    a = np.broadcast_to(np.asarray(angles, dtype=np.float64), leaf_shape).ravel() / (math.pi / 4)
    out = []
    for v in a:
        fr = Fraction(float(v)).limit_denominator(64)
        if abs(float(fr) - v) > 1e-5:
            return None
        out.append(fr)
    return out


class Encoder:
    """Encodes real operator objects; equal Python objects get equal oids (model of `is`)."""

    def __init__(self):
        self.oids: dict[int, int] = {}
        self.keep = []  # keep objects alive so that id() stays unique
        self.table: dict[int, list] = {}
        self.unsupported: str | None = None

    def oid(self, op) -> int:
        i = id(op)
        if i not in self.oids:
            self.oids[i] = len(self.oids) + 1
            self.keep.append(op)
        return self.oids[i]

    def known(self, op) -> int:
        return self.oids.get(id(op), 0)

    def add_table(self, key: int, op):
        if key not in self.table:
            self.table[key] = frac_matrix(leaf_matrix(op))

    def term(self, op) -> str:
        j = J()
        core, blocks = j['core'], j['blocks']
        i = self.oid(op)
        name = type(op).__name__
        if isinstance(op, core.IdentityOperator):
            return f'(Ident {i} {struct_coq(op.in_structure())})'
        if isinstance(op, core.HomothetyOperator):
            return f'(Homoth {i} {cqc(to_frac(float(op.value)))} {struct_coq(op.in_structure())})'
        if isinstance(op, core.CompositionOperator):
            return f'(Comp {i} {clist(op.operands, self.term)})'
        if isinstance(op, core.AdditionOperator):
            return f'(AddOp {i} {clist(op.operand_leaves, self.term)})'
        if isinstance(op, blocks.AbstractBlockOperator):
            kind = {'BlockRowOperator': 'BRow', 'BlockDiagonalOperator': 'BDiag', 'BlockColumnOperator': 'BCol'}[name]
            return f'(Block {i} {kind} {self.treedef(op.blocks)} {clist(op.block_leaves, self.term)})'
        w = wrap_kind(op)
        if w is not None:
            self.add_table(2 * i, op)
            return f'(Wrap {i} {w} {self.term(op.operator)})'
        cls = PRIM_CLASSES.get(name)
        if cls is None:
            cls = 'CAtom'
        si, so = struct_coq(op.in_structure()), struct_coq(op.out_structure())
        par = None
        if cls == 'CQURotation':
            leaves = j['jax'].tree.leaves(op.in_structure())
            q = quarter_units(op.angles, leaves[0].shape)
            if q is not None and all(f.denominator == 1 for f in q):
                par = f'(PAngles {clist(q, cq)})'
            else:
                self.add_table(2 * i, op)
                par = f'(PAngles {clist(q, cq)})' if q is not None else f'(PKey {2 * i})'
                if q is None:
                    self.unsupported = 'angles not representable'
        elif cls == 'CIndex':
            entries = []
            for e in op.indices:
                entries.append(self.ientry(e))
            self.add_table(2 * i, op)
            # the action comes from the table; the decision data from the parameters
            par = f'(PIndex {cbool(op.unique_indices)} {clist(entries, str)})'
        elif cls == 'CMoveAxis':
            self.add_table(2 * i, op)
            par = f'(PAxes {clist(op.source, cz)} {clist(op.destination, cz)})'
        elif cls in ('CHWP', 'CLinearPolarizer'):
            par = 'PNone'
        else:
            self.add_table(2 * i, op)
            par = f'(PKey {2 * i})'
        return f'(Prim {i} {cls} {si} {so} {par})'

    def ientry(self, e) -> str:
        jax = J()['jax']
        if isinstance(e, (int, np.integer)) and not isinstance(e, bool):
            return f'(IInt {cz(int(e))})'
        if e is Ellipsis:
            return 'IEll'
        if isinstance(e, slice):
            return 'ISliceAll' if e == slice(None) else 'ISlice'
        if isinstance(e, jax.Array) and e.dtype == bool:
            return 'IMask'
        if isinstance(e, jax.Array):
            return f'(IArr {clist(np.asarray(e).ravel().tolist(), cz)})'
        self.unsupported = f'index entry {type(e).__name__}'
        return 'ISlice'

    def treedef(self, blocks) -> str:
        core = J()['core']
        if isinstance(blocks, core.AbstractLinearOperator):
            return '(Leaf tt)'
        kind, kids = tree_children(blocks)
        return f'(Node {ckind_coq(kind)} {clist(kids, self.treedef)})'

    def table_coq(self) -> str:
        rows = []
        for key, m in self.table.items():
            rows.append(f'({key}%N, {clist(m, lambda r: clist(r, cqc))})')
        return clist(rows, str)


# Prim/Wrap classes whose action the model looks up by key need the key scheme of Exec.leafsem:
# Prim with (PKey k): table[k]; Prim CIndex/CMoveAxis: see `lookup_key` below; Wrap i: table[2*i].


def skeleton(op, enc: Encoder):
    """Implementation-side skeleton, identical in form to the decoding of the model's `skel`."""
    j = J()
    core, blocks = j['core'], j['blocks']
    i = enc.known(op)
    name = type(op).__name__
    if isinstance(op, core.IdentityOperator):
        return [name, i, [], []]
    if isinstance(op, core.HomothetyOperator):
        v = np.asarray(op.value)
        if v.shape != ():  # a non-scalar factor that the implementation accepted: reported, never a harness crash
            return [name, i, [f'non-scalar{list(v.shape)}'], []]
        return [name, i, [frac_json(to_frac(float(v)))], []]
    if isinstance(op, core.CompositionOperator):
        return [name, i, [], [skeleton(o, enc) for o in op.operands]]
    if isinstance(op, core.AdditionOperator):
        return [name, i, [], [skeleton(o, enc) for o in op.operand_leaves]]
    if isinstance(op, blocks.AbstractBlockOperator):
        return [name, i, [], [skeleton(o, enc) for o in op.block_leaves]]
    if wrap_kind(op) is not None:
        return [name, i, [], [skeleton(op.operator, enc)]]
    params = []
    if name == 'QURotationOperator':
        leaves = j['jax'].tree.leaves(op.in_structure())
        q = quarter_units(op.angles, leaves[0].shape)
        params = [frac_json(f) for f in q] if q is not None else ['?']
    elif name == 'MoveAxisOperator':
        params = [int(a) for a in op.source] + [int(a) for a in op.destination]
    elif name == 'DiagonalOperator' and i == 0:
        # created by TransposeIndexRule: axis + multiplicities
        ax = op.axis_destination[0] if len(op.axis_destination) == 1 else 99
        params = [int(ax)] + [frac_json(to_frac(float(v))) for v in np.asarray(op._diagonal).ravel()]
    if name not in PRIM_CLASSES:
        name = 'Atom'
    return [name, i, params, []]


def frac_json(f: Fraction):
    return int(f) if f.denominator == 1 else f'{f.numerator}/{f.denominator}'


def decode_skel(sk):
    tag, oid, params, kids = sk['a']
    return [tag, oid, [frac_json(Fraction(p[0], p[1])) for p in params], [decode_skel(k) for k in kids]]


ERRS = {'ValueError', 'TypeError', 'AttributeError', 'AssertionError', 'IndexError'}


def observe_impl(thunk, enc: Encoder, want_matrix=True):
    """Runs the real code; observation in the same canonical form as decode_observation."""
    try:
        op = thunk()
    except Exception as e:
        name = type(e).__name__
        return {'err': name if name in ERRS else f'Other:{name}'}
    out = {
        'skel': skeleton(op, enc),
        'in': struct_repr(op.in_structure()),
        'out': struct_repr(op.out_structure()),
    }
    if want_matrix:
        try:
            out['mat'] = mat_json(frac_matrix(dense(op)))
        except Exception as e:
            out['mat'] = None
            out['mat_error'] = f'{type(e).__name__}: {str(e)[:200]}'
    out['_op'] = op
    return out


def decode_observation(v):
    c, a = coqparse.ctor(v)
    if c == 'OErr':
        return {'err': a[0]['c']}
    skel, sin, sout, m = a
    if isinstance(m, dict) and m.get('c') == 'Some':
        mat = [[frac_json(Fraction(x[0], x[1])) for x in col] for col in m['a'][0]]
        # the model returns the list of columns; transpose to rows
        mat = [list(r) for r in zip(*mat)] if mat else []
    else:
        mat = None
    return {'skel': decode_skel(skel), 'in': decode_struct(sin), 'out': decode_struct(sout), 'mat': mat}


COQ_HEADER = (
    'From Coq Require Import List ZArith NArith QArith Qcanon String.\n'
    'From Furax Require Import Base.Pytree Model.Op Model.Algebra Model.Denote Model.Exec.\n'
    'Import ListNotations.\nLocal Close Scope Q_scope.\nLocal Open Scope N_scope.\n'
)
