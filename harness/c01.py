"""C01 - reducing an operator never changes the linear map it denotes."""
from __future__ import annotations

import algebra as A
from reduce_check import ReduceBase


class Check(ReduceBase):
    id = 'C01'
    props = ['Tables.v', 'C01.v', 'C01Structs.v', 'C01Total.v']
    static_targets = ReduceBase.static_targets + ['theories/Lemmas/Sound.vo', 'theories/Lemmas/ReduceStructsL.vo', 'theories/Lemmas/ReduceTotalL.vo']
    trusted = ReduceBase.trusted_common

    def comparable(self, case, obs):
        if not isinstance(obs, dict) or 'build_error' in obs:
            return obs
        if 'err' in obs:
            return {'err': obs['err']}
        d = {k: obs[k] for k in ('skel', 'in', 'out', 'mat')}
        if isinstance(d['mat'], list) and all(len(r) == 0 for r in d['mat']):
            d['mat'] = []  # no columns (an empty input space): the model's list of columns cannot tell the row count
        d['wf'] = True
        return d

    def decode(self, case, v):
        wf, o = v
        d = A.decode_observation(o)
        if 'err' in d:
            return {'err': d['err']}
        d['wf'] = wf
        return d

    def nontrivial(self, case, obs):
        return isinstance(obs, dict) and obs.get('skel') is not None and obs.get('skel') != obs.get('before')

    def finding_key(self, case, obs):
        return case.get('pattern') or '+'.join(case['ops'])

    def oracle(self, case, obs):
        if 'build_error' in obs:
            return None  # the expression cannot be built: outside the property's domain
        if 'err' in obs:
            return f'reduce() raised {obs["err"]}'
        if obs['in'] != obs['struct_in_before'] or obs['out'] != obs['struct_out_before']:
            return f'structures changed by reduce(): in {obs["struct_in_before"]} -> {obs["in"]}, out {obs["struct_out_before"]} -> {obs["out"]}'
        if obs.get('mat_before') is None:
            return None  # the unreduced expression itself cannot be applied: outside the property's domain
        if obs.get('mat') is None:
            return f'the reduced operator cannot be applied: {obs.get("mat_error")}'
        if not A.mat_close(obs['mat'], obs['mat_before']):
            return f'dense matrix changed by reduce(): {obs["mat_before"]} -> {obs["mat"]}'
        if not A.mat_close(obs['mat'], obs['mat_reference']):
            return f'dense matrix of the reduced operator {obs["mat"]} differs from the product of the parts {obs["mat_reference"]}'
        return None
