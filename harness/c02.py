"""C02 - operator arithmetic is matrix arithmetic, whatever the grouping.

Real code: the dunders of furax._base.core (AbstractLinearOperator, CompositionOperator,
AdditionOperator, IdentityOperator, HomothetyOperator, AbstractLazyInverseOperator) applied to every
kind of operand of the shared alphabet (harness/alg_cases.py).  Model: Model/Algebra.v (matmul, add,
sub, neg, smul, sdiv) evaluated on the encoded operands.  Oracle: NumPy arithmetic on the operands'
dense matrices (assembled from the parts, independent of the result object).
"""
from __future__ import annotations

import numpy as np

import alg_cases as G
import algebra as A
from lib import PropertyCheck

SCALARS = [2, -1, 0.5, {'np': 4.0}, {'jax': 3.0}, {'np0d': -2.0}, {'frac': [1, 4]}]
NONSCALARS = [{'jax1d': [2.0, 3.0]}, {'jax1d': [2.0]}]
BINOPS = ('mm', 'add', 'sub')


def scalar_float(k):
    if isinstance(k, dict):
        (kind, v), = k.items()
        if kind == 'frac':
            return v[0] / v[1]
        return float(v)
    return float(k)


class Check(PropertyCheck):
    id = 'C02'
    props = ['C02.v']
    static_targets = ['theories/Model/Exec.vo', 'theories/Lemmas/BuildL.vo']
    coq_header = A.COQ_HEADER + 'From Furax Require Import Model.Wf.\n'
    shard = 120
    workers = 8
    trusted = [
        'leaf operators act in the executable model through dense matrices measured on the real objects; the theorems '
        'quantify over arbitrary leaf semantics satisfying the stated algebraic facts (Lemmas/Sound.v `leaf_facts`: '
        'homogeneity of leaves, a lazy inverse inverts its operand)',
        "CPython's binary-operator protocol (forward method, NotImplemented, reflected method) as transcribed in "
        'Model/Algebra.v matmul/add (the reflected paths of CompositionOperator.__rmatmul__ and AdditionOperator.__radd__ '
        'are folded into the forward functions)',
        'object identity (`is`) is modelled by harness-assigned object ids; objects created by a dunder get id 0',
        'float32 arithmetic of the implementation is compared with exact rationals after rounding measured entries to '
        'rationals with denominator <= 4096 (exact for the integer/dyadic inputs used); tolerance 1e-4 on matrices',
        'scalars: Python int/float, NumPy scalars and 0-d arrays, JAX 0-d arrays (non-scalar JAX arrays must be rejected; '
        'NumPy non-scalar arrays are outside the modelled domain: NumPy broadcasting wins before __rmul__ is called)',
    ]

    # -- cases ---------------------------------------------------------------------------------
    def cases(self):
        quick = self.tier == 'quick'
        rng = self.rng
        env = G.env()
        t = G.typed()
        names = sorted(t)
        inv_cls = A.J()['core'].InverseOperator
        out = []
        # 1. every ordered pair for @ (compatible ones all; incompatible ones sampled), + and -
        compat, incompat = [], []
        for a in names:
            for b in names:
                (compat if t[a][0] == t[b][1] else incompat).append((a, b))
        rng.shuffle(incompat)
        for a, b in compat:
            out.append({'kind': 'mm', 'op': 'mm', 'a': a, 'b': b})
        picked = set()
        # stratified: every operand on the left with a partner of another output structure, and on the right
        for a in names:
            bad = [b for b in names if t[a][0] != t[b][1]]
            for b in rng.sample(bad, min(2, len(bad))):
                picked.add((a, b))
            bad = [b for b in names if t[b][0] != t[a][1]]
            for b in rng.sample(bad, min(2, len(bad))):
                picked.add((b, a))
        for a, b in incompat[: 100 if quick else 3000]:
            picked.add((a, b))
        for a, b in sorted(picked):
            out.append({'kind': 'mm-mismatch', 'op': 'mm', 'a': a, 'b': b})
        same, diff = [], []
        for a in names:
            for b in names:
                (same if t[a] == t[b] else diff).append((a, b))
        rng.shuffle(diff)
        if quick:
            rng.shuffle(same)
            same = same[:500]
        for a, b in same:
            out.append({'kind': 'add', 'op': 'add', 'a': a, 'b': b})
            out.append({'kind': 'sub', 'op': 'sub', 'a': a, 'b': b})
        picked = set()
        # stratified: for every operand, partners that differ in the input only, in the output only, in both -
        # as left and as right operand, for + and for -
        for a in names:
            only_in = [b for b in names if t[b][1] == t[a][1] and t[b][0] != t[a][0]]
            only_out = [b for b in names if t[b][0] == t[a][0] and t[b][1] != t[a][1]]
            both = [b for b in names if t[b][0] != t[a][0] and t[b][1] != t[a][1]]
            for pool in (only_in, only_out, both):
                if pool:
                    b = rng.choice(pool)
                    picked.add((a, b, 'add'))
                    picked.add((b, a, 'add'))
                    picked.add((a, b, 'sub'))
                    picked.add((b, a, 'sub'))
        for a, b in diff[: 50 if quick else 1500]:
            picked.add((a, b, rng.choice(['add', 'sub'])))
        for a, b, o in sorted(picked):
            out.append({'kind': 'add-mismatch', 'op': o, 'a': a, 'b': b})
        # 2. unary and scalar forms on every operand
        for a in names:
            out.append({'kind': 'neg', 'op': 'neg', 'a': a})
            out.append({'kind': 'pos', 'op': 'pos', 'a': a})
            ks = SCALARS if not quick else rng.sample(SCALARS, 3)
            for k in ks:
                for op in ('smul', 'mulr', 'div'):
                    out.append({'kind': 'scalar', 'op': op, 'a': a, 'k': k})
            k = rng.choice(NONSCALARS)
            out.append({'kind': 'nonscalar', 'op': rng.choice(['smul', 'mulr', 'div']), 'a': a, 'k': k})
        # 3. nested arithmetic: sums of sums, difference of a sum, scalar times sum/composition, products with sums
        for a, b in (same[:120] if quick else same[:1200]):
            c = rng.choice([n for n in names if t[n] == t[a]])
            shape = rng.choice(['(a+b)+c', 'a+(b+c)', 'a-(b+c)', '(a-b)-c', '-(a+b)', 'k*(a+b)', '(a+b)/k'])
            out.append({'kind': 'nested-sum', 'op': 'nested', 'shape': shape, 'a': a, 'b': b, 'c': c, 'k': rng.choice(SCALARS)})
        # 4. triples in both association orders (and with a composition in the middle)
        chains3 = G.chains(3)
        chains3 = [c for c in chains3 if len(c) == 3]
        rng.shuffle(chains3)
        for ch in chains3[: 400 if quick else 6000]:
            out.append({'kind': 'assoc', 'op': 'assoc', 'ops': ch})
        # an operator and its own lazy inverse / orthogonal transpose at every pair of positions of a 3-chain
        duals = [(x, xi) for x, xi in (('S22', 'S22I'), ('D2', 'D2I'), ('Q1', 'Q1T'), ('Q2', 'Q2T'), ('Qq', 'QqT')) if x in t and xi in t]
        for x, xi in duals:
            mids = [m for m in names if t[m][0] == t[x][1] and t[m][1] == t[x][0]]
            for m in (mids if not quick else rng.sample(mids, min(6, len(mids)))):
                for ch in ([x, m, xi], [xi, m, x], [m, x, xi], [m, xi, x], [x, xi, m], [xi, x, m]):
                    out.append({'kind': 'assoc-dual', 'op': 'assoc', 'ops': ch})
        chains4 = [c for c in G.chains(4) if len(c) == 4]
        rng.shuffle(chains4)
        for ch in chains4[: 100 if quick else 2000]:
            out.append({'kind': 'assoc4', 'op': 'assoc4', 'ops': ch, 'split': rng.choice(['(ab)(cd)', 'a((bc)d)', '((ab)c)d', 'a(b(cd))'])})
        # transposing an expression containing an iterative inverse is unsupported: irrelevant here (no .T)
        _ = inv_cls
        self.stats['operands'] = len(names)
        self.stats['compatible_pairs'] = len(compat)
        return out

    def rule(self):
        return (
            'every type-compatible ordered pair of the ~85-operand alphabet (dense atoms, identity, scalars, diagonal, '
            'index, pack, axes, polarimetry, lazy transposes/inverses, block operators, over several structures) for @, '
            'sampled incompatible pairs, pairs with equal/unequal structures for + and -, unary -/+ and k*A, A*k, A/k with '
            '7 scalar forms on every operand, non-scalar factors, nested sums/differences, triples and 4-chains in several '
            'association orders. Non-trivial: the dunder took a shortcut or flattened (result is not the plain binary node) '
            'or rejected the operands.'
        )

    def distribution(self, cases):
        d = {}
        for c in cases:
            d[c['kind']] = d.get(c['kind'], 0) + 1
        return d

    # -- implementation ----------------------------------------------------------------------------
    def thunk(self, case, env):
        op = case['op']
        e = lambda n: env[case[n]]  # noqa: E731
        if op == 'mm':
            return lambda: e('a') @ e('b')
        if op == 'add':
            return lambda: e('a') + e('b')
        if op == 'sub':
            return lambda: e('a') - e('b')
        if op == 'neg':
            return lambda: -e('a')
        if op == 'pos':
            return lambda: +e('a')
        if op == 'smul':
            return lambda: A.scalar_value(case['k']) * e('a')
        if op == 'mulr':
            return lambda: e('a') * A.scalar_value(case['k'])
        if op == 'div':
            return lambda: e('a') / A.scalar_value(case['k'])
        if op == 'nested':
            a, b, c, k = e('a'), e('b'), e('c'), A.scalar_value(case['k'])
            return {
                '(a+b)+c': lambda: (a + b) + c, 'a+(b+c)': lambda: a + (b + c), 'a-(b+c)': lambda: a - (b + c),
                '(a-b)-c': lambda: (a - b) - c, '-(a+b)': lambda: -(a + b), 'k*(a+b)': lambda: k * (a + b),
                '(a+b)/k': lambda: (a + b) / k,
            }[case['shape']]
        if op == 'assoc':
            a, b, c = (env[n] for n in case['ops'])
            return lambda: ((a @ b) @ c, a @ (b @ c))
        if op == 'assoc4':
            a, b, c, d = (env[n] for n in case['ops'])
            return {
                '(ab)(cd)': lambda: (a @ b) @ (c @ d), 'a((bc)d)': lambda: a @ ((b @ c) @ d),
                '((ab)c)d': lambda: ((a @ b) @ c) @ d, 'a(b(cd))': lambda: a @ (b @ (c @ d)),
            }[case['split']]
        raise ValueError(op)

    def operand_names(self, case):
        if 'ops' in case:
            return list(case['ops'])
        return [case[n] for n in ('a', 'b', 'c') if n in case]

    _frozen: dict = {}

    def frozen(self, env):
        """Dense matrices of every operand of the alphabet, measured ONCE per process before any arithmetic is
        performed on them: an operation that mutates its operands cannot move the reference."""
        if not self._frozen:
            for n, o in env.items():
                if not isinstance(o, A.Unbuildable):
                    try:
                        self._frozen[n] = A.reference_matrix(o)
                    except Exception:
                        continue
        return self._frozen

    def reference(self, case, env):
        """NumPy arithmetic on the dense matrices of the operands; None when the structures mismatch."""
        fz = self.frozen(env)
        M = lambda n: fz[n]  # noqa: E731
        op = case['op']
        t = G.typed()
        if op == 'mm':
            if t[case['a']][0] != t[case['b']][1]:
                return None
            return M(case['a']) @ M(case['b'])
        if op in ('add', 'sub'):
            if t[case['a']] != t[case['b']]:
                return None
            return M(case['a']) + M(case['b']) if op == 'add' else M(case['a']) - M(case['b'])
        if op == 'neg':
            return -M(case['a'])
        if op == 'pos':
            return M(case['a'])
        if op in ('smul', 'mulr', 'div'):
            if case['kind'] == 'nonscalar':
                return None
            k = scalar_float(case['k'])
            return M(case['a']) * k if op != 'div' else M(case['a']) / k
        if op == 'nested':
            a, b, c, k = M(case['a']), M(case['b']), M(case['c']), scalar_float(case['k'])
            return {
                '(a+b)+c': a + b + c, 'a+(b+c)': a + b + c, 'a-(b+c)': a - b - c, '(a-b)-c': a - b - c,
                '-(a+b)': -(a + b), 'k*(a+b)': k * (a + b), '(a+b)/k': (a + b) / k,
            }[case['shape']]
        if op in ('assoc', 'assoc4'):
            m = None
            for n in case['ops']:
                m = M(n) if m is None else m @ M(n)
            return m
        raise ValueError(op)

    def run_impl(self, case):
        env = G.env()
        enc = A.Encoder()
        self.frozen(env)
        names = self.operand_names(case)
        terms = {n: enc.term(env[n]) for n in names}
        before = {n: A.skeleton(env[n], enc) for n in names}
        thunk = self.thunk(case, env)
        if case['op'] == 'assoc':
            obs1 = A.observe_impl(lambda: thunk()[0], enc)
            obs2 = A.observe_impl(lambda: thunk()[1], enc)
            obs1.pop('_op', None)
            obs2.pop('_op', None)
            obs = {'left': obs1, 'right': obs2}
        else:
            obs = A.observe_impl(thunk, enc)
            obs.pop('_op', None)
        ref = self.reference(case, env)
        obs['reference'] = None if ref is None else A.mat_json(A.frac_matrix(ref))
        # purity: building an expression must not change its operands
        obs['mutated'] = [n for n in names if A.skeleton(env[n], enc) != before[n]]
        for n in names:
            try:
                if not np.allclose(A.dense(env[n]), self._frozen[n], atol=1e-5):
                    obs['mutated'].append(n + ':matrix')
            except Exception:
                pass
        case['_terms'] = terms
        case['_table'] = enc.table_coq()
        case['_unsupported'] = enc.unsupported
        return obs

    # -- model -----------------------------------------------------------------------------------
    def model_term(self, case):
        if case.get('_unsupported') or '_terms' not in case or case['kind'] == 'nonscalar':
            return None
        T = case['_terms']
        tb = case['_table']
        op = case['op']
        wf = ' && '.join(f'wfo {T[n]}' for n in self.operand_names(case))

        def obs(r):
            return f'(({wf})%bool, observe {tb} ({r}))'

        a = T.get(case.get('a'))
        b = T.get(case.get('b'))
        if op == 'mm':
            return obs(f'x_matmul {a} {b}')
        if op == 'add':
            return obs(f'x_add {a} {b}')
        if op == 'sub':
            return obs(f'x_sub {a} {b}')
        if op == 'neg':
            return obs(f'x_neg {a}')
        if op == 'pos':
            return obs(f'Ok {a}')
        k = A.cqc(A.to_frac(scalar_float(case['k']))) if 'k' in case else None
        if op in ('smul', 'mulr'):
            return obs(f'x_smul {k} {a}')
        if op == 'div':
            return obs(f'x_sdiv {a} {k}')
        if op == 'nested':
            c = T[case['c']]
            return obs({
                '(a+b)+c': f'bind (x_add {a} {b}) (fun ab => x_add ab {c})',
                'a+(b+c)': f'bind (x_add {b} {c}) (fun bc => x_add {a} bc)',
                'a-(b+c)': f'bind (x_add {b} {c}) (fun bc => x_sub {a} bc)',
                '(a-b)-c': f'bind (x_sub {a} {b}) (fun ab => x_sub ab {c})',
                '-(a+b)': f'bind (x_add {a} {b}) (fun ab => x_neg ab)',
                'k*(a+b)': f'bind (x_add {a} {b}) (fun ab => x_smul {k} ab)',
                '(a+b)/k': f'bind (x_add {a} {b}) (fun ab => x_sdiv ab {k})',
            }[case['shape']])
        if op == 'assoc':
            a, b, c = (T[n] for n in case['ops'])
            l = f'bind (x_matmul {a} {b}) (fun ab => x_matmul ab {c})'
            r = f'bind (x_matmul {b} {c}) (fun bc => x_matmul {a} bc)'
            return f'(({wf})%bool, observe {tb} ({l}), observe {tb} ({r}))'
        if op == 'assoc4':
            a, b, c, d = (T[n] for n in case['ops'])
            mm = lambda x, y, k: f'bind ({x}) (fun u => bind ({y}) (fun v => {k}))'  # noqa: E731
            term = {
                '(ab)(cd)': mm(f'x_matmul {a} {b}', f'x_matmul {c} {d}', 'x_matmul u v'),
                'a((bc)d)': f'bind (x_matmul {b} {c}) (fun bc => bind (x_matmul bc {d}) (fun bcd => x_matmul {a} bcd))',
                '((ab)c)d': f'bind (x_matmul {a} {b}) (fun ab => bind (x_matmul ab {c}) (fun abc => x_matmul abc {d}))',
                'a(b(cd))': f'bind (x_matmul {c} {d}) (fun cd => bind (x_matmul {b} cd) (fun bcd => x_matmul {a} bcd))',
            }[case['split']]
            return obs(term)
        raise ValueError(op)

    def decode(self, case, v):
        if case['op'] == 'assoc':
            wf, l, r = v
            return {'wf': wf, 'left': A.decode_observation(l), 'right': A.decode_observation(r)}
        wf, o = v
        d = A.decode_observation(o)
        d['wf'] = wf
        return d

    def comparable(self, case, obs):
        if not isinstance(obs, dict):
            return obs

        def part(o):
            if 'err' in o:
                return {'err': o['err']}
            return {k: o[k] for k in ('skel', 'in', 'out', 'mat')}

        if case['op'] == 'assoc':
            return {'wf': True, 'left': part(obs['left']), 'right': part(obs['right'])}
        d = part(obs)
        d['wf'] = True
        return d

    def nontrivial(self, case, obs):
        if not isinstance(obs, dict):
            return False
        if case['op'] == 'assoc':
            return obs['left'].get('skel') != obs['right'].get('skel') or 'err' in obs['left']
        if 'err' in obs:
            return True
        sk = obs.get('skel')
        plain = {'mm': 'CompositionOperator', 'add': 'AdditionOperator', 'sub': 'AdditionOperator'}.get(case['op'])
        return not (plain and sk and sk[0] == plain and len(sk[3]) == 2)

    def finding_key(self, case, obs):
        return None

    # -- oracle -----------------------------------------------------------------------------------
    def oracle(self, case, obs):
        if obs.get('mutated'):
            return f'building the expression changed its operands {obs["mutated"]} (they no longer denote what they did)'
        ref = obs.get('reference')
        parts = [('left', obs['left']), ('right', obs['right'])] if case['op'] == 'assoc' else [('', obs)]
        for tag, o in parts:
            pre = f'{tag}: ' if tag else ''
            if ref is None:
                # mismatching structures / non-scalar factor: must be rejected with an error
                if 'err' not in o:
                    return f'{pre}operands that do not match were not rejected: got {o.get("skel")}'
                continue
            if 'err' in o:
                return f'{pre}legal operands were rejected with {o["err"]}'
            if o.get('mat') is None:
                return f'{pre}the result cannot be applied: {o.get("mat_error")}'
            if not A.mat_close(o['mat'], ref):
                return f'{pre}dense matrix of the result {o["mat"]} differs from the matrix arithmetic on the operands {ref}'
        return None
