"""C03 - transpose is the exact adjoint of every operator.

Real code: `.T` / `transpose()` of every operand of the shared alphabet (harness/alg_cases.py) extended
with parameter variants (einsum subscripts incl. repeated letters, move-axis with negative/multiple axes
and pytrees, ravel/reshape variants, index with repeated entries, batched Toeplitz, broadcast diagonal,
Toast observation matrix, explicit lazy TransposeOperators of primitives and of composites) and of
composites of them (chains, sums, block row/diagonal/column over list/tuple/dict/nested containers,
nested compositions).  Model: Model/Algebra.v `transpose` evaluated on the encoded expression and
observed through Model/Adjoint.v `observe_transpose` (skeleton, structures, dense matrix of e.T and of
e.T.T, guards, and the two inner products <e x, y>, <x, e.T y> on an integer probe).
Oracle (implementation only): dense(e.T) == dense(e).T with both matrices obtained from the operators'
own action on basis vectors, <e x, y> == <x, e.T y> on the probe, e.T.T acts as e, structures swapped.
Expressions containing the iterative-solver InverseOperator are excluded from `.T` (unsupported by the
library), as in harness/reduce_check.py; for them only the skeleton/structures of `.T` are compared.
"""
from __future__ import annotations

import json
import os
import tempfile

import numpy as np

import alg_cases as G
import algebra as A
from lib import PropertyCheck, clist

# ---------------------------------------------------------------------------------------------
# alphabet: the shared one + parameter variants of the classes with hand-written transposes

B222 = [[[0, 1], [2, 3]], [[4, 5], [6, 7]]]
B223 = [[[1, 0, 2], [0, 1, 1]], [[2, 1, 0], [1, 1, 3]]]
B232 = [[[1, 2], [0, 1], [3, 0]], [[0, 1], [1, 1], [2, 4]]]

EXTRA: dict = {
    # einsum operators (DenseBlockDiagonalOperator) - C14's subscript rewriting, D1 case first
    'E_iij': {'k': 'einsum', 'b': B222, 's': [2], 'sub': 'iij,j->i'},
    'E_jji': {'k': 'einsum', 'b': B222, 's': [2], 'sub': 'jji,j->i'},
    'E_iji': {'k': 'einsum', 'b': B222, 's': [2], 'sub': 'iji,j->i'},
    'E_hij': {'k': 'einsum', 'b': B223, 's': [2, 3], 'sub': 'hij,hj->hi'},
    'E_ikj': {'k': 'einsum', 'b': B232, 's': [3, 2], 'sub': 'ikj,kj->ki'},
    'E_def': {'k': 'einsum', 'b': [[1, 2], [0, 3], [4, 0]], 's': [2], 'sub': None},
    'E_dots': {'k': 'einsum', 'b': [[1, 2], [0, 3], [4, 0]], 's': [2, 2], 'sub': None},
    'E_tree': {'k': 'einsum', 'b': [[1, 2], [0, 3]], 's': {'list': [[2], [2]]}, 'sub': 'ij,j->i'},
    'E_sp': {'k': 'einsum', 'b': [[1, 2, 1], [0, 3, 2]], 's': [3], 'sub': ' i j , j -> i '},
    # move-axis: negative / several axes, pytrees with leaves of different rank
    'M_neg': {'k': 'moveaxis', 'src': [0, 1], 'dst': [-1, -2], 's': [2, 3, 2]},
    'M_rot': {'k': 'moveaxis', 'src': [0, 1, 2], 'dst': [1, 2, 0], 's': [2, 3, 2]},
    'M_dict': {'k': 'moveaxis', 'src': -1, 'dst': 0, 's': {'dict': {'b': [2, 3], 'a': [1, 2, 2]}}},
    'M_id': {'k': 'moveaxis', 'src': 1, 'dst': 1, 's': [2, 3]},
    # ravel / reshape
    'R_01': {'k': 'ravel', 'first': 0, 'last': 1, 's': [2, 2, 2]},
    'R_m2': {'k': 'ravel', 'first': -2, 'last': -1, 's': {'list': [[2, 2, 3], [2, 2]]}},
    'R_11': {'k': 'ravel', 'first': 1, 'last': 1, 's': [2, 3]},
    'Sh_m1': {'k': 'reshape', 'shape': [-1, 2], 's': [2, 3]},
    'Sh_t': {'k': 'reshape', 'shape': [4], 's': {'tuple': [[2, 2], [4]]}},
    'Sh_1': {'k': 'reshape', 'shape': [1, 3, 1], 's': [3]},
    # index: repeated entries, rank-2 index array, integers, strided slices, ellipsis, mask
    'X_r2': {'k': 'index', 'idx': [{'arr': [[0, 1], [1, 1]]}], 's': [3]},
    'X_int': {'k': 'index', 'idx': [1], 's': [3, 2]},
    'X_neg': {'k': 'index', 'idx': [-1], 's': [3]},
    'X_st': {'k': 'index', 'idx': [{'slice': [None, None, 2]}], 's': [5]},
    'X_rev': {'k': 'index', 'idx': [{'slice': [None, None, -1]}], 's': [3]},
    'X_el': {'k': 'index', 'idx': ['...', 0], 's': [2, 3], 'tuple': True},
    'X_all3': {'k': 'index', 'idx': [{'arr': [1, 1, 1, 1]}], 's': [2]},
    'X_mask': {'k': 'index', 'idx': [{'mask': [True, False, True]}], 's': [3], 'out': [2]},
    'X_tree': {'k': 'index', 'idx': [{'arr': [1, 0, 1]}], 's': {'dict': {'u': [2], 'v': [2, 2]}}},
    'P_tree': {'k': 'pack', 'mask': [False, True, True], 's': {'list': [[3], [3]]}},
    'P_2d': {'k': 'pack', 'mask': [[True, False], [True, True]], 's': [2, 2]},
    # diagonal family
    'D_ax1': {'k': 'diag', 'v': [1, 2, 3], 'axis': 1, 's': [2, 3]},
    'D_2d': {'k': 'diag', 'v': [[1, 2], [3, 4]], 'axis': 0, 's': [2, 2]},
    'D_tree': {'k': 'diag', 'v': [2, -1], 'axis': 0, 's': {'tuple': [[2], [2, 2]]}},
    'Bd_l': {'k': 'bdiag', 'v': [[1, 1, 1], [2, 1, 0]], 'axis': -1, 's': [3]},
    'Bd_r': {'k': 'bdiag', 'v': [[2, 3, 1], [1, 0, 1]], 'axis': 0, 's': [2]},
    'D3I': {'k': 'expr', 'e': {'I': 'D3'}},
    # Toeplitz (symmetric): batched band values, all methods
    'T4d': {'k': 'toeplitz', 'band': [2, 1], 's': [4], 'method': 'dense'},
    'T4b': {'k': 'toeplitz', 'band': [[2, 1], [3, -1]], 's': [2, 4], 'method': 'dense'},
    'T5dir': {'k': 'toeplitz', 'band': [[4, 1, 2], [1, 0, -2]], 's': [2, 5], 'method': 'direct'},
    # (no pytree input: SymmetricBandToeplitzOperator.mv/as_matrix are written for a single array)
    # Toast observation matrix
    'Obs': {'k': 'obs', 'm': [[1, 0, 2], [0, 3, 0], [4, 0, 5]]},
    # identity / scalars on pytrees
    'I_d': {'k': 'ident', 's': {'dict': {'a': [2], 'b': [1, 2]}}},
    'H_t': {'k': 'homoth', 'v': -2, 's': {'tuple': [[2], [2]]}},
    # explicit lazy TransposeOperator (jax.linear_transpose) of classes that have their own transpose
    'LT_Q1': {'k': 'lazyT', 'of': 'Q1'},
    'LT_Sh23': {'k': 'lazyT', 'of': 'Sh23'},
    'LT_A23': {'k': 'lazyT', 'of': 'A23'},
    'LT_M23': {'k': 'lazyT', 'of': 'M23'},
    'LT_D2': {'k': 'lazyT', 'of': 'D2'},
    'LT_Pl': {'k': 'lazyT', 'of': 'Pl'},
    'LT_BR': {'k': 'lazyT', 'of': 'BR'},
    'LT_comp': {'k': 'lazyT', 'of': {'comp': ['A23', 'A32']}},
    'PlT': {'k': 'expr', 'e': {'T': 'Pl'}},
    'ObsT': {'k': 'expr', 'e': {'T': 'Obs'}},
    'BdT': {'k': 'expr', 'e': {'T': 'Bd_l'}},
    # containers
    'BRt': {'k': 'row', 'blocks': {'tuple': ['A23', 'B22']}},
    'BCn': {'k': 'col', 'blocks': [['A23', 'A23'], {'dict': {'z': 'A23', 'a': 'A23'}}]},
    'BDm': {'k': 'bdiagop', 'blocks': {'dict': {'p': 'M23', 'q': ['Sh23', 'X3r']}}},
    'BRs': {'k': 'row', 'blocks': ['Pl', 'Pl', 'Pl']},
    'BDe': {'k': 'bdiagop', 'blocks': ['E_iij', 'E_hij']},
    'BCb': {'k': 'col', 'blocks': ['BR', 'BR']},
    'BRb': {'k': 'row', 'blocks': ['BC', 'BC']},
    'Sum3': {'k': 'sumtree', 'ops': {'dict': {'a': 'A22', 'b': ['B22', 'S22']}}},
}

LET = dict(G.LET)
LET.update(EXTRA)

_tmpdir = None


def build_operand(d, env):
    j = A.J()
    jax, jnp = j['jax'], j['jnp']
    k = d['k']
    if k == 'einsum':
        args = [jnp.asarray(np.array(d['b'], dtype=np.float32)), A.mk_struct(d['s'])]
        if d['sub'] is not None:
            args.append(d['sub'])
        return j['dense'].DenseBlockDiagonalOperator(*args)
    if k == 'obs':
        global _tmpdir
        import scipy.sparse as sp
        from furax.toast.obs_matrix import ToastObservationMatrixOperator

        if _tmpdir is None:
            import atexit
            import shutil

            _tmpdir = tempfile.mkdtemp(prefix='c03obs')
            atexit.register(shutil.rmtree, _tmpdir, True)
        c = sp.csr_matrix(np.array(d['m'], dtype=np.float32))
        path = os.path.join(_tmpdir, f'obs{abs(hash(json.dumps(d["m"])))}.npz')
        np.savez(path, format='csr', data=c.data, indices=c.indices, indptr=c.indptr, shape=np.array(c.shape))
        return ToastObservationMatrixOperator(path)
    if k == 'lazyT':
        return j['core'].TransposeOperator(A.eval_expr(d['of'], env))
    if k == 'sumtree':
        return j['core'].AdditionOperator(A.container(d['ops'], env))
    return A.build_operand(d, env)


_env: dict = {}
_typed: dict = {}


def env():
    if not _env:
        for name, d in LET.items():
            try:
                _env[name] = build_operand(d, _env)
            except Exception as e:
                _env[name] = A.Unbuildable(name, e)
    return _env


def typed():
    if not _typed:
        for n, o in env().items():
            if isinstance(o, A.Unbuildable):
                continue
            _typed[n] = (G.key(o.in_structure()), G.key(o.out_structure()))
    return _typed


def contains_inverse(op) -> bool:
    import reduce_check

    return reduce_check.contains_cls(op, A.J()['core'].InverseOperator)


def leaves_of(op, acc):
    """All leaf operator objects of an expression (through compositions, sums, blocks, wrappers)."""
    j = A.J()
    core, blocks = j['core'], j['blocks']
    if isinstance(op, core.CompositionOperator):
        for o in op.operands:
            leaves_of(o, acc)
    elif isinstance(op, core.AdditionOperator):
        for o in op.operand_leaves:
            leaves_of(o, acc)
    elif isinstance(op, blocks.AbstractBlockOperator):
        for o in op.block_leaves:
            leaves_of(o, acc)
    elif A.wrap_kind(op) is not None:
        acc.append(op)
        leaves_of(op.operator, acc)
    else:
        acc.append(op)
    return acc


CONTEXTS = ('comp', 'matmul', 'nested', 'sum', 'sumdict', 'blockdiag', 'blockdiag-nested', 'blockcol-dict', 'blockrow-tuple', 'lazyT')


def build_expr(case, env):
    """The operator object of a case (real furax code)."""
    j = A.J()
    core, blocks = j['core'], j['blocks']
    if case['kind'] in ('operand', 'inverse-skeleton'):
        return env[case['name']]
    ops = [env[n] for n in case['ops']]
    ctx = case['ctx']

    def comp(o):
        return core.CompositionOperator(list(o)) if len(o) > 1 else o[0]

    c = comp(ops)
    other = comp([env[n] for n in case['ops2']]) if case.get('ops2') else comp(ops)
    if ctx == 'comp':
        return core.CompositionOperator(ops)
    if ctx == 'matmul':
        r = ops[0]
        for o in ops[1:]:
            r = r @ o
        return r
    if ctx == 'nested':
        return core.CompositionOperator([core.CompositionOperator(ops[:1]), core.CompositionOperator(ops[1:])])
    if ctx == 'sum':
        return core.AdditionOperator([c, other])
    if ctx == 'sumdict':
        return core.AdditionOperator({'b': c, 'a': [other, c]})
    if ctx == 'blockdiag':
        return blocks.BlockDiagonalOperator([c, env['A23']])
    if ctx == 'blockdiag-nested':
        return blocks.BlockDiagonalOperator({'y': [c, other], 'x': (env['Pl'], c)})
    if ctx == 'blockcol-dict':
        return blocks.BlockColumnOperator({'x': c, 'a': [other, c]})
    if ctx == 'blockrow-tuple':
        return blocks.BlockRowOperator((c, [other], {'k': c}))
    if ctx == 'lazyT':
        return core.TransposeOperator(c)
    raise ValueError(ctx)


def probe_values(struct, rng):
    """A pytree of small integers with the given structure (float arrays), as real arrays and JSON."""
    j = A.J()
    jax, jnp = j['jax'], j['jnp']
    leaves, treedef = jax.tree.flatten(struct)
    vals = [np.array([rng.randint(-3, 3) for _ in range(int(np.prod(l.shape)))], dtype=np.float64).reshape(l.shape) for l in leaves]
    return jax.tree.unflatten(treedef, [jnp.asarray(v, dtype=l.dtype) for v, l in zip(vals, leaves)])


def value_coq(x) -> str:
    ch = A.tree_children(x)
    if ch is None:
        return f'(Leaf {clist(np.asarray(x, dtype=np.float64).ravel().tolist(), lambda v: A.cqc(A.to_frac(v)))})'
    kind, kids = ch
    return f'(Node {A.ckind_coq(kind)} {clist(kids, value_coq)})'


def inner(a, b) -> float:
    return float(np.dot(A.flat(a), A.flat(b)))


class Check(PropertyCheck):
    id = 'C03'
    props = ['C03.v']
    static_targets = ['theories/Model/Exec.vo', 'theories/Lemmas/TransposeExecL.vo']
    coq_header = A.COQ_HEADER + 'From Furax Require Import Model.Wf Model.Adjoint.\n'
    shard = 60
    workers = 8
    partial = (
        'the matrix form "mat(e.T) = mat(e)^T" of the property is not a separate theorem: it is transpose_adjoint at the basis vectors '
        '(it needs totality of the denotation on inputs of the declared structure, which is not proved for abstract leaves); it is checked '
        'by the oracle on every case.  transpose_involutive is proved for wrappers as `.T` creates them (guard `canonical`) under the named '
        'assumption that re-created objects act through their data (`oid_facts`); for the generic lazy TransposeOperator of opaque operators '
        'adjointness is the trusted behaviour of jax.linear_transpose (`af_linear_transpose`), validated numerically here'
    )
    trusted = [
        'the adjointness theorem quantifies over arbitrary leaf semantics satisfying Model/Adjoint.v `adj_facts`: the operator that '
        'transpose() returns for a LEAF acts as the adjoint of the leaf.  For the generic lazy TransposeOperator this is what '
        'jax.linear_transpose provides (trusted; validated here on every operand: dense(e.T) == dense(e).T); for the table-free '
        'classes (QU rotation and its transpose, HWP, 1-d diagonal, identity, scalar) and for table-backed leaves whose '
        'transposes the model derives with transpose_m the facts are proved for the executable semantics (Lemmas/TransposeExecL.v)',
        'leaf operators act in the executable model through dense matrices measured on the real objects (table keyed by object id; '
        'the einsum operator / move-axis operator re-created by transpose() are keyed by 2*id+1 / by their parameters and measured '
        'on the real `.T` object); element-level adjointness of einsum, move-axis, reshape, index, rotation, Toeplitz is C14, C13, C12, C15, C09',
        'object identity (`is`) is modelled by harness-assigned object ids; objects created by transpose() get id 0',
        'float32 arithmetic of the implementation is compared with exact rationals after rounding measured entries to rationals '
        'with denominator <= 4096 (exact for the integer/dyadic inputs used); tolerance 1e-4 on matrices and inner products',
        'transposes of expressions containing the iterative-solver InverseOperator are outside the property (guard `no_inverse`): '
        'only the skeleton and structures of their `.T` are compared',
    ]

    # -- cases ---------------------------------------------------------------------------------
    def cases(self):
        quick = self.tier == 'quick'
        rng = self.rng
        e = env()
        t = typed()
        self.stats['unbuildable_operands'] = {n: o.error for n, o in e.items() if isinstance(o, A.Unbuildable)}
        ok = [n for n in t if not contains_inverse(e[n])]
        inv = [n for n in t if contains_inverse(e[n])]
        out = []
        for n in sorted(ok):
            out.append({'kind': 'operand', 'name': n, 'seed': rng.randrange(10**6)})
        for n in sorted(inv):
            out.append({'kind': 'inverse-skeleton', 'name': n, 'seed': 0})
        by_type: dict = {}
        # chains over the extended alphabet (type-compatible, no iterative inverse)
        names = sorted(ok)
        by_out: dict = {}
        for n in names:
            by_out.setdefault(t[n][1], []).append(n)
        chains = []

        def extend(ch, maxlen):
            if len(ch) >= 2:
                chains.append(list(ch))
            if len(ch) >= maxlen:
                return
            for n in by_out.get(t[ch[-1]][0], []):
                ch.append(n)
                extend(ch, maxlen)
                ch.pop()

        for n in names:
            extend([n], 2)
        c3 = []
        for ch in chains:
            for n in by_out.get(t[ch[-1]][0], []):
                c3.append(ch + [n])
        rng.shuffle(c3)
        chains3 = c3[: 150 if quick else 800]
        rng.shuffle(chains)
        self.stats['chains_available'] = {'len2': len(chains), 'len3': len(c3)}
        for ch in chains + chains3:
            by_type.setdefault((t[ch[-1]][0], t[ch[0]][1]), []).append(ch)
        for n in names:
            by_type.setdefault(t[n], []).append([n])
        picked2 = chains[:260] if quick else chains  # thorough: every type-compatible pair
        picked = picked2 + chains3
        seen = set()

        def add(ch, ctx):
            ops2 = None
            if ctx in ('sum', 'sumdict', 'blockdiag-nested', 'blockcol-dict', 'blockrow-tuple'):
                cands = by_type.get((t[ch[-1]][0], t[ch[0]][1]), [ch])
                ops2 = rng.choice(cands)
            if ctx == 'blockcol-dict' and ops2 is not None and t[ops2[-1]][0] != t[ch[-1]][0]:
                ops2 = None
            k = (tuple(ch), ctx, tuple(ops2 or ()))
            if k in seen:
                return
            seen.add(k)
            c = {'kind': 'composite', 'ops': list(ch), 'ctx': ctx, 'seed': rng.randrange(10**6)}
            if ops2:
                c['ops2'] = list(ops2)
            out.append(c)

        for ch in picked:
            add(ch, 'comp')
        for i, ch in enumerate(picked):
            every = not quick and len(ch) == 3
            for ctx in (CONTEXTS[1:] if every else [CONTEXTS[1 + (i % (len(CONTEXTS) - 1))]]):
                add(ch, ctx)
        # every single operand in every container context (thorough) / two contexts (quick)
        for i, n in enumerate(names):
            ctxs = [c for c in CONTEXTS if c not in ('comp', 'matmul', 'nested')]
            for ctx in (ctxs if not quick else [ctxs[i % len(ctxs)], ctxs[(i + 3) % len(ctxs)]]):
                add([n], ctx)
        return out

    def search_cases(self):
        # wider stream for the failing-input search (bounded: it runs in one process)
        if self.tier != 'quick':
            return []
        other = type(self)('thorough', self.seed + 1).cases()
        self.rng.shuffle(other)
        return other[:400]

    def extra(self):
        bad = self.stats.get('unbuildable_operands') or {}
        if bad:
            raise RuntimeError(f'operands of the alphabet cannot be constructed on this tree: {bad}')
        return {}

    def distribution(self, cases):
        d = {}
        for c in cases:
            k = c['kind'] + ('/' + c['ctx'] + f"/len{len(c['ops'])}" if c['kind'] == 'composite' else '')
            d[k] = d.get(k, 0) + 1
        return d

    def rule(self):
        return (
            'every operand of the ~160-operand alphabet (shared alphabet + einsum subscripts incl. repeated letters, move-axis with '
            'negative/multiple axes and pytrees, ravel/reshape variants, index with repeated/rank-2/int/strided/mask entries, pack, '
            'diagonal family, batched Toeplitz, Toast observation matrix, explicit lazy transposes of primitives and composites, '
            'block operators over list/tuple/dict/nested containers, sums over containers), type-compatible chains of length 2 '
            '(all in thorough, 260 in quick) and 3 (sampled), each placed in composition / @ / nested composition / sum / block row, column, '
            'diagonal over several containers / under an explicit lazy TransposeOperator.  Non-trivial: e.T is not the default lazy wrapper.'
        )

    # -- implementation ----------------------------------------------------------------------------
    def run_impl(self, case):
        import random

        e_env = env()
        e = build_expr(case, e_env)  # the generator only emits well-typed expressions: a failure here is reported
        enc = A.Encoder()
        term = enc.term(e)
        j = A.J()
        # tables for what transpose() re-creates / wraps
        ptable = []
        for leaf in leaves_of(e, []):
            name = type(leaf).__name__
            i = enc.known(leaf)
            if name == 'DenseBlockDiagonalOperator':
                try:
                    enc.table[2 * i + 1] = A.frac_matrix(A.dense(leaf.T))
                except Exception:
                    pass
            elif name == 'MoveAxisOperator':
                try:
                    lt = leaf.T
                    par = f'(PAxes {clist(leaf.destination, A.cz)} {clist(leaf.source, A.cz)})'
                    m = A.frac_matrix(A.dense(lt))
                    ptable.append(f'({par}, {A.struct_coq(leaf.out_structure())}, {clist(m, lambda r: clist(r, A.cqc))})')
                    # ... and by .T.T (a third object with the parameters of the first)
                    par = f'(PAxes {clist(leaf.source, A.cz)} {clist(leaf.destination, A.cz)})'
                    m = A.frac_matrix(A.dense(lt.T))
                    ptable.append(f'({par}, {A.struct_coq(leaf.in_structure())}, {clist(m, lambda r: clist(r, A.cqc))})')
                except Exception:
                    pass
            elif name == 'LinearPolarizerOperator':
                enc.add_table(2 * i, leaf)
        inverse = case['kind'] == 'inverse-skeleton'
        obs = {}
        oT = A.observe_impl(lambda: e.T, enc, want_matrix=not inverse)
        eT = oT.pop('_op', None)
        obs['T'] = oT
        obs['in'] = A.struct_repr(e.in_structure())
        obs['out'] = A.struct_repr(e.out_structure())
        if not inverse:
            try:
                obs['mat'] = A.mat_json(A.frac_matrix(A.dense(e)))
            except Exception as ex:
                obs['mat'] = None
                obs['mat_error'] = f'{type(ex).__name__}: {str(ex)[:200]}'
            if eT is not None:
                oTT = A.observe_impl(lambda: eT.T, enc)
                oTT.pop('_op', None)
                obs['TT'] = oTT
                obs['TT_is_e'] = oTT.get('skel', [None, 0])[1] != 0 and oTT['skel'][1] == enc.known(e)
                rng = random.Random(case['seed'])
                x = probe_values(e.in_structure(), rng)
                y = probe_values(e.out_structure(), rng)
                try:
                    obs['probe'] = [A.frac_json(A.to_frac(inner(e.mv(x), y))), A.frac_json(A.to_frac(inner(x, eT.mv(y))))]
                except Exception as ex:
                    obs['probe'] = None
                    obs['probe_error'] = f'{type(ex).__name__}: {str(ex)[:200]}'
                case['_x'] = value_coq(x)
                case['_y'] = value_coq(y)
        case['_term'] = term
        case['_table'] = enc.table_coq()
        case['_ptable'] = clist(ptable, str)
        case['_unsupported'] = enc.unsupported
        return obs

    # -- model -----------------------------------------------------------------------------------
    def model_term(self, case):
        if case.get('_unsupported') or '_term' not in case:
            return None
        tb, pt, tm = case['_table'], case['_ptable'], case['_term']
        if case['kind'] == 'inverse-skeleton':
            return f'(wfo {tm}, no_inverse {tm}, observeT [] [] (x_transpose {tm}))'
        if '_x' not in case:
            return None
        return f'observe_transpose {tb} {pt} {tm} {case["_x"]} {case["_y"]}'

    def decode(self, case, v):
        if case['kind'] == 'inverse-skeleton':
            wf, guard, o = v
            d = A.decode_observation(o)
            return {'wf': wf, 'guard': guard, 'T': {k: d[k] for k in ('skel', 'in', 'out')}}
        wf, guard, sq, oT, oTT, probe = v
        pr = None
        if probe[0] is not None and probe[1] is not None:
            pr = [A.frac_json(_frac(probe[0])), A.frac_json(_frac(probe[1]))]
        return {'wf': wf, 'guard': guard, 'T': A.decode_observation(oT), 'TT': A.decode_observation(oTT), 'probe': pr}

    def comparable(self, case, obs):
        if not isinstance(obs, dict) or 'T' not in obs:
            return obs

        def part(o, keys=('skel', 'in', 'out', 'mat')):
            if 'err' in o:
                return {'err': o['err']}
            return {k: o.get(k) for k in keys}

        if case['kind'] == 'inverse-skeleton':
            return {'wf': True, 'guard': False, 'T': part(obs['T'], ('skel', 'in', 'out'))}
        return {'wf': True, 'guard': True, 'T': part(obs['T']), 'TT': part(obs.get('TT', {})), 'probe': obs.get('probe')}

    def nontrivial(self, case, obs):
        if not isinstance(obs, dict) or 'T' not in obs:
            return False
        sk = obs['T'].get('skel')
        return bool(sk) and sk[0] != 'TransposeOperator'

    def finding_key(self, case, obs):
        return None

    def shrink(self, case, failing, depth=0):
        """Smallest failing part: an operand of the composite / a block of the container that fails alone."""
        import lib

        if depth > 4:
            return case
        names = []
        if case['kind'] == 'composite':
            names = list(case['ops']) + list(case.get('ops2') or [])
        elif case['kind'] == 'operand':
            names = sorted(G.used_names(LET.get(case['name'], {}).get('blocks') or LET.get(case['name'], {}).get('ops')
                                        or LET.get(case['name'], {}).get('of') or LET.get(case['name'], {}).get('e') or []))
        t = typed()
        for n in dict.fromkeys(names):
            if n not in t or n == case.get('name') or contains_inverse(env()[n]):
                continue
            c = {'kind': 'operand', 'name': n, 'seed': case['seed']}
            try:
                obs = lib.canon(self.run_impl(c))
                if self.oracle(c, obs):
                    return self.shrink(lib.pub(c), failing, depth + 1)
            except Exception:
                continue
        return lib.pub(case)

    # -- oracle -----------------------------------------------------------------------------------
    def oracle(self, case, obs):
        if not isinstance(obs, dict) or 'build_error' in obs:
            return None
        oT = obs['T']
        if 'err' in oT:
            return f'e.T raised {oT["err"]}'
        if oT['in'] != obs['out'] or oT['out'] != obs['in']:
            return f'structures of e.T are not those of e swapped: e {obs["in"]} -> {obs["out"]}, e.T {oT["in"]} -> {oT["out"]}'
        if case['kind'] == 'inverse-skeleton':
            return None
        if obs.get('mat') is None:
            return None  # the expression itself cannot be applied: not a statement about .T
        if oT.get('mat') is None:
            return f'e.T cannot be applied: {oT.get("mat_error")}'
        want = [list(r) for r in zip(*obs['mat'])] if obs['mat'] and obs['mat'][0] else oT['mat']
        if not A.mat_close(oT['mat'], want):
            return f'dense matrix of e.T {oT["mat"]} is not the transpose of the dense matrix of e {obs["mat"]}'
        pr = obs.get('probe')
        if pr is None:
            return f'<e x, y> / <x, e.T y> could not be evaluated: {obs.get("probe_error")}'
        from fractions import Fraction

        a, b = float(Fraction(pr[0])), float(Fraction(pr[1]))
        if abs(a - b) > 1e-4 * max(1.0, abs(a), abs(b)):
            return f'<e x, y> = {pr[0]} differs from <x, e.T y> = {pr[1]} on the integer probe (seed {case["seed"]})'
        oTT = obs.get('TT') or {}
        if 'err' in oTT:
            return f'e.T.T raised {oTT["err"]}'
        if oTT.get('mat') is None:
            return f'e.T.T cannot be applied: {oTT.get("mat_error")}'
        if not A.mat_close(oTT['mat'], obs['mat']):
            return f'e.T.T does not act as e: {oTT["mat"]} vs {obs["mat"]}'
        if oTT['in'] != obs['in'] or oTT['out'] != obs['out']:
            return 'structures of e.T.T differ from those of e'
        return None


def _frac(p):
    from fractions import Fraction

    (n, d), = [tuple(p['a'][0])] if isinstance(p, dict) else [tuple(p)]
    return Fraction(n, d)
