"""C03 - transpose is the exact adjoint of every operator.

Real code: `.T` / `transpose()` of every operand of the shared alphabet (harness/alg_cases.py) extended
with parameter variants (einsum subscripts incl. repeated letters, move-axis with negative/multiple axes
and pytrees, ravel/reshape variants, index with repeated entries, batched Toeplitz, broadcast diagonal,
Toast observation matrix, explicit lazy TransposeOperators of primitives and of composites) and of
composites of them (chains, sums, block row/diagonal/column over list/tuple/dict/nested containers,
nested compositions).  Model: Model/Algebra.v `transpose` evaluated on the encoded expression and
observed through Model/Adjoint.v `observe_transpose` (skeleton, structures, dense matrix of e.T and of
e.T.T, guards, and the two inner products <e x, y>, <x, e.T y> on an integer probe).
Oracle (implementation only): dense(e.T) == dense(e).T with both matrices obtained from the operators'
own action on basis vectors, <e x, y> == <x, e.T y> on the probe, e.T.T acts as e, structures swapped.
Expressions containing the iterative-solver InverseOperator are excluded from `.T` (unsupported by the
library), as in harness/reduce_check.py; for them only the skeleton/structures of `.T` are compared.

Three streams close blind spots found by seeded changes (see `cases`, `dtype_cases`, `self_cases`):
* self-transposing stream: every class whose transpose() returns the operator itself (discovered on every run; a new one
  without cases fails the run) over its whole parameter space - band Toeplitz with the four methods x explicit admissible
  FFT sizes from the minimum 2K-1 x lengths around the multiples of the overlap-save step and below K, batched bands,
  float64; diagonal operators over axes / pytrees and their inverses; identity, scalar, half-wave plate on every Stokes
  type; user @symmetric classes; symmetric dense blocks.  Oracle: the matrix of mv on the basis vectors is symmetric and
  the integer-probe adjoint identity holds (the cases are also compared with the model, whose leaf table is that matrix);
* shortcut-sensitive chains: operands on which an algebraic shortcut of transpose() would be WRONG - all-symmetric
  chains that do not commute (band Toeplitz with K >= 2, diagonals with distinct entries, user @symmetric classes with
  a non-diagonal matrix, also next to the half-wave plate on Stokes pytrees) in every context, X @ X, palindromes
  X @ Y @ X, sums / blocks mixing tagged-symmetric and other operands;
* dtype stream (implementation-side only: the model is over the rationals): the same classes with complex64,
  complex128 and float64 (x64) parameters and structures, Gaussian-integer values with non-zero imaginary parts; the
  property is the plain transpose (bilinear, no conjugation).
"""
from __future__ import annotations

import json
import os
import tempfile

import numpy as np

import alg_cases as G
import algebra as A
from lib import PropertyCheck, clist

# ---------------------------------------------------------------------------------------------
# alphabet: the shared one + parameter variants of the classes with hand-written transposes

B222 = [[[0, 1], [2, 3]], [[4, 5], [6, 7]]]
B223 = [[[1, 0, 2], [0, 1, 1]], [[2, 1, 0], [1, 1, 3]]]
B232 = [[[1, 2], [0, 1], [3, 0]], [[0, 1], [1, 1], [2, 4]]]

EXTRA: dict = {
    # einsum operators (DenseBlockDiagonalOperator) - C14's subscript rewriting, D1 case first
    'E_iij': {'k': 'einsum', 'b': B222, 's': [2], 'sub': 'iij,j->i'},
    'E_jji': {'k': 'einsum', 'b': B222, 's': [2], 'sub': 'jji,j->i'},
    'E_iji': {'k': 'einsum', 'b': B222, 's': [2], 'sub': 'iji,j->i'},
    'E_hij': {'k': 'einsum', 'b': B223, 's': [2, 3], 'sub': 'hij,hj->hi'},
    'E_ikj': {'k': 'einsum', 'b': B232, 's': [3, 2], 'sub': 'ikj,kj->ki'},
    'E_def': {'k': 'einsum', 'b': [[1, 2], [0, 3], [4, 0]], 's': [2], 'sub': None},
    'E_dots': {'k': 'einsum', 'b': [[1, 2], [0, 3], [4, 0]], 's': [2, 2], 'sub': None},
    'E_tree': {'k': 'einsum', 'b': [[1, 2], [0, 3]], 's': {'list': [[2], [2]]}, 'sub': 'ij,j->i'},
    'E_sp': {'k': 'einsum', 'b': [[1, 2, 1], [0, 3, 2]], 's': [3], 'sub': ' i j , j -> i '},
    # move-axis: negative / several axes, pytrees with leaves of different rank
    'M_neg': {'k': 'moveaxis', 'src': [0, 1], 'dst': [-1, -2], 's': [2, 3, 2]},
    'M_rot': {'k': 'moveaxis', 'src': [0, 1, 2], 'dst': [1, 2, 0], 's': [2, 3, 2]},
    'M_dict': {'k': 'moveaxis', 'src': -1, 'dst': 0, 's': {'dict': {'b': [2, 3], 'a': [1, 2, 2]}}},
    'M_id': {'k': 'moveaxis', 'src': 1, 'dst': 1, 's': [2, 3]},
    # ravel / reshape
    'R_01': {'k': 'ravel', 'first': 0, 'last': 1, 's': [2, 2, 2]},
    'R_m2': {'k': 'ravel', 'first': -2, 'last': -1, 's': {'list': [[2, 2, 3], [2, 2]]}},
    'R_11': {'k': 'ravel', 'first': 1, 'last': 1, 's': [2, 3]},
    'Sh_m1': {'k': 'reshape', 'shape': [-1, 2], 's': [2, 3]},
    'Sh_t': {'k': 'reshape', 'shape': [4], 's': {'tuple': [[2, 2], [4]]}},
    'Sh_1': {'k': 'reshape', 'shape': [1, 3, 1], 's': [3]},
    # index: repeated entries, rank-2 index array, integers, strided slices, ellipsis, mask
    'X_r2': {'k': 'index', 'idx': [{'arr': [[0, 1], [1, 1]]}], 's': [3]},
    'X_int': {'k': 'index', 'idx': [1], 's': [3, 2]},
    'X_neg': {'k': 'index', 'idx': [-1], 's': [3]},
    'X_st': {'k': 'index', 'idx': [{'slice': [None, None, 2]}], 's': [5]},
    'X_rev': {'k': 'index', 'idx': [{'slice': [None, None, -1]}], 's': [3]},
    'X_el': {'k': 'index', 'idx': ['...', 0], 's': [2, 3], 'tuple': True},
    'X_all3': {'k': 'index', 'idx': [{'arr': [1, 1, 1, 1]}], 's': [2]},
    'X_mask': {'k': 'index', 'idx': [{'mask': [True, False, True]}], 's': [3], 'out': [2]},
    'X_tree': {'k': 'index', 'idx': [{'arr': [1, 0, 1]}], 's': {'dict': {'u': [2], 'v': [2, 2]}}},
    'P_tree': {'k': 'pack', 'mask': [False, True, True], 's': {'list': [[3], [3]]}},
    'P_2d': {'k': 'pack', 'mask': [[True, False], [True, True]], 's': [2, 2]},
    # diagonal family
    'D_ax1': {'k': 'diag', 'v': [1, 2, 3], 'axis': 1, 's': [2, 3]},
    'D_2d': {'k': 'diag', 'v': [[1, 2], [3, 4]], 'axis': 0, 's': [2, 2]},
    'D_tree': {'k': 'diag', 'v': [2, -1], 'axis': 0, 's': {'tuple': [[2], [2, 2]]}},
    'Bd_l': {'k': 'bdiag', 'v': [[1, 1, 1], [2, 1, 0]], 'axis': -1, 's': [3]},
    'Bd_r': {'k': 'bdiag', 'v': [[2, 3, 1], [1, 0, 1]], 'axis': 0, 's': [2]},
    'D3I': {'k': 'expr', 'e': {'I': 'D3'}},
    # Toeplitz (symmetric): batched band values, all methods
    'T4d': {'k': 'toeplitz', 'band': [2, 1], 's': [4], 'method': 'dense'},
    'T4b': {'k': 'toeplitz', 'band': [[2, 1], [3, -1]], 's': [2, 4], 'method': 'dense'},
    'T5dir': {'k': 'toeplitz', 'band': [[4, 1, 2], [1, 0, -2]], 's': [2, 5], 'method': 'direct'},
    # (no pytree input: SymmetricBandToeplitzOperator.mv/as_matrix are written for a single array)
    # Toast observation matrix
    'Obs': {'k': 'obs', 'm': [[1, 0, 2], [0, 3, 0], [4, 0, 5]]},
    # identity / scalars on pytrees
    'I_d': {'k': 'ident', 's': {'dict': {'a': [2], 'b': [1, 2]}}},
    'H_t': {'k': 'homoth', 'v': -2, 's': {'tuple': [[2], [2]]}},
    # explicit lazy TransposeOperator (jax.linear_transpose) of classes that have their own transpose
    'LT_Q1': {'k': 'lazyT', 'of': 'Q1'},
    'LT_Sh23': {'k': 'lazyT', 'of': 'Sh23'},
    'LT_A23': {'k': 'lazyT', 'of': 'A23'},
    'LT_M23': {'k': 'lazyT', 'of': 'M23'},
    'LT_D2': {'k': 'lazyT', 'of': 'D2'},
    'LT_Pl': {'k': 'lazyT', 'of': 'Pl'},
    'LT_BR': {'k': 'lazyT', 'of': 'BR'},
    'LT_comp': {'k': 'lazyT', 'of': {'comp': ['A23', 'A32']}},
    'PlT': {'k': 'expr', 'e': {'T': 'Pl'}},
    'ObsT': {'k': 'expr', 'e': {'T': 'Obs'}},
    'BdT': {'k': 'expr', 'e': {'T': 'Bd_l'}},
    # containers
    'BRt': {'k': 'row', 'blocks': {'tuple': ['A23', 'B22']}},
    'BCn': {'k': 'col', 'blocks': [['A23', 'A23'], {'dict': {'z': 'A23', 'a': 'A23'}}]},
    'BDm': {'k': 'bdiagop', 'blocks': {'dict': {'p': 'M23', 'q': ['Sh23', 'X3r']}}},
    'BRs': {'k': 'row', 'blocks': ['Pl', 'Pl', 'Pl']},
    'BDe': {'k': 'bdiagop', 'blocks': ['E_iij', 'E_hij']},
    'BCb': {'k': 'col', 'blocks': ['BR', 'BR']},
    'BRb': {'k': 'row', 'blocks': ['BC', 'BC']},
    'Sum3': {'k': 'sumtree', 'ops': {'dict': {'a': 'A22', 'b': ['B22', 'S22']}}},
    # ---- operands that make algebraic shortcuts of transpose() WRONG -------------------------------
    # classes tagged symmetric (transpose() returns self) that do NOT commute with each other: band Toeplitz
    # with K >= 2 next to diagonals with distinct entries / other Toeplitz operators, on every structure that
    # carries a symmetric operator ((AB)^T = BA != AB; a sum or block of them is only operand-wise symmetric)
    'T2': {'k': 'toeplitz', 'band': [3, 1], 's': [2], 'method': 'dense'},
    'T3': {'k': 'toeplitz', 'band': [2, 1], 's': [3], 'method': 'dense'},
    'T3k3': {'k': 'toeplitz', 'band': [1, 2, -1], 's': [3], 'method': 'direct'},
    'I4': {'k': 'ident', 's': [4]},
    'H4': {'k': 'homoth', 'v': 3, 's': [4]},
    'D4': {'k': 'diag', 'v': [1, 2, 3, -1], 's': [4]},
    'D4I': {'k': 'expr', 'e': {'I': 'D4'}},
    'T4k3': {'k': 'toeplitz', 'band': [3, 1, 2], 's': [4], 'method': 'dense'},
    'D24': {'k': 'diag', 'v': [[1, 2, 3, 4], [2, 1, 0, -1]], 'axis': 0, 's': [2, 4]},
    'D24r': {'k': 'diag', 'v': [2, -1], 'axis': 0, 's': [2, 4]},
    'D25': {'k': 'diag', 'v': [1, 2, 0, -1, 3], 'axis': 1, 's': [2, 5]},
    'Ds': {'k': 'diag', 'v': [1, 2], 'axis': 0, 's': G.IQU2},
    'Dq': {'k': 'diag', 'v': [3, -1], 'axis': 0, 's': {'stokes': 'QU', 'shape': [2]}},
    # user-defined classes (direct subclasses of AbstractLinearOperator acting through a matrix on the
    # flattened pytree): decorated @symmetric with a NON-diagonal symmetric matrix (also on Stokes pytrees,
    # next to the half-wave plate: it mixes Q and U), and undecorated (default lazy transpose)
    'Sy2': {'k': 'user', 'sym': True, 'm': [[1, 2], [2, -1]], 's': [2]},
    'Sy3': {'k': 'user', 'sym': True, 'm': [[0, 1, 2], [1, 3, -1], [2, -1, 1]], 's': [3]},
    'Sy4': {'k': 'user', 'sym': True, 'm': [[1, 0, 2, 1], [0, 2, 1, 0], [2, 1, 0, 3], [1, 0, 3, -1]], 's': [4]},
    'SyS': {'k': 'user', 'sym': True, 's': G.IQU2,
            'm': [[1, 0, 2, 0, 0, 1], [0, 2, 0, 1, 1, 0], [2, 0, 0, 1, 3, 0], [0, 1, 1, 1, 0, 2], [0, 1, 3, 0, 2, 1], [1, 0, 0, 2, 1, 0]]},
    'SyQ': {'k': 'user', 'sym': True, 's': {'stokes': 'QU', 'shape': [2]},
            'm': [[1, 0, 2, 1], [0, 2, 1, 0], [2, 1, 0, 3], [1, 0, 3, -1]]},
    'Ua23': {'k': 'user', 'sym': False, 'm': [[1, 2, 0], [0, -1, 3]], 's': [3], 't': [2]},
    'Ua22': {'k': 'user', 'sym': False, 'm': [[0, 2], [1, -1]], 's': [2], 't': [2]},
    # einsum operator with a pytree of blocks
    'E_pb': {'k': 'einsum', 'bt': [[[1, 2], [0, 3]], [[2, 0], [1, 1]]], 's': {'list': [[2], [2]]}, 'sub': 'ij,j->i'},
    # scalar multiples (HomothetyOperator @ op as the operators' __rmul__ builds it)
    'K_T3': {'k': 'expr', 'e': {'smul': [2, 'T3']}},
    'K_A23': {'k': 'expr', 'e': {'smul': [{'np': -0.5}, 'A23']}},
}

LET = dict(G.LET)
LET.update(EXTRA)

_tmpdir = None
_user: dict = {}


def user_classes():
    """User-defined leaf operators: y = M @ concat(raveled input leaves), split along the output structure.
    `Atom` keeps the default lazy transpose (jax.linear_transpose); `SymAtom` is decorated @symmetric (its
    transpose() returns self, lx.is_symmetric is True) - its matrix IS symmetric but not diagonal."""
    if _user:
        return _user
    import equinox

    j = A.J()
    jax, jnp, core = j['jax'], j['jnp'], j['core']

    def apply(matrix, x, out):
        v = jnp.concatenate([l.ravel() for l in jax.tree.leaves(x)])
        y = matrix @ v
        leaves, treedef = jax.tree.flatten(out)
        res, pos = [], 0
        for l in leaves:
            n = int(np.prod(l.shape))
            res.append(y[pos : pos + n].reshape(l.shape))
            pos += n
        return jax.tree.unflatten(treedef, res)

    class Atom(core.AbstractLinearOperator):
        matrix: jax.Array
        _in: object = equinox.field(static=True)
        _out: object = equinox.field(static=True)

        def __init__(self, matrix, in_structure, out_structure):
            self.matrix = matrix
            self._in = in_structure
            self._out = out_structure

        def mv(self, x):
            return apply(self.matrix, x, self._out)

        def in_structure(self):
            return self._in

        def out_structure(self):
            return self._out

    @core.symmetric
    class SymAtom(core.AbstractLinearOperator):
        matrix: jax.Array
        _in: object = equinox.field(static=True)

        def __init__(self, matrix, in_structure, out_structure=None):
            self.matrix = matrix
            self._in = in_structure

        def mv(self, x):
            return apply(self.matrix, x, self._in)

        def in_structure(self):
            return self._in

    _user.update(Atom=Atom, SymAtom=SymAtom)
    return _user


def build_operand(d, env):
    j = A.J()
    jax, jnp = j['jax'], j['jnp']
    k = d['k']
    if k == 'einsum':
        if 'bt' in d:  # a pytree (list) of blocks, one per leaf of the input
            args = [[jnp.asarray(np.array(b, dtype=np.float32)) for b in d['bt']], A.mk_struct(d['s'])]
        else:
            args = [jnp.asarray(np.array(d['b'], dtype=np.float32)), A.mk_struct(d['s'])]
        if d['sub'] is not None:
            args.append(d['sub'])
        return j['dense'].DenseBlockDiagonalOperator(*args)
    if k == 'obs':
        global _tmpdir
        import scipy.sparse as sp
        from furax.toast.obs_matrix import ToastObservationMatrixOperator

        if _tmpdir is None:
            import atexit
            import shutil

            _tmpdir = tempfile.mkdtemp(prefix='c03obs')
            atexit.register(shutil.rmtree, _tmpdir, True)
        c = sp.csr_matrix(np.array(d['m'], dtype=np.float32))
        path = os.path.join(_tmpdir, f'obs{abs(hash(json.dumps(d["m"])))}.npz')
        np.savez(path, format='csr', data=c.data, indices=c.indices, indptr=c.indptr, shape=np.array(c.shape))
        return ToastObservationMatrixOperator(path)
    if k == 'user':
        cls = user_classes()['SymAtom' if d['sym'] else 'Atom']
        si = A.mk_struct(d['s'])
        return cls(jnp.asarray(np.array(d['m'], dtype=np.float32)), si, A.mk_struct(d['t']) if 't' in d else si)
    if k == 'lazyT':
        return j['core'].TransposeOperator(A.eval_expr(d['of'], env))
    if k == 'sumtree':
        return j['core'].AdditionOperator(A.container(d['ops'], env))
    return A.build_operand(d, env)


_env: dict = {}
_typed: dict = {}


def env():
    if not _env:
        for name, d in LET.items():
            try:
                _env[name] = build_operand(d, _env)
            except Exception as e:
                _env[name] = A.Unbuildable(name, e)
    return _env


def typed():
    if not _typed:
        for n, o in env().items():
            if isinstance(o, A.Unbuildable):
                continue
            _typed[n] = (G.key(o.in_structure()), G.key(o.out_structure()))
    return _typed


def measured(dense, op):
    """Matrix of an operand for the SELECTION of cases (None if it cannot be applied: the cases using it report that)."""
    try:
        return dense(op)
    except Exception:
        return None


def contains_inverse(op) -> bool:
    import reduce_check

    return reduce_check.contains_cls(op, A.J()['core'].InverseOperator)


def leaves_of(op, acc):
    """All leaf operator objects of an expression (through compositions, sums, blocks, wrappers)."""
    j = A.J()
    core, blocks = j['core'], j['blocks']
    if isinstance(op, core.CompositionOperator):
        for o in op.operands:
            leaves_of(o, acc)
    elif isinstance(op, core.AdditionOperator):
        for o in op.operand_leaves:
            leaves_of(o, acc)
    elif isinstance(op, blocks.AbstractBlockOperator):
        for o in op.block_leaves:
            leaves_of(o, acc)
    elif A.wrap_kind(op) is not None:
        acc.append(op)
        leaves_of(op.operator, acc)
    else:
        acc.append(op)
    return acc


CONTEXTS = ('comp', 'matmul', 'nested', 'sum', 'sumdict', 'blockdiag', 'blockdiag-nested', 'blockcol-dict', 'blockrow-tuple', 'lazyT')


def build_expr(case, env):
    """The operator object of a case (real furax code)."""
    j = A.J()
    core, blocks = j['core'], j['blocks']
    if case['kind'] in ('operand', 'inverse-skeleton'):
        return env[case['name']]
    ops = [env[n] for n in case['ops']]
    ctx = case['ctx']
    if ctx == 'operand':
        return ops[0]

    def comp(o):
        return core.CompositionOperator(list(o)) if len(o) > 1 else o[0]

    c = comp(ops)
    other = comp([env[n] for n in case['ops2']]) if case.get('ops2') else comp(ops)
    if ctx == 'comp':
        return core.CompositionOperator(ops)
    if ctx == 'matmul':
        r = ops[0]
        for o in ops[1:]:
            r = r @ o
        return r
    if ctx == 'nested':
        return core.CompositionOperator([core.CompositionOperator(ops[:1]), core.CompositionOperator(ops[1:])])
    if ctx == 'sum':
        return core.AdditionOperator([c, other])
    if ctx == 'sumdict':
        return core.AdditionOperator({'b': c, 'a': [other, c]})
    if ctx == 'blockdiag':
        return blocks.BlockDiagonalOperator([c, env['A23']])
    if ctx == 'blockdiag-nested':
        return blocks.BlockDiagonalOperator({'y': [c, other], 'x': (env['Pl'], c)})
    if ctx == 'blockcol-dict':
        return blocks.BlockColumnOperator({'x': c, 'a': [other, c]})
    if ctx == 'blockrow-tuple':
        return blocks.BlockRowOperator((c, [other], {'k': c}))
    if ctx == 'lazyT':
        return core.TransposeOperator(c)
    raise ValueError(ctx)


def probe_values(struct, rng):
    """A pytree of small integers with the given structure (float arrays), as real arrays and JSON."""
    j = A.J()
    jax, jnp = j['jax'], j['jnp']
    leaves, treedef = jax.tree.flatten(struct)
    vals = [np.array([rng.randint(-3, 3) for _ in range(int(np.prod(l.shape)))], dtype=np.float64).reshape(l.shape) for l in leaves]
    return jax.tree.unflatten(treedef, [jnp.asarray(v, dtype=l.dtype) for v, l in zip(vals, leaves)])


def value_coq(x) -> str:
    ch = A.tree_children(x)
    if ch is None:
        return f'(Leaf {clist(np.asarray(x, dtype=np.float64).ravel().tolist(), lambda v: A.cqc(A.to_frac(v)))})'
    kind, kids = ch
    return f'(Node {A.ckind_coq(kind)} {clist(kids, value_coq)})'


def inner(a, b) -> float:
    return float(np.dot(A.flat(a), A.flat(b)))


# ---------------------------------------------------------------------------------------------
# dtype stream: the classes whose parameters / inputs may be complex (einsum blocks, diagonal values, scalars, band
# values, user matrices; index / axes / polarimetry operators on complex inputs), with complex64 - and, under
# jax.enable_x64, complex128 and float64 - parameters AND structures.  The property is the PLAIN transpose (bilinear
# sum((A x) * y) == sum(x * (A.T y)), dense(A.T) == dense(A).T, no conjugation).  The values are Gaussian integers with
# non-zero imaginary parts so that a stray conj() is visible and every comparison is exact.  The Coq model is over the
# rationals: this stream is implementation-side only (oracle: NumPy transposition of the matrix measured through mv
# on basis vectors, bilinear identity on a complex probe, jax.linear_transpose of the same operator).

DTS = {'complex64': False, 'complex128': True, 'float64': True}  # dtype -> needs x64
IQUs = {'stokes': 'IQU', 'shape': [2]}
CB222 = [[[1j, 1], [2 - 1j, 3]], [[4 + 1j, -1j], [1 + 1j, 2]]]
CB223 = [[[1 + 1j, 0, 2j], [0, 1 - 1j, 1]], [[2, 1j, 0], [1 - 2j, 1, 3j]]]
CB232 = [[[1j, 2], [0, 1 + 1j], [3, -1j]], [[0, 1], [1 - 1j, 1], [2j, 4]]]
CX: dict = {
    # einsum operator (hand-written transpose: same blocks, rewritten subscripts)
    'cE23': {'k': 'einsum', 'b': [[1 + 1j, 2 - 1j, 3j], [0, 1 - 2j, 2]], 's': [3], 'sub': 'ij,j->i'},
    'cE32': {'k': 'einsum', 'b': [[1j, 1], [2 + 1j, 0], [3, 1 - 1j]], 's': [2], 'sub': 'ij,j->i'},
    'cE22': {'k': 'einsum', 'b': [[1 + 2j, -1j], [2, 1 - 1j]], 's': [2], 'sub': 'ij,j->i'},
    'cS22': {'k': 'einsum', 'b': [[1 + 1j, 2 - 1j], [2 - 1j, 3j]], 's': [2], 'sub': 'ij,j->i'},  # symmetric, not Hermitian
    'cHm22': {'k': 'einsum', 'b': [[2, 1 - 1j], [1 + 1j, 3]], 's': [2], 'sub': 'ij,j->i'},  # Hermitian, not symmetric
    'cE33': {'k': 'einsum', 'b': [[1, 1j, 0], [2 - 1j, 1, 0], [0, 1 + 1j, 2j]], 's': [3], 'sub': 'ij,j->i'},
    'cE_h': {'k': 'einsum', 'b': CB223, 's': [2, 3], 'sub': 'hij,hj->hi'},
    'cE_ikj': {'k': 'einsum', 'b': CB232, 's': [3, 2], 'sub': 'ikj,kj->ki'},
    'cE_def': {'k': 'einsum', 'b': [[1j, 2], [0, 3 - 1j], [4, 1j]], 's': [2, 2], 'sub': None},
    'cE_iij': {'k': 'einsum', 'b': CB222, 's': [2], 'sub': 'iij,j->i'},
    'cE_tree': {'k': 'einsum', 'b': [[1 + 1j, 2], [-1j, 3]], 's': {'list': [[2], [2]]}, 'sub': 'ij,j->i'},
    'cE_pb': {'k': 'einsum', 'bt': [[[1j, 2], [0, 3 + 1j]], [[2, -1j], [1 + 1j, 1]]], 's': {'list': [[2], [2]]}, 'sub': 'ij,j->i'},
    # diagonal family
    'cD2': {'k': 'diag', 'v': [1 + 1j, 2j], 's': [2]},
    'cD2I': {'k': 'expr', 'e': {'I': 'cD2'}},
    'cD3': {'k': 'diag', 'v': [1 + 1j, 2 - 1j, -3j], 's': [3]},
    'cD23': {'k': 'diag', 'v': [1j, 2, 1 - 1j], 'axis': 1, 's': [2, 3]},
    'cDs': {'k': 'diag', 'v': [1 + 1j, -2j], 'axis': 0, 's': IQUs},
    'cBd3': {'k': 'bdiag', 'v': [[1 + 1j, 1, 2j], [2, 1 - 1j, 0]], 'axis': -1, 's': [3]},
    'cBd2': {'k': 'bdiag', 'v': [[2j, 3, 1], [1 - 1j, 0, 1j]], 'axis': 0, 's': [2]},
    # identity, scalars
    'cI2': {'k': 'ident', 's': [2]},
    'cI3': {'k': 'ident', 's': [3]},
    'cH2': {'k': 'homoth', 'v': 2 - 1j, 's': [2]},
    'cH3': {'k': 'homoth', 'v': 1j, 's': [3]},
    'cHs': {'k': 'homoth', 'v': 1 + 1j, 's': IQUs},
    'cK_E22': {'k': 'expr', 'e': {'smul': [1 + 2j, 'cE22']}},
    'cK_E23': {'k': 'expr', 'e': {'mulr': ['cE23', -1j]}},
    # symmetric band Toeplitz with complex band values (symmetric, not Hermitian)
    'cT2': {'k': 'toeplitz', 'band': [1j, 2], 's': [2], 'method': 'direct'},
    'cT3': {'k': 'toeplitz', 'band': [2 + 1j, 1 - 1j], 's': [3], 'method': 'dense'},
    'cT3b': {'k': 'toeplitz', 'band': [[2, 1j], [1 + 1j, -1]], 's': [2, 3], 'method': 'dense'},
    # parameter-free classes on complex inputs (lazy / hand-written transposes)
    'cX3r': {'k': 'index', 'idx': [{'arr': [1, 1, 2]}], 's': [3]},
    'cX3u': {'k': 'index', 'idx': [{'arr': [2, 0]}], 's': [3], 'unique': True},
    'cP3': {'k': 'pack', 'mask': [True, False, True], 's': [3]},
    'cM23': {'k': 'moveaxis', 'src': 0, 'dst': 1, 's': [2, 3]},
    'cSh23': {'k': 'reshape', 'shape': [3, 2], 's': [2, 3]},
    'cSh32': {'k': 'reshape', 'shape': [2, 3], 's': [3, 2]},
    'cR23': {'k': 'ravel', 's': [2, 3]},
    'cQ1': {'k': 'qurot', 'stokes': 'IQU', 'shape': [2], 'q': [1]},
    'cQ2': {'k': 'qurot', 'stokes': 'IQU', 'shape': [2], 'q': [2, 3], 'vec': True},
    'cW': {'k': 'hwp', 'stokes': 'IQU', 'shape': [2]},
    'cPl': {'k': 'pol', 'stokes': 'IQU', 'shape': [2]},
    # user classes: default lazy transpose / @symmetric with a non-diagonal complex symmetric matrix
    'cU23': {'k': 'user', 'sym': False, 'm': [[1j, 2, 0], [1 - 1j, -1, 3j]], 's': [3], 't': [2]},
    'cU22': {'k': 'user', 'sym': False, 'm': [[0, 2j], [1, -1 + 1j]], 's': [2], 't': [2]},
    'cSy2': {'k': 'user', 'sym': True, 'm': [[1j, 2], [2, -1 + 1j]], 's': [2]},
    'cSy3': {'k': 'user', 'sym': True, 'm': [[0, 1j, 2], [1j, 3, -1], [2, -1, 1 - 1j]], 's': [3]},
    'cSyS': {'k': 'user', 'sym': True, 's': IQUs,
             'm': [[1, 0, 2j, 0, 0, 1], [0, 2, 0, 1, 1j, 0], [2j, 0, 0, 1, 3, 0], [0, 1, 1, 1j, 0, 2], [0, 1j, 3, 0, 2, 1], [1, 0, 0, 2, 1, 0]]},
    # explicit lazy transposes, transposes as operands
    'cLT_E23': {'k': 'lazyT', 'of': 'cE23'},
    'cLT_D3': {'k': 'lazyT', 'of': 'cD3'},
    'cLT_c': {'k': 'lazyT', 'of': {'comp': ['cE23', 'cE32']}},
    'cE23T': {'k': 'expr', 'e': {'T': 'cE23'}},
    'cX3rT': {'k': 'expr', 'e': {'T': 'cX3r'}},
    'cBd3T': {'k': 'expr', 'e': {'T': 'cBd3'}},
    # containers, sums
    'cBR': {'k': 'row', 'blocks': ['cE22', 'cS22']},
    'cBC': {'k': 'col', 'blocks': {'dict': {'b': 'cE22', 'a': 'cD2'}}},
    'cBD': {'k': 'bdiagop', 'blocks': {'tuple': ['cE23', 'cD2']}},
    'cSum': {'k': 'expr', 'e': {'add': ['cE22', 'cS22']}},
    'cSumD': {'k': 'sumtree', 'ops': {'dict': {'a': 'cT2', 'b': ['cD2', 'cE22']}}},
}


def cx_names(e, acc=None):
    """Names of the CX alphabet used in a description (containers, expressions)."""
    acc = set() if acc is None else acc
    if isinstance(e, str):
        if e in CX:
            acc.add(e)
    elif isinstance(e, dict):
        for v in e.values():
            cx_names(v, acc)
    elif isinstance(e, (list, tuple)):
        for v in e:
            cx_names(v, acc)
    return acc


def x64_context(dt):
    import contextlib

    return A.J()['jax'].enable_x64(True) if DTS[dt] else contextlib.nullcontext()


def cast(v, dt):
    """Complex description value(s) -> array of dtype dt (a real dtype gets re + im: still distinct small integers)."""
    a = np.array(v, dtype=np.complex128)
    if np.dtype(dt).kind != 'c':
        a = a.real + a.imag
    return A.J()['jnp'].asarray(a.astype(dt))


def struct_dt(desc, dt):
    jax = A.J()['jax']
    return jax.tree.map(lambda l: jax.ShapeDtypeStruct(l.shape, np.dtype(dt)), A.mk_struct(desc))


def cx_scalar(k, dt):
    if isinstance(k, complex):
        return complex(k) if np.dtype(dt).kind == 'c' else float(k.real + k.imag)
    return A.scalar_value(k)


def cx_expr(ex, env, dt):
    if isinstance(ex, dict):
        (kind, arg), = ex.items()
        if kind == 'smul':
            return cx_scalar(arg[0], dt) * cx_expr(arg[1], env, dt)
        if kind == 'mulr':
            return cx_expr(arg[0], env, dt) * cx_scalar(arg[1], dt)
    return A.eval_expr(ex, env)


def build_cx(d, env, dt):
    jj = A.J()
    jnp = jj['jnp']
    k = d['k']
    if k == 'einsum':
        blocks = [cast(b, dt) for b in d['bt']] if 'bt' in d else cast(d['b'], dt)
        args = [blocks, struct_dt(d['s'], dt)] + ([d['sub']] if d['sub'] is not None else [])
        return jj['dense'].DenseBlockDiagonalOperator(*args)
    if k in ('diag', 'bdiag'):
        cls = jj['diagonal'].DiagonalOperator if k == 'diag' else jj['diagonal'].BroadcastDiagonalOperator
        return cls(cast(d['v'], dt), axis_destination=d.get('axis', 0), in_structure=struct_dt(d['s'], dt))
    if k == 'ident':
        return jj['core'].IdentityOperator(struct_dt(d['s'], dt))
    if k == 'homoth':
        return jj['core'].HomothetyOperator(cast(d['v'], dt), struct_dt(d['s'], dt))
    if k == 'toeplitz':
        return jj['toeplitz'].SymmetricBandToeplitzOperator(cast(d['band'], dt), struct_dt(d['s'], dt), method=d['method'])
    if k == 'index':
        idx = tuple(A.index_entry(x) for x in d['idx'])
        kw = {'unique_indices': d['unique']} if 'unique' in d else {}
        return jj['indices'].IndexOperator(idx if len(idx) != 1 else idx[0], in_structure=struct_dt(d['s'], dt), **kw)
    if k == 'pack':
        return jj['linear'].PackOperator(jnp.asarray(d['mask'], dtype=bool), struct_dt(d['s'], dt))
    if k == 'moveaxis':
        return jj['axes'].MoveAxisOperator(A.as_axis(d['src']), A.as_axis(d['dst']), in_structure=struct_dt(d['s'], dt))
    if k == 'ravel':
        return jj['axes'].RavelOperator(d.get('first', 0), d.get('last', -1), in_structure=struct_dt(d['s'], dt))
    if k == 'reshape':
        return jj['axes'].ReshapeOperator(tuple(d['shape']), in_structure=struct_dt(d['s'], dt))
    if k in ('qurot', 'hwp', 'pol'):
        s = struct_dt({'stokes': d['stokes'], 'shape': d['shape']}, dt)
        if k == 'hwp':
            return jj['hwp'].HWPOperator(s)
        if k == 'pol':
            return jj['pol'].LinearPolarizerOperator(s)
        ashape = () if len(d['q']) == 1 and not d.get('vec') else (len(d['q']),)
        return jj['qu'].QURotationOperator(A.q_angles(d['q'], ashape).astype(jnp.float32), s)
    if k == 'user':
        cls = user_classes()['SymAtom' if d['sym'] else 'Atom']
        si = struct_dt(d['s'], dt)
        return cls(cast(d['m'], dt), si, struct_dt(d['t'], dt) if 't' in d else si)
    if k == 'lazyT':
        return jj['core'].TransposeOperator(A.eval_expr(d['of'], env))
    if k == 'sumtree':
        return jj['core'].AdditionOperator(A.container(d['ops'], env))
    if k in ('row', 'bdiagop', 'col'):
        return A.build_operand(d, env)
    if k == 'expr':
        return cx_expr(d['e'], env, dt)
    raise ValueError(k)


_cx_env: dict = {}
_cx_typed: dict = {}


def cx_env(dt):
    """Environment of the dtype stream (to be called inside x64_context(dt)): the real operands (the block contexts
    use two of them) + the CX alphabet with dtype dt."""
    if dt not in _cx_env:
        ev = dict(env())
        for name, d in CX.items():
            try:
                ev[name] = build_cx(d, ev, dt)
            except Exception as ex:
                ev[name] = A.Unbuildable(name, ex)
        _cx_env[dt] = ev
    return _cx_env[dt]


def cx_typed(dt):
    if dt not in _cx_typed:
        env()
        with x64_context(dt):
            ev = cx_env(dt)
            _cx_typed[dt] = {n: (G.key(ev[n].in_structure()), G.key(ev[n].out_structure())) for n in CX if not isinstance(ev[n], A.Unbuildable)}
    return _cx_typed[dt]


def sstr(s):
    """Structure with dtype names (the shared struct_repr has no code for complex128)."""
    jax = A.J()['jax']
    leaves, treedef = jax.tree.flatten(s)
    return [str(treedef), [[list(l.shape), str(np.dtype(l.dtype))] for l in leaves]]


def cflat(y):
    leaves = A.J()['jax'].tree.leaves(y)
    if not leaves:
        return np.zeros(0, dtype=np.complex128)
    return np.concatenate([np.asarray(l).astype(np.complex128).ravel() for l in leaves])


def cdense(op):
    cols = [cflat(op.mv(x)) for x in A.basis_inputs(op.in_structure())]
    if not cols:
        return np.zeros((A.struct_size(op.out_structure()), 0), dtype=np.complex128)
    return np.stack(cols, axis=1)


def cnum(z):
    z = complex(z)
    return [A.frac_json(A.to_frac(z.real)), A.frac_json(A.to_frac(z.imag))]


def cmat_json(m):
    return [[cnum(v) for v in row] for row in m]


def cval(p):
    from fractions import Fraction

    return complex(float(Fraction(p[0])), float(Fraction(p[1])))


def cmat(m):
    return np.array([[cval(v) for v in row] for row in m], dtype=np.complex128).reshape(len(m), len(m[0]) if m else 0)


def cclose(a, b, tol=2e-5):
    a, b = np.asarray(a), np.asarray(b)
    return a.shape == b.shape and bool(np.all(np.abs(a - b) <= tol * np.maximum(1.0, np.maximum(np.abs(a), np.abs(b)))))


def names_skel(op):
    jj = A.J()
    core, blocks = jj['core'], jj['blocks']
    name = type(op).__name__
    if isinstance(op, core.CompositionOperator):
        return [name, [names_skel(o) for o in op.operands]]
    if isinstance(op, core.AdditionOperator):
        return [name, [names_skel(o) for o in op.operand_leaves]]
    if isinstance(op, blocks.AbstractBlockOperator):
        return [name, [names_skel(o) for o in op.block_leaves]]
    if hasattr(op, 'operator') and isinstance(op.operator, core.AbstractLinearOperator):
        return [name, [names_skel(op.operator)]]
    return [name, []]


def cprobe(struct, rng, dt):
    """A pytree of Gaussian integers with non-zero imaginary parts (small integers for a real dtype)."""
    jj = A.J()
    jax, jnp = jj['jax'], jj['jnp']
    leaves, treedef = jax.tree.flatten(struct)
    vals = []
    for l in leaves:
        n = int(np.prod(l.shape))
        v = np.array([rng.randint(-3, 3) for _ in range(n)], dtype=np.float64)
        if np.dtype(l.dtype).kind == 'c':
            v = v + 1j * np.array([rng.choice([-2, -1, 1, 2]) for _ in range(n)])
        vals.append(jnp.asarray(v.reshape(l.shape).astype(np.dtype(l.dtype))))
    return jax.tree.unflatten(treedef, vals)


def observe_dtype(case):
    import random

    dt = case['dt']
    env()
    with x64_context(dt):
        ev = cx_env(dt)
        bad = [n for n in list(case['ops']) + list(case.get('ops2') or []) if isinstance(ev[n], A.Unbuildable)]
        if bad:
            return {'build_error': f'{bad[0]}: {ev[bad[0]].error}'}
        e = build_expr(case, ev)
        obs = {'dt': dt, 'skel': names_skel(e), 'in': sstr(e.in_structure()), 'out': sstr(e.out_structure())}

        def part(thunk):
            try:
                op = thunk()
            except Exception as ex:
                name = type(ex).__name__
                return None, {'err': name if name in A.ERRS else f'Other:{name}'}
            o = {'skel': names_skel(op), 'in': sstr(op.in_structure()), 'out': sstr(op.out_structure())}
            try:
                o['mat'] = cmat_json(cdense(op))
            except Exception as ex:
                o['mat'] = None
                o['mat_error'] = f'{type(ex).__name__}: {str(ex)[:200]}'
            return op, o

        try:
            obs['mat'] = cmat_json(cdense(e))
        except Exception as ex:
            obs['mat'] = None
            obs['mat_error'] = f'{type(ex).__name__}: {str(ex)[:200]}'
        eT, obs['T'] = part(lambda: e.T)
        if eT is not None:
            _, obs['TT'] = part(lambda: eT.T)
            if case['ctx'] in ('operand', 'comp', 'sum'):
                # the automatically derived transpose of the same operator (jax.linear_transpose)
                _, obs['auto'] = part(lambda: A.J()['core'].TransposeOperator(e))
            rng = random.Random(case['seed'])
            x = cprobe(e.in_structure(), rng, dt)
            y = cprobe(e.out_structure(), rng, dt)
            try:
                obs['probe'] = [cnum(np.sum(cflat(e.mv(x)) * cflat(y))), cnum(np.sum(cflat(x) * cflat(eT.mv(y))))]
            except Exception as ex:
                obs['probe'] = None
                obs['probe_error'] = f'{type(ex).__name__}: {str(ex)[:200]}'
    case['_unsupported'] = 'dtype stream (implementation-side oracle only)'
    return obs


def oracle_dtype(case, obs):
    if not isinstance(obs, dict) or 'build_error' in obs:
        return None
    oT = obs['T']
    dt = obs['dt']
    if 'err' in oT:
        return f'[{dt}] e.T raised {oT["err"]}'
    if oT['in'] != obs['out'] or oT['out'] != obs['in']:
        return f'[{dt}] structures of e.T are not those of e swapped: e {obs["in"]} -> {obs["out"]}, e.T {oT["in"]} -> {oT["out"]}'
    if obs.get('mat') is None:
        return None
    if oT.get('mat') is None:
        return f'[{dt}] e.T cannot be applied: {oT.get("mat_error")}'
    m, mT = cmat(obs['mat']), cmat(oT['mat'])
    if m.size and not cclose(mT, m.T):
        hint = ' (it is the CONJUGATE transpose)' if cclose(mT, m.conj().T) else ''
        return f'[{dt}] dense matrix of e.T {oT["mat"]} is not the transpose of the dense matrix of e {obs["mat"]}{hint}; entries are [re, im]'
    au = obs.get('auto') or {}
    if au.get('mat') is not None and m.size and not cclose(cmat(au['mat']), m.T):
        return f'[{dt}] jax.linear_transpose of e (TransposeOperator(e)) {au["mat"]} is not the transpose of the dense matrix of e {obs["mat"]}'
    pr = obs.get('probe')
    if pr is None:
        return f'[{dt}] sum((e x) * y) / sum(x * (e.T y)) could not be evaluated: {obs.get("probe_error")}'
    a, b = cval(pr[0]), cval(pr[1])
    if abs(a - b) > 1e-4 * max(1.0, abs(a), abs(b)):
        return f'[{dt}] sum((e x) * y) = {a} differs from sum(x * (e.T y)) = {b} on the Gaussian-integer probe (seed {case["seed"]})'
    oTT = obs.get('TT') or {}
    if 'err' in oTT:
        return f'[{dt}] e.T.T raised {oTT["err"]}'
    if oTT.get('mat') is None:
        return f'[{dt}] e.T.T cannot be applied: {oTT.get("mat_error")}'
    if m.size and not cclose(cmat(oTT['mat']), m):
        return f'[{dt}] e.T.T does not act as e: {oTT["mat"]} vs {obs["mat"]}'
    if oTT['in'] != obs['in'] or oTT['out'] != obs['out']:
        return f'[{dt}] structures of e.T.T differ from those of e'
    return None


# ---------------------------------------------------------------------------------------------
# self-transposing stream: classes whose transpose() returns the operator itself (decorators @symmetric / @diagonal of
# core.py: IdentityOperator, HomothetyOperator, DiagonalOperator, DiagonalInverseOperator, HWPOperator,
# SymmetricBandToeplitzOperator - discovered on every run, see `self_transposing_classes`).  For them "e.T is the exact
# adjoint of e" is a statement about mv ALONE: the matrix that mv applies to the basis vectors must be symmetric for
# EVERY parameterisation of the class.  The descriptions are carried by the case itself (the replay is self-contained):
#   Toeplitz   K in 1..6 x the four methods x (overlap_save) explicit admissible FFT sizes - the minimum 2K-1, 2K, around
#              3(K-1) where the step fft_size-2(K-1) crosses the half band width, half/once/twice the default - x lengths
#              around the multiples of the step, around K and 2K-1, and below K (more bands than samples); batched and
#              broadcast band values; float64 under x64;
#   diagonal   1-d / 2-d values, axis_destination non-negative / negative / a tuple, pytrees with leaves of different
#              rank, Stokes pytrees, zeros and negative entries, and their inverses (DiagonalInverseOperator);
#   identity, scalar, half-wave plate on every Stokes type, user @symmetric classes; and symmetric dense einsum blocks
#   (their transpose is a NEW operator with the same matrix).
# The matrix is measured with ONE jax.jit of the operator's own mv applied to every basis vector (the eager overlap-save
# loop would be re-traced for every column).

TOEPLITZ_BANDS = {1: [3], 2: [3, 1], 3: [2, -1, 3], 4: [4, 3, 2, 1], 5: [1, 2, 0, -1, 2], 6: [6, 5, 4, 3, 2, 1]}
NMAX = 16


def toeplitz_fft_sizes(K):
    """Explicit admissible FFT sizes of the overlap methods (fft_size >= 2K-1), None = the default."""
    b = 2 * K - 1
    default = int(2 ** (1 + np.ceil(np.log2(b))))
    cand = {b, b + 1, 3 * (K - 1) - 1, 3 * (K - 1), 3 * (K - 1) + 1, b + K, default // 2, default, 2 * default}
    return [None] + sorted(f for f in cand if f >= b)


def toeplitz_lengths(K, f):
    """Lengths around the multiples of the overlap-save step, around K / 2K-1 (band wider than the signal) and tiny."""
    b = 2 * K - 1
    s = (f if f is not None else int(2 ** (1 + np.ceil(np.log2(b))))) - 2 * (K - 1)
    cand = {1, 2, 3, K - 1, K, K + 1, b - 1, b, b + 1, s - 1, s, s + 1, 2 * s - 1, 2 * s, 2 * s + 1, 3 * s, 3 * s + 1,
            2 * (K - 1) + s, 2 * (K - 1) + 2 * s, 4 * s + 1, NMAX}
    return sorted(n for n in cand if 1 <= n <= NMAX)


def self_transposing_descriptions(quick, rng):
    out = []
    Ks = [1, 2, 3, 4, 6] if quick else [1, 2, 3, 4, 5, 6]

    def band(K):
        if quick or rng.random() < 0.5:
            return list(TOEPLITZ_BANDS[K])
        return [rng.randint(-3, 4) for _ in range(K - 1)] + [rng.choice([-2, -1, 1, 2, 3])]

    for K in Ks:
        for f in toeplitz_fft_sizes(K):
            ns = toeplitz_lengths(K, f)
            if quick:
                small = [n for n in ns if n < K]
                pick = {ns[-1], ns[len(ns) // 2]} | set(rng.sample(ns, min(2, len(ns)))) | set(small[-1:])
                ns = sorted(pick)
            for n in ns:
                out.append({'k': 'toeplitz', 'band': band(K), 's': [n], 'method': 'overlap_save', 'fft_size': f})
        for method in ('dense', 'direct', 'fft'):
            ns = sorted({1, 2, 3, K - 1, K, K + 1, 2 * K - 1, 2 * K, 9, 12} - {0})
            if quick:
                ns = sorted({n for n in (K - 1, K, 2 * K + 1) if n >= 1} | {rng.choice(ns)})
            for n in ns:
                out.append({'k': 'toeplitz', 'band': band(K), 's': [n], 'method': method})
    # batched / broadcast band values (the operator is block diagonal), every method, smallest and default FFT sizes
    for bandv, s in (([[2, -1, 3], [1, 2, 1]], [2, 7]), ([2, -1, 3], [3, 5]), ([[[2, 1, 1]], [[1, 0, -2]]], [2, 2, 6]),
                     ([[4, 3, 2, 1], [1, -1, 2, 3]], [2, 3])):
        K = np.array(bandv).shape[-1]
        for method, f in (('dense', None), ('direct', None), ('fft', None), ('overlap_save', None), ('overlap_save', 2 * K - 1), ('overlap_save', 2 * K)):
            d = {'k': 'toeplitz', 'band': bandv, 's': s, 'method': method}
            if method == 'overlap_save':
                d['fft_size'] = f
            out.append(d)
    # float64 parameters and structures (jax.enable_x64)
    for method, f, n in (('dense', None, 5), ('direct', None, 3), ('fft', None, 10), ('overlap_save', None, 10), ('overlap_save', 7, 10),
                         ('overlap_save', 8, 11), ('overlap_save', 9, 13)):
        d = {'k': 'toeplitz', 'band': [4, 3, 2, 1], 's': [n], 'method': method, 'dt': 'float64'}
        if method == 'overlap_save':
            d['fft_size'] = f
        out.append(d)
    # diagonal operators and their inverses
    diags = [
        {'v': [1, 2, -4], 's': [3]},
        {'v': [2, 0, -1, 3], 's': [4], 'axis': -1},
        {'v': [1, 2, 4], 'axis': 1, 's': [2, 3]},
        {'v': [2, -1], 'axis': 0, 's': [2, 3]},
        {'v': [2, -1], 'axis': -2, 's': [2, 3]},
        {'v': [[1, 2, 4], [-1, 2, 8]], 'axis': 0, 's': [2, 3]},
        {'v': [[1, 2, 4], [-1, 2, 8]], 'axis': -1, 's': [2, 3]},
        {'v': [[1, 2], [4, -1], [2, 8]], 'axis': [1, 0], 's': [2, 3]},
        {'v': [[1, 2], [4, -1], [2, 8]], 'axis': [-1, -2], 's': [2, 3]},
        {'v': [[1, 2], [4, -2]], 'axis': [0, 2], 's': [2, 3, 2]},
        {'v': [2, -1], 'axis': 0, 's': {'tuple': [[2], [2, 2]]}},
        {'v': [1, 4], 'axis': 0, 's': {'dict': {'tod': [2, 3], 'ground': [2]}}},
        {'v': [1, -2, 4], 'axis': -1, 's': {'list': [[3], [2, 3], [1, 1, 3]]}},
        {'v': [1, 2], 'axis': 0, 's': {'stokes': 'IQU', 'shape': [2]}},
        {'v': [[1, 2, 4], [2, -1, 1]], 'axis': 0, 's': {'stokes': 'QU', 'shape': [2, 3]}},
        {'v': [1, 2, -1], 'axis': -1, 's': {'stokes': 'IQUV', 'shape': [1, 3]}},
        {'v': [1, 2, -4], 's': [3], 'dt': 'float64'},
    ]
    for d in diags:
        out.append({'k': 'diag', **d})
        if all(x != 0 for x in np.array(d['v']).ravel()):
            out.append({'k': 'diag', **d, 'inv': True})
    structs = [[3], [2, 2], {'dict': {'a': [2], 'b': [1, 2]}}, {'tuple': [[2], [[1], [2, 1]]]}, {'stokes': 'IQUV', 'shape': [2]}]
    for s in structs:
        out.append({'k': 'ident', 's': s})
        out.append({'k': 'homoth', 'v': rng.choice([-2, 3, 0.5]), 's': s})
    for st in ('I', 'QU', 'IQU', 'IQUV'):
        for shape in ([2], [1, 2], []):
            out.append({'k': 'hwp', 'stokes': st, 'shape': shape})
    out.append({'k': 'user', 'sym': True, 'm': [[1, 2, 0], [2, -1, 3], [0, 3, 2]], 's': {'tuple': [[1], [2]]}})
    out.append({'k': 'user', 'sym': True, 'm': [[0, 1], [1, 0]], 's': [2]})
    # symmetric dense blocks (einsum operator: the transpose is a new operator with the same matrix)
    out.append({'k': 'einsum', 'b': [[1, 2, 0], [2, -1, 3], [0, 3, 2]], 's': [3], 'sub': 'ij,j->i'})
    out.append({'k': 'einsum', 'b': [[[1, 2], [2, 3]], [[0, -1], [-1, 4]]], 's': [2, 2], 'sub': 'hij,hj->hi'})
    out.append({'k': 'einsum', 'b': [[2, 1], [1, 3]], 's': [2, 3], 'sub': None})
    return out


def self_context(d):
    import contextlib

    return A.J()['jax'].enable_x64(True) if d.get('dt') == 'float64' else contextlib.nullcontext()


def build_self(d):
    """Operator of a self-transposing description (to be called inside self_context(d))."""
    j = A.J()
    jax, jnp = j['jax'], j['jnp']
    k, dt = d['k'], d.get('dt', 'float32')
    if k == 'toeplitz':
        kw = {'method': d['method']}
        if d.get('fft_size') is not None:
            kw['fft_size'] = d['fft_size']
        return j['toeplitz'].SymmetricBandToeplitzOperator(
            jnp.asarray(np.array(d['band'], dtype=dt)), jax.ShapeDtypeStruct(tuple(d['s']), np.dtype(dt)), **kw)
    if k == 'diag':
        axis = d.get('axis', 0)
        op = j['diagonal'].DiagonalOperator(
            jnp.asarray(np.array(d['v'], dtype=dt)), axis_destination=axis if isinstance(axis, int) else tuple(axis), in_structure=struct_dt(d['s'], dt))
        return op.inverse() if d.get('inv') else op
    return build_operand(d, {})


def measure(op):
    """Matrix of the operator: its own mv (one jax.jit) applied to every basis vector of the flattened input space."""
    f = A.J()['jax'].jit(lambda x: op.mv(x))  # (a bound method of an equinox module is not hashable)
    cols = [A.flat(f(x)) for x in A.basis_inputs(op.in_structure())]
    if not cols:
        return np.zeros((A.struct_size(op.out_structure()), 0)), f
    return np.stack(cols, axis=1), f


def returns_self(cls) -> bool:
    """transpose() of the class is `return self` (the lambda installed by core.symmetric or a hand-written one)."""
    code = getattr(getattr(cls, 'transpose', None), '__code__', None)
    return code is not None and code.co_argcount == 1 and code.co_code == (lambda self: self).__code__.co_code


def self_transposing_classes():
    """Concrete operator classes of the furax package whose transpose() returns the operator itself or that are tagged
    symmetric for lineax (every module of the package that can be imported is imported first)."""
    import importlib
    import inspect
    import pkgutil

    import furax
    import lineax as lx

    for m in pkgutil.walk_packages(furax.__path__, 'furax.'):
        try:
            importlib.import_module(m.name)
        except Exception:
            pass
    seen: set = set()

    def walk(c):
        for s in c.__subclasses__():
            if s not in seen:
                seen.add(s)
                walk(s)

    walk(A.J()['core'].AbstractLinearOperator)
    found = []
    for c in seen:
        if not (c.__module__ or '').startswith('furax.') or inspect.isabstract(c) or c.__name__.startswith('Abstract'):
            continue
        tagged = False
        try:
            tagged = 'True' in inspect.getsource(lx.is_symmetric.dispatch(c))
        except Exception:
            pass
        if returns_self(c) or tagged:
            found.append(c.__name__)
    return sorted(found)


def observe_self(case):
    """Same observation as Check.run_impl for a single operand, from ONE jitted measurement per distinct object."""
    import random

    import lineax as lx

    d = case['d']
    with self_context(d):
        e = build_self(d)
        enc = A.Encoder()
        i = enc.oid(e)
        obs = {'cls': type(e).__name__, 'in': A.struct_repr(e.in_structure()), 'out': A.struct_repr(e.out_structure())}
        try:
            obs['tagged_symmetric'] = bool(lx.is_symmetric(e))
        except Exception:
            obs['tagged_symmetric'] = None
        done: list = []  # (object, matrix, jitted mv)

        def mat_of(op):
            for o, m, f in done:
                if o is op:
                    return m, f
            m, f = measure(op)
            done.append((op, m, f))
            return m, f

        def with_matrix(o, op):
            try:
                o['mat'] = A.mat_json(A.frac_matrix(mat_of(op)[0]))
            except Exception as ex:
                o['mat'] = None
                o['mat_error'] = f'{type(ex).__name__}: {str(ex)[:200]}'

        with_matrix(obs, e)
        if obs['mat'] is not None:
            enc.table[2 * i] = A.frac_matrix(done[0][1])  # the model's table of the leaf: the same measurement
        try:
            term = enc.term(e)
        except Exception as ex:  # (the encoder measures operands of wrappers itself: an mv that raises ends up here)
            term = None
            enc.unsupported = f'operator cannot be encoded: {type(ex).__name__}'
        if obs['mat'] is None:
            enc.unsupported = 'mv cannot be applied to the basis vectors'
        if type(e).__name__ == 'DenseBlockDiagonalOperator':
            try:
                enc.table[2 * i + 1] = A.frac_matrix(mat_of(e.T)[0])
            except Exception:
                pass
        if type(e).__name__ == 'SymAtom':
            enc.unsupported = 'user-defined @symmetric class'
        if d.get('dt') == 'float64':
            enc.unsupported = 'float64 structures (x64): implementation-side oracle only'
        oT = A.observe_impl(lambda: e.T, enc, want_matrix=False)
        eT = oT.pop('_op', None)
        obs['T'] = oT
        if eT is not None:
            obs['T_is_e'] = eT is e
            with_matrix(oT, eT)
            oTT = A.observe_impl(lambda: eT.T, enc, want_matrix=False)
            eTT = oTT.pop('_op', None)
            if eTT is not None:
                with_matrix(oTT, eTT)
            obs['TT'] = oTT
            obs['TT_is_e'] = oTT.get('skel', [None, 0])[1] != 0 and oTT['skel'][1] == enc.known(e)
            rng = random.Random(case['seed'])
            x = probe_values(e.in_structure(), rng)
            y = probe_values(e.out_structure(), rng)
            try:
                fe, fT = mat_of(e)[1], mat_of(eT)[1]
                # (float32 FFT / overlap-save kernels are exact only to ~2e-5 relative on these probes: snap with the
                # oracle's own tolerance 1e-4 - false alarm of the thorough sweep, K=4, n=6, fft_size=7)
                obs['probe'] = [A.frac_json(A.to_frac(inner(fe(x), y), tol=1e-4)), A.frac_json(A.to_frac(inner(x, fT(y)), tol=1e-4))]
            except Exception as ex:
                obs['probe'] = None
                obs['probe_error'] = f'{type(ex).__name__}: {str(ex)[:200]}'
            case['_x'] = value_coq(x)
            case['_y'] = value_coq(y)
        if term is not None:
            case['_term'] = term
        case['_table'] = enc.table_coq()
        case['_ptable'] = clist([], str)
        case['_unsupported'] = enc.unsupported
    return obs


def asymmetry(mat):
    """First pair of entries M[i][j] != M[j][i] of a JSON matrix (None if it is symmetric / not square)."""
    from fractions import Fraction

    n = len(mat)
    if any(len(r) != n for r in mat):
        return None
    for i in range(n):
        for jj in range(i + 1, n):
            a, b = float(Fraction(mat[i][jj])), float(Fraction(mat[jj][i]))
            if abs(a - b) > 1e-4 * max(1.0, abs(a), abs(b)):
                return i, jj, mat[i][jj], mat[jj][i]
    return None


# the decidable hypotheses of Props/C03Mat.v harness_transpose_matrix / harness_transpose_involutive_matrix /
# harness_transpose_observe, as terms over the let-bound tb, pt, e of `model_term`
HYP_NAMES = ['wfo e', 'sym_square e', 'table_okb tb e', 'ptable_okb pt e', 'transposeT_okb tb pt e', 'transposeT_okb tb pt (x_transpose e)']
HYP_TERMS = list(HYP_NAMES)


class Check(PropertyCheck):
    id = 'C03'
    props = ['C03.v', 'C03Mat.v']
    static_targets = ['theories/Model/Exec.vo', 'theories/Lemmas/TransposeExecL.vo', 'theories/Lemmas/ExecFactsL.vo',
                      'theories/Lemmas/TransposeMatL.vo']
    coq_header = A.COQ_HEADER + 'From Furax Require Import Model.Wf Model.Adjoint Lemmas.ExecFactsL Lemmas.TransposeMatL.\n'
    shard = 60
    workers = 8
    partial = (
        'the matrix form "mat(e.T) = mat(e)^T" is a theorem for the executable semantics that the harness runs (Props/C03Mat.v '
        'harness_transpose_matrix / harness_transpose_involutive_matrix / harness_transpose_observe, for an arbitrary table of measured '
        'matrices) under decidable hypotheses - wfo, sym_square, table_okb, ptable_okb, transposeT_okb of e and of e.T - that are evaluated '
        'by vm_compute on every model-compared case (a false one is reported as a disagreement with the concrete case); for ABSTRACT leaf '
        'semantics it remains transpose_adjoint at the basis vectors (totality of the denotation on inputs of the declared structure is not '
        'proved for abstract leaves); the oracle checks it on every case.  transpose_involutive is proved for wrappers as `.T` creates them (guard `canonical`) under the named '
        'assumption that re-created objects act through their data (`oid_facts`); for the generic lazy TransposeOperator of opaque operators '
        'adjointness is the trusted behaviour of jax.linear_transpose (`af_linear_transpose`), validated numerically here'
    )
    trusted = [
        'the adjointness theorem quantifies over arbitrary leaf semantics satisfying Model/Adjoint.v `adj_facts`: the operator that '
        'transpose() returns for a LEAF acts as the adjoint of the leaf.  For the generic lazy TransposeOperator this is what '
        'jax.linear_transpose provides (trusted; validated here on every operand: dense(e.T) == dense(e).T); for the table-free '
        'classes (QU rotation and its transpose, HWP, 1-d diagonal, identity, scalar) and for table-backed leaves whose '
        'transposes the model derives with transpose_m the facts are proved for the executable semantics (Lemmas/TransposeExecL.v)',
        'leaf operators act in the executable model through dense matrices measured on the real objects (table keyed by object id; '
        'the einsum operator / move-axis operator re-created by transpose() are keyed by 2*id+1 / by their parameters and measured '
        'on the real `.T` object); element-level adjointness of einsum, move-axis, reshape, index, rotation, Toeplitz is C14, C13, C12, C15, C09',
        'object identity (`is`) is modelled by harness-assigned object ids; objects created by transpose() get id 0',
        'float32 arithmetic of the implementation is compared with exact rationals after rounding measured entries to rationals '
        'with denominator <= 4096 (exact for the integer/dyadic inputs used); tolerance 1e-4 on matrices and inner products',
        'transposes of expressions containing the iterative-solver InverseOperator are outside the property (guard `no_inverse`): '
        'only the skeleton and structures of their `.T` are compared',
        'implementation-side oracle only (no model counterpart; reference: NumPy transposition of the matrix measured through mv on '
        'basis vectors, the bilinear identity sum((e x) * y) == sum(x * (e.T y)) on a Gaussian-integer probe, and jax.linear_transpose '
        'of the same operator): (a) the dtype stream - complex64, and under jax.enable_x64 complex128 / float64, parameters and '
        'structures (the Coq model is over the rationals); (b) expressions containing a user-defined class decorated @symmetric '
        '(Model/Op.v has one user class, CAtom, whose transpose is the lazy wrapper).  Operators with complex parameters on REAL input '
        'structures are not generated: their transpose is declared on complex structures (dtype promotion), so the structures are '
        'not exactly swapped; complex band values with the FFT-based Toeplitz methods are not generated either (the real FFT drops '
        'the imaginary part already in mv: not a statement about .T)',
        'self-transposing stream: the matrix of an operator is measured with one jax.jit of its own mv applied to every basis vector '
        '(the eager overlap-save loop is re-traced per call); that matrix is also the leaf table handed to the model, so for a class '
        'returning itself the model comparison ties transpose() (skeleton, structures, identity of e.T and e.T.T) while the symmetry '
        'of mv itself is established by the implementation-side oracle only; whether mv is the RIGHT symmetric matrix (the band '
        'Toeplitz kernels) is C09; float64 (x64) and user @symmetric cases of the stream are implementation-side only',
    ]

    # -- cases ---------------------------------------------------------------------------------
    def cases(self):
        quick = self.tier == 'quick'
        rng = self.rng
        e = env()
        t = typed()
        self.stats['unbuildable_operands'] = {n: o.error for n, o in e.items() if isinstance(o, A.Unbuildable)}
        ok = [n for n in t if not contains_inverse(e[n])]
        inv = [n for n in t if contains_inverse(e[n])]
        out = []
        for n in sorted(ok):
            out.append({'kind': 'operand', 'name': n, 'seed': rng.randrange(10**6)})
        for n in sorted(inv):
            out.append({'kind': 'inverse-skeleton', 'name': n, 'seed': 0})
        by_type: dict = {}
        # chains over the extended alphabet (type-compatible, no iterative inverse)
        names = sorted(ok)
        by_out: dict = {}
        for n in names:
            by_out.setdefault(t[n][1], []).append(n)
        chains = []

        def extend(ch, maxlen):
            if len(ch) >= 2:
                chains.append(list(ch))
            if len(ch) >= maxlen:
                return
            for n in by_out.get(t[ch[-1]][0], []):
                ch.append(n)
                extend(ch, maxlen)
                ch.pop()

        for n in names:
            extend([n], 2)
        c3 = []
        for ch in chains:
            for n in by_out.get(t[ch[-1]][0], []):
                c3.append(ch + [n])
        rng.shuffle(c3)
        chains3 = c3[: 150 if quick else 800]
        rng.shuffle(chains)
        self.stats['chains_available'] = {'len2': len(chains), 'len3': len(c3)}
        for ch in chains + chains3:
            by_type.setdefault((t[ch[-1]][0], t[ch[0]][1]), []).append(ch)
        for n in names:
            by_type.setdefault(t[n], []).append([n])
        picked2 = chains[:260] if quick else chains  # thorough: every type-compatible pair
        picked = picked2 + chains3
        seen = set()

        def add(ch, ctx, ops2=None):
            if ops2 is None and ctx in ('sum', 'sumdict', 'blockdiag-nested', 'blockcol-dict', 'blockrow-tuple'):
                cands = by_type.get((t[ch[-1]][0], t[ch[0]][1]), [ch])
                ops2 = rng.choice(cands)
            if ctx == 'blockcol-dict' and ops2 is not None and t[ops2[-1]][0] != t[ch[-1]][0]:
                ops2 = None
            k = (tuple(ch), ctx, tuple(ops2 or ()))
            if k in seen:
                return
            seen.add(k)
            c = {'kind': 'composite', 'ops': list(ch), 'ctx': ctx, 'seed': rng.randrange(10**6)}
            if ops2:
                c['ops2'] = list(ops2)
            out.append(c)

        for ch in picked:
            add(ch, 'comp')
        for i, ch in enumerate(picked):
            every = not quick and len(ch) == 3
            for ctx in (CONTEXTS[1:] if every else [CONTEXTS[1 + (i % (len(CONTEXTS) - 1))]]):
                add(ch, ctx)
        # every single operand in every container context (thorough) / two contexts (quick)
        for i, n in enumerate(names):
            ctxs = [c for c in CONTEXTS if c not in ('comp', 'matmul', 'nested')]
            for ctx in (ctxs if not quick else [ctxs[i % len(ctxs)], ctxs[(i + 3) % len(ctxs)]]):
                add([n], ctx)

        # ---- shortcut-sensitive stream (both tiers, every context) ------------------------------------
        # Operand combinations on which an algebraic shortcut of transpose() would be WRONG:
        # (1) chains of 2-3 operands that are ALL tagged symmetric (lx.is_symmetric: transpose() returns self) and do
        #     not commute, so that (AB)^T = BA differs from AB - in every context (bare, @, nested, inside sums and
        #     blocks, under a lazy transpose); commuting all-symmetric chains once (bare);
        # (2) X @ X for every square operand that is not tagged symmetric ((XX)^T = X^T X^T);
        # (3) sums and blocks mixing one tagged-symmetric and one other operand, in both orders.
        import lineax as lx

        sym = [n for n in names if lx.is_symmetric(e[n])]
        mats = {n: measured(A.dense, e[n]) for n in sym}
        sym_by_type: dict = {}
        for n in sym:
            sym_by_type.setdefault(t[n], []).append(n)

        def commute(a, b):
            if mats[a] is None or mats[b] is None:
                return False
            return np.array_equal(mats[a] @ mats[b], mats[b] @ mats[a])

        nc2, c2 = [], []
        for group in sym_by_type.values():
            for a in group:
                for b in group:
                    (c2 if commute(a, b) else nc2).append([a, b])
        nc3 = []
        for group in sym_by_type.values():
            for a in group:
                for b in group:
                    for c in group:
                        if any(mats[x] is None for x in (a, b, c)):
                            continue
                        m = mats[a] @ mats[b] @ mats[c]
                        if not np.array_equal(m, m.T):
                            nc3.append([a, b, c])
        rng.shuffle(nc3)
        rng.shuffle(c2)
        self.stats['all_symmetric_chains'] = {
            'tagged_symmetric_operands': len(sym), 'len2_noncommuting': len(nc2), 'len2_commuting': len(c2), 'len3_not_symmetric': len(nc3),
        }
        for i, ch in enumerate(nc2):
            rest = CONTEXTS[1:]
            for ctx in (CONTEXTS if not quick else ['comp'] + [rest[(3 * i + d) % len(rest)] for d in range(3)]):
                add(ch, ctx)
        for ch in c2[: 30 if quick else len(c2)]:
            add(ch, 'comp')
        for i, ch in enumerate(nc3[: 45 if quick else 400]):
            add(ch, 'comp')
            add(ch, CONTEXTS[1 + (i % (len(CONTEXTS) - 1))])
        square_ns = [n for n in names if t[n][0] == t[n][1] and n not in sym]
        for i, n in enumerate(square_ns):
            add([n, n], 'comp')
            if not quick:
                add([n, n, n], 'matmul')
        nonsym_by_type: dict = {}
        for n in names:
            if n not in sym:
                nonsym_by_type.setdefault(t[n], []).append(n)
        # (2') palindromic chains X @ Y @ X (their operand list read backwards is the same list)
        pal = [[n, p, n] for n in square_ns for p in nonsym_by_type.get(t[n], []) + sym_by_type.get(t[n], []) if p != n]
        rng.shuffle(pal)
        for ch in pal[: 30 if quick else 300]:
            add(ch, 'comp')
        mixed_ctx = ('sum', 'sumdict', 'blockdiag-nested', 'blockcol-dict', 'blockrow-tuple')
        k = 0
        for n in sym:
            partners = list(nonsym_by_type.get(t[n], []))
            rng.shuffle(partners)
            for p in partners[: 1 if quick else 6]:
                for a, b in ((n, p), (p, n)):
                    for ctx in ([mixed_ctx[k % len(mixed_ctx)]] if quick else mixed_ctx):
                        add([a], ctx, [b])
                        k += 1
        self.dtype_cases(out, quick, rng)
        self.self_cases(out, quick, rng)
        return out

    def self_cases(self, out, quick, rng):
        """The self-transposing stream (see `self_transposing_descriptions`): one case per description."""
        seen = set()
        classes: dict = {}
        for d in self_transposing_descriptions(quick, rng):
            k = json.dumps(d, sort_keys=True)
            if k in seen:
                continue
            seen.add(k)
            out.append({'kind': 'selfT', 'd': d, 'seed': rng.randrange(10**6)})
            key = d['k'] + ('/' + d['method'] + ('' if d.get('fft_size') is None else '/explicit-fft-size') if d['k'] == 'toeplitz' else '') + ('/inverse' if d.get('inv') else '')
            classes[key] = classes.get(key, 0) + 1
        self.stats['self_transposing_stream'] = classes
        self._self_descs = [c['d'] for c in out if c['kind'] == 'selfT']

    def dtype_cases(self, out, quick, rng):
        """The dtype stream (see CX): every operand, type-compatible chains of 2-3 operands in rotating contexts, and
        every non-commuting all-symmetric pair in every context; complex64 in full, complex128 / float64 (x64) sampled."""
        import lineax as lx

        budget = {'complex64': (80, 20), 'complex128': (25, 8), 'float64': (15, 5)} if quick else {'complex64': (10**6, 300), 'complex128': (300, 100), 'float64': (200, 60)}
        bad = {}
        nc2 = None
        for dt in DTS:
            t = cx_typed(dt)
            ev = _cx_env[dt]
            bad.update({f'{n}[{dt}]': ev[n].error for n in CX if isinstance(ev[n], A.Unbuildable)})
            names = sorted(t)
            seen = set()

            def add(ch, ctx, ops2=None):
                if ops2 is None and ctx in ('sum', 'sumdict', 'blockdiag-nested', 'blockcol-dict', 'blockrow-tuple'):
                    cands = [[n] for n in names if t[n] == (t[ch[-1]][0], t[ch[0]][1])] or [ch]
                    ops2 = rng.choice(cands)
                k = (tuple(ch), ctx, tuple(ops2 or ()))
                if k in seen:
                    return
                seen.add(k)
                c = {'kind': 'dtype', 'dt': dt, 'ops': list(ch), 'ctx': ctx, 'seed': rng.randrange(10**6)}
                if ops2:
                    c['ops2'] = list(ops2)
                out.append(c)

            for n in names:
                add([n], 'operand')
            by_out: dict = {}
            for n in names:
                by_out.setdefault(t[n][1], []).append(n)
            pairs = [[a, b] for a in names for b in by_out.get(t[a][0], [])]
            triples = [[a, b, c] for a, b in pairs for c in by_out.get(t[b][0], [])]
            rng.shuffle(pairs)
            rng.shuffle(triples)
            if nc2 is None:  # measured once (complex64); a pair that commutes for another dtype only adds a case
                sym = [n for n in names if lx.is_symmetric(ev[n])]
                mats = {n: measured(cdense, ev[n]) for n in sym}
                nc2 = [[a, b] for a in sym for b in sym if t[a] == t[b]
                       and (mats[a] is None or mats[b] is None or not np.array_equal(mats[a] @ mats[b], mats[b] @ mats[a]))]
            self.stats.setdefault('dtype_stream', {})[dt] = {
                'operands': len(names), 'pairs': len(pairs), 'triples': len(triples), 'all_symmetric_noncommuting_pairs': len(nc2),
            }
            n2, n3 = budget[dt]
            for i, ch in enumerate(pairs[:n2]):
                if not quick or dt == 'complex64':
                    add(ch, 'comp')
                add(ch, CONTEXTS[1 + (i % (len(CONTEXTS) - 1))])
            for i, ch in enumerate(triples[:n3]):
                add(ch, CONTEXTS[i % len(CONTEXTS)])
            for i, ch in enumerate(nc2):
                rest = CONTEXTS[1:]
                some = ['comp'] + [rest[(4 * i + d) % len(rest)] for d in range(4 if dt == 'complex64' else 1)]
                for ctx in (CONTEXTS if not quick else some):
                    add(ch, ctx)
            ctxs = [c for c in CONTEXTS if c not in ('comp', 'matmul', 'nested')]
            for i, n in enumerate(names):
                for ctx in (ctxs if not quick else [ctxs[i % len(ctxs)]] if dt != 'complex64' else [ctxs[i % len(ctxs)], ctxs[(i + 3) % len(ctxs)]]):
                    add([n], ctx)
        if bad:
            self.stats['unbuildable_operands'] = {**(self.stats.get('unbuildable_operands') or {}), **bad}

    def search_cases(self):
        # wider stream for the failing-input search (bounded: it runs in one process)
        if self.tier != 'quick':
            return []
        other = type(self)('thorough', self.seed + 1).cases()
        self.rng.shuffle(other)
        return other[:400]

    def extra(self):
        bad = self.stats.get('unbuildable_operands') or {}
        if bad:
            raise RuntimeError(f'operands of the alphabet cannot be constructed on this tree: {bad}')
        # the generators must keep producing the inputs on which a shortcut of transpose() is wrong
        a = self.stats.get('all_symmetric_chains') or {}
        d = (self.stats.get('dtype_stream') or {}).get('complex64') or {}
        if a.get('len2_noncommuting', 0) < 20 or a.get('len3_not_symmetric', 0) < 45 or d.get('all_symmetric_noncommuting_pairs', 0) < 8:
            raise RuntimeError(f'the alphabet lost its non-commuting all-symmetric chains: {a} {d}')
        # every class of the package whose transpose() returns the operator itself (or that is tagged symmetric) must be
        # exercised by the self-transposing stream: a new such class without descriptions fails the run
        found = self_transposing_classes()
        covered = set()
        for dd in getattr(self, '_self_descs', []):
            with self_context(dd):
                covered.add(type(build_self(dd)).__name__)
        missing = [c for c in found if c not in covered]
        if missing or len(found) < 6:
            raise RuntimeError(f'self-transposing classes of the package {found}; without a case in the self-transposing stream: {missing}')
        return {'self_transposing_classes': found}

    def distribution(self, cases):
        d = {}
        for c in cases:
            k = c['kind'] + ('/' + c['ctx'] + f"/len{len(c['ops'])}" if c['kind'] == 'composite' else '')
            if c['kind'] == 'dtype':
                k = f"dtype/{c['dt']}/" + ('operand' if c['ctx'] == 'operand' else f"{c['ctx']}/len{len(c['ops'])}")
            if c['kind'] == 'selfT':
                k = 'selfT/' + c['d']['k'] + ('/' + c['d']['method'] if c['d']['k'] == 'toeplitz' else '')
            d[k] = d.get(k, 0) + 1
        return d

    def rule(self):
        return (
            'every operand of the ~160-operand alphabet (shared alphabet + einsum subscripts incl. repeated letters, move-axis with '
            'negative/multiple axes and pytrees, ravel/reshape variants, index with repeated/rank-2/int/strided/mask entries, pack, '
            'diagonal family, batched Toeplitz, Toast observation matrix, explicit lazy transposes of primitives and composites, '
            'block operators over list/tuple/dict/nested containers, sums over containers), type-compatible chains of length 2 '
            '(all in thorough, 260 in quick) and 3 (sampled), each placed in composition / @ / nested composition / sum / block row, column, '
            'diagonal over several containers / under an explicit lazy TransposeOperator.  Plus (both tiers): every non-commuting '
            'chain of 2 (sampled: 3) operands that are ALL tagged symmetric (Toeplitz K>=2, diagonals with distinct entries, user '
            '@symmetric non-diagonal classes, HWP) in several/all contexts, X@X for every square untagged operand, palindromes X@Y@X, '
            'sums and blocks mixing tagged-symmetric and other operands; and a dtype stream (implementation-side oracle only) of 56 '
            'operands with complex64 / complex128 / float64 (x64) parameters and structures (einsum blocks incl. pytrees of blocks, '
            'diagonal and broadcast-diagonal values, scalars, Toeplitz bands, user matrices, index/axes/polarimetry operators on '
            'complex inputs), their chains and containers, compared as the PLAIN transpose on Gaussian-integer values; and a '
            'self-transposing stream (~300 cases in quick) over the parameter space of every class whose transpose() returns the '
            'operator itself: band Toeplitz K=1..6 x dense/direct/fft/overlap_save x explicit FFT sizes (2K-1, 2K, around 3(K-1), '
            'half/once/twice the default) x lengths around the multiples of the step, around K and 2K-1 and below K, batched/broadcast '
            'bands, float64; diagonal operators (1-d/2-d values, non-negative/negative/tuple axes, pytrees, Stokes) and their inverses; '
            'identity, scalar, half-wave plate on I/QU/IQU/IQUV; user @symmetric classes; symmetric einsum blocks - oracle: the matrix '
            'of mv on the basis vectors is symmetric.  '
            'Non-trivial: e.T is not the default lazy wrapper.'
        )

    # -- implementation ----------------------------------------------------------------------------
    def run_impl(self, case):
        import random

        if case['kind'] == 'dtype':
            return observe_dtype(case)
        if case['kind'] == 'selfT':
            return observe_self(case)
        e_env = env()
        e = build_expr(case, e_env)  # the generator only emits well-typed expressions: a failure here is reported
        enc = A.Encoder()
        term = enc.term(e)
        j = A.J()
        # tables for what transpose() re-creates / wraps
        ptable = []
        for leaf in leaves_of(e, []):
            name = type(leaf).__name__
            i = enc.known(leaf)
            if name == 'DenseBlockDiagonalOperator':
                try:
                    enc.table[2 * i + 1] = A.frac_matrix(A.dense(leaf.T))
                except Exception:
                    pass
            elif name == 'MoveAxisOperator':
                try:
                    lt = leaf.T
                    par = f'(PAxes {clist(leaf.destination, A.cz)} {clist(leaf.source, A.cz)})'
                    m = A.frac_matrix(A.dense(lt))
                    ptable.append(f'({par}, {A.struct_coq(leaf.out_structure())}, {clist(m, lambda r: clist(r, A.cqc))})')
                    # ... and by .T.T (a third object with the parameters of the first)
                    par = f'(PAxes {clist(leaf.source, A.cz)} {clist(leaf.destination, A.cz)})'
                    m = A.frac_matrix(A.dense(lt.T))
                    ptable.append(f'({par}, {A.struct_coq(leaf.in_structure())}, {clist(m, lambda r: clist(r, A.cqc))})')
                except Exception:
                    pass
            elif name == 'LinearPolarizerOperator':
                enc.add_table(2 * i, leaf)
            elif name == 'SymAtom':
                # a user class decorated @symmetric has no counterpart in Model/Op.v (CAtom transposes lazily):
                # implementation-side oracle only
                enc.unsupported = 'user-defined @symmetric class'
        inverse = case['kind'] == 'inverse-skeleton'
        obs = {}
        oT = A.observe_impl(lambda: e.T, enc, want_matrix=not inverse)
        eT = oT.pop('_op', None)
        obs['T'] = oT
        obs['in'] = A.struct_repr(e.in_structure())
        obs['out'] = A.struct_repr(e.out_structure())
        if not inverse:
            try:
                obs['mat'] = A.mat_json(A.frac_matrix(A.dense(e)))
            except Exception as ex:
                obs['mat'] = None
                obs['mat_error'] = f'{type(ex).__name__}: {str(ex)[:200]}'
            if eT is not None:
                oTT = A.observe_impl(lambda: eT.T, enc)
                oTT.pop('_op', None)
                obs['TT'] = oTT
                obs['TT_is_e'] = oTT.get('skel', [None, 0])[1] != 0 and oTT['skel'][1] == enc.known(e)
                rng = random.Random(case['seed'])
                x = probe_values(e.in_structure(), rng)
                y = probe_values(e.out_structure(), rng)
                try:
                    obs['probe'] = [A.frac_json(A.to_frac(inner(e.mv(x), y), tol=1e-4)), A.frac_json(A.to_frac(inner(x, eT.mv(y)), tol=1e-4))]
                except Exception as ex:
                    obs['probe'] = None
                    obs['probe_error'] = f'{type(ex).__name__}: {str(ex)[:200]}'
                case['_x'] = value_coq(x)
                case['_y'] = value_coq(y)
        case['_term'] = term
        case['_table'] = enc.table_coq()
        case['_ptable'] = clist(ptable, str)
        case['_unsupported'] = enc.unsupported
        return obs

    # -- model -----------------------------------------------------------------------------------
    def model_term(self, case):
        if case.get('_unsupported') or '_term' not in case:
            return None
        tb, pt, tm = case['_table'], case['_ptable'], case['_term']
        if case['kind'] == 'inverse-skeleton':
            return f'(wfo {tm}, no_inverse {tm}, observeT [] [] (x_transpose {tm}))'
        if '_x' not in case:
            return None
        # ... together with the decidable HYPOTHESES of the matrix-form theorems of Props/C03Mat.v (harness_transpose_matrix,
        # harness_transpose_involutive_matrix, harness_transpose_observe), evaluated on this very expression and tables
        hyps = '; '.join(f'{h}' for h in HYP_TERMS)
        return (f'(let tb : table := {tb} in let pt : ptable := {pt} in let e : xop := {tm} in '
                f'(observe_transpose tb pt e {case["_x"]} {case["_y"]}, [{hyps}]))')

    def decode(self, case, v):
        if case['kind'] == 'inverse-skeleton':
            wf, guard, o = v
            d = A.decode_observation(o)
            return {'wf': wf, 'guard': guard, 'T': {k: d[k] for k in ('skel', 'in', 'out')}}
        wf, guard, sq, oT, oTT, probe, hyps = v
        pr = None
        if probe[0] is not None and probe[1] is not None:
            pr = [A.frac_json(_frac(probe[0])), A.frac_json(_frac(probe[1]))]
        return {'wf': wf, 'guard': guard, 'T': A.decode_observation(oT), 'TT': A.decode_observation(oTT), 'probe': pr,
                'C03Mat_hypotheses': dict(zip(HYP_NAMES, hyps))}

    def comparable(self, case, obs):
        if not isinstance(obs, dict) or 'T' not in obs:
            return obs

        def part(o, keys=('skel', 'in', 'out', 'mat')):
            if 'err' in o:
                return {'err': o['err']}
            return {k: o.get(k) for k in keys}

        if case['kind'] == 'inverse-skeleton':
            return {'wf': True, 'guard': False, 'T': part(obs['T'], ('skel', 'in', 'out'))}
        # (the hypotheses of the matrix-form theorems are expected to hold on every real case: a false one is a disagreement)
        return {'wf': True, 'guard': True, 'T': part(obs['T']), 'TT': part(obs.get('TT', {})), 'probe': obs.get('probe'),
                'C03Mat_hypotheses': {h: True for h in HYP_NAMES}}

    def nontrivial(self, case, obs):
        if not isinstance(obs, dict) or 'T' not in obs:
            return False
        sk = obs['T'].get('skel')
        return bool(sk) and sk[0] != 'TransposeOperator'

    def finding_key(self, case, obs):
        return None

    def shrink(self, case, failing, depth=0):
        """Smallest failing part: an operand of the composite / a block of the container that fails alone."""
        import lib

        if depth > 4:
            return case
        names = []
        if case['kind'] == 'dtype':
            parts = list(case['ops']) + list(case.get('ops2') or [])
            if case['ctx'] == 'operand':
                d = CX.get(case['ops'][0], {})
                parts = sorted(cx_names(d.get('blocks') or d.get('ops') or d.get('of') or d.get('e') or []))
            for n in dict.fromkeys(parts):
                if [n] == case['ops']:
                    continue
                c = {'kind': 'dtype', 'dt': case['dt'], 'ops': [n], 'ctx': 'operand', 'seed': case['seed']}
                try:
                    if self.oracle(c, lib.canon(self.run_impl(c))):
                        return lib.pub(c)
                except Exception:
                    continue
            return lib.pub(case)
        if case['kind'] == 'composite':
            names = list(case['ops']) + list(case.get('ops2') or [])
        elif case['kind'] == 'operand':
            names = sorted(G.used_names(LET.get(case['name'], {}).get('blocks') or LET.get(case['name'], {}).get('ops')
                                        or LET.get(case['name'], {}).get('of') or LET.get(case['name'], {}).get('e') or []))
        t = typed()
        for n in dict.fromkeys(names):
            if n not in t or n == case.get('name') or contains_inverse(env()[n]):
                continue
            c = {'kind': 'operand', 'name': n, 'seed': case['seed']}
            try:
                obs = lib.canon(self.run_impl(c))
                if self.oracle(c, obs):
                    return self.shrink(lib.pub(c), failing, depth + 1)
            except Exception:
                continue
        return lib.pub(case)

    # -- oracle -----------------------------------------------------------------------------------
    def oracle(self, case, obs):
        if case['kind'] == 'dtype':
            return oracle_dtype(case, obs)
        if not isinstance(obs, dict) or 'build_error' in obs:
            return None
        oT = obs['T']
        if 'err' in oT:
            return f'e.T raised {oT["err"]}'
        if oT['in'] != obs['out'] or oT['out'] != obs['in']:
            return f'structures of e.T are not those of e swapped: e {obs["in"]} -> {obs["out"]}, e.T {oT["in"]} -> {oT["out"]}'
        if case['kind'] == 'inverse-skeleton':
            return None
        if obs.get('mat') is None:
            return None  # the expression itself cannot be applied: not a statement about .T
        if oT.get('mat') is None:
            return f'e.T cannot be applied: {oT.get("mat_error")}'
        want = [list(r) for r in zip(*obs['mat'])] if obs['mat'] and obs['mat'][0] else oT['mat']
        if case['kind'] == 'selfT' and obs.get('T_is_e'):
            # the class returns the operator itself as its transpose: the matrix applied by mv must be symmetric
            asym = asymmetry(obs['mat'])
            if asym is not None:
                i, jj, a, b = asym
                return (f'{obs.get("cls")} returns itself as its transpose (e.T is e) but the matrix that its mv applies to the basis vectors '
                        f'is not symmetric: M[{i}][{jj}] = {a}, M[{jj}][{i}] = {b}; description {json.dumps(case["d"])}; M = {obs["mat"]}')
        if not A.mat_close(oT['mat'], want):
            return f'dense matrix of e.T {oT["mat"]} is not the transpose of the dense matrix of e {obs["mat"]}'
        pr = obs.get('probe')
        if pr is None:
            return f'<e x, y> / <x, e.T y> could not be evaluated: {obs.get("probe_error")}'
        from fractions import Fraction

        a, b = float(Fraction(pr[0])), float(Fraction(pr[1]))
        if abs(a - b) > 1e-4 * max(1.0, abs(a), abs(b)):
            return f'<e x, y> = {pr[0]} differs from <x, e.T y> = {pr[1]} on the integer probe (seed {case["seed"]})'
        oTT = obs.get('TT') or {}
        if 'err' in oTT:
            return f'e.T.T raised {oTT["err"]}'
        if oTT.get('mat') is None:
            return f'e.T.T cannot be applied: {oTT.get("mat_error")}'
        if not A.mat_close(oTT['mat'], obs['mat']):
            return f'e.T.T does not act as e: {oTT["mat"]} vs {obs["mat"]}'
        if oTT['in'] != obs['in'] or oTT['out'] != obs['out']:
            return 'structures of e.T.T differ from those of e'
        return None


def _frac(p):
    from fractions import Fraction

    (n, d), = [tuple(p['a'][0])] if isinstance(p, dict) else [tuple(p)]
    return Fraction(n, d)
