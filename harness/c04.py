"""C04 - application is linear and as_matrix() is its faithful dense form.

Real code, three dense forms of one operator object:
  * `op.as_matrix()`                         (the class's own override, if any)
  * `AbstractLinearOperator.as_matrix(op)`   (the generic fori_loop construction, called explicitly)
  * the matrix assembled from `op.mv(e_j)`   (harness/algebra.py `dense`)
compared with each other (oracle: the property itself), and with the model (C-tie): Model/AsMatrix.v
`x_as_matrix` (every override transcribed), `x_generic` (the loop with its jcounter) and Exec.mat.
Linearity probes op(a*x+b*y) = a*op(x)+b*op(y) and op(x) = M @ flat(x) with small integers (exact).

Operators: the shared alphabet (harness/alg_cases.py), products / sums / block operators / lazy duals
built from it, and the layout scope: pytree structures with 1-3 leaves of shapes (2,),(3,),(2,2),(1,3),()
in list / tuple / dict (keys inserted in UNSORTED order) / nested / Stokes containers, single-leaf
containers, mixed dtypes, carrying identity, scalar, diagonal, index, ravel, user-defined pytree->pytree
atoms (`MixOperator`) and block operators whose blocks have pytree inputs and outputs.
"""
from __future__ import annotations

import itertools
from fractions import Fraction

import numpy as np

import alg_cases as G
import algebra as A
from lib import PropertyCheck, clist

SHAPES = [[2], [3], [2, 2], [1, 3], []]
OVERRIDING_LEAVES = ('DiagonalOperator', 'SymmetricBandToeplitzOperator', 'DiagonalInverseOperator')
# classes whose arithmetic is not exact in floating point (trigonometry, division, iterative solver)
APPROX_CLASSES = (
    'InverseOperator', 'QURotationOperator', 'QURotationTransposeOperator', 'DiagonalInverseOperator',
)


# ---------------------------------------------------------------------------------------------
# structures (pure Python descriptions; A.mk_struct builds the ShapeDtypeStructs)


def leaf(shape, dtype='float32'):
    return {'shape': list(shape), 'dtype': dtype}


def desc_leaves(d):
    """Leaf descriptions of a structure description in pytree order (dict keys sorted)."""
    if 'stokes' in d:
        return [leaf(d['shape'], d.get('dtype', 'float32')) for _ in d['stokes']]
    if 'shape' in d:
        return [d]
    if 'list' in d:
        return [l for c in d['list'] for l in desc_leaves(c)]
    if 'tuple' in d:
        return [l for c in d['tuple'] for l in desc_leaves(c)]
    if 'dict' in d:
        return [l for k in sorted(d['dict']) for l in desc_leaves(d['dict'][k])]
    raise ValueError(d)


def desc_size(d) -> int:
    return sum(int(np.prod(l['shape'])) if l['shape'] else 1 for l in desc_leaves(d))


def containers(ls):
    """Container forms around 1-3 leaf descriptions; dict keys are inserted in an order that is NOT
    the sorted one."""
    n = len(ls)
    if n == 1:
        (a,) = ls
        return {'bare': a, 'list1': {'list': [a]}, 'tuple1': {'tuple': [a]}, 'dict1': {'dict': {'k': a}},
                'nest1': {'list': [{'dict': {'k': {'tuple': [a]}}}]}}
    if n == 2:
        a, b = ls
        return {
            'list': {'list': [a, b]}, 'tuple': {'tuple': [a, b]}, 'dict': {'dict': {'b': a, 'a': b}},
            'nest-lt': {'list': [a, {'tuple': [b]}]}, 'nest-dl': {'dict': {'z': a, 'a': {'list': [b]}}},
        }
    a, b, c = ls
    return {
        'list': {'list': [a, b, c]}, 'tuple': {'tuple': [a, b, c]}, 'dict': {'dict': {'c': a, 'a': b, 'b': c}},
        'nest-dl': {'dict': {'z': {'list': [a, b]}, 'a': c}}, 'nest-ld': {'list': [a, {'dict': {'b': b, 'a': c}}]},
        'nest-tt': {'tuple': [{'tuple': [a]}, {'list': [b, c]}]},
    }


def all_layouts():
    """(tag, description) of every structure of the layout scope."""
    out = []
    for n in (1, 2, 3):
        for shapes in itertools.product(SHAPES, repeat=n):
            ls = [leaf(s) for s in shapes]
            for form, d in containers(ls).items():
                out.append((f'{form}:{shapes}', d))
    for st in ('I', 'QU', 'IQU', 'IQUV'):
        for sh in SHAPES:
            out.append((f'stokes-{st}:{sh}', {'stokes': st, 'shape': sh}))
    for sh in ([2], [1, 3], []):
        out.append((f'stokes-in-dict:{sh}', {'dict': {'s': {'stokes': 'QU', 'shape': sh}, 'a': leaf([2])}}))
        out.append((f'stokes-in-list:{sh}', {'list': [leaf([3]), {'stokes': 'IQU', 'shape': sh}]}))
    # mixed dtypes (float16 holds the small integers used exactly; x64 is off in the check)
    for shapes in itertools.product(SHAPES, repeat=2):
        a, b = leaf(shapes[0], 'float16'), leaf(shapes[1])
        out.append((f'mixed-list:{shapes}', {'list': [a, b]}))
        out.append((f'mixed-dict:{shapes}', {'dict': {'y': b, 'x': a}}))
    return out


OUT_LAYOUTS = [
    leaf([2]),
    {'dict': {'y': leaf([1]), 'x': {'tuple': [leaf([2])]}}},
    {'list': [leaf([]), leaf([1, 2])]},
    {'stokes': 'QU', 'shape': [1]},
]


# ---------------------------------------------------------------------------------------------
# a user-defined operator between arbitrary pytrees (direct subclass of AbstractLinearOperator)

_mix = {}


def MixOperator():
    if _mix:
        return _mix['cls']
    import equinox

    j = A.J()
    jax, jnp = j['jax'], j['jnp']

    class MixOperator(j['core'].AbstractLinearOperator):
        """y = M @ concat(raveled input leaves), split along the output structure."""

        matrix: jax.Array
        _in: object = equinox.field(static=True)
        _out: object = equinox.field(static=True)

        def __init__(self, matrix, in_structure, out_structure):
            self.matrix = jnp.asarray(matrix, dtype=jnp.float32)
            self._in = in_structure
            self._out = out_structure

        def mv(self, x):
            v = jnp.concatenate([l.ravel().astype(jnp.float32) for l in jax.tree.leaves(x)])
            y = self.matrix @ v
            leaves, treedef = jax.tree.flatten(self._out)
            out, pos = [], 0
            for l in leaves:
                n = int(np.prod(l.shape))
                out.append(y[pos : pos + n].reshape(l.shape).astype(l.dtype))
                pos += n
            return jax.tree.unflatten(treedef, out)

        def in_structure(self):
            return self._in

        def out_structure(self):
            return self._out

    _mix['cls'] = MixOperator
    return MixOperator


def build_operand(d, env):
    if d['k'] == 'mix':
        return MixOperator()(np.array(d['m'], dtype=np.float32), A.mk_struct(d['s']), A.mk_struct(d['t']))
    return A.build_operand(d, env)


def build_local(let, env):
    env = dict(env)
    for name, d in let.items():
        env[name] = build_operand(d, env)
    return env


# extra operands on top of the shared alphabet
EXTRA = {
    'T4': {'k': 'toeplitz', 'band': [2, 1], 's': [4]},
    'T23': {'k': 'toeplitz', 'band': [3, 1], 's': [2, 3]},      # batched: block_diag over the first axis
    'D23a0': {'k': 'diag', 'v': [2, 3], 'axis': 0, 's': [2, 3]},
    'D23a1': {'k': 'diag', 'v': [1, 2, 4], 'axis': -1, 's': [2, 3]},
    'D22nd': {'k': 'diag', 'v': [[1, 2], [3, 4]], 'axis': 0, 's': [2, 2]},   # 2-d values
    'Dpt': {'k': 'diag', 'v': [2, 4], 'axis': 0, 's': {'dict': {'b': {'shape': [2]}, 'a': {'shape': [2, 2]}}}},
    'D3z': {'k': 'diag', 'v': [2, 0, 4], 's': [3]},               # singular: its .I is the pseudo-inverse
    'D3zI': {'k': 'expr', 'e': {'I': 'D3z'}},
    'BDspd': {'k': 'bdiagop', 'blocks': {'dict': {'t': 'S22', 'd': 'D2'}}},
    'BDspdI': {'k': 'expr', 'e': {'I': 'BDspd'}},                 # block-wise inverses
    'BDT': {'k': 'bdiagop', 'blocks': ['T4', 'D3', 'R23']},
    'BRsh': {'k': 'row', 'blocks': {'dict': {'r': 'Sh23', 'm': 'M23'}}},
    'SumBD': {'k': 'expr', 'e': {'sum': ['BD', 'BD2', 'BDh']}},
    'HsI': {'k': 'expr', 'e': {'I': 'Hs'}},
}


def full_let():
    let = dict(G.LET)
    let.update(EXTRA)
    return let


_env = {}


def env():
    if not _env:
        e = {}
        for name, d in full_let().items():
            try:
                e[name] = build_operand(d, e)
            except Exception as ex:  # reported by the cases that use the operand
                e[name] = A.Unbuildable(name, ex)
        _env.update(e)
    return _env


def skey(s) -> str:
    """Key of a structure INCLUDING dict keys (algebra.struct_repr drops them)."""
    jax = A.J()['jax']
    leaves, treedef = jax.tree.flatten(s)
    return str(treedef) + '|' + ';'.join(f'{tuple(l.shape)}:{l.dtype}' for l in leaves)


_typed = {}


def typed():
    if not _typed:
        for n, o in env().items():
            if isinstance(o, A.Unbuildable):
                continue
            try:
                _typed[n] = (skey(o.in_structure()), skey(o.out_structure()))
            except Exception:
                continue
    return _typed


def chains(maxlen, names, t):
    """All type-compatible chains (left operand applied last) of 2..maxlen operand names."""
    by_out = {}
    for n in names:
        by_out.setdefault(t[n][1], []).append(n)
    out = []

    def extend(chain):
        if len(chain) >= 2:
            out.append(list(chain))
        if len(chain) >= maxlen:
            return
        for n in by_out.get(t[chain[-1]][0], []):
            chain.append(n)
            extend(chain)
            chain.pop()

    for n in names:
        extend([n])
    return out


# ---------------------------------------------------------------------------------------------
# encoding (Model/Op.v terms + measured tables)


class Enc(A.Encoder):
    """1-d DiagonalOperators are encoded by their parameters (PDiag: the model computes their action and
    their as_matrix override itself); the other overriding leaf classes additionally get their own
    as_matrix() measured into the override table."""

    def __init__(self):
        super().__init__()
        self.otable = {}

    def term(self, op):
        name = type(op).__name__
        if name == 'DiagonalOperator' and op._diagonal.ndim == 1 and len(op.axis_destination) == 1:
            i = self.oid(op)
            vals = [A.to_frac(float(v)) for v in np.asarray(op._diagonal)]
            si, so = A.struct_coq(op.in_structure()), A.struct_coq(op.out_structure())
            return f'(Prim {i} CDiagonal {si} {so} (PDiag {A.cz(op.axis_destination[0])} {clist(vals, A.cq)}))'
        t = super().term(op)
        if name in OVERRIDING_LEAVES:
            key = 2 * self.oid(op)
            if key not in self.otable:
                self.otable[key] = A.frac_matrix(np.asarray(type(op).as_matrix(op), dtype=np.float64))
        return t

    def otable_coq(self):
        rows = []
        for key, m in self.otable.items():
            nr = len(m)
            nc = len(m[0]) if m else 0
            cols = [[m[i][j] for i in range(nr)] for j in range(nc)]
            rows.append(f'({key}%N, mkMat {A.cn(nr)} {clist(cols, lambda c: clist(c, A.cqc))})')
        return '(' + clist(rows, str) + ' : otable)'


def classes_in(op, acc=None):
    """Names of the classes of all operator objects inside op."""
    acc = set() if acc is None else acc
    j = A.J()
    core, blocks = j['core'], j['blocks']
    acc.add(type(op).__name__)
    if isinstance(op, core.CompositionOperator):
        for o in op.operands:
            classes_in(o, acc)
    elif isinstance(op, core.AdditionOperator):
        for o in op.operand_leaves:
            classes_in(o, acc)
    elif isinstance(op, blocks.AbstractBlockOperator):
        for o in op.block_leaves:
            classes_in(o, acc)
    elif hasattr(op, 'operator') and isinstance(op.operator, core.AbstractLinearOperator):
        classes_in(op.operator, acc)
    return acc


def rows_json(m):
    return A.mat_json(A.frac_matrix(np.asarray(m, dtype=np.float64)))


def decode_mat(v, ncols_hint=None):
    """Some (nr, columns of (num, den)) -> rows (JSON); None stays None."""
    if not (isinstance(v, dict) and v.get('c') == 'Some'):
        return None
    nr, cols = v['a'][0]
    cols = [[A.frac_json(Fraction(x[0], x[1])) for x in col] for col in cols]
    return [[c[i] for c in cols] for i in range(nr)]


def decode_cols(v):
    """Exec.mat: Some columns -> rows."""
    if not (isinstance(v, dict) and v.get('c') == 'Some'):
        return None
    cols = [[A.frac_json(Fraction(x[0], x[1])) for x in col] for col in v['a'][0]]
    return [list(r) for r in zip(*cols)] if cols else []


class Check(PropertyCheck):
    id = 'C04'
    props = ['C04.v']
    static_targets = ['theories/Model/AsMatrix.vo', 'theories/Lemmas/AsMatrixL.vo', 'theories/Lemmas/AsMatrixExecL.vo']
    coq_header = A.COQ_HEADER + 'From Furax Require Import Model.Wf Model.AsMatrix.\n'
    shard = 60
    workers = 8
    partial = (
        'linearity (denote_homogeneous / denote_additive / denote_linear) is proved for all expression trees; '
        'apply_is_matvec and override_eq_generic are proved for all expression trees (identity, scalar, sums, block '
        'row/diagonal/column over nested containers, ravel/reshape, lazy inverses, compositions) UNDER two premises that '
        'are not proved here: LOOP (the transcribed fori_loop `as_matrix_generic` builds the matrix of the columns '
        '`generic_columns`) and HON (C05: a well-formed operator returns values of its declared output size); both are '
        'validated by the correspondence on every case (model loop = model columns = the three real dense forms). '
        'Leaf-level overrides (n-d DiagonalOperator, Toeplitz, DiagonalInverse: C11/C09) and ravel/reshape enter as '
        'leaf premises (HOV, HRESH); the second stage (discharging lin_facts for Exec.leafsem) was not done'
    )
    trusted = [
        'leaf operators (dense einsum atoms, index, pack, move-axis, Toeplitz, n-d diagonals, user-defined operators, '
        'iterative inverses, generic lazy transposes) act in the executable model through dense matrices measured on the '
        'real objects; the theorems quantify over arbitrary leaf semantics satisfying `lin_facts` (Lemmas/AsMatrixL.v): '
        'leaves are additive and homogeneous, return values of their declared output structure, a lazy inverse returns '
        'the solution of the system of its operand',
        'the as_matrix overrides of the array-level leaf classes (DiagonalOperator with n-d values, '
        'SymmetricBandToeplitzOperator, DiagonalInverseOperator) enter the composite theorem as the assumption that they '
        'equal the generic matrix of the leaf (proved element by element in their own models: C11 diag_as_matrix, C09 '
        'as_matrix_times_x); in the executable model their matrices are measured on the real as_matrix(); 1-d diagonal '
        'operators are computed by the model itself',
        'JAX primitives by their textbook meaning: jnp.hstack/vstack, jax.scipy.linalg.block_diag, jnp.identity/eye, '
        'jnp.linalg.inv (a two-sided inverse, when it exists), jnp.add on equal shapes, .at[].set, lax.fori_loop, '
        'jax.tree.flatten/unflatten/leaves (dict keys sorted), ravel/reshape (row-major)',
        'floating point: inputs are small integers / dyadic rationals so that the three dense forms are compared '
        'exactly; cases containing an inverse (LU, CG) or a QU rotation (trigonometry) are compared within 1e-4 and their '
        'measured entries rounded to rationals with denominator <= 4096 before the comparison with the model',
        'dtypes are not modelled (exact ring); mixed float16/float32 structures are exercised on the implementation',
    ]

    # -- cases ---------------------------------------------------------------------------------
    def cases(self):
        quick = self.tier == 'quick'
        rng = self.rng
        t = typed()
        names = sorted(t)
        out = []
        # 1. every operand of the alphabet
        for n in names:
            out.append({'kind': 'operand', 'e': n})
        # 2. lazy duals, scalar multiples
        inv_ok = ['S22', 'S22b', 'D2', 'H2', 'Hh2', 'I2', 'BDspd', 'Hs', 'Q1', 'Q2', 'Qq', 'M23', 'BDq', 'T4']
        for n in inv_ok:
            if n in t:
                out.append({'kind': 'inverse', 'e': {'I': n}})
        tn = [n for n in names if 'InverseOperator' not in self._cls(n)]
        for n in (rng.sample(tn, 25) if quick else tn):
            out.append({'kind': 'transpose', 'e': {'T': n}})
        for n in (rng.sample(names, 12) if quick else names):
            out.append({'kind': 'scalar', 'e': {'smul': [rng.choice([2, -1, 0.5]), n]}})
        # 3. products (CompositionOperator has no override: generic through every operand's mv)
        ch = [c for c in chains(3, names, t) if len(c) in (2, 3)]
        rng.shuffle(ch)
        for c in ch[: 30 if quick else 800]:
            out.append({'kind': 'product', 'e': {rng.choice(['chain', 'rchain', 'comp']): c}})
        # 4. sums
        same = [(a, b) for a in names for b in names if t[a] == t[b]]
        rng.shuffle(same)
        for a, b in same[: 30 if quick else 600]:
            c = rng.choice([n for n in names if t[n] == t[a]])
            e = rng.choice([{'add': [a, b]}, {'sum': [a, b, c]}, {'sub': [a, {'add': [b, c]}]}, {'sum': [a]}])
            out.append({'kind': 'sum', 'e': e})
        # 5. block operators over the alphabet, every container form
        by_in, by_out = {}, {}
        for n in names:
            by_in.setdefault(t[n][0], []).append(n)
            by_out.setdefault(t[n][1], []).append(n)
        nblock = 50 if quick else 800
        for _ in range(nblock):
            kind = rng.choice(['row', 'bdiagop', 'col'])
            k = rng.choice([1, 2, 2, 3, 3])
            if kind == 'bdiagop':
                ops = [rng.choice(names) for _ in range(k)]
            else:
                pool = rng.choice([v for v in (by_out if kind == 'row' else by_in).values()])
                ops = [rng.choice(pool) for _ in range(k)]
            out.append({'kind': 'block', 'let': {'B': {'k': kind, 'blocks': self._container(rng, ops)}}, 'e': 'B'})
        # 6. the layout scope
        lays = all_layouts()
        self.stats['layouts_in_scope'] = len(lays)
        if quick:
            fixed = [l for l in lays if l[0].startswith(('dict:', 'nest', 'stokes-in', 'mixed-dict')) and rng.random() < 0.06]
            lays = fixed + rng.sample(lays, 26)
        for tag, s in lays:
            for c in self._layout_cases(rng, tag, s, 3 if quick else 4):
                out.append(c)
        self.stats['operands'] = len(names)
        return out

    def _cls(self, name):
        o = env()[name]
        return classes_in(o) if not isinstance(o, A.Unbuildable) else set()

    @staticmethod
    def _container(rng, ops):
        """A container of operand names: list / tuple / dict with unsorted insertion order / nested."""
        k = len(ops)
        forms = ['list', 'tuple', 'dict']
        if k >= 2:
            forms += ['nest-a', 'nest-b']
        f = rng.choice(forms)
        keys = ['q', 'c', 'a', 'm'][:k]  # insertion order differs from the sorted order
        if f == 'list':
            return list(ops)
        if f == 'tuple':
            return {'tuple': list(ops)}
        if f == 'dict':
            return {'dict': dict(zip(keys, ops))}
        if f == 'nest-a':
            return [ops[0], {'dict': dict(zip(keys[1:], ops[1:]))}]
        return {'dict': {'z': {'tuple': ops[:1]}, 'b': list(ops[1:])}}

    @staticmethod
    def _matrix(rng, nr, nc):
        return [[rng.choice([-2, -1, 0, 0, 1, 2, 3]) for _ in range(nc)] for _ in range(nr)]

    def _layout_cases(self, rng, tag, s, count):
        n = desc_size(s)
        leaves = desc_leaves(s)
        kinds = ['ident', 'homoth', 'mix', 'mixT', 'bd', 'br', 'bc', 'add', 'comp', 'lazyT']
        shapes = [tuple(l['shape']) for l in leaves]
        if all(len(sh) >= 1 for sh in shapes):
            kinds.append('ravel')
            d0 = {sh[0] for sh in shapes}
            dl = {sh[-1] for sh in shapes}
            if len(d0) == 1:
                kinds += ['diag0', 'index0']
            if len(dl) == 1:
                kinds.append('diagl')
        chosen = rng.sample(kinds, min(count, len(kinds)))
        out = []
        for kd in chosen:
            t = rng.choice(OUT_LAYOUTS)
            m = desc_size(t)
            let = {}
            if kd == 'ident':
                let['X'] = {'k': 'ident', 's': s}
            elif kd == 'homoth':
                let['X'] = {'k': 'homoth', 'v': rng.choice([2, -1, 0.5]), 's': s}
            elif kd == 'mix':
                let['X'] = {'k': 'mix', 'm': self._matrix(rng, m, n), 's': s, 't': t}
            elif kd == 'mixT':
                let['X'] = {'k': 'mix', 'm': self._matrix(rng, n, m), 's': t, 't': s}
            elif kd == 'lazyT':
                let['M'] = {'k': 'mix', 'm': self._matrix(rng, m, n), 's': s, 't': t}
                let['X'] = {'k': 'expr', 'e': {'T': 'M'}}
            elif kd == 'bd':
                let['M1'] = {'k': 'mix', 'm': self._matrix(rng, m, n), 's': s, 't': t}
                let['M2'] = {'k': 'mix', 'm': self._matrix(rng, n, m), 's': t, 't': s}
                let['I'] = {'k': 'ident', 's': s}
                let['X'] = {'k': 'bdiagop', 'blocks': self._container(rng, rng.sample(['M1', 'M2', 'I'], rng.choice([1, 2, 3])))}
            elif kd == 'br':
                let['M1'] = {'k': 'mix', 'm': self._matrix(rng, m, n), 's': s, 't': t}
                let['M2'] = {'k': 'mix', 'm': self._matrix(rng, m, m), 's': t, 't': t}
                let['M3'] = {'k': 'mix', 'm': self._matrix(rng, m, n), 's': s, 't': t}
                let['X'] = {'k': 'row', 'blocks': self._container(rng, rng.sample(['M1', 'M2', 'M3'], rng.choice([1, 2, 3])))}
            elif kd == 'bc':
                let['M1'] = {'k': 'mix', 'm': self._matrix(rng, m, n), 's': s, 't': t}
                let['M2'] = {'k': 'mix', 'm': self._matrix(rng, n, n), 's': s, 't': s}
                let['I'] = {'k': 'ident', 's': s}
                let['X'] = {'k': 'col', 'blocks': self._container(rng, rng.sample(['M1', 'M2', 'I'], rng.choice([1, 2, 3])))}
            elif kd == 'add':
                let['M1'] = {'k': 'mix', 'm': self._matrix(rng, n, n), 's': s, 't': s}
                let['I'] = {'k': 'ident', 's': s}
                let['H'] = {'k': 'homoth', 'v': 2, 's': s}
                let['X'] = {'k': 'expr', 'e': {'sum': rng.sample(['M1', 'I', 'H'], rng.choice([2, 3]))}}
            elif kd == 'comp':
                let['M1'] = {'k': 'mix', 'm': self._matrix(rng, m, n), 's': s, 't': t}
                let['M2'] = {'k': 'mix', 'm': self._matrix(rng, n, m), 's': t, 't': s}
                let['X'] = {'k': 'expr', 'e': {'comp': rng.choice([['M1', 'M2'], ['M2', 'M1']])}}
            elif kd == 'ravel':
                let['X'] = {'k': 'ravel', 's': s}
            elif kd in ('diag0', 'diagl'):
                d = shapes[0][0] if kd == 'diag0' else shapes[0][-1]
                let['X'] = {'k': 'diag', 'v': [rng.choice([1, 2, -3, 4]) for _ in range(d)], 'axis': 0 if kd == 'diag0' else -1, 's': s}
            elif kd == 'index0':
                d = shapes[0][0]
                let['X'] = {'k': 'index', 'idx': [{'arr': [rng.randrange(-d, d) for _ in range(rng.choice([1, 2, 3]))]}], 's': s}
            out.append({'kind': f'layout-{kd}', 'layout': tag, 'let': let, 'e': 'X'})
        return out

    def rule(self):
        return (
            'every operand of the ~110-operand alphabet; lazy inverses of SPD/orthogonal/diagonal operands, lazy '
            'transposes, scalar multiples; sampled products (2-3 operands), sums (flattened, nested, single-operand), block '
            'row/diagonal/column operators over the alphabet in list/tuple/dict(unsorted keys)/nested containers; the layout '
            'scope (all structures with 1-3 leaves of shapes (2,),(3,),(2,2),(1,3),() in 5-6 container forms, Stokes '
            'containers, mixed float16/float32) x identity/scalar/user atom in both directions/lazy transpose/block '
            'operators of pytree-valued blocks/sums/products/ravel/diagonal/index [quick: sampled, thorough: all layouts x 4 '
            'operator kinds]. Non-trivial: the class of the operator overrides as_matrix or the structure has several leaves.'
        )

    def distribution(self, cases):
        d = {}
        for c in cases:
            d[c['kind']] = d.get(c['kind'], 0) + 1
        return d

    # -- implementation ----------------------------------------------------------------------------
    def build(self, case):
        e = build_local(case.get('let', {}), env())
        for n in A_used(case['e']):
            if isinstance(e.get(n), A.Unbuildable):
                raise RuntimeError(f'operand {n}: {e[n].error}')
        return A.eval_expr(case['e'], e)

    def run_impl(self, case):
        j = A.J()
        jax, jnp = j['jax'], j['jnp']
        ALO = j['core'].AbstractLinearOperator
        try:
            op = self.build(case)
        except Exception as ex:
            return {'build_error': f'{type(ex).__name__}: {str(ex)[:200]}'}
        enc = Enc()
        term = enc.term(op)
        cls = classes_in(op)
        approx = bool(cls & set(APPROX_CLASSES))
        obs = {
            'in': A.struct_repr(op.in_structure()), 'out': A.struct_repr(op.out_structure()),
            'in_size': A.struct_size(op.in_structure()), 'out_size': A.struct_size(op.out_structure()),
            'approx': approx, 'class': type(op).__name__,
            'overrides': type(op).as_matrix is not ALO.as_matrix,
        }
        mats = {}
        for tag, f in (('mv', lambda: A.dense(op)), ('override', lambda: op.as_matrix()), ('generic', lambda: ALO.as_matrix(op))):
            try:
                m = f()
                obs[tag + '_dtype'] = str(m.dtype)
                m = np.asarray(m, dtype=np.float64)
                mats[tag] = m
                obs[tag + '_shape'] = list(m.shape)
                obs[tag] = rows_json(m)
            except Exception as ex:
                obs[tag] = None
                obs[tag + '_error'] = f'{type(ex).__name__}: {str(ex)[:200]}'
        # the property on the implementation (exact float comparison unless the case is approximate)
        obs['forms'] = self._compare_forms(mats, approx)
        obs['lin'] = self._linearity(op, mats.get('mv'), approx)
        case['_term'] = term
        case['_table'] = enc.table_coq()
        case['_otable'] = enc.otable_coq()
        case['_unsupported'] = enc.unsupported
        return obs

    @staticmethod
    def _close(a, b, approx):
        if a.shape != b.shape:
            return False
        if approx:
            return bool(np.allclose(a, b, rtol=1e-4, atol=1e-4))
        return bool(np.array_equal(a, b))

    def _compare_forms(self, mats, approx):
        bad = []
        mv = mats.get('mv')
        if mv is None:
            return bad
        for tag in ('override', 'generic'):
            m = mats.get(tag)
            if m is not None and not self._close(m, mv, approx):
                bad.append(f'{tag} {m.tolist()} != matrix of mv {mv.tolist()}')
        return bad

    def _linearity(self, op, mv, approx):
        """op(a x + b y) = a op(x) + b op(y) and op(x) = M flat(x), with small integer data."""
        j = A.J()
        jax, jnp = j['jax'], j['jnp']
        rs = np.random.RandomState(self.seed + 17)
        leaves, treedef = jax.tree.flatten(op.in_structure())
        bad = []

        def rand():
            return jax.tree.unflatten(
                treedef, [jnp.asarray(rs.randint(-3, 4, size=l.shape).astype(np.dtype(l.dtype))) for l in leaves]
            )

        for _ in range(2):
            x, y = rand(), rand()
            a, b = int(rs.randint(-3, 4)), int(rs.randint(-3, 4))
            try:
                z = jax.tree.map(lambda u, v: a * u + b * v, x, y)
                fz, fx, fy = op.mv(z), op.mv(x), op.mv(y)
                rhs = jax.tree.map(lambda u, v: a * u + b * v, fx, fy)
                if jax.tree.structure(fz) != jax.tree.structure(rhs):
                    bad.append('op(a x + b y) and a op(x) + b op(y) have different containers')
                    continue
                lz, lr = A.flat(fz), A.flat(rhs)
                if not self._close(lz, lr, approx):
                    bad.append(f'op({a} x + {b} y) = {lz.tolist()} but {a} op(x) + {b} op(y) = {lr.tolist()} for x={A.flat(x).tolist()} y={A.flat(y).tolist()}')
                if mv is not None:
                    want = mv @ A.flat(x)
                    got = A.flat(fx)
                    if not self._close(got, want, approx):
                        bad.append(f'op(x) = {got.tolist()} but matrix @ flat(x) = {want.tolist()} for x={A.flat(x).tolist()}')
            except Exception as ex:
                bad.append(f'probe raised {type(ex).__name__}: {str(ex)[:150]}')
        return bad

    # -- model -----------------------------------------------------------------------------------
    def model_term(self, case):
        if case.get('_unsupported') or '_term' not in case:
            return None
        t, tb, otb = case['_term'], case['_table'], case['_otable']
        return f'(wfo {t}, show_mat (x_as_matrix {tb} {otb} {t}), show_mat (x_generic {tb} {t}), Exec.mat {tb} {t})'

    def decode(self, case, v):
        wf, over, gen, cols = v
        return {'wf': wf, 'override': decode_mat(over), 'generic': decode_mat(gen), 'columns': decode_cols(cols)}

    def comparable(self, case, obs):
        if not isinstance(obs, dict) or 'build_error' in obs or 'harness_error' in obs:
            return obs
        cols = obs.get('mv')
        if cols is not None and obs.get('in_size') == 0:
            cols = []
        # an operator object assembled through a non-validating constructor that cannot be applied at all is
        # outside the property's domain: the model must then call it ill-formed
        return {'wf': obs.get('mv') is not None, 'override': obs.get('override'), 'generic': obs.get('generic'), 'columns': cols}

    def search_cases(self):
        """A bounded wider stream for the failing-input search (a thorough-tier sample)."""
        if self.tier != 'quick':
            return []
        other = type(self)('thorough', self.seed + 1)
        cs = other.cases()
        other.rng.shuffle(cs)
        return cs[:300]

    def nontrivial(self, case, obs):
        return isinstance(obs, dict) and (obs.get('overrides') or len(_leaves(obs.get('in'))) > 1 or len(_leaves(obs.get('out'))) > 1)

    def finding_key(self, case, obs):
        return None

    # -- oracle -----------------------------------------------------------------------------------
    def oracle(self, case, obs):
        if 'build_error' in obs:
            return None  # the operator cannot be built: outside the property's domain
        if obs.get('mv') is None:
            return None  # the operator cannot be applied to basis vectors at all: outside the domain
        for tag in ('override', 'generic'):
            if obs.get(tag) is None:
                return f'{tag} as_matrix raised {obs.get(tag + "_error")} although the operator applies to every basis vector'
            if obs[tag + '_shape'] != [obs['out_size'], obs['in_size']]:
                return f'{tag} as_matrix has shape {obs[tag + "_shape"]}, expected ({obs["out_size"]}, {obs["in_size"]})'
        if obs['forms']:
            return 'dense forms differ: ' + '; '.join(obs['forms'])[:1500]
        if obs['lin']:
            return 'application is not the linear map of its matrix: ' + '; '.join(obs['lin'])[:1500]
        return None


def _leaves(s):
    if not s:
        return []
    if s[0] == 'leaf':
        return [s]
    return [l for c in s[2] for l in _leaves(c)]


def A_used(e, acc=None):
    acc = set() if acc is None else acc
    if isinstance(e, str):
        acc.add(e)
    elif isinstance(e, dict):
        for v in e.values():
            A_used(v, acc)
    elif isinstance(e, list):
        for v in e:
            A_used(v, acc)
    return acc
