"""C04 - application is linear and as_matrix() is its faithful dense form.

Real code, three dense forms of one operator object:
  * `op.as_matrix()`                         (the class's own override, if any)
  * `AbstractLinearOperator.as_matrix(op)`   (the generic fori_loop construction, called explicitly)
  * the matrix assembled from `op.mv(e_j)`   (harness/algebra.py `dense`)
compared with each other (oracle: the property itself), and with the model (C-tie): Model/AsMatrix.v
`x_as_matrix` (every override transcribed), `x_generic` (the loop with its jcounter) and Exec.mat.
Linearity probes op(a*x+b*y) = a*op(x)+b*op(y) and op(x) = M @ flat(x) with small integers (exact).
Call-style scope (implementation-side, `_call_styles`): the application itself is observed through BOTH `op(x)` (__call__,
also the one installed on lineax's composed operators) and `op.mv(x)`, with x handed over as a pytree of jax arrays, of
NumPy arrays and of Python scalars (0-d leaves), of the declared dtype and WIDER than declared (fractional floats on
integer leaves, float32 beyond the float16 range on float16 leaves, complex on real leaves, float64 / complex128 under
jax.enable_x64): every style must give as_matrix() @ flat(x) computed in NumPy double / complex double, and linearity
must hold with the fractional / complex / large coefficients that produce the wide data.  Boundary: wider inputs are
not judged where the unchanged code does not promote them - lazy transposes and lazy inverses (jax.linear_transpose /
lineax.linear_solve raise on any dtype other than the declared one), complex data through the FFT methods of the
Toeplitz class (real part; class annotated for real data) - and a style whose plain op.mv(jax pytree) raises.

Operators: the shared alphabet (harness/alg_cases.py), products / sums / block operators / lazy duals
built from it, and the layout scope: pytree structures with 1-3 leaves of shapes (2,),(3,),(2,2),(1,3),()
in list / tuple / dict (keys inserted in UNSORTED order) / nested / Stokes containers, single-leaf
containers, mixed dtypes, carrying identity, scalar, diagonal, index, ravel, user-defined pytree->pytree
atoms (`MixOperator`) and block operators whose blocks have pytree inputs and outputs.

Dtype scope (implementation-side; the model is an exact ring without dtypes): operators whose OUTPUT dtype is
wider than their input dtype - complex blocks / values on real structures, float parameters on integer
structures, float32 parameters on float16 structures (values chosen so that a cast to the input dtype is
visible: non-zero imaginary parts, half-integers, integers above 2048) - and non-float32 data (int32, complex64,
mixed) under every class; the three dense forms and the probes are compared EXACTLY in complex arithmetic and
the dtype of both as_matrix forms must be the dtype of the columns op(e_j).  Only operators whose declared output
structure is what mv returns are generated (C05's `params_not_wider` guard: a @square class - scalar, diagonal,
Toeplitz - with parameters wider than its data is outside the domain).
Complex scope (implementation-side, with a closed-form NumPy reference of every case): complex parameters on COMPLEX
input structures (complex-linear maps; imaginary parts never zero, matrices neither symmetric nor Hermitian, so that a
conjugation / real part / adjoint-for-transpose is visible) for every leaf class (einsum blocks, broadcast diagonals,
diagonals and their inverses, scalars, Toeplitz dense / direct, user atoms; identity, index, pack, move-axis, ravel,
reshape, QU rotation, HWP, polariser on complex data) under every wrapper: op.T, the lazy TransposeOperator (also
doubled, of / under scalar multiples, negations, sums, block rows / columns / diagonals, Gram products), lazy inverses
(LU, GMRES; CG / BiCGStab on a Hermitian positive-definite matrix) of / under lazy transposes and inside blocks, and lazy
and class-defined transposes of products, sums and block operators.  Lazy transposes of WIDENING operators (real ->
complex) stay outside: jax.linear_transpose of those is additive but not homogeneous over the complex scalars.
T-tie: FuraxGen.Tables (tools/translate/tables.py: the definition of as_matrix every class resolves to) is regenerated on
every run and tied to the model's dispatch (Props/C04.v as_matrix_resolution_as_modelled, Props/Tables.v): a new, removed
or moved as_matrix override breaks a theorem at once and the oracle then finds the input.
Configuration scope: every evaluation method / tuning parameter of a class - Toeplitz: 4 methods x explicit FFT
sizes (odd and even, from the smallest admissible 2K-1) x n and K (K > n, n spanning several blocks, batched
bands); lazy inverses: the solvers of the configuration - with a closed-form NumPy reference of the matrix.
"""
from __future__ import annotations

import itertools
import json
import sys
from fractions import Fraction

import numpy as np

import alg_cases as G
import algebra as A
import lib
from lib import PropertyCheck, clist

sys.path.insert(0, str(lib.VERIF / 'tools' / 'translate'))

SHAPES = [[2], [3], [2, 2], [1, 3], []]
OVERRIDING_LEAVES = ('DiagonalOperator', 'SymmetricBandToeplitzOperator', 'DiagonalInverseOperator')
# classes whose arithmetic is not exact in floating point (trigonometry, division, iterative solver)
APPROX_CLASSES = (
    'InverseOperator', 'QURotationOperator', 'QURotationTransposeOperator', 'DiagonalInverseOperator',
)

F32, I32, C64, F16 = 'float32', 'int32', 'complex64', 'float16'
TOEPLITZ_APPROX_METHODS = ('fft', 'overlap_save', 'overlap_add')
SOLVERS = ('CG', 'BiCGStab', 'GMRES', 'NormalCG', 'LU', 'Auto')


# ---------------------------------------------------------------------------------------------
# structures (pure Python descriptions; A.mk_struct builds the ShapeDtypeStructs)


def leaf(shape, dtype='float32'):
    return {'shape': list(shape), 'dtype': dtype}


def desc_leaves(d):
    """Leaf descriptions of a structure description in pytree order (dict keys sorted)."""
    if 'stokes' in d:
        return [leaf(d['shape'], d.get('dtype', 'float32')) for _ in d['stokes']]
    if 'shape' in d:
        return [d]
    if 'list' in d:
        return [l for c in d['list'] for l in desc_leaves(c)]
    if 'tuple' in d:
        return [l for c in d['tuple'] for l in desc_leaves(c)]
    if 'dict' in d:
        return [l for k in sorted(d['dict']) for l in desc_leaves(d['dict'][k])]
    raise ValueError(d)


def desc_size(d) -> int:
    return sum(int(np.prod(l['shape'])) if l['shape'] else 1 for l in desc_leaves(d))


def containers(ls):
    """Container forms around 1-3 leaf descriptions; dict keys are inserted in an order that is NOT
    the sorted one."""
    n = len(ls)
    if n == 1:
        (a,) = ls
        return {'bare': a, 'list1': {'list': [a]}, 'tuple1': {'tuple': [a]}, 'dict1': {'dict': {'k': a}},
                'nest1': {'list': [{'dict': {'k': {'tuple': [a]}}}]}}
    if n == 2:
        a, b = ls
        return {
            'list': {'list': [a, b]}, 'tuple': {'tuple': [a, b]}, 'dict': {'dict': {'b': a, 'a': b}},
            'nest-lt': {'list': [a, {'tuple': [b]}]}, 'nest-dl': {'dict': {'z': a, 'a': {'list': [b]}}},
        }
    a, b, c = ls
    return {
        'list': {'list': [a, b, c]}, 'tuple': {'tuple': [a, b, c]}, 'dict': {'dict': {'c': a, 'a': b, 'b': c}},
        'nest-dl': {'dict': {'z': {'list': [a, b]}, 'a': c}}, 'nest-ld': {'list': [a, {'dict': {'b': b, 'a': c}}]},
        'nest-tt': {'tuple': [{'tuple': [a]}, {'list': [b, c]}]},
    }


def all_layouts():
    """(tag, description) of every structure of the layout scope."""
    out = []
    for n in (1, 2, 3):
        for shapes in itertools.product(SHAPES, repeat=n):
            ls = [leaf(s) for s in shapes]
            for form, d in containers(ls).items():
                out.append((f'{form}:{shapes}', d))
    for st in ('I', 'QU', 'IQU', 'IQUV'):
        for sh in SHAPES:
            out.append((f'stokes-{st}:{sh}', {'stokes': st, 'shape': sh}))
    for sh in ([2], [1, 3], []):
        out.append((f'stokes-in-dict:{sh}', {'dict': {'s': {'stokes': 'QU', 'shape': sh}, 'a': leaf([2])}}))
        out.append((f'stokes-in-list:{sh}', {'list': [leaf([3]), {'stokes': 'IQU', 'shape': sh}]}))
    # mixed dtypes (float16 holds the small integers used exactly; x64 is off in the check)
    for shapes in itertools.product(SHAPES, repeat=2):
        a, b = leaf(shapes[0], 'float16'), leaf(shapes[1])
        out.append((f'mixed-list:{shapes}', {'list': [a, b]}))
        out.append((f'mixed-dict:{shapes}', {'dict': {'y': b, 'x': a}}))
    return out


OUT_LAYOUTS = [
    leaf([2]),
    {'dict': {'y': leaf([1]), 'x': {'tuple': [leaf([2])]}}},
    {'list': [leaf([]), leaf([1, 2])]},
    {'stokes': 'QU', 'shape': [1]},
]


# ---------------------------------------------------------------------------------------------
# a user-defined operator between arbitrary pytrees (direct subclass of AbstractLinearOperator)

_mix = {}


def user_classes():
    """User-defined operators (direct subclasses of AbstractLinearOperator, generic as_matrix):
    MixOperator (declares both structures) and ScaleOperator (declares only its input structure: the output
    structure is the default jax.eval_shape of mv)."""
    if _mix:
        return _mix
    import equinox

    j = A.J()
    jax, jnp = j['jax'], j['jnp']

    class MixOperator(j['core'].AbstractLinearOperator):
        """y = M @ concat(raveled input leaves), split along the output structure."""

        matrix: jax.Array
        _in: object = equinox.field(static=True)
        _out: object = equinox.field(static=True)

        def __init__(self, matrix, in_structure, out_structure):
            self.matrix = jnp.asarray(matrix)
            self._in = in_structure
            self._out = out_structure

        def mv(self, x):
            xs = [jnp.asarray(l) for l in jax.tree.leaves(x)]   # NumPy arrays and Python scalars are accepted
            dx = jnp.result_type(*[l.dtype for l in xs])
            dt = jnp.result_type(self.matrix.dtype, dx)
            v = jnp.concatenate([l.ravel().astype(dt) for l in xs])
            y = self.matrix.astype(dt) @ v
            # data of the declared dtypes give the declared output dtypes; WIDER data (fractional on integer leaves,
            # complex on real leaves, float64 on float32 leaves) promote the outputs: the map stays linear for every x
            wider = any(jnp.result_type(d.dtype, l.dtype) != d.dtype for d, l in zip(jax.tree.leaves(self._in), xs))
            leaves, treedef = jax.tree.flatten(self._out)
            out, pos = [], 0
            for l in leaves:
                n = int(np.prod(l.shape))
                out.append(y[pos : pos + n].reshape(l.shape).astype(jnp.result_type(l.dtype, dx) if wider else l.dtype))
                pos += n
            return jax.tree.unflatten(treedef, out)

        def in_structure(self):
            return self._in

        def out_structure(self):
            return self._out

    class ScaleOperator(j['core'].AbstractLinearOperator):
        """y[leaf] = values * x[leaf] (values broadcast against every leaf from the right)."""

        values: jax.Array
        _in: object = equinox.field(static=True)

        def __init__(self, values, in_structure):
            self.values = jnp.asarray(values)
            self._in = in_structure

        def mv(self, x):
            return jax.tree.map(lambda l: self.values * l, x)

        def in_structure(self):
            return self._in

    _mix['MixOperator'] = MixOperator
    _mix['ScaleOperator'] = ScaleOperator
    return _mix


def MixOperator():
    return user_classes()['MixOperator']


def np_arr(spec, default=F32):
    """JSON array parameter -> NumPy array.  A nested list (float32), or {'re': nested, 'im': nested (optional),
    'dt': dtype}: complex values are written as two real arrays so that a case stays plain JSON."""
    if not isinstance(spec, dict):
        return np.array(spec, dtype=np.dtype(default))
    dt = np.dtype(spec.get('dt', default))
    re_ = np.array(spec['re'], dtype=np.float64)
    if 'im' in spec and spec['im'] is not None:
        return (re_ + 1j * np.array(spec['im'], dtype=np.float64)).astype(dt)
    return re_.astype(dt)


def py_scalar(spec):
    """JSON scalar -> Python scalar: a number, or {'re':, 'im':} for a Python complex."""
    if isinstance(spec, dict) and 're' in spec and 'dt' not in spec:
        return complex(spec['re'], spec.get('im', 0))
    return spec


def solver_config(name, precond=None):
    """furax Config selecting the linear solver used by InverseOperator.mv (its evaluation method)."""
    import lineax as lx
    from furax import Config

    kw = {'solver_callback': A._noop}
    if name == 'BiCGStab':
        kw['solver'] = lx.BiCGStab(rtol=1e-6, atol=1e-6)
    elif name == 'GMRES':
        kw['solver'] = lx.GMRES(rtol=1e-6, atol=1e-6)
    elif name == 'NormalCG':
        kw['solver'] = lx.NormalCG(rtol=1e-6, atol=1e-6)
    elif name == 'LU':
        kw['solver'] = lx.LU()
    elif name == 'Auto':
        kw['solver'] = lx.AutoLinearSolver(well_posed=True)
    elif name != 'CG':
        raise ValueError(name)
    if precond is not None:
        kw['solver_options'] = {'preconditioner': precond}
    return Config(**kw)


def build_operand(d, env):
    j = A.J()
    jnp = j['jnp']
    k = d['k']
    if k == 'mix':
        m = np.array(d['m'], dtype=np.float64)
        if d.get('mi') is not None:
            m = m + 1j * np.array(d['mi'], dtype=np.float64)
        m = m.astype(np.dtype(d.get('mdt', C64 if d.get('mi') is not None else F32)))
        return MixOperator()(m, A.mk_struct(d['s']), A.mk_struct(d['t']))
    if k == 'uscale':
        return user_classes()['ScaleOperator'](np_arr(d['v']), A.mk_struct(d['s']))
    if k == 'dense2':
        args = (jnp.asarray(np_arr(d['b'])), A.mk_struct(d['s']))
        return j['dense'].DenseBlockDiagonalOperator(*args, *([d['sub']] if d.get('sub') else []))
    if k in ('diag2', 'bdiag2'):
        cls = j['diagonal'].DiagonalOperator if k == 'diag2' else j['diagonal'].BroadcastDiagonalOperator
        ax = d.get('axis', 0)
        return cls(jnp.asarray(np_arr(d['v'])), axis_destination=ax if isinstance(ax, int) else tuple(ax), in_structure=A.mk_struct(d['s']))
    if k == 'homoth2':
        v = d['v']
        v = jnp.asarray(np_arr(v)) if isinstance(v, dict) and 'dt' in v else py_scalar(v)
        return j['core'].HomothetyOperator(v, A.mk_struct(d['s']))
    if k == 'toeplitz2':
        kw = {'method': d['method']} if d.get('method') else {}
        if d.get('fft') is not None:
            kw['fft_size'] = d['fft']
        return j['toeplitz'].SymmetricBandToeplitzOperator(jnp.asarray(np_arr(d['band'])), A.mk_struct(d['s']), **kw)
    if k == 'smul2':
        return py_scalar(d['c']) * env[d['of']]
    if k == 'rmul2':
        return env[d['of']] * py_scalar(d['c'])
    if k == 'div2':
        return env[d['of']] / py_scalar(d['c'])
    if k == 'inv':
        pre = env[d['precond']] if d.get('precond') else None
        with solver_config(d.get('solver', 'CG'), pre):
            return env[d['of']].I
    if k == 'lazyT':  # the lazy wrapper itself, whatever transpose() the class of the operand defines
        return j['core'].TransposeOperator(env[d['of']])
    if k in ('qurot2', 'hwp2', 'pol2'):
        s = A.mk_struct({'stokes': d['stokes'], 'shape': d['shape'], 'dtype': d.get('dtype', F32)})
        if k == 'hwp2':
            return j['hwp'].HWPOperator(s)
        if k == 'pol2':
            return j['pol'].LinearPolarizerOperator(s)
        return j['qu'].QURotationOperator(A.q_angles(d['q'], tuple(d['shape'])).astype(jnp.float32), s)
    return A.build_operand(d, env)


def build_local(let, env):
    env = dict(env)
    for name, d in let.items():
        env[name] = build_operand(d, env)
    return env


# extra operands on top of the shared alphabet
EXTRA = {
    'T4': {'k': 'toeplitz', 'band': [2, 1], 's': [4]},
    'T23': {'k': 'toeplitz', 'band': [3, 1], 's': [2, 3]},      # batched: block_diag over the first axis
    'D23a0': {'k': 'diag', 'v': [2, 3], 'axis': 0, 's': [2, 3]},
    'D23a1': {'k': 'diag', 'v': [1, 2, 4], 'axis': -1, 's': [2, 3]},
    'D22nd': {'k': 'diag', 'v': [[1, 2], [3, 4]], 'axis': 0, 's': [2, 2]},   # 2-d values
    'Dpt': {'k': 'diag', 'v': [2, 4], 'axis': 0, 's': {'dict': {'b': {'shape': [2]}, 'a': {'shape': [2, 2]}}}},
    'D3z': {'k': 'diag', 'v': [2, 0, 4], 's': [3]},               # singular: its .I is the pseudo-inverse
    'D3zI': {'k': 'expr', 'e': {'I': 'D3z'}},
    'BDspd': {'k': 'bdiagop', 'blocks': {'dict': {'t': 'S22', 'd': 'D2'}}},
    'BDspdI': {'k': 'expr', 'e': {'I': 'BDspd'}},                 # block-wise inverses
    'BDT': {'k': 'bdiagop', 'blocks': ['T4', 'D3', 'R23']},
    'BRsh': {'k': 'row', 'blocks': {'dict': {'r': 'Sh23', 'm': 'M23'}}},
    'SumBD': {'k': 'expr', 'e': {'sum': ['BD', 'BD2', 'BDh']}},
    'HsI': {'k': 'expr', 'e': {'I': 'Hs'}},
}


def full_let():
    let = dict(G.LET)
    let.update(EXTRA)
    return let


_env = {}


def env():
    if not _env:
        e = {}
        for name, d in full_let().items():
            try:
                e[name] = build_operand(d, e)
            except Exception as ex:  # reported by the cases that use the operand
                e[name] = A.Unbuildable(name, ex)
        _env.update(e)
    return _env


def skey(s) -> str:
    """Key of a structure INCLUDING dict keys (algebra.struct_repr drops them)."""
    jax = A.J()['jax']
    leaves, treedef = jax.tree.flatten(s)
    return str(treedef) + '|' + ';'.join(f'{tuple(l.shape)}:{l.dtype}' for l in leaves)


_typed = {}


def typed():
    if not _typed:
        for n, o in env().items():
            if isinstance(o, A.Unbuildable):
                continue
            try:
                _typed[n] = (skey(o.in_structure()), skey(o.out_structure()))
            except Exception:
                continue
    return _typed


def chains(maxlen, names, t):
    """All type-compatible chains (left operand applied last) of 2..maxlen operand names."""
    by_out = {}
    for n in names:
        by_out.setdefault(t[n][1], []).append(n)
    out = []

    def extend(chain):
        if len(chain) >= 2:
            out.append(list(chain))
        if len(chain) >= maxlen:
            return
        for n in by_out.get(t[chain[-1]][0], []):
            chain.append(n)
            extend(chain)
            chain.pop()

    for n in names:
        extend([n])
    return out


# ---------------------------------------------------------------------------------------------
# encoding (Model/Op.v terms + measured tables)


class Enc(A.Encoder):
    """1-d DiagonalOperators are encoded by their parameters (PDiag: the model computes their action and
    their as_matrix override itself); the other overriding leaf classes additionally get their own
    as_matrix() measured into the override table."""

    def __init__(self):
        super().__init__()
        self.otable = {}

    def term(self, op):
        name = type(op).__name__
        if name == 'DiagonalOperator' and op._diagonal.ndim == 1 and len(op.axis_destination) == 1:
            i = self.oid(op)
            vals = [A.to_frac(float(v)) for v in np.asarray(op._diagonal)]
            si, so = A.struct_coq(op.in_structure()), A.struct_coq(op.out_structure())
            return f'(Prim {i} CDiagonal {si} {so} (PDiag {A.cz(op.axis_destination[0])} {clist(vals, A.cq)}))'
        t = super().term(op)
        if name in OVERRIDING_LEAVES:
            key = 2 * self.oid(op)
            if key not in self.otable:
                self.otable[key] = A.frac_matrix(np.asarray(type(op).as_matrix(op), dtype=np.float64))
        return t

    def otable_coq(self):
        rows = []
        for key, m in self.otable.items():
            nr = len(m)
            nc = len(m[0]) if m else 0
            cols = [[m[i][j] for i in range(nr)] for j in range(nc)]
            rows.append(f'({key}%N, mkMat {A.cn(nr)} {clist(cols, lambda c: clist(c, A.cqc))})')
        return '(' + clist(rows, str) + ' : otable)'


def classes_in(op, acc=None):
    """Names of the classes of all operator objects inside op."""
    acc = set() if acc is None else acc
    j = A.J()
    core, blocks = j['core'], j['blocks']
    acc.add(type(op).__name__)
    if isinstance(op, core.CompositionOperator):
        for o in op.operands:
            classes_in(o, acc)
    elif isinstance(op, core.AdditionOperator):
        for o in op.operand_leaves:
            classes_in(o, acc)
    elif isinstance(op, blocks.AbstractBlockOperator):
        for o in op.block_leaves:
            classes_in(o, acc)
    elif hasattr(op, 'operator') and isinstance(op.operator, core.AbstractLinearOperator):
        classes_in(op.operator, acc)
    return acc


def is_complex_dtype(dt) -> bool:
    return bool(np.issubdtype(np.dtype(dt), np.complexfloating))


def cflat(y) -> np.ndarray:
    """Flattened pytree in double precision, complex when a leaf is complex (algebra.flat drops imaginary parts)."""
    leaves = A.J()['jax'].tree.leaves(y)
    if not leaves:
        return np.zeros(0)
    arrs = [np.asarray(l) for l in leaves]
    wide = np.complex128 if any(np.iscomplexobj(a) for a in arrs) else np.float64
    return np.concatenate([a.ravel().astype(wide) for a in arrs])


def widen(m) -> np.ndarray:
    m = np.asarray(m)
    return m.astype(np.complex128 if np.iscomplexobj(m) else np.float64)


def cdense(op):
    """(matrix whose j-th column is op.mv(e_j), promoted dtype of those columns)."""
    j = A.J()
    cols, dts = [], set()
    for x in A.basis_inputs(op.in_structure()):
        y = op.mv(x)
        leaves = j['jax'].tree.leaves(y)
        if leaves:
            dts.add(str(j['jnp'].result_type(*leaves)))
        cols.append(cflat(y))
    if not cols:
        return np.zeros((A.struct_size(op.out_structure()), 0)), None
    m = np.stack(cols, axis=1)
    return m, (sorted(dts)[0] if len(dts) == 1 else ('/'.join(sorted(dts)) or None))


def sub_operators(op):
    """All operator objects inside op (op included)."""
    j = A.J()
    core, blocks = j['core'], j['blocks']
    out = [op]
    if isinstance(op, core.CompositionOperator):
        kids = op.operands
    elif isinstance(op, core.AdditionOperator):
        kids = op.operand_leaves
    elif isinstance(op, blocks.AbstractBlockOperator):
        kids = op.block_leaves
    elif hasattr(op, 'operator') and isinstance(op.operator, core.AbstractLinearOperator):
        kids = [op.operator]
    else:
        kids = []
    for k in kids:
        out += sub_operators(k)
    return out


def bicgstab_inside(op) -> bool:
    """A lazy inverse configured with lineax's BiCGStab somewhere inside op."""
    import lineax as lx
    for o in sub_operators(op):
        cfg = getattr(o, 'config', None)
        if type(o).__name__ == 'InverseOperator' and cfg is not None and isinstance(getattr(cfg, 'solver', None), lx.BiCGStab):
            return True
    return False


def is_approx(op) -> bool:
    """Inexact arithmetic somewhere inside op: trigonometry, division, iterative solver, FFT."""
    for o in sub_operators(op):
        n = type(o).__name__
        if n in APPROX_CLASSES:
            return True
        if n == 'SymmetricBandToeplitzOperator' and o.method in TOEPLITZ_APPROX_METHODS:
            return True
    return False


def toeplitz_reference(band, shape) -> np.ndarray:
    """Closed form: block diagonal over the leading axes of T[i, j] = band[|i - j|] if |i - j| < K else 0."""
    import scipy.linalg

    band = widen(band)
    n, K = shape[-1], band.shape[-1]
    bands = np.broadcast_to(band, tuple(shape[:-1]) + (K,)).reshape(-1, K)
    i, jj = np.indices((n, n))
    lag = np.abs(i - jj)
    blocks = [np.where(lag < K, b[np.minimum(lag, K - 1)], 0.0) for b in bands]
    return scipy.linalg.block_diag(*blocks)


class NoReference(Exception):
    """The description has no closed-form NumPy matrix (operands of the shared alphabet, Stokes-class operators)."""


def norm_desc(d):
    """Structure description in the dict forms (A.mk_struct also accepts bare shapes and lists)."""
    if isinstance(d, list):
        return leaf(d) if all(isinstance(i, int) for i in d) else {'list': [norm_desc(c) for c in d]}
    if 'stokes' in d or 'shape' in d:
        return d
    if 'list' in d:
        return {'list': [norm_desc(c) for c in d['list']]}
    if 'tuple' in d:
        return {'tuple': [norm_desc(c) for c in d['tuple']]}
    return {'dict': {k: norm_desc(v) for k, v in d['dict'].items()}}


def container_leaves(desc):
    """Operand names of a block container in pytree order (dict keys sorted)."""
    if isinstance(desc, str):
        return [desc]
    if isinstance(desc, list):
        return [n for c in desc for n in container_leaves(c)]
    if 'tuple' in desc:
        return [n for c in desc['tuple'] for n in container_leaves(c)]
    return [n for k in sorted(desc['dict']) for n in container_leaves(desc['dict'][k])]


def diag_apply(v, axis, x):
    """values * x with the values laid along the axes (axis, axis+1, ...) [axis >= 0] or (..., axis-1, axis)
    [axis < 0] of x, by NumPy broadcasting (missing axes of x are appended / prepended)."""
    if not isinstance(axis, int):
        raise NoReference('axis tuple')
    nd = v.ndim
    if axis >= 0:
        vv = v.reshape((1,) * axis + v.shape + (1,) * max(0, x.ndim - axis - nd))
        return vv * x.reshape(x.shape + (1,) * max(0, axis + nd - x.ndim))
    return v.reshape(v.shape + (1,) * (-axis - 1)) * x


def leaf_apply(d, xs):
    """NumPy action of a leaf description on the input leaves xs (pytree order) -> output leaves (pytree order)."""
    k = d['k']
    if k == 'ident':
        return xs
    if k in ('homoth', 'homoth2'):
        v = d['v']
        v = np_arr(v) if isinstance(v, dict) and 'dt' in v else py_scalar(v)
        return [v * x for x in xs]
    if k in ('diag', 'bdiag', 'diag2', 'bdiag2'):
        v = np_arr(d['v'])
        return [diag_apply(v, d.get('axis', 0), x) for x in xs]
    if k == 'uscale':
        v = np_arr(d['v'])
        return [v * x for x in xs]
    if k == 'dense2':
        b = np_arr(d['b'])
        return [np.einsum(d.get('sub') or 'ij...,j...->i...', b, x) for x in xs]
    if k == 'toeplitz2':
        band = np_arr(d['band'])
        return [(toeplitz_reference(band, x.shape) @ x.ravel()).reshape(x.shape) for x in xs]
    if k == 'index':
        if len(d['idx']) != 1 or not (isinstance(d['idx'][0], dict) and 'arr' in d['idx'][0]) or 'out' in d:
            raise NoReference('index form')
        return [x[np.array(d['idx'][0]['arr'])] for x in xs]
    if k == 'pack':
        return [x[np.array(d['mask'], dtype=bool)] for x in xs]
    if k == 'moveaxis':
        return [np.moveaxis(x, d['src'], d['dst']) for x in xs]
    if k == 'ravel':
        if d.get('first', 0) != 0 or d.get('last', -1) != -1:
            raise NoReference('partial ravel')
        return [x.reshape(-1) for x in xs]
    if k == 'reshape':
        return [x.reshape(d['shape']) for x in xs]
    raise NoReference(k)


def leaf_reference(d):
    if d['k'] == 'mix':
        m = np.array(d['m'], dtype=np.float64)
        return m + 1j * np.array(d['mi'], dtype=np.float64) if d.get('mi') is not None else m
    if d['k'] == 'dense':
        return np.array(d['m'], dtype=np.float64)
    if 's' not in d:
        raise NoReference(d['k'])
    leaves = desc_leaves(norm_desc(d['s']))
    sizes = [int(np.prod(l['shape'])) if l['shape'] else 1 for l in leaves]
    cols = []
    for col in np.eye(sum(sizes)):
        xs, pos = [], 0
        for l, n in zip(leaves, sizes):
            xs.append(col[pos : pos + n].reshape(l['shape']))
            pos += n
        ys = leaf_apply(d, xs)
        cols.append(np.concatenate([np.asarray(y).ravel() for y in ys]) if ys else np.zeros(0))
    return np.stack(cols, axis=1) if cols else np.zeros((0, 0))


def ref_matrix(e, let):
    """Closed-form NumPy matrix of an expression over the `let` descriptions of a case (no furax code): leaves by
    their formulas, .T / lazy transposes as the PLAIN transpose, inverses by np.linalg.inv, products, sums, scalar
    multiples, block rows / diagonals / columns by hstack / block_diag / vstack in pytree order."""
    import scipy.linalg

    r = lambda x: ref_matrix(x, let)  # noqa: E731
    if isinstance(e, str):
        if e not in let:
            raise NoReference(e)
        d = let[e]
        k = d['k']
        if k == 'expr':
            return r(d['e'])
        if k == 'lazyT':
            return r(d['of']).T
        if k == 'inv':
            return np.linalg.inv(r(d['of']))
        if k in ('smul2', 'rmul2'):
            return py_scalar(d['c']) * r(d['of'])
        if k == 'div2':
            return r(d['of']) / py_scalar(d['c'])
        if k in ('row', 'bdiagop', 'col'):
            ms = [r(n) for n in container_leaves(d['blocks'])]
            return np.hstack(ms) if k == 'row' else np.vstack(ms) if k == 'col' else scipy.linalg.block_diag(*ms)
        return leaf_reference(d)
    (kind, arg), = e.items()
    if kind in ('mm', 'chain', 'rchain', 'comp'):
        ms = [r(x) for x in arg]
        out = ms[0]
        for m in ms[1:]:
            out = out @ m
        return out
    if kind in ('add', 'sum'):
        return sum(r(x) for x in arg)
    if kind == 'sub':
        return r(arg[0]) - r(arg[1])
    if kind == 'neg':
        return -r(arg)
    if kind == 'T':
        return r(arg).T
    if kind == 'I':
        return np.linalg.inv(r(arg))
    if kind in ('smul', 'mulr', 'div') and not isinstance(arg[0 if kind == 'smul' else 1], dict):
        return arg[0] * r(arg[1]) if kind == 'smul' else r(arg[0]) * arg[1] if kind == 'mulr' else r(arg[0]) / arg[1]
    raise NoReference(kind)


def reference(case):
    """Independent NumPy matrix of the operator of the case, from its JSON description alone (closed formulas;
    no furax code).  None when the case has no such formula."""
    try:
        return ref_matrix(case.get('e'), case.get('let', {}))
    except NoReference:
        return None


def rows_json(m):
    return A.mat_json(A.frac_matrix(np.asarray(m, dtype=np.float64)))


def decode_mat(v, ncols_hint=None):
    """Some (nr, columns of (num, den)) -> rows (JSON); None stays None."""
    if not (isinstance(v, dict) and v.get('c') == 'Some'):
        return None
    nr, cols = v['a'][0]
    cols = [[A.frac_json(Fraction(x[0], x[1])) for x in col] for col in cols]
    return [[c[i] for c in cols] for i in range(nr)]


def decode_cols(v):
    """Exec.mat: Some columns -> rows."""
    if not (isinstance(v, dict) and v.get('c') == 'Some'):
        return None
    cols = [[A.frac_json(Fraction(x[0], x[1])) for x in col] for col in v['a'][0]]
    return [list(r) for r in zip(*cols)] if cols else []


class Check(PropertyCheck):
    id = 'C04'
    props = ['Tables.v', 'C04.v', 'ExecFacts.v', 'C04Exec.v', 'C04Leaf.v']
    static_targets = ['theories/Model/Pinned.vo', 'theories/Lemmas/TablesL.vo', 'theories/Model/AsMatrix.vo',
                      'theories/Lemmas/AsMatrixL.vo', 'theories/Lemmas/AsMatrixExecL.vo', 'theories/Lemmas/AsMatrixLoopL.vo', 'theories/Lemmas/ExecFactsL.vo',
                      'theories/Lemmas/AsMatrixOvL.vo', 'theories/Lemmas/AsMatrixLeafL.vo']
    coq_header = A.COQ_HEADER + 'From Furax Require Import Model.Wf Model.AsMatrix.\nFrom Furax Require Import Lemmas.ExecFactsL Lemmas.AsMatrixOvL.\n'
    shard = 60
    workers = 8
    partial = (
        'linearity (denote_homogeneous / denote_additive / denote_linear) is proved for all expression trees; LOOP (the '
        'transcribed fori_loop `as_matrix_generic` builds exactly the matrix of the columns `generic_columns`) is proved '
        'for every operator term without hypotheses (Lemmas/AsMatrixLoopL.v: generic_loop_is_columns); apply_is_matvec '
        'holds for every honest operator; override_represents / override_eq_generic hold for all expression trees under '
        'the named premises HON (C05 honesty: derivable via honesty_premise_from_C05) and the leaf-level premises HOV '
        '(n-d DiagonalOperator, Toeplitz, DiagonalInverse overrides: proved in the models of C11/C09), HRESH (ravel/reshape '
        '= eye), HINV/HSOLVE (jnp.linalg.inv returns an inverse; a lazy inverse solves its system): these enter as Section '
        'hypotheses in Props/C04.v; for the EXECUTABLE semantics they are discharged (Props/C04Exec.v, Lemmas/AsMatrixOvL.v: exec_override_eq_generic[_min], '
        'exec_override_eq_generic_full[_min], exec_override_represents, x_minv_inverts / x_minv_complete for the modelled jnp.linalg.inv; HSOLVE not needed) under '
        'the DECIDABLE hypotheses wfo, dtable_okb (implied by table_okb), otable_okb, which are evaluated by vm_compute on every compared case and must be true '
        '(a False is a reported disagreement); two leaf-level facts remain run-time checks inside otable_okb rather than theorems about the array code: the 1-d '
        'PDiag closed form diag(values) (and the measured n-d Diagonal / Toeplitz / DiagonalInverse overrides) equal the columns of the leaf, and ravel / reshape '
        'leaves act as the identity on the flattened data (eye); lin_facts IS discharged for the executable semantics with any table (Props/ExecFacts.v: exec_lin_facts, exec_denote_linear; exec_apply_is_matvec under the decidable table_okb)'
    )
    trusted = [
        'translator tools/translate/tables.py (which definition of as_matrix - and of the other dunder / structure '
        'methods - every operator class resolves to, read from the imported package by walking the MRO; fails closed on '
        'unknown classes); tied to the dispatch of the model by as_matrix_resolution_as_modelled and to the pinned table '
        'by Props/Tables.v',
        'leaf operators (dense einsum atoms, index, pack, move-axis, Toeplitz, n-d diagonals, user-defined operators, '
        'iterative inverses, generic lazy transposes) act in the executable model through dense matrices measured on the '
        'real objects; the theorems quantify over arbitrary leaf semantics satisfying `lin_facts` (Lemmas/AsMatrixL.v): '
        'leaves are additive and homogeneous, return values of their declared output structure, a lazy inverse returns '
        'the solution of the system of its operand',
        'the as_matrix overrides of the array-level leaf classes (DiagonalOperator with n-d values, '
        'SymmetricBandToeplitzOperator, DiagonalInverseOperator) enter the composite theorem as the assumption that they '
        'equal the generic matrix of the leaf (proved element by element in their own models: C11 diag_as_matrix, C09 '
        'as_matrix_times_x); in the executable model their matrices are measured on the real as_matrix(); 1-d diagonal '
        'operators are computed by the model itself',
        'JAX primitives by their textbook meaning: jnp.hstack/vstack, jax.scipy.linalg.block_diag, jnp.identity/eye, '
        'jnp.linalg.inv (a two-sided inverse, when it exists), jnp.add on equal shapes, .at[].set, lax.fori_loop, '
        'jax.tree.flatten/unflatten/leaves (dict keys sorted), ravel/reshape (row-major)',
        'floating point: inputs are small integers / dyadic rationals so that the three dense forms are compared '
        'exactly; cases containing an inverse (LU, CG) or a QU rotation (trigonometry) are compared within 1e-4 and their '
        'measured entries rounded to rationals with denominator <= 4096 before the comparison with the model',
        'dtypes are not modelled (the model is an exact ring): the dtype scope - outputs wider than inputs (complex or float '
        'parameters on real / integer / float16 data), int32, complex64 and mixed-dtype data - is judged on the '
        'implementation: the three real dense forms and the probes are compared exactly in complex double precision and '
        'the dtype of both as_matrix forms must be the dtype of the columns op(e_j); cases with real data of any dtype '
        'are also compared with the model, cases with complex data are not (the executable model is over the rationals)',
        'complex scope (complex parameters on complex structures, every class under every wrapper): judged on the '
        'implementation only - the three dense forms, the linearity probes (complex integer coefficients and data) and a '
        'closed-form NumPy matrix of the whole expression (leaf formulas; .T and lazy transposes = the PLAIN transpose; '
        'np.linalg.inv; products, sums, hstack / vstack / block_diag in pytree order) compared in complex double '
        'precision; lazy transposes of widening (real -> complex) operators are not generated (not complex-linear); the '
        'FFT methods of the Toeplitz class take the real part of their result (the class is annotated for real data): '
        'complex bands are generated for the dense and direct methods only',
        'only operators whose declared output structure is what mv returns are generated: a @square class (scalar, '
        'diagonal, Toeplitz) with parameters wider than its data (complex values on a real structure, float values on an '
        'integer structure, hence also complex_scalar * real_operator) declares the narrow structure and its as_matrix '
        'casts to it - outside the domain by C05\'s params_not_wider guard (DESIGN 10.4), not judged here',
        'call-style scope (dtypes and containers are not modelled): op(x) and op.mv(x) on jax / NumPy / Python-scalar leaves of '
        'the declared and of wider dtypes (fractional on integer, float32 on float16, complex on real, float64 under '
        'jax.enable_x64) are judged on the implementation against (matrix of op.mv(e_j)) @ flat(x) in NumPy double / complex '
        'double, exactly (tolerance 1e-4 relative to the largest entry for the approximate classes); an exception of op(x) '
        'where op.mv(x) returns a value is a failure, an exception of both is not judged (the style is outside the domain of '
        'the class); wider inputs are not judged through lazy transposes / lazy inverses (jax.linear_transpose and '
        'lineax.linear_solve raise on them) nor complex data through the FFT methods of the Toeplitz class (real part); the '
        'harness\'s own user atom MixOperator promotes its outputs when its input is wider than declared',
        'configuration scope: the closed-form NumPy matrix of a symmetric band Toeplitz operator (T[i,j] = band[|i-j|], '
        'block diagonal over the leading axes), of einsum blocks (np.einsum) and of the user atoms is the reference of '
        'every evaluation method; FFT methods are compared within 1e-4 (float32 FFT), inputs being half-integers',
    ]

    # -- T-tie: which definition of as_matrix every class resolves to ---------------------------------
    def translate(self):
        import tables

        self.stats['tables'] = tables.generate(self.gen_dir)

    def gen_files(self):
        return ['Tables.v']

    # -- cases ---------------------------------------------------------------------------------
    def cases(self):
        quick = self.tier == 'quick'
        rng = self.rng
        t = typed()
        names = sorted(t)
        out = []
        # 1. every operand of the alphabet
        for n in names:
            out.append({'kind': 'operand', 'e': n})
        # 2. lazy duals, scalar multiples
        inv_ok = ['S22', 'S22b', 'D2', 'H2', 'Hh2', 'I2', 'BDspd', 'Hs', 'Q1', 'Q2', 'Qq', 'M23', 'BDq', 'T4']
        for n in inv_ok:
            if n in t:
                out.append({'kind': 'inverse', 'e': {'I': n}})
        tn = [n for n in names if 'InverseOperator' not in self._cls(n)]
        for n in (rng.sample(tn, 25) if quick else tn):
            out.append({'kind': 'transpose', 'e': {'T': n}})
        for n in (rng.sample(names, 12) if quick else names):
            out.append({'kind': 'scalar', 'e': {'smul': [rng.choice([2, -1, 0.5]), n]}})
        # 3. products (CompositionOperator has no override: generic through every operand's mv)
        ch = [c for c in chains(3, names, t) if len(c) in (2, 3)]
        rng.shuffle(ch)
        for c in ch[: 30 if quick else 800]:
            out.append({'kind': 'product', 'e': {rng.choice(['chain', 'rchain', 'comp']): c}})
        # 4. sums
        same = [(a, b) for a in names for b in names if t[a] == t[b]]
        rng.shuffle(same)
        for a, b in same[: 30 if quick else 600]:
            c = rng.choice([n for n in names if t[n] == t[a]])
            e = rng.choice([{'add': [a, b]}, {'sum': [a, b, c]}, {'sub': [a, {'add': [b, c]}]}, {'sum': [a]}])
            out.append({'kind': 'sum', 'e': e})
        # 5. block operators over the alphabet, every container form
        by_in, by_out = {}, {}
        for n in names:
            by_in.setdefault(t[n][0], []).append(n)
            by_out.setdefault(t[n][1], []).append(n)
        nblock = 50 if quick else 800
        for _ in range(nblock):
            kind = rng.choice(['row', 'bdiagop', 'col'])
            k = rng.choice([1, 2, 2, 3, 3])
            if kind == 'bdiagop':
                ops = [rng.choice(names) for _ in range(k)]
            else:
                pool = rng.choice([v for v in (by_out if kind == 'row' else by_in).values()])
                ops = [rng.choice(pool) for _ in range(k)]
            out.append({'kind': 'block', 'let': {'B': {'k': kind, 'blocks': self._container(rng, ops)}}, 'e': 'B'})
        # 6. the layout scope
        lays = all_layouts()
        self.stats['layouts_in_scope'] = len(lays)
        if quick:
            fixed = [l for l in lays if l[0].startswith(('dict:', 'nest', 'stokes-in', 'mixed-dict')) and rng.random() < 0.06]
            lays = fixed + rng.sample(lays, 26)
        for tag, s in lays:
            for c in self._layout_cases(rng, tag, s, 3 if quick else 4):
                out.append(c)
        # 7. the dtype scope: outputs wider than inputs, non-float32 data
        out += self._dtype_cases(rng, quick)
        # 8. the configuration scope: every evaluation method / tuning parameter
        out += self._toeplitz_cases(rng, quick)
        out += self._solver_cases(rng, quick)
        # 9. the complex scope: complex parameters on complex structures, every class under every wrapper
        out += self._complex_cases(rng, quick)
        self.stats['operands'] = len(names)
        # 10. the call-style scope (op(x) / op.mv(x) x jax / NumPy / Python leaves x declared / wider dtypes): every case in
        # the thorough tier; quick: the fixed cases of the dtype scope, half of the other dtype cases and of the alphabet,
        # one case in 8 elsewhere
        for c in out:
            p = 1.0 if not quick else 0.5 if (c['kind'] == 'operand' or c['kind'].startswith('dtype-')) else 0.125
            if c.get('styles') or rng.random() < p:
                c['styles'] = True
        self.stats['call_style_cases'] = sum(1 for c in out if c.get('styles'))
        return out

    # -- dtype scope -------------------------------------------------------------------------------
    # (parameter dtype, data dtype): the output dtype is the promotion of both
    DTYPE_COMBOS = [(C64, F32), (F32, I32), (C64, I32), (F32, F16), (C64, C64), (I32, I32), (F32, C64), (F32, 'I32+F16')]
    OUT_DTYPE = {(C64, F32): C64, (F32, I32): F32, (C64, I32): C64, (F32, F16): F32, (C64, C64): C64, (I32, I32): I32,
                 (F32, C64): C64, (F32, 'I32+F16'): F32}
    NOT_WIDER = {(C64, C64), (I32, I32), (F32, C64)}   # the parameters are absorbed by the data dtype

    @staticmethod
    def _pvals(rng, shape, pd, sd, small=False):
        """Parameter values for which a cast to the data dtype is visible (small: a second factor of a product, kept
        small so that every product stays exact in float32)."""
        n = int(np.prod(shape)) if shape else 1
        nest = lambda vs: np.array(vs, dtype=np.float64).reshape(shape).tolist()  # noqa: E731
        if pd == C64:
            return {'re': nest([rng.choice([-2, -1, 0, 1, 2, 0.5]) for _ in range(n)]),
                    'im': nest([rng.choice([-1.5, -1, 0.5, 1, 2]) for _ in range(n)]), 'dt': pd}
        if pd == I32:
            pool = [-2, -1, 1, 2, 3]
        elif (sd == F16 or sd == 'I32+F16') and not small:
            pool = [2049, -2051, 4097, 0.5, 1.5]      # float16 holds integers up to 2048 only
        elif sd == I32:
            pool = [0.5, 1.5, -0.5, 2.5, -1.5]
        else:
            pool = [-2, -1, 1, 2, 0.5, 1.5]
        return {'re': nest([rng.choice(pool) for _ in range(n)]), 'dt': pd}

    def _dtype_family(self, rng, pd, sd):
        """All cases of one (parameter dtype, data dtype) combination: (tag, let, expression, core?)."""
        od = self.OUT_DTYPE[(pd, sd)]
        dts = ['int32', 'float16'] if sd == 'I32+F16' else [sd, sd]
        d0, d1 = dts
        pv = lambda shape: self._pvals(rng, shape, pd, sd)  # noqa: E731
        s1, s2 = leaf([3], d0), leaf([2, 3], d0)
        spt = {'dict': {'b': leaf([3], d0), 'a': leaf([3, 2], d1)}}     # equal leading dimensions
        spt2 = {'dict': {'b': leaf([3], d0), 'a': leaf([2, 3], d1)}}    # equal trailing dimensions
        out = []

        def add(tag, let, e='X', core=False):
            out.append((tag, let, e, core))

        W1 = {'k': 'dense2', 'b': pv([2, 3]), 's': s1, 'sub': 'ij,j->i'}
        W1b = {'k': 'dense2', 'b': pv([2, 3]), 's': s1, 'sub': 'ij,j->i'}
        US = {'k': 'uscale', 'v': pv([3]), 's': spt2}
        # leaf classes whose declared output structure is the evaluation of mv
        add('dense-ij', {'X': W1}, core=True)
        add('dense-default-2d', {'X': {'k': 'dense2', 'b': pv([2, 2]), 's': s2}})
        add('dense-batched', {'X': {'k': 'dense2', 'b': pv([2, 2, 3]), 's': s2, 'sub': 'imn,in->im'}})
        add('dense-pytree', {'X': {'k': 'dense2', 'b': pv([2, 3]), 's': spt}}, core=True)
        add('bdiag-left', {'X': {'k': 'bdiag2', 'v': pv([2, 3]), 'axis': -1, 's': s1}}, core=True)
        add('bdiag-plain-pytree', {'X': {'k': 'bdiag2', 'v': pv([3]), 'axis': 0, 's': spt}})
        add('bdiag-right', {'X': {'k': 'bdiag2', 'v': pv([3, 2]), 'axis': 0, 's': s1}})
        add('user-scale', {'X': US}, core=True)
        t = {'list': [leaf([], od), leaf([1, 2], od)]}
        mix = {'k': 'mix', 'm': self._matrix(rng, 3, 9), 's': spt2, 't': t, 'mdt': pd}
        if pd == C64:
            mix['mi'] = [[rng.choice([-1, 0.5, 1, 2]) for _ in range(9)] for _ in range(3)]
        elif pd == F32:
            mix['m'] = self._pvals(rng, [3, 9], pd, sd)['re']
        add('user-mix', {'X': mix})
        # parameter-free classes and @square classes with parameters the data absorb
        add('ident', {'X': {'k': 'ident', 's': spt}})
        add('homoth-pyint', {'X': {'k': 'homoth2', 'v': 2, 's': spt}})
        add('ravel', {'X': {'k': 'ravel', 's': s2}})
        add('reshape', {'X': {'k': 'reshape', 'shape': [3, 2], 's': s2}})
        add('index', {'X': {'k': 'index', 'idx': [{'arr': [2, 0, 2]}], 's': spt}})
        add('moveaxis', {'X': {'k': 'moveaxis', 'src': 0, 'dst': 1, 's': s2}})
        add('pack', {'X': {'k': 'pack', 'mask': [True, False, True], 's': s1}})
        if (pd, sd) in self.NOT_WIDER:
            add('homoth', {'X': {'k': 'homoth2', 'v': self._pvals(rng, [], pd, sd), 's': spt}}, core=True)
            add('diag', {'X': {'k': 'diag2', 'v': pv([3]), 'axis': 0, 's': spt}}, core=True)
            add('diag-last', {'X': {'k': 'diag2', 'v': pv([3]), 'axis': -1, 's': spt2}})
            add('diag-nd', {'X': {'k': 'diag2', 'v': pv([2, 3]), 'axis': 0, 's': s2}})
            if pd != I32:
                add('diag-inverse', {'D': {'k': 'diag2', 'v': pv([3]), 'axis': 0, 's': spt}, 'X': {'k': 'expr', 'e': {'I': 'D'}}})
            if pd == C64:
                add('homoth-pycomplex', {'X': {'k': 'homoth2', 'v': {'re': 0.5, 'im': -1}, 's': spt}})
        # composites over a wide leaf
        N = {'k': 'homoth2', 'v': 2, 's': s1}
        P = {'k': 'dense2', 'b': self._pvals(rng, [2, 2], pd, sd, small=True), 's': leaf([2], od), 'sub': 'ij,j->i'}
        add('smul-int', {'W': W1, 'X': {'k': 'smul2', 'c': 2, 'of': 'W'}})
        add('rmul-int', {'W': US, 'X': {'k': 'rmul2', 'c': -1, 'of': 'W'}})
        if od == C64:
            add('smul-complex', {'W': W1, 'X': {'k': 'smul2', 'c': {'re': 1, 'im': 0.5}, 'of': 'W'}}, core=True)
        if od != I32:
            add('div', {'W': W1, 'X': {'k': 'div2', 'c': 2, 'of': 'W'}})
        add('comp-wide-after', {'W': W1, 'N': N, 'X': {'k': 'expr', 'e': {'comp': ['W', 'N']}}}, core=True)
        add('mm-wide-first', {'W': W1, 'P': P, 'X': {'k': 'expr', 'e': {'mm': ['P', 'W']}}})
        add('add', {'W': W1, 'V': W1b, 'X': {'k': 'expr', 'e': {'add': ['W', 'V']}}})
        add('sum', {'W': W1, 'V': W1b, 'X': {'k': 'expr', 'e': {'sum': ['W', 'V', 'W']}}}, core=True)
        add('row', {'W': W1, 'V': W1b, 'X': {'k': 'row', 'blocks': {'dict': {'q': 'W', 'c': 'V'}}}}, core=True)
        add('bdiagop-mixed', {'W': W1, 'I': {'k': 'ident', 's': s1}, 'U': US,
                              'X': {'k': 'bdiagop', 'blocks': {'dict': {'q': 'I', 'c': 'W', 'm': 'U'}}}}, core=True)
        add('col-mixed', {'W': W1, 'I': {'k': 'ident', 's': s1}, 'X': {'k': 'col', 'blocks': ['I', 'W']}}, core=True)
        add('nested-blocks', {'W': W1, 'V': W1b, 'N': N, 'R': {'k': 'row', 'blocks': ['W', 'V']},
                              'X': {'k': 'bdiagop', 'blocks': {'tuple': ['N', 'R']}}})
        add('dense-T', {'W': W1, 'X': {'k': 'expr', 'e': {'T': 'W'}}})
        # lazy transposes (jax.linear_transpose) only where the operator does not widen: the transpose of a widening
        # operator narrows - float32 -> float16 rounds, and complex -> real is the real part of a product, which is
        # additive but not homogeneous over the complex scalars (outside the property: not a complex-linear map)
        if od == d0 == d1:
            add('user-lazy-T', {'W': US, 'X': {'k': 'expr', 'e': {'T': 'W'}}})
            add('bdiag-lazy-T', {'W': {'k': 'bdiag2', 'v': pv([2, 3]), 'axis': -1, 's': s1}, 'X': {'k': 'expr', 'e': {'T': 'W'}}})
            add('index-unique-lazy-T', {'W': {'k': 'index', 'idx': [{'arr': [2, 0]}], 's': spt, 'unique': True}, 'X': {'k': 'expr', 'e': {'T': 'W'}}})
        return out

    def _dtype_cases(self, rng, quick):
        out = []
        for pd, sd in self.DTYPE_COMBOS:
            fam = self._dtype_family(rng, pd, sd)
            if quick:
                rest = [f for f in fam if not f[3]]
                fam = [f for f in fam if f[3]] + rng.sample(rest, min(5, len(rest)))
            for tag, let, e, core in fam:
                out.append({'kind': f'dtype-{tag}', 'dtypes': f'{pd} on {sd}', 'let': let, 'e': e, **({'styles': True} if core else {})})
        return out

    # -- complex scope -----------------------------------------------------------------------------
    # complex parameters on COMPLEX input structures (a complex-linear map complex -> complex): every leaf class,
    # under every wrapper.  The imaginary parts are never zero, the matrices neither symmetric nor Hermitian: a
    # conjugation, a real part or an adjoint taken for a transpose is visible in every case.
    CSQ = {'re': [[2, 1, 0], [0, 3, 1], [1, 0, 2]], 'im': [[1, 0, 0.5], [0.5, -1, -1], [0, 1, 2]], 'dt': C64}
    CHPD = {'re': [[4, 1, 0], [1, 3, 1], [0, 1, 2]], 'im': [[0, 1, 0], [-1, 0, 0.5], [0, -0.5, 0]], 'dt': C64}
    CSCAL = {'re': 1, 'im': 0.5}

    def _complex_leaves(self, rng):
        """name -> (let, square-and-invertible?): the operator is let['L']."""
        cv = lambda shape: self._pvals(rng, shape, C64, C64)  # noqa: E731
        s1, s2 = leaf([3], C64), leaf([2, 3], C64)
        spt = {'dict': {'b': leaf([3], C64), 'a': leaf([3, 2], C64)}}
        spt2 = {'dict': {'b': leaf([3], C64), 'a': leaf([2, 3], C64)}}
        t = {'list': [leaf([], C64), leaf([1, 2], C64)]}
        mix = {'k': 'mix', 'm': self._matrix(rng, 3, 9), 'mi': [[rng.choice([-1, 0.5, 1, 2]) for _ in range(9)] for _ in range(3)],
               's': spt2, 't': t, 'mdt': C64}
        D = {'k': 'diag2', 'v': cv([3]), 'axis': 0, 's': spt}
        stokes = {'stokes': 'IQU', 'shape': [2], 'dtype': C64}
        one = lambda d, sq=False: ({'L': d}, sq)  # noqa: E731
        return {
            'dense-ij': one({'k': 'dense2', 'b': cv([2, 3]), 's': s1, 'sub': 'ij,j->i'}),
            'dense-square': one({'k': 'dense2', 'b': self.CSQ, 's': s1, 'sub': 'ij,j->i'}, True),
            'dense-default-2d': one({'k': 'dense2', 'b': cv([2, 2]), 's': s2}),
            'dense-batched': one({'k': 'dense2', 'b': cv([2, 2, 3]), 's': s2, 'sub': 'imn,in->im'}),
            'dense-pytree': one({'k': 'dense2', 'b': cv([2, 3]), 's': spt}),
            'bdiag-left': one({'k': 'bdiag2', 'v': cv([2, 3]), 'axis': -1, 's': s1}),
            'bdiag-plain-pytree': one({'k': 'bdiag2', 'v': cv([3]), 'axis': 0, 's': spt}),
            'bdiag-right': one({'k': 'bdiag2', 'v': cv([3, 2]), 'axis': 0, 's': s1}),
            'diag': one(D, True),
            'diag-last': one({'k': 'diag2', 'v': cv([3]), 'axis': -1, 's': spt2}, True),
            'diag-nd': one({'k': 'diag2', 'v': cv([2, 3]), 'axis': 0, 's': s2}, True),
            'diag-inverse': ({'D': D, 'L': {'k': 'expr', 'e': {'I': 'D'}}}, False),
            'homoth': one({'k': 'homoth2', 'v': self._pvals(rng, [], C64, C64), 's': spt}, True),
            'homoth-pycomplex': one({'k': 'homoth2', 'v': {'re': 0.5, 'im': -1}, 's': spt}),
            # (the FFT methods take the real part of their result: the class is annotated for real data)
            'toeplitz-dense': one({'k': 'toeplitz2', 'band': cv([2]), 's': leaf([4], C64), 'method': 'dense'}),
            'toeplitz-direct-batched': one({'k': 'toeplitz2', 'band': cv([2, 2]), 's': leaf([2, 3], C64), 'method': 'direct'}),
            'user-scale': one({'k': 'uscale', 'v': cv([3]), 's': spt2}),
            'user-mix': one(mix),
            # parameter-free / real-parameter classes on complex data
            'ident': one({'k': 'ident', 's': spt}),
            'index': one({'k': 'index', 'idx': [{'arr': [2, 0, 2]}], 's': spt}),
            'index-unique': one({'k': 'index', 'idx': [{'arr': [2, 0]}], 's': spt, 'unique': True}),
            'pack': one({'k': 'pack', 'mask': [True, False, True], 's': s1}),
            'moveaxis': one({'k': 'moveaxis', 'src': 0, 'dst': 1, 's': s2}),
            'ravel': one({'k': 'ravel', 's': {'list': [s2, s1]}}),
            'reshape': one({'k': 'reshape', 'shape': [3, 2], 's': s2}),
            'qurot': one({'k': 'qurot2', 'q': [1, 0.5], **stokes}),
            'hwp': one({'k': 'hwp2', **stokes}),
            'polarizer': one({'k': 'pol2', **stokes}),
        }

    def _complex_wrappers(self):
        """name -> extra let entries around the operator L (the case is X); the last four need an invertible L."""
        c = self.CSCAL
        lazy = {'k': 'lazyT', 'of': 'L'}
        return {
            'T': {'X': {'k': 'expr', 'e': {'T': 'L'}}},
            'lazyT': {'X': lazy},
            'lazyT-lazyT': {'Y': lazy, 'X': {'k': 'lazyT', 'of': 'Y'}},
            'smul-of-lazyT': {'Y': lazy, 'X': {'k': 'smul2', 'c': c, 'of': 'Y'}},
            'lazyT-of-smul': {'Y': {'k': 'smul2', 'c': c, 'of': 'L'}, 'X': {'k': 'lazyT', 'of': 'Y'}},
            'lazyT-of-neg': {'Y': {'k': 'expr', 'e': {'neg': 'L'}}, 'X': {'k': 'lazyT', 'of': 'Y'}},
            'lazyT-in-bdiagop': {'Y': lazy, 'X': {'k': 'bdiagop', 'blocks': {'dict': {'q': 'Y', 'c': 'L'}}}},
            'gram': {'Y': lazy, 'X': {'k': 'expr', 'e': {'comp': ['Y', 'L']}}},
            'lazyT-of-sum': {'Y': {'k': 'expr', 'e': {'sum': ['L', 'L']}}, 'X': {'k': 'lazyT', 'of': 'Y'}},
            'sum-of-lazyT': {'Y': lazy, 'X': {'k': 'expr', 'e': {'sum': ['Y', 'Y', 'Y']}}},
            'lazyT-of-row': {'Y': {'k': 'row', 'blocks': {'dict': {'q': 'L', 'c': 'L'}}}, 'X': {'k': 'lazyT', 'of': 'Y'}},
            'col-of-lazyT': {'Y': lazy, 'X': {'k': 'col', 'blocks': ['Y', 'Y']}},
            'inverse-LU': {'X': {'k': 'inv', 'of': 'L', 'solver': 'LU'}},
            'inverse-of-lazyT': {'Y': lazy, 'X': {'k': 'inv', 'of': 'Y', 'solver': 'LU'}},
            'lazyT-of-inverse': {'Y': {'k': 'inv', 'of': 'L', 'solver': 'LU'}, 'X': {'k': 'lazyT', 'of': 'Y'}},
            'inverse-in-block': {'Y': {'k': 'inv', 'of': 'L', 'solver': 'LU'}, 'Z': {'k': 'lazyT', 'of': 'L'},
                                 'X': {'k': 'bdiagop', 'blocks': {'dict': {'z': 'Y', 'a': 'Z'}}}},
        }

    INVERSE_WRAPPERS = ('inverse-LU', 'inverse-of-lazyT', 'lazyT-of-inverse', 'inverse-in-block')

    def _complex_composites(self, rng):
        """Lazy and class-defined transposes of products / sums / block operators of complex leaves, and composites of
        lazy transposes: (tag, let)."""
        cv = lambda shape: self._pvals(rng, shape, C64, C64)  # noqa: E731
        s1 = leaf([3], C64)
        base = {
            'W': {'k': 'dense2', 'b': cv([2, 3]), 's': s1, 'sub': 'ij,j->i'},
            'V': {'k': 'dense2', 'b': cv([2, 3]), 's': s1, 'sub': 'ij,j->i'},
            'U': {'k': 'bdiag2', 'v': cv([2, 3]), 'axis': -1, 's': s1},
            'P': {'k': 'dense2', 'b': cv([2, 2]), 's': leaf([2], C64), 'sub': 'ij,j->i'},
            'N': {'k': 'homoth2', 'v': {'re': 0.5, 'im': -1}, 's': s1},
            'WT': {'k': 'lazyT', 'of': 'W'}, 'VT': {'k': 'lazyT', 'of': 'V'}, 'UT': {'k': 'lazyT', 'of': 'U'},
        }
        inner = {
            'comp': {'k': 'expr', 'e': {'mm': ['P', 'W']}},
            'comp3': {'k': 'expr', 'e': {'comp': ['P', 'W', 'N']}},
            'sum': {'k': 'expr', 'e': {'add': ['W', 'V']}},
            'sum3': {'k': 'expr', 'e': {'sum': ['W', 'V', 'W']}},
            'row': {'k': 'row', 'blocks': {'dict': {'q': 'W', 'c': 'V'}}},
            'col': {'k': 'col', 'blocks': ['W', 'U']},
            'bdiagop': {'k': 'bdiagop', 'blocks': {'dict': {'q': 'N', 'c': 'W', 'm': 'U'}}},
            'scaled': {'k': 'smul2', 'c': self.CSCAL, 'of': 'W'},
        }
        out = []
        for tag, y in inner.items():
            out.append((f'lazyT-of-{tag}', {**base, 'Y': y, 'X': {'k': 'lazyT', 'of': 'Y'}}))
            out.append((f'T-of-{tag}', {**base, 'Y': y, 'X': {'k': 'expr', 'e': {'T': 'Y'}}}))
        out.append(('lazyT-of-nested-blocks', {**base, 'R': inner['row'], 'Y': {'k': 'bdiagop', 'blocks': {'tuple': ['N', 'R']}}, 'X': {'k': 'lazyT', 'of': 'Y'}}))
        outer = {
            'row-of-lazyT': {'k': 'row', 'blocks': {'dict': {'q': 'WT', 'c': 'UT', 'a': 'N'}}},
            'col-of-lazyT': {'k': 'col', 'blocks': {'tuple': ['WT', 'VT']}},
            'bdiagop-of-lazyT': {'k': 'bdiagop', 'blocks': {'dict': {'q': 'WT', 'c': 'U', 'm': 'UT'}}},
            'sum-of-lazyT': {'k': 'expr', 'e': {'sum': ['WT', 'VT', 'WT']}},
            'sub-of-lazyT': {'k': 'expr', 'e': {'sub': ['WT', 'VT']}},
            'product-lazyT-left': {'k': 'expr', 'e': {'mm': ['WT', 'P']}},
            'product-lazyT-right': {'k': 'expr', 'e': {'comp': ['P', 'W', 'UT']}},
            'product-of-lazyT': {'k': 'expr', 'e': {'comp': ['WT', {'T': 'P'}]}},
        }
        for tag, x in outer.items():
            out.append((tag, {**base, 'X': x}))
        # lazy inverses of complex operators: every solver that applies to the matrix
        sq = {'k': 'dense2', 'b': self.CSQ, 's': s1, 'sub': 'ij,j->i'}
        hpd = {'k': 'dense2', 'b': self.CHPD, 's': s1, 'sub': 'ij,j->i'}
        for solver in ('LU', 'GMRES'):
            out.append((f'inverse-{solver}', {'S': sq, 'X': {'k': 'inv', 'of': 'S', 'solver': solver}}))
        for solver in ('CG', 'BiCGStab', 'LU'):
            out.append((f'inverse-hermitian-{solver}', {'S': hpd, 'X': {'k': 'inv', 'of': 'S', 'solver': solver}}))
        out.append(('inverse-of-gram', {'W': base['W'], 'WT': base['WT'], 'N': base['N'], 'G': {'k': 'expr', 'e': {'add': [{'mm': ['WT', 'W']}, 'N']}},
                                       'X': {'k': 'inv', 'of': 'G', 'solver': 'LU'}}))
        return out

    # leaves whose class has no transpose() of its own: op.T IS the lazy TransposeOperator (the 'T' and 'lazyT' cases coincide)
    LAZY_T_LEAVES = ('bdiag-left', 'bdiag-plain-pytree', 'bdiag-right', 'user-scale', 'user-mix', 'index', 'index-unique', 'pack',
                     'polarizer')

    def _complex_cases(self, rng, quick):
        leaves, wraps = self._complex_leaves(rng), self._complex_wrappers()
        combos = [(ln, wn) for ln, (_, sq) in leaves.items() for wn in wraps if sq or wn not in self.INVERSE_WRAPPERS]
        bare = list(leaves)
        self.stats['complex_leaf_x_wrapper_in_scope'] = len(combos)
        if quick:
            # every leaf class under the lazy TransposeOperator and under its own .T; every other wrapper at least once,
            # on different leaves, + 8 sampled combinations; 8 sampled bare leaves (all of them are blocks / operands of
            # the wrapped cases)
            fixed = [c for c in combos if c[1] == 'lazyT' or (c[1] == 'T' and c[0] not in self.LAZY_T_LEAVES)]
            rest = [c for c in combos if c[1] not in ('lazyT', 'T')]
            rng.shuffle(rest)
            keep, seen = [], set()
            for ln, wn in rest:
                if wn not in seen and ln not in {k[0] for k in keep}:
                    seen.add(wn)
                    keep.append((ln, wn))
            combos = fixed + keep + rest[-8:]
            bare = rng.sample(bare, 8)
        out = []
        for ln in bare:
            out.append({'kind': 'complex-leaf', 'dtypes': 'complex64 on complex64', 'leaf': ln, 'let': leaves[ln][0], 'e': 'L'})
        for ln, wn in combos:
            out.append({'kind': f'complex-{wn}', 'dtypes': 'complex64 on complex64', 'leaf': ln, 'let': {**leaves[ln][0], **wraps[wn]}, 'e': 'X'})
        for tag, let in self._complex_composites(rng):
            out.append({'kind': f'complex-{tag}', 'dtypes': 'complex64 on complex64', 'let': let, 'e': 'X'})
        return out

    # -- configuration scope -----------------------------------------------------------------------
    @staticmethod
    def _band(rng, K, batch=None):
        def one():
            return [rng.choice([3, 4, 2.5])] + [rng.choice([-2, -1, 1, 2, 0.5, 1.5]) for _ in range(K - 1)]
        return [one() for _ in range(batch)] if batch else one()

    def _toeplitz_grid(self):
        """(K, n, method, fft_size): the 4 methods (and the default one, None), explicit FFT sizes from the smallest
        admissible 2K-1 (odd) upward, n below / at / far above K."""
        grid = []
        for K in (1, 2, 3, 4):
            for n in (1, 2, 3, 5, 8, 13):
                for m in ('dense', 'direct', 'fft', 'overlap_save', None):
                    grid.append((K, n, m, None))
                for f in range(2 * K - 1, 2 * K + 5):
                    grid.append((K, n, 'overlap_save', f))
                    grid.append((K, n, None, f))
        return grid

    def _toeplitz_cases(self, rng, quick):
        grid = self._toeplitz_grid()
        self.stats['toeplitz_configurations_in_scope'] = len(grid)
        if quick:
            core = [(K, n, 'overlap_save', f) for K in (2, 3, 4) for n in (K - 1, 3 * K + 2) for f in (2 * K - 1, 2 * K, 2 * K + 1)]
            core += [(K, n, m, None) for K, ns in ((1, (2, 7)), (3, (2, 7)), (4, (3, 9))) for n in ns for m in ('dense', 'direct', 'fft', None)]
            core += [(1, 4, None, f) for f in (1, 2, 3)]
            grid = core + rng.sample([g for g in grid if g not in core], 14)
        out = []
        for K, n, m, f in grid:
            d = {'k': 'toeplitz2', 'band': self._band(rng, K), 's': leaf([n]), 'method': m, 'fft': f}
            out.append({'kind': 'toeplitz-config', 'configured': True, 'config': f'K={K} n={n} method={m} fft_size={f}', 'let': {'X': d}, 'e': 'X'})
        # batched bands / data (block diagonal over the leading axes), every method, odd and even sizes
        batched = []
        for K, n in ((2, 5), (3, 4), (3, 2)):
            for m, f in (('dense', None), ('direct', None), ('fft', None), ('overlap_save', None),
                         ('overlap_save', 2 * K - 1), ('overlap_save', 2 * K), (None, 2 * K + 1)):
                batched.append((K, n, m, f, True))
                batched.append((K, n, m, f, False))
        for K, n, m, f, per_row in (rng.sample(batched, 10) if quick else batched):
            d = {'k': 'toeplitz2', 'band': self._band(rng, K, 2 if per_row else None), 's': leaf([2, n]), 'method': m, 'fft': f}
            out.append({'kind': 'toeplitz-batched', 'configured': True, 'config': f'K={K} n={n} method={m} fft_size={f} band-per-row={per_row}', 'let': {'X': d}, 'e': 'X'})
        # configured operators inside composites
        for K, n, f in ((2, 4, 3), (3, 7, 5), (2, 6, 4)) if quick else ((2, 4, 3), (3, 7, 5), (2, 6, 4), (3, 4, 7), (4, 9, 7), (2, 9, 5)):
            T = {'k': 'toeplitz2', 'band': self._band(rng, K), 's': leaf([n]), 'method': 'overlap_save', 'fft': f}
            Td = {'k': 'toeplitz2', 'band': self._band(rng, K), 's': leaf([n]), 'method': rng.choice(['direct', 'fft', 'dense'])}
            D = {'k': 'diag', 'v': [rng.choice([1, 2, -3, 4]) for _ in range(n)], 's': [n]}
            form = rng.choice(['bdiagop', 'mm', 'sum', 'row'])
            X = {'bdiagop': {'k': 'bdiagop', 'blocks': {'dict': {'t': 'T', 'd': 'D', 'a': 'Td'}}},
                 'row': {'k': 'row', 'blocks': ['T', 'Td', 'D']},
                 'mm': {'k': 'expr', 'e': {'chain': ['T', 'D', 'Td']}},
                 'sum': {'k': 'expr', 'e': {'sum': ['T', 'Td', 'D']}}}[form]
            out.append({'kind': f'toeplitz-in-{form}', 'configured': True, 'config': f'K={K} n={n} fft_size={f}', 'let': {'T': T, 'Td': Td, 'D': D, 'X': X}, 'e': 'X'})
        return out

    def _solver_cases(self, rng, quick):
        """Lazy inverses under every linear solver of the configuration (InverseOperator.mv goes through the solver,
        its as_matrix through jnp.linalg.inv)."""
        spd = {'k': 'dense', 'm': [[4, 1, 0], [1, 3, 1], [0, 1, 2]]}
        gen = {'k': 'dense', 'm': [[2, 1, 0], [0, 1, 1], [1, 0, 2]]}
        pre = {'k': 'diag', 'v': [0.25, 0.5, 0.5], 's': [3]}
        out = []
        for solver in SOLVERS:
            out.append({'kind': 'inverse-solver', 'configured': True, 'config': solver, 'let': {'S': spd, 'X': {'k': 'inv', 'of': 'S', 'solver': solver}}, 'e': 'X'})
        for solver in ('CG', 'BiCGStab', 'GMRES'):
            out.append({'kind': 'inverse-solver-preconditioned', 'configured': True, 'config': solver,
                        'let': {'S': spd, 'P': pre, 'X': {'k': 'inv', 'of': 'S', 'solver': solver, 'precond': 'P'}}, 'e': 'X'})
        # (lineax's BiCGStab breaks down on basis-vector right-hand sides of this matrix: a solver matter, not used)
        for solver in ('GMRES', 'LU'):
            out.append({'kind': 'inverse-solver-nonsymmetric', 'configured': True, 'config': solver, 'let': {'S': gen, 'X': {'k': 'inv', 'of': 'S', 'solver': solver}}, 'e': 'X'})
        for solver in ('CG', 'LU'):
            out.append({'kind': 'inverse-solver-in-block', 'configured': True, 'config': solver,
                        'let': {'S': spd, 'V': {'k': 'inv', 'of': 'S', 'solver': solver}, 'X': {'k': 'bdiagop', 'blocks': {'dict': {'z': 'V', 'a': 'S'}}}}, 'e': 'X'})
        return out

    def _cls(self, name):
        o = env()[name]
        return classes_in(o) if not isinstance(o, A.Unbuildable) else set()

    @staticmethod
    def _container(rng, ops):
        """A container of operand names: list / tuple / dict with unsorted insertion order / nested."""
        k = len(ops)
        forms = ['list', 'tuple', 'dict']
        if k >= 2:
            forms += ['nest-a', 'nest-b']
        f = rng.choice(forms)
        keys = ['q', 'c', 'a', 'm'][:k]  # insertion order differs from the sorted order
        if f == 'list':
            return list(ops)
        if f == 'tuple':
            return {'tuple': list(ops)}
        if f == 'dict':
            return {'dict': dict(zip(keys, ops))}
        if f == 'nest-a':
            return [ops[0], {'dict': dict(zip(keys[1:], ops[1:]))}]
        return {'dict': {'z': {'tuple': ops[:1]}, 'b': list(ops[1:])}}

    @staticmethod
    def _matrix(rng, nr, nc):
        return [[rng.choice([-2, -1, 0, 0, 1, 2, 3]) for _ in range(nc)] for _ in range(nr)]

    def _layout_cases(self, rng, tag, s, count):
        n = desc_size(s)
        leaves = desc_leaves(s)
        kinds = ['ident', 'homoth', 'mix', 'mixT', 'bd', 'br', 'bc', 'add', 'comp', 'lazyT']
        shapes = [tuple(l['shape']) for l in leaves]
        if all(len(sh) >= 1 for sh in shapes):
            kinds.append('ravel')
            d0 = {sh[0] for sh in shapes}
            dl = {sh[-1] for sh in shapes}
            if len(d0) == 1:
                kinds += ['diag0', 'index0']
            if len(dl) == 1:
                kinds.append('diagl')
        chosen = rng.sample(kinds, min(count, len(kinds)))
        out = []
        for kd in chosen:
            t = rng.choice(OUT_LAYOUTS)
            m = desc_size(t)
            let = {}
            if kd == 'ident':
                let['X'] = {'k': 'ident', 's': s}
            elif kd == 'homoth':
                let['X'] = {'k': 'homoth', 'v': rng.choice([2, -1, 0.5]), 's': s}
            elif kd == 'mix':
                let['X'] = {'k': 'mix', 'm': self._matrix(rng, m, n), 's': s, 't': t}
            elif kd == 'mixT':
                let['X'] = {'k': 'mix', 'm': self._matrix(rng, n, m), 's': t, 't': s}
            elif kd == 'lazyT':
                let['M'] = {'k': 'mix', 'm': self._matrix(rng, m, n), 's': s, 't': t}
                let['X'] = {'k': 'expr', 'e': {'T': 'M'}}
            elif kd == 'bd':
                let['M1'] = {'k': 'mix', 'm': self._matrix(rng, m, n), 's': s, 't': t}
                let['M2'] = {'k': 'mix', 'm': self._matrix(rng, n, m), 's': t, 't': s}
                let['I'] = {'k': 'ident', 's': s}
                let['X'] = {'k': 'bdiagop', 'blocks': self._container(rng, rng.sample(['M1', 'M2', 'I'], rng.choice([1, 2, 3])))}
            elif kd == 'br':
                let['M1'] = {'k': 'mix', 'm': self._matrix(rng, m, n), 's': s, 't': t}
                let['M2'] = {'k': 'mix', 'm': self._matrix(rng, m, m), 's': t, 't': t}
                let['M3'] = {'k': 'mix', 'm': self._matrix(rng, m, n), 's': s, 't': t}
                let['X'] = {'k': 'row', 'blocks': self._container(rng, rng.sample(['M1', 'M2', 'M3'], rng.choice([1, 2, 3])))}
            elif kd == 'bc':
                let['M1'] = {'k': 'mix', 'm': self._matrix(rng, m, n), 's': s, 't': t}
                let['M2'] = {'k': 'mix', 'm': self._matrix(rng, n, n), 's': s, 't': s}
                let['I'] = {'k': 'ident', 's': s}
                let['X'] = {'k': 'col', 'blocks': self._container(rng, rng.sample(['M1', 'M2', 'I'], rng.choice([1, 2, 3])))}
            elif kd == 'add':
                let['M1'] = {'k': 'mix', 'm': self._matrix(rng, n, n), 's': s, 't': s}
                let['I'] = {'k': 'ident', 's': s}
                let['H'] = {'k': 'homoth', 'v': 2, 's': s}
                let['X'] = {'k': 'expr', 'e': {'sum': rng.sample(['M1', 'I', 'H'], rng.choice([2, 3]))}}
            elif kd == 'comp':
                let['M1'] = {'k': 'mix', 'm': self._matrix(rng, m, n), 's': s, 't': t}
                let['M2'] = {'k': 'mix', 'm': self._matrix(rng, n, m), 's': t, 't': s}
                let['X'] = {'k': 'expr', 'e': {'comp': rng.choice([['M1', 'M2'], ['M2', 'M1']])}}
            elif kd == 'ravel':
                let['X'] = {'k': 'ravel', 's': s}
            elif kd in ('diag0', 'diagl'):
                d = shapes[0][0] if kd == 'diag0' else shapes[0][-1]
                let['X'] = {'k': 'diag', 'v': [rng.choice([1, 2, -3, 4]) for _ in range(d)], 'axis': 0 if kd == 'diag0' else -1, 's': s}
            elif kd == 'index0':
                d = shapes[0][0]
                let['X'] = {'k': 'index', 'idx': [{'arr': [rng.randrange(-d, d) for _ in range(rng.choice([1, 2, 3]))]}], 's': s}
            out.append({'kind': f'layout-{kd}', 'layout': tag, 'let': let, 'e': 'X'})
        return out

    def rule(self):
        return (
            'every operand of the ~110-operand alphabet; lazy inverses of SPD/orthogonal/diagonal operands, lazy '
            'transposes, scalar multiples; sampled products (2-3 operands), sums (flattened, nested, single-operand), block '
            'row/diagonal/column operators over the alphabet in list/tuple/dict(unsorted keys)/nested containers; the layout '
            'scope (all structures with 1-3 leaves of shapes (2,),(3,),(2,2),(1,3),() in 5-6 container forms, Stokes '
            'containers, mixed float16/float32) x identity/scalar/user atom in both directions/lazy transpose/block '
            'operators of pytree-valued blocks/sums/products/ravel/diagonal/index [quick: sampled, thorough: all layouts x 4 '
            'operator kinds]; the dtype scope: 8 (parameter dtype, data dtype) combinations (complex64/float32 on '
            'float32/int32/float16/complex64/mixed data, int32 on int32) x einsum blocks (4 subscript forms, pytrees), '
            'broadcast diagonals (left / plain / right), user atoms with and without a declared output structure, '
            'identity / scalar / diagonal (1-d, last axis, n-d, inverse) / ravel / reshape / index / move-axis / pack on '
            'non-float32 data, and scalar multiples, quotients, products, sums, block row / diagonal / column (mixing real '
            'and wide blocks, nested) and lazy transposes of wide leaves [quick: 9-11 fixed + 5 sampled per combination]; '
            'the configuration scope: Toeplitz K in 1..4 x n in {1,2,3,5,8,13} x {dense, direct, fft, overlap_save, '
            'default} x explicit FFT sizes 2K-1..2K+4, batched bands and data, configured operators inside composites '
            '[quick: 45 fixed incl. every method at K > n and odd and even sizes at K > n and over several blocks + 14 sampled + 10 batched + 3 '
            'composites]; lazy inverses under the solvers CG / BiCGStab / GMRES / NormalCG / LU / Auto, with a '
            'preconditioner, on a non-symmetric operand, inside a block; the complex scope: complex64 parameters on '
            'complex64 structures x 28 leaf forms (every class) x 16 wrappers (op.T, lazy TransposeOperator single / double / '
            'of and under scalar multiples, negations, sums, blocks, Gram products, lazy inverses LU of / under / beside lazy '
            'transposes) + 31 composites (lazy and class-defined transposes of products / sums / block row / column / diagonal '
            '/ nested blocks, composites of lazy transposes, lazy inverses under LU / GMRES / CG / BiCGStab) [quick: every '
            'leaf under the lazy transpose and under its own .T, every wrapper once + 8 sampled, 8 bare leaves, all '
            'composites], each with a closed-form NumPy reference; the call-style scope: {op(x), op.mv(x)} x {jax arrays, NumPy '
            'arrays, Python scalars on 0-d leaves} x {declared dtype, fractional on integer leaves, float32 beyond float16 on '
            'float16 leaves, complex on real leaves, float64 / complex128 under x64} + linearity with the fractional / complex / '
            'large coefficients through op(NumPy pytree), on every case [quick: the fixed cases of the dtype scope, half of the '
            'other dtype cases and of the alphabet, one case in 8 elsewhere: ~230 cases, ~3000 judged applications]. Non-trivial: the class of the operator overrides '
            'as_matrix, the structure has several leaves, the output dtype is wider than the input dtype, or the operator '
            'carries an explicit configuration, or the data are complex.'
        )

    def distribution(self, cases):
        d = {}
        for c in cases:
            d[c['kind']] = d.get(c['kind'], 0) + 1
        return d

    # -- implementation ----------------------------------------------------------------------------
    def build(self, case):
        e = build_local(case.get('let', {}), env())
        for n in A_used(case['e']):
            if isinstance(e.get(n), A.Unbuildable):
                raise RuntimeError(f'operand {n}: {e[n].error}')
        return A.eval_expr(case['e'], e)

    def run_impl(self, case):
        j = A.J()
        jax, jnp = j['jax'], j['jnp']
        ALO = j['core'].AbstractLinearOperator
        try:
            op = self.build(case)
        except Exception as ex:
            return {'build_error': f'{type(ex).__name__}: {str(ex)[:200]}'}
        ins, outs = op.in_structure(), op.out_structure()
        cplx = any(is_complex_dtype(l.dtype) for l in jax.tree.leaves(ins) + jax.tree.leaves(outs))
        enc = Enc()
        term, enc_error = None, None
        if not cplx:  # the executable model is over the rationals
            try:
                term = enc.term(op)
            except Exception as ex:  # measuring a leaf applies it: judged below, once the dense forms are known
                enc_error = ex
        # a division anywhere in the description (the inverse of a scalar multiple of the identity is the float32
        # reciprocal; `/ c`) makes float32 results differ from float64 closed forms and breaks exact linearity in the
        # last place: such cases are compared with a tolerance (false alarm of vp check #5, seed 1: 1/(-1+2j))
        txt = json.dumps({'let': case.get('let'), 'e': case.get('e')}, default=str)
        approx = is_approx(op) or any(t in txt for t in ('"inv"', '"I"', '"div"', '"div2"'))
        obs = {
            'in': A.struct_repr(ins), 'out': A.struct_repr(outs),
            'in_size': A.struct_size(ins), 'out_size': A.struct_size(outs),
            'approx': approx, 'class': type(op).__name__, 'complex': cplx,
            'overrides': type(op).as_matrix is not ALO.as_matrix,
            'wide': None, 'configured': bool(case.get('configured')),
        }
        try:
            obs['in_dtype'], obs['out_dtype'] = str(op.in_promoted_dtype), str(op.out_promoted_dtype)
            obs['wide'] = obs['in_dtype'] != obs['out_dtype']
        except Exception:  # structures without leaves
            obs['in_dtype'] = obs['out_dtype'] = None
        mats = {}
        for tag, f in (('mv', lambda: cdense(op)), ('override', lambda: op.as_matrix()), ('generic', lambda: ALO.as_matrix(op))):
            try:
                m = f()
                if tag == 'mv':
                    m, obs['mv_dtype'] = m
                else:
                    obs[tag + '_dtype'] = str(m.dtype)
                m = widen(m)
                mats[tag] = m
                obs[tag + '_shape'] = list(m.shape)
                obs[tag] = rows_json(m.real)
                if np.iscomplexobj(m):
                    obs[tag + '_im'] = rows_json(m.imag)
            except Exception as ex:
                obs[tag] = None
                obs[tag + '_error'] = f'{type(ex).__name__}: {str(ex)[:200]}'
        # the property on the implementation (exact comparison unless the case is approximate)
        obs['forms'] = self._compare_forms(mats, approx)
        obs['lin'] = self._linearity(op, mats.get('mv'), approx)
        if case.get('styles'):
            obs['styles'], obs['styles_judged'], obs['styles_skipped'] = self._call_styles(op, mats.get('mv'), approx, self._style_exclusions(op))
        obs['ref'] = self._reference(case, mats, approx)
        if enc_error is not None and 'mv' in mats:
            raise enc_error
        if cplx:
            case['_unsupported'] = 'complex dtypes: the executable model is over the rationals'
        elif enc_error is not None:
            case['_unsupported'] = f'a leaf cannot be applied: {type(enc_error).__name__}'
        else:
            case['_term'] = term
            case['_table'] = enc.table_coq()
            case['_otable'] = enc.otable_coq()
            case['_unsupported'] = enc.unsupported
        return obs

    @staticmethod
    def _close(a, b, approx):
        if a.shape != b.shape:
            return False
        if approx:
            return bool(np.allclose(a, b, rtol=1e-4, atol=1e-4))
        return bool(np.array_equal(a, b))

    @staticmethod
    def _show(a):
        a = np.asarray(a)
        if np.iscomplexobj(a):
            return str([[f'{v.real:g}{v.imag:+g}j' for v in r] for r in np.atleast_2d(a)] if a.ndim > 1 else [f'{v.real:g}{v.imag:+g}j' for v in a])
        return str(a.tolist())

    def _compare_forms(self, mats, approx):
        bad = []
        mv = mats.get('mv')
        if mv is None:
            return bad
        for tag in ('override', 'generic'):
            m = mats.get(tag)
            if m is not None and not self._close(m, mv, approx):
                bad.append(f'{tag} {self._show(m)} != matrix of mv {self._show(mv)}')
        return bad

    def _reference(self, case, mats, approx):
        """The three dense forms against the closed-form NumPy matrix of the case (when there is one)."""
        try:
            ref = reference(case)
        except Exception as ex:
            return [f'reference raised {type(ex).__name__}: {str(ex)[:150]}']
        if ref is None:
            return []
        ref = widen(ref)
        # a division anywhere in the description (inverse of a scalar multiple of the identity is the float32 reciprocal,
        # `/ c`) makes the float64 closed form differ from the float32 one in the last place: compare with a tolerance
        # (false alarm of vp check #5, seed 1: 1/(-1+2j) in complex64 vs complex128)
        bad = []
        for tag in ('mv', 'override', 'generic'):
            m = mats.get(tag)
            if m is not None and not self._close(m, ref, approx):
                bad.append(f'{tag} {self._show(m)} != NumPy reference {self._show(ref)}')
        return bad

    def _linearity(self, op, mv, approx):
        """op(a x + b y) = a op(x) + b op(y) and op(x) = M flat(x), with small integer data (complex integers on
        complex leaves; complex integer coefficients a, b when every input leaf is complex)."""
        j = A.J()
        jax, jnp = j['jax'], j['jnp']
        rs = np.random.RandomState(self.seed + 17)
        leaves, treedef = jax.tree.flatten(op.in_structure())
        bad = []

        def rand():
            out = []
            for l in leaves:
                v = rs.randint(-3, 4, size=l.shape)
                if is_complex_dtype(l.dtype):
                    v = v + 1j * rs.randint(-3, 4, size=l.shape)
                out.append(jnp.asarray(v.astype(np.dtype(l.dtype))))
            return jax.tree.unflatten(treedef, out)

        cplx_in = bool(leaves) and all(is_complex_dtype(l.dtype) for l in leaves)
        for _ in range(2):
            x, y = rand(), rand()
            a, b = int(rs.randint(-3, 4)), int(rs.randint(-3, 4))
            if cplx_in:  # linear over the scalars of the input space: Gaussian integers
                a, b = complex(a, int(rs.randint(1, 3))), complex(b, int(rs.randint(-2, 0)))
            try:
                z = jax.tree.map(lambda u, v: a * u + b * v, x, y)
                fz, fx, fy = op.mv(z), op.mv(x), op.mv(y)
                rhs = jax.tree.map(lambda u, v: a * u + b * v, fx, fy)
                if jax.tree.structure(fz) != jax.tree.structure(rhs):
                    bad.append('op(a x + b y) and a op(x) + b op(y) have different containers')
                    continue
                if bicgstab_inside(op) and any(np.isnan(cflat(t)).any() for t in (fz, fx, fy)):
                    # lineax's BiCGStab breaks down (NaN) on particular right-hand sides, the zero vector included, of
                    # perfectly conditioned SPD systems where CG / GMRES / LU succeed: a solver matter, not furax's
                    # (false alarm met with VERIF_SEED=3); the probe is skipped, the other probes and dense forms remain
                    continue
                lz, lr = cflat(fz), cflat(rhs)
                if not self._close(lz, lr, approx):
                    bad.append(f'op({a} x + {b} y) = {self._show(lz)} but {a} op(x) + {b} op(y) = {self._show(lr)} for x={self._show(cflat(x))} y={self._show(cflat(y))}')
                if mv is not None:
                    want = mv @ cflat(x)
                    got = cflat(fx)
                    if not self._close(got, want, approx):
                        bad.append(f'op(x) = {self._show(got)} but matrix @ flat(x) = {self._show(want)} for x={self._show(cflat(x))}')
            except Exception as ex:
                bad.append(f'probe raised {type(ex).__name__}: {str(ex)[:150]}')
        return bad

    # -- call styles: the way x is handed over ---------------------------------------------------------
    # op(x) = as_matrix() @ flat(x) "for every x": through op(x) AND op.mv(x); x a pytree of jax arrays, of NumPy arrays,
    # of Python scalars (0-d leaves); of the declared dtype and WIDER than declared.  A wider input is z = a x + b y with
    # x (odd integers), y (even integers) of the declared dtype and coefficients (a, b) for which a cast of z to the
    # declared dtype is visible at any tolerance:
    #   fractional          integer leaves      -> float32    a, b = 1/2, -3/2            (z: half-integers; a cast truncates)
    #   float32-on-float16  float16 leaves      -> float32    a, b = 2^17, 2^18           (a cast overflows to inf)
    #   complex             every leaf          -> complex64  a, b = 1 + j/2, 2 - j       (Im z != 0; a cast drops it)
    #   float64             every leaf          -> float64 / complex128, inside jax.enable_x64
    #                                                         a, b = 2^130 (1 + 2^-30), 2^131 (a cast rounds and overflows)
    # Python scalars carry no width (weak types): they are used for the declared, fractional and complex kinds only.
    STYLE_KINDS = {
        'declared': (2, -3, False), 'fractional': (0.5, -1.5, False), 'float32-on-float16': (2.0 ** 17, 2.0 ** 18, False),
        'complex': (1 + 0.5j, 2 - 1j, False), 'float64': (2.0 ** 130 + 2.0 ** 100, 2.0 ** 131, True),
    }

    @staticmethod
    def _style_dtypes(kind, dts):
        """Leaf dtypes of z for a kind, None when the kind does not widen any leaf of the structure."""
        isint = [np.issubdtype(d, np.integer) for d in dts]
        iscx = [np.issubdtype(d, np.complexfloating) for d in dts]
        if kind == 'declared':
            return list(dts)
        if kind == 'fractional':
            return [np.dtype('float32') if i else d for i, d in zip(isint, dts)] if any(isint) else None
        if kind == 'float32-on-float16':
            return [np.dtype('float32') if d == np.float16 else d for d in dts] if any(d == np.float16 for d in dts) else None
        if kind == 'complex':
            return [np.dtype('complex64')] * len(dts) if not all(iscx) else None
        if kind == 'float64':
            return [np.dtype('complex128') if c else np.dtype('float64') for c in iscx]
        raise ValueError(kind)

    @staticmethod
    def _style_exclusions(op):
        """kind -> reason: wider inputs the unchanged classes inside op do not promote (documented boundary)."""
        out = {}
        for o in sub_operators(op):
            n = type(o).__name__
            if n == 'SymmetricBandToeplitzOperator' and o.method in TOEPLITZ_APPROX_METHODS:
                out['complex'] = 'the FFT methods of the Toeplitz class return the real part (the class is annotated for real data)'
            if n == 'MixOperator' and any(np.dtype(l.dtype) == np.float16 for l in A.J()['jax'].tree.leaves(o.out_structure())):
                out['float32-on-float16'] = ("the harness's user atom casts to its DECLARED float16 outputs when its own input is not wider than declared "
                                             '(inside a product): a rounding of data beyond the float16 range, not judged')
            if n in ('TransposeOperator', 'InverseOperator'):
                why = ('jax.linear_transpose' if n == 'TransposeOperator' else 'lineax.linear_solve') + ' accepts inputs of exactly the declared dtype only (raises otherwise)'
                for kind in ('fractional', 'float32-on-float16', 'complex', 'float64'):
                    out.setdefault(kind, why)
        return out

    def _call_styles(self, op, mv, approx, excluded):
        """(failures, number of judged calls, skipped {reason: count})."""
        import contextlib

        j = A.J()
        jax, jnp = j['jax'], j['jnp']
        rs = np.random.RandomState(self.seed + 29)
        leaves, treedef = jax.tree.flatten(op.in_structure())
        bad, judged, skipped = [], 0, {}
        if not leaves or mv is None:
            return bad, judged, skipped
        dts = [np.dtype(l.dtype) for l in leaves]
        scalar_leaf = any(l.shape == () for l in leaves)

        def skip(why):
            skipped[why] = skipped.get(why, 0) + 1

        def data(odd):
            out = []
            for l, d in zip(leaves, dts):
                v = 2 * rs.randint(-2, 2, size=l.shape) + (1 if odd else 0)
                if np.issubdtype(d, np.complexfloating):
                    v = v + 1j * (2 * rs.randint(-2, 2, size=l.shape) + 1)
                out.append(np.asarray(v).astype(d))
            return out

        def hand(arrs, container):
            if container == 'jax':
                ls = [jnp.asarray(a) for a in arrs]
            elif container == 'numpy':
                ls = [np.asarray(a) for a in arrs]
            else:  # Python scalars on the 0-d leaves, NumPy arrays elsewhere
                ls = [a.item() if a.shape == () else np.asarray(a) for a in arrs]
            return jax.tree.unflatten(treedef, ls)

        def apply(method, x):
            return cflat(op(x) if method == 'call' else op.mv(x))

        def close(got, want):
            # approximate classes (FFT, solvers, trigonometry): the absolute tolerance follows the scale of the data (the
            # wide kinds use data of magnitude 2^17 / 2^130); a cast to the declared dtype gives inf / drops Im / truncates
            if got.shape != want.shape:
                return False
            if not approx:
                return bool(np.array_equal(got, want))
            fin = np.abs(want[np.isfinite(want)])
            return bool(np.allclose(got, want, rtol=1e-4, atol=1e-4 * max(1.0, float(fin.max()) if fin.size else 1.0)))

        xs, ys = data(True), data(False)
        for kind, (a, b, x64) in self.STYLE_KINDS.items():
            zd = self._style_dtypes(kind, dts)
            if zd is None:
                continue
            if kind in excluded:
                skip(f'{kind}: {excluded[kind]}')
                continue
            with (jax.enable_x64(True) if x64 else contextlib.nullcontext()):
                wide = np.complex128 if (kind in ('complex',) or any(np.issubdtype(d, np.complexfloating) for d in zd)) else np.float64
                zs = [(a * u.astype(wide) + b * v.astype(wide)).astype(d) for u, v, d in zip(xs, ys, zd)]
                zflat = np.concatenate([z.ravel().astype(wide) for z in zs])
                want = mv @ zflat
                # the plain application of a jax pytree decides whether the kind is in the domain of the operator at all
                try:
                    base = apply('mv', hand(zs, 'jax'))
                except Exception as ex:
                    skip(f'{kind}: op.mv(jax arrays) raises {type(ex).__name__}')
                    continue
                if bicgstab_inside(op) and np.isnan(base).any():
                    skip(f'{kind}: BiCGStab breakdown')
                    continue
                lin = None
                for container in ('jax', 'numpy', 'python'):
                    if container == 'python' and (not scalar_leaf or kind in ('float32-on-float16', 'float64')):
                        continue
                    got = {}
                    for method in ('mv', 'call'):
                        try:
                            got[method] = base if (method, container) == ('mv', 'jax') else apply(method, hand(zs, container))
                        except Exception as ex:
                            if method == 'call' and 'mv' in got:
                                bad.append(f'op(z) raises {type(ex).__name__}: {str(ex)[:120]} although op.mv(z) returns a value, for z given as {container} '
                                           f'{kind} data {self._show(zflat)}')
                            else:
                                skip(f'{kind}: op.{method}({container}) raises {type(ex).__name__}')
                            continue
                        judged += 1
                        if not close(got[method], want):
                            name = 'op(z)' if method == 'call' else 'op.mv(z)'
                            bad.append(f'{name} = {self._show(got[method])} but matrix @ flat(z) = {self._show(want)} for z = {self._show(zflat)} given as '
                                       f'{container} leaves of dtypes {[str(d) for d in zd]} (declared {[str(d) for d in dts]})')
                    if container == 'numpy' and 'call' in got:
                        lin = got['call']
                # linearity with the (fractional / complex / large) coefficients of the kind, through op(NumPy pytree)
                if lin is not None and kind != 'declared':
                    try:
                        fx, fy = apply('call', hand(xs, 'numpy')), apply('call', hand(ys, 'numpy'))
                    except Exception as ex:
                        skip(f'{kind}: op(numpy declared) raises {type(ex).__name__}')
                        continue
                    judged += 1
                    rhs = a * fx + b * fy     # (cflat gives double precision, complex when the operator widens to complex)
                    if not close(lin, rhs):
                        bad.append(f'op({a} x + {b} y) = {self._show(lin)} but {a} op(x) + {b} op(y) = {self._show(rhs)} for NumPy x={self._show(cflat(xs))} '
                                   f'y={self._show(cflat(ys))} of the declared dtypes {[str(d) for d in dts]}')
        return bad, judged, skipped

    # -- model -----------------------------------------------------------------------------------
    def model_term(self, case):
        if case.get('_unsupported') or '_term' not in case:
            return None
        t, tb, otb = case['_term'], case['_table'], case['_otable']
        # the last pair: the decidable hypotheses of Props/C04Exec.v exec_override_eq_generic_min, evaluated on the case
        return (f'(let tb := {tb} in let otb := {otb} in let t := {t} in (wfo t, show_mat (x_as_matrix tb otb t), show_mat (x_generic tb t), '
                f'Exec.mat tb t, (dtable_okb tb t, otable_okb tb otb t)))')

    def decode(self, case, v):
        wf, over, gen, cols, (dok, ook) = v
        # the hypotheses must hold on every well-formed operator (a False is a disagreement, reported with the case)
        return {'wf': wf, 'override': decode_mat(over), 'generic': decode_mat(gen), 'columns': decode_cols(cols),
                'hyps': [bool(dok), bool(ook)] if wf else None}

    def comparable(self, case, obs):
        if not isinstance(obs, dict) or 'build_error' in obs or 'harness_error' in obs:
            return obs
        cols = obs.get('mv')
        if cols is not None and obs.get('in_size') == 0:
            cols = []
        # an operator object assembled through a non-validating constructor that cannot be applied at all is
        # outside the property's domain: the model must then call it ill-formed
        wf = obs.get('mv') is not None
        return {'wf': wf, 'override': obs.get('override'), 'generic': obs.get('generic'), 'columns': cols,
                'hyps': [True, True] if wf else None}

    def search_cases(self):
        """A bounded wider stream for the failing-input search (a thorough-tier sample)."""
        if self.tier != 'quick':
            return []
        other = type(self)('thorough', self.seed + 1)
        cs = other.cases()
        other.rng.shuffle(cs)
        return cs[:300]

    def nontrivial(self, case, obs):
        return isinstance(obs, dict) and bool(obs.get('overrides') or obs.get('wide') or obs.get('configured') or obs.get('complex') or len(_leaves(obs.get('in'))) > 1 or len(_leaves(obs.get('out'))) > 1)

    def finding_key(self, case, obs):
        return None

    # -- oracle -----------------------------------------------------------------------------------
    def oracle(self, case, obs):
        if 'build_error' in obs:
            return None  # the operator cannot be built: outside the property's domain
        if obs.get('mv') is None:
            if case.get('configured'):
                # built by its public constructor from documented, admissible parameters (an evaluation method, an
                # FFT size >= 2K-1, a solver): op(x) must exist and be as_matrix() @ x
                return f'the operator ({case.get("config")}) was accepted by its constructor but cannot be applied: {obs.get("mv_error")}'
            return None  # the operator cannot be applied to basis vectors at all: outside the domain
        for tag in ('override', 'generic'):
            if obs.get(tag) is None:
                return f'{tag} as_matrix raised {obs.get(tag + "_error")} although the operator applies to every basis vector'
            if obs[tag + '_shape'] != [obs['out_size'], obs['in_size']]:
                return f'{tag} as_matrix has shape {obs[tag + "_shape"]}, expected ({obs["out_size"]}, {obs["in_size"]})'
        if obs['forms']:
            return 'dense forms differ: ' + '; '.join(obs['forms'])[:1500]
        if obs.get('ref'):
            return 'dense form is not the closed-form matrix of the operator: ' + '; '.join(obs['ref'])[:1500]
        if obs.get('mv_dtype'):
            for tag in ('override', 'generic'):
                if obs.get(tag + '_dtype') != obs['mv_dtype']:
                    return (f'{tag} as_matrix has dtype {obs.get(tag + "_dtype")} but its columns op(e_j) have dtype '
                            f'{obs["mv_dtype"]} (declared out_promoted_dtype {obs.get("out_dtype")})')
        if obs['lin']:
            return 'application is not the linear map of its matrix: ' + '; '.join(obs['lin'])[:1500]
        if 'styles_judged' in obs:   # (the oracle sees every case once, in the main process: totals for the evidence)
            st = self.stats.setdefault('call_styles', {'cases': 0, 'judged_calls': 0, 'not_judged': {}})
            st['cases'] += 1
            st['judged_calls'] += obs['styles_judged']
            for k, v in (obs.get('styles_skipped') or {}).items():
                st['not_judged'][k] = st['not_judged'].get(k, 0) + v
        if obs.get('styles'):
            return 'application depends on the way x is handed over (op(x) / op.mv(x); jax / NumPy / Python leaves; declared / wider dtype): ' + '; '.join(obs['styles'])[:1500]
        return None


def _leaves(s):
    if not s:
        return []
    if s[0] == 'leaf':
        return [s]
    return [l for c in s[2] for l in _leaves(c)]


def A_used(e, acc=None):
    acc = set() if acc is None else acc
    if isinstance(e, str):
        acc.add(e)
    elif isinstance(e, dict):
        for v in e.values():
            A_used(v, acc)
    elif isinstance(e, list):
        for v in e:
            A_used(v, acc)
    return acc
