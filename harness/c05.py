"""C05 - declared input/output structures are honest.

Real code: in_structure()/out_structure()/in_size()/out_size()/in_promoted_dtype/out_promoted_dtype of
every operator class and of composites built from them (compositions, sums, blocks, .T, .I, reduced,
scaled), compared with jax.eval_shape(op.mv, op.in_structure()) and with the structure of an actual
op.mv(x) result - over leaf dtypes {float32, float64, int32, mixed-dtype pytrees}, parameter dtypes
{float32, float64, int32, Python scalars}, layouts (leaf, list, dict, nested, Stokes) and both 64-bit
modes (cases whose mode differs from the driver's run in a worker subprocess with JAX_ENABLE_X64 set).
Model: Model/Algebra.v `structs` (declared) and Model/Structs.v `xeval` (abstract evaluation computed
from the class and the type/shape of its array parameter), `params_not_wider`, `dtypes_available`,
sizes, promoted dtypes.  Oracle: the property itself on the implementation.

Parameter grids (kinds grid:diag / grid:bdiag, leaf:gT / gQ / gH / gW / gPol ...): the shapes of the array
parameters are enumerated ACROSS the boundary of what the constructors accept and of what broadcasts into
the data (size-1 values, unit / extra axes, destination axes at and beyond the leaf rank on both sides,
negative axes, mixed-rank pytrees incl. rank-0 leaves, Toeplitz band batch shapes, rotation angle shapes).
For the diagonal classes the model has the constructors themselves (`diag_ctor`: the shape arithmetic of
_reshape_leaves + DiagonalOperator._check_leaf_shapes): accept/refuse, the normalised axes and the leaf
shapes of the ACTUAL mv result are compared with it, and `ctor_checked` re-computes on every existing
diagonal object the check its constructor is supposed to have made.

The guards are about what the USER supplied (kinds mix:*).  An operator is judged when the parameters handed to the
constructors and the scalars written in k * op, op * k, op / k, -op, a - b are no wider than the data and the parts
are inside the guards (`guard_user`, `guard_parts`) - whatever the resulting object stores: a construction path
that widens a parameter (casts the scalar to the promoted dtype of a mixed-PRECISION output pytree, say) does not
thereby leave the scope of the property.  QU rotations cast cos / sin (2 * angles) to the dtype of inexact data
(furax 4243e33; Structs.rot_ty): angles of a WIDER dtype than float / complex Stokes data are inside the guard and judged
(float64 pointing of a float32 map under x64); only the angle SHAPE and integer data remain guard matters for them.
Operators whose OUTPUT pytree has leaves of different precisions
(float16 / bfloat16 + float32, float32 + float64, float16 + float32 + float64, int32 + float32; dict, list, nested,
Stokes) x every construction path that introduces a scalar or a parameter x every way of writing the scalar
(Python int / float / bool, NumPy scalars and 0-d arrays, strongly and weakly typed JAX scalars of each dtype), compared
leaf by leaf: declared vs eval_shape vs actual mv vs an application of the operator it stands for.  The model
receives the types of the user's parameters too (`uinfo`; the type of the scalar operator of k * op / op / k is
computed by the model: Structs.scalar_param_ty) and predicts the guard and what mv returns from them.

Reduced operators (kinds pat:*): every documented pattern of every binary rule AND the near misses (pairs that look
like a pattern but must NOT be rewritten: another reshape / ravel / pack / index / diagonal operator sharing a side,
move-axis pairs with crossed pairing, equal but distinct objects, containers nested on one side only...), as
CompositionOperator([...]) and through @, alone and inside a block / scaled: the declared structures of the reduced
operator vs those implied by the parts, vs eval_shape, vs an actual application, vs an application of the unreduced one.

Axis operators on pytrees whose leaves have DIFFERENT ranks (kinds axes:*): ravel / reshape / move-axis / index / diagonal with
a destination axis / pack x parameters (axes of both signs and of mixed sign, targets with and without -1, int / slice / array /
ellipsis entries) x sets of leaf shapes of different ranks in BOTH leaf orders (dict / list / tuple / nested containers, one
and two leaf dtypes): the axes are normalised per leaf, so an operator may leave one leaf untouched and change another one.
Each operator alone (declared output structure vs NumPy applied to each leaf), transposed, reduced, and reduced as a part
(transpose, op.T @ op, op @ op.T, one- and two-operand sums, scalar multiple, block diagonal / column / row, compositions with
identities and scalar operators on either side): the structures of the reduced operator vs those of the unreduced one, vs
jax.eval_shape of both, vs an actual application of both.  Constructor calls that must be refused because some leaf has no
dimension between the two axes (or cannot take the target shape) are part of the stream.  For ravel / reshape / move-axis the
constructor, the per-leaf output shapes and reduce() are also compared with Model/Axes.v (Ravel_ctor, rv_leaf_shape, reduce1).
Tables.v (regenerated from the imported package): every operator class resolves out_structure / in_structure / reduce /
transpose / inverse to the definition the model assumes (no new override).
"""
from __future__ import annotations

import atexit
import json
import math
import os
import random
import subprocess
import sys
import warnings
from pathlib import Path

import numpy as np

sys.path.insert(0, str(Path(__file__).parent))

import algebra as A  # noqa: E402
import lib  # noqa: E402
from lib import PropertyCheck, cbool, clist  # noqa: E402

sys.path.insert(0, str(lib.VERIF / 'tools' / 'translate'))

# dtype identifiers of Model/Structs.v dt_of_id (0-6 are those of harness/algebra.py)
A.DTYPES.update({'complex128': 7, 'bfloat16': 8})
DT_COQ = {
    'float32': 'ST.DF32', 'float64': 'ST.DF64', 'int32': 'ST.DI32', 'int64': 'ST.DI64', 'float16': 'ST.DF16',
    'bool': 'ST.DBool', 'complex64': 'ST.DC64', 'complex128': 'ST.DC128', 'bfloat16': 'ST.DBF16',
}
F32, F64, I32 = 'float32', 'float64', 'int32'


def x64_mode() -> bool:
    return bool(A.J()['jax'].config.jax_enable_x64)


# ---------------------------------------------------------------------------------------------
# scalars of the scalar construction paths (k * op, op * k, op / k): every form a user can write


_alg_scalar_value = A.scalar_value


def scalar_value(k):
    """JSON scalar -> Python / NumPy / JAX scalar.  2, 0.5, true: Python int / float / bool (weakly typed once
    converted); {'np': v, 'dt': d}: NumPy scalar of dtype d; {'np0d': v, 'dt': d}: 0-d NumPy array; {'jax': v, 'dt': d}:
    strongly typed 0-d JAX array; {'jaxw': v}: jnp.asarray(v) of a Python scalar (weakly typed).  Forms without 'dt'
    keep the meaning of harness/algebra.py (float32)."""
    jnp = A.J()['jnp']
    if isinstance(k, dict) and 'jaxw' in k:
        return jnp.asarray(k['jaxw'])
    if isinstance(k, dict) and 'dt' in k:
        if 'np' in k:
            return np.dtype(k['dt']).type(k['np']) if k['dt'] != 'bfloat16' else jnp.asarray(k['np'], dtype=jnp.bfloat16)
        if 'np0d' in k:
            return np.array(k['np0d'], dtype=np.dtype(k['dt']))
        if 'jax' in k:
            return jnp.asarray(k['jax'], dtype=jnp.dtype(k['dt']))
    return _alg_scalar_value(k)


A.scalar_value = scalar_value  # algebra.eval_expr resolves the name at call time (this process and the x64 worker only)


def scalar_path(e):
    """(path, scalar, operand expression) of an expression whose TOP-LEVEL operation introduces a scalar:
    k * op, op * k, -op (k = -1), a - b (k = -1 on b): path 'mul';  op / k: path 'div'.  None otherwise."""
    if not isinstance(e, dict):
        return None
    (kind, arg), = e.items()
    if kind == 'smul':
        return 'mul', arg[0], arg[1]
    if kind == 'mulr':
        return 'mul', arg[1], arg[0]
    if kind == 'div':
        return 'div', arg[1], arg[0]
    if kind == 'neg':
        return 'mul', -1, arg
    if kind == 'sub':
        return 'mul', -1, arg[1]
    return None


def user_scalar(path, k):
    """(raw, effective): the scalar as the user wrote it, as a JAX array (dtype, weak flag), and the PARAMETER it
    stands for: k itself for a product, 1 / k for a quotient (JAX arithmetic only; no furax code involved)."""
    jnp = A.J()['jnp']
    raw = jnp.asarray(scalar_value(k))
    return raw, (1 / raw if path == 'div' else raw)


# ---------------------------------------------------------------------------------------------
# structures and operands from JSON


def mk_struct(desc):
    """A.mk_struct + {'stokes':.., 'shape':.., 'dtypes':[..]} (one dtype per Stokes component)."""
    j = A.J()
    jax, jnp = j['jax'], j['jnp']
    if isinstance(desc, dict) and 'stokes' in desc and 'dtypes' in desc:
        cls = j['Stokes'].class_for(desc['stokes'])
        return cls(*[jax.ShapeDtypeStruct(tuple(desc['shape']), jnp.dtype(d)) for d in desc['dtypes']])
    if isinstance(desc, dict) and 'list' in desc:
        return [mk_struct(d) for d in desc['list']]
    if isinstance(desc, dict) and 'tuple' in desc:
        return tuple(mk_struct(d) for d in desc['tuple'])
    if isinstance(desc, dict) and 'dict' in desc:
        return {k: mk_struct(v) for k, v in desc['dict'].items()}
    return A.mk_struct(desc)


def param(v, pdt):
    """Array parameter: pdt a dtype name, or 'py' for a Python scalar (weakly typed)."""
    jnp = A.J()['jnp']
    if pdt == 'py':
        return jnp.asarray(v)
    return jnp.asarray(np.array(v), dtype=jnp.dtype(pdt))


def build(d, env, user=None):
    """The operand of a description.  `user` (id of the object -> array) receives the array parameter exactly as it
    was handed to the constructor: the guards of the property are about what the USER supplied."""
    j = A.J()
    k = d['k']
    pdt = d.get('pdt', F32)

    def made(op, p):
        if user is not None:
            user[id(op)] = p
        return op

    if k == 'alg':  # an operand of the shared alphabet harness/alg_cases.py (float32)
        return A.build_operand(d['d'], env)
    if k == 'homoth':
        p = param(d['v'], pdt)
        return made(j['core'].HomothetyOperator(p, mk_struct(d['s'])), p)
    if k == 'ident':
        return j['core'].IdentityOperator(mk_struct(d['s']))
    if k == 'diag':
        p = param(d['v'], pdt)
        return made(j['diagonal'].DiagonalOperator(p, axis_destination=d.get('axis', -1), in_structure=mk_struct(d['s'])), p)
    if k == 'bdiag':
        p = param(d['v'], pdt)
        return made(j['diagonal'].BroadcastDiagonalOperator(p, axis_destination=d.get('axis', -1), in_structure=mk_struct(d['s'])), p)
    if k == 'dense':
        p = param(d['m'], pdt)
        return made(j['dense'].DenseBlockDiagonalOperator(p, mk_struct(d['s']), d.get('sub', 'ij,j->i')), p)
    if k == 'qurot':
        a = np.array(d['q'], dtype=np.float64) * (math.pi / 4)
        p = param(a, pdt)
        return made(j['qu'].QURotationOperator(p, mk_struct(d['s'])), p)
    if k == 'hwp':
        return j['hwp'].HWPOperator(mk_struct(d['s']))
    if k == 'pol':
        return j['pol'].LinearPolarizerOperator(mk_struct(d['s']))
    if k == 'toeplitz':
        p = param(d['band'], pdt)
        return made(j['toeplitz'].SymmetricBandToeplitzOperator(p, mk_struct(d['s']), method=d.get('method', 'dense')), p)
    if k == 'index':
        idx = tuple(A.index_entry(e) for e in d['idx'])
        kw = {}
        if 'unique' in d:
            kw['unique_indices'] = d['unique']
        if 'out' in d:
            kw['out_structure'] = mk_struct(d['out'])
        return j['indices'].IndexOperator(idx if len(idx) != 1 or d.get('tuple') else idx[0], in_structure=mk_struct(d['s']), **kw)
    if k == 'pack':
        return j['linear'].PackOperator(j['jnp'].asarray(d['mask'], dtype=bool), mk_struct(d['s']))
    if k == 'moveaxis':
        return j['axes'].MoveAxisOperator(A.as_axis(d['src']), A.as_axis(d['dst']), in_structure=mk_struct(d['s']))
    if k == 'ravel':
        return j['axes'].RavelOperator(d.get('first', 0), d.get('last', -1), in_structure=mk_struct(d['s']))
    if k == 'reshape':
        return j['axes'].ReshapeOperator(tuple(d['shape']), in_structure=mk_struct(d['s']))
    if k in ('row', 'bdiagop', 'col'):
        cls = {'row': j['blocks'].BlockRowOperator, 'bdiagop': j['blocks'].BlockDiagonalOperator, 'col': j['blocks'].BlockColumnOperator}[k]
        return cls(A.container(d['blocks'], env))
    if k == 'expr':
        return A.eval_expr(d['e'], env)
    raise ValueError(f'unknown operand kind {k}')


def expr_check(e, env):
    """(operator, None) or (None, reason): validation of an expression, independent of the dunders."""
    if isinstance(e, str):
        return env[e], None
    (kind, arg), = e.items()
    if kind in ('mm', 'chain', 'rchain', 'add', 'sub', 'comp', 'sum'):
        ops = []
        for x in arg:
            o, r = expr_check(x, env)
            if r:
                return None, r
            ops.append(o)
        if kind in ('add', 'sub', 'sum'):
            for b in ops[1:]:
                if ops[0].in_structure() != b.in_structure() or ops[0].out_structure() != b.out_structure():
                    return None, 'sum of operators with different structures'
        else:
            for a, b in zip(ops, ops[1:]):
                if a.in_structure() != b.out_structure():
                    return None, 'product of operators with mismatching structures'
        env2 = dict(env)
        names = []
        for n, o in enumerate(ops):
            env2[f'#{n}'] = o
            names.append(f'#{n}')
        return A.eval_expr({kind: names}, env2), None
    if kind in ('smul',):
        o, r = expr_check(arg[1], env)
        return (None, r) if r else (A.eval_expr({kind: [arg[0], '#'] }, {**env, '#': o}), None)
    if kind in ('mulr', 'div'):
        o, r = expr_check(arg[0], env)
        return (None, r) if r else (A.eval_expr({kind: ['#', arg[1]]}, {**env, '#': o}), None)
    o, r = expr_check(arg, env)
    if r:
        return None, r
    if kind == 'I' and o.in_structure() != o.out_structure() and type(o).__name__ != 'MoveAxisOperator':
        return None, 'inverse of an operator whose structures differ'
    return A.eval_expr({kind: '#'}, {**env, '#': o}), None


def legal_reason(d, env):
    """Why the description must be refused (None: it is legal), computed from the parts."""
    j = A.J()
    core, jax = j['core'], j['jax']
    if d['k'] == 'expr':
        try:
            return expr_check(d['e'], env)[1]
        except ValueError as e:  # a part that is legal for this analysis but refused: reported by the caller
            return None
    if d['k'] in ('row', 'col'):
        cont = A.container(d['blocks'], env)
        leaves = jax.tree.leaves(cont, is_leaf=lambda x: isinstance(x, core.AbstractLinearOperator))
        get = (lambda o: o.out_structure()) if d['k'] == 'row' else (lambda o: o.in_structure())
        if any(get(o) != get(leaves[0]) for o in leaves[1:]):
            return 'blocks of a row/column with different output/input structures'
    return None


# ---------------------------------------------------------------------------------------------
# encoding (term of Model/Op.v + parameter infos of Model/Structs.v)


class Enc(A.Encoder):
    """Terms without measured matrices (structures only) + the type/shape of the array parameters."""

    def __init__(self, user=None, scalars=None):
        super().__init__()
        self.info: dict[int, tuple] = {}
        # the same table with the TYPE (dtype, weak flag) of the parameter the user supplied, where it is known:
        # `user`: id(object) -> the array handed to the constructor; `scalars`: id(HomothetyOperator created by a
        # scalar construction path) -> (path, raw scalar as an array): the model computes the parameter type itself
        self.user = user or {}
        self.scalars = scalars or {}
        self.uinfo: dict[int, tuple] = {}

    def add_info(self, i, arr, axes=(), op=None):
        weak = bool(getattr(arr, 'weak_type', False))
        self.info[i] = (str(np.dtype(arr.dtype)), weak, [int(n) for n in arr.shape], [int(a) for a in axes])
        if op is not None and id(op) in self.scalars:
            path, raw = self.scalars[id(op)]
            self.uinfo[i] = ('scalar', path, str(np.dtype(raw.dtype)), bool(getattr(raw, 'weak_type', False)))
        elif op is not None and id(op) in self.user:
            u = self.user[id(op)]
            self.uinfo[i] = (str(np.dtype(u.dtype)), bool(getattr(u, 'weak_type', False)), self.info[i][2], self.info[i][3])
        else:
            self.uinfo[i] = self.info[i]

    def term(self, op) -> str:
        j = A.J()
        core, blocks = j['core'], j['blocks']
        i = self.oid(op)
        name = type(op).__name__
        if isinstance(op, core.IdentityOperator):
            return f'(Ident {i} {A.struct_coq(op.in_structure())})'
        if isinstance(op, core.HomothetyOperator):
            self.add_info(i, op.value, op=op)
            return f'(Homoth {i} {A.cqc(1)} {A.struct_coq(op.in_structure())})'
        if isinstance(op, core.CompositionOperator):
            return f'(Comp {i} {clist(op.operands, self.term)})'
        if isinstance(op, core.AdditionOperator):
            return f'(AddOp {i} {clist(op.operand_leaves, self.term)})'
        if isinstance(op, blocks.AbstractBlockOperator):
            kind = {'BlockRowOperator': 'BRow', 'BlockDiagonalOperator': 'BDiag', 'BlockColumnOperator': 'BCol'}[name]
            return f'(Block {i} {kind} {self.treedef(op.blocks)} {clist(op.block_leaves, self.term)})'
        w = A.wrap_kind(op)
        if w is not None:
            if w == 'WDiagInv':
                self.add_info(i, op.diagonal, op.axis_destination)
            return f'(Wrap {i} {w} {self.term(op.operator)})'
        cls = A.PRIM_CLASSES.get(name, 'CAtom')
        si, so = A.struct_coq(op.in_structure()), A.struct_coq(op.out_structure())
        par = 'PNone'
        if cls == 'CQURotation':
            self.add_info(i, op.angles, op=op)
        elif cls in ('CDiagonal', 'CBroadcastDiagonal'):
            self.add_info(i, op.diagonal, op.axis_destination, op=op)
        elif cls == 'CDense':
            jnp = j['jnp']
            for tab, blocks in ((self.info, op.blocks), (self.uinfo, self.user.get(id(op), op.blocks))):
                bl = j['jax'].tree.leaves(blocks)
                tab[i] = (str(np.dtype(jnp.result_type(*bl))), all(bool(getattr(b, 'weak_type', False)) for b in bl), [], [])
        elif cls == 'CToeplitz':
            self.add_info(i, op.band_values, op=op)
        elif cls == 'CIndex':
            par = f'(PIndex {cbool(op.unique_indices)} {clist([self.ientry(e) for e in op.indices], str)})'
        elif cls == 'CMoveAxis':
            par = f'(PAxes {clist(op.source, A.cz)} {clist(op.destination, A.cz)})'
        return f'(Prim {i} {cls} {si} {so} {par})'

    @staticmethod
    def rows_coq(table) -> str:
        rows = []
        for i, row in table.items():
            if row[0] == 'scalar':
                _, path, dt, weak = row
                rows.append(f'({i}%N, scalar_pinfo x64 {"SDiv" if path == "div" else "SMul"} (ST.mkTy {DT_COQ.get(dt, "ST.DBool")} {cbool(weak)}))')
                continue
            dt, weak, shape, axes = row
            rows.append(f'({i}%N, mkPinfo (ST.mkTy {DT_COQ.get(dt, "ST.DBool")} {cbool(weak)}) {clist(shape, A.cn)} {clist(axes, A.cz)})')
        return clist(rows, str)

    def info_coq(self) -> str:
        return self.rows_coq(self.info)

    def uinfo_coq(self) -> str:
        return self.rows_coq(self.uinfo)


# ---------------------------------------------------------------------------------------------
# observation of the implementation


def srepr(s):
    return A.struct_repr(s)


def as_struct(y):
    jax = A.J()['jax']
    return jax.tree.map(lambda a: jax.ShapeDtypeStruct(a.shape, a.dtype), y)


def probe_input(struct):
    j = A.J()
    jax, jnp = j['jax'], j['jnp']

    def leaf(l):
        n = int(np.prod(l.shape))
        return jnp.asarray((np.arange(n) % 3 + 1).reshape(l.shape), dtype=l.dtype)

    return jax.tree.map(leaf, struct)


def canonical(dtype) -> bool:
    jax = A.J()['jax']
    return jax.dtypes.canonicalize_dtype(dtype) == np.dtype(dtype)


def absorbs(arr, leaf) -> bool:
    jnp = A.J()['jnp']
    return jnp.result_type(arr, leaf.dtype) == leaf.dtype and canonical(leaf.dtype)


def bshape(a, b):
    try:
        return tuple(np.broadcast_shapes(tuple(a), tuple(b)))
    except ValueError:
        return None


def real_guard(op, user=None) -> bool:
    """params_not_wider, computed on the real objects (independently of the model).  With `user` (id of an object ->
    the parameter the USER supplied for it): the same guard with the types of those parameters instead of the types
    of what the object stores."""
    j = A.J()
    jax, jnp, core, blocks = j['jax'], j['jnp'], j['core'], j['blocks']
    leaves = jax.tree.leaves
    user = user or {}

    def par(stored):  # only the TYPE of the parameter matters to `absorbs`
        return user.get(id(op), stored)

    if isinstance(op, core.HomothetyOperator):
        return all(absorbs(par(jnp.asarray(op.value)), l) for l in leaves(op.in_structure()))
    if isinstance(op, j['diagonal'].DiagonalInverseOperator):
        return real_guard(op.operator, user) and all(absorbs(op.diagonal, l) for l in leaves(op.in_structure()))
    if isinstance(op, j['diagonal'].DiagonalOperator):
        return all(absorbs(par(op.diagonal), l) for l in leaves(op.in_structure()))
    if isinstance(op, j['toeplitz'].SymmetricBandToeplitzOperator):
        s = op.in_structure()
        if not isinstance(s, jax.ShapeDtypeStruct) or len(s.shape) < 1 or op.band_values.ndim < 1:
            return False
        return absorbs(par(op.band_values), s) and bshape(s.shape[:-1], op.band_values.shape[:-1]) == tuple(s.shape[:-1])
    if isinstance(op, j['qu'].QURotationOperator):
        s = op.in_structure()
        if not A.is_stokes(s):
            return False
        if s.stokes == 'I':
            return True
        q, u = s.q, s.u
        # mv casts cos / sin (2 * angles) to the dtype of inexact data (the Q leaf): the dtype of the angles then does
        # not matter; integer / boolean data keep the factors' own (floating-point) type and are widened by them
        trig = jnp.cos(2 * par(op.angles))
        if _inexact(q.dtype):
            trig = np.dtype(q.dtype)  # only the TYPE matters to `absorbs`: a strongly typed array of the data's dtype
        return (q.shape == u.shape and q.dtype == u.dtype and absorbs(trig, q)
                and bshape(q.shape, op.angles.shape) == tuple(q.shape))
    if isinstance(op, j['hwp'].HWPOperator):
        return A.is_stokes(op.in_structure())
    if isinstance(op, j['pol'].LinearPolarizerOperator):
        # 0.5 * x on integer data is weakly typed: the dtype of a product with it is decided by the other factor
        return all(_inexact(l.dtype) for l in leaves(op.in_structure()))
    if A.wrap_kind(op) in ('WTranspose', 'WObsT'):
        # jax.linear_transpose: [float or complex] -> [float or complex] or integer -> integer only
        ls = [np.dtype(l.dtype) for s in (op.operator.in_structure(), op.operator.out_structure()) for l in leaves(s)]
        ok = all(_inexact(d) for d in ls) or all(np.issubdtype(d, np.integer) for d in ls)
        return ok and real_guard(op.operator, user)
    if A.wrap_kind(op) is not None:
        return real_guard(op.operator, user)
    if isinstance(op, core.CompositionOperator):
        return all(real_guard(o, user) for o in op.operands)
    if isinstance(op, core.AdditionOperator):
        return all(real_guard(o, user) for o in op.operand_leaves)
    if isinstance(op, blocks.AbstractBlockOperator):
        return all(real_guard(o, user) for o in op.block_leaves)
    return True


def strict_guard(op, user=None) -> bool:
    """real_guard + the array parameters of dense / broadcast-diagonal operators are no wider than the data
    (their own declaration is the evaluation, but the structures of their transposes depend on it)."""
    j = A.J()
    jax, core, blocks = j['jax'], j['core'], j['blocks']
    user = user or {}
    if not real_guard(op, user):
        return False
    if isinstance(op, j['dense'].DenseBlockDiagonalOperator):
        return all(absorbs(b, l) for l in jax.tree.leaves(op.in_structure()) for b in jax.tree.leaves(user.get(id(op), op.blocks)))
    if isinstance(op, j['diagonal'].BroadcastDiagonalOperator):
        d = user.get(id(op), op.diagonal)
        return all(absorbs(d, l) for l in jax.tree.leaves(op.in_structure()))
    if A.wrap_kind(op) is not None:
        return strict_guard(op.operator, user)
    if isinstance(op, core.CompositionOperator):
        return all(strict_guard(o, user) for o in op.operands)
    if isinstance(op, core.AdditionOperator):
        return all(strict_guard(o, user) for o in op.operand_leaves)
    if isinstance(op, blocks.AbstractBlockOperator):
        return all(strict_guard(o, user) for o in op.block_leaves)
    return True


def _inexact(d) -> bool:
    """float (incl. bfloat16, which NumPy does not classify) or complex"""
    jnp = A.J()['jnp']
    return bool(jnp.issubdtype(d, jnp.inexact))


def subobjects(op, acc=None):
    """id -> object for every operator object reachable from op."""
    j = A.J()
    core, blocks = j['core'], j['blocks']
    acc = {} if acc is None else acc
    if id(op) in acc:
        return acc
    acc[id(op)] = op
    kids = ()
    if isinstance(op, core.CompositionOperator):
        kids = op.operands
    elif isinstance(op, core.AdditionOperator):
        kids = op.operand_leaves
    elif isinstance(op, blocks.AbstractBlockOperator):
        kids = op.block_leaves
    elif A.wrap_kind(op) is not None:
        kids = (op.operator,)
    for k in kids:
        subobjects(k, acc)
    return acc


def all_lt_ok(op) -> bool:
    """Every non-composite operator inside op maps floats to floats or integers to integers (what
    jax.linear_transpose accepts): the guard of a transpose, computed on the operator to be transposed."""
    j = A.J()
    jax, core, blocks = j['jax'], j['core'], j['blocks']
    for o in subobjects(op).values():
        if isinstance(o, (core.CompositionOperator, core.AdditionOperator, blocks.AbstractBlockOperator)):
            continue
        ls = [np.dtype(l.dtype) for s in (o.in_structure(), o.out_structure()) for l in jax.tree.leaves(s)]
        if not (all(_inexact(d) for d in ls) or all(np.issubdtype(d, np.integer) for d in ls)):
            return False
    return True


def real_wf(op) -> bool:
    """What the constructors guarantee (Model/Wf.v wfo), re-computed on the real objects."""
    j = A.J()
    core, blocks = j['core'], j['blocks']
    if isinstance(op, core.CompositionOperator):
        ops = op.operands
        return len(ops) > 0 and all(a.in_structure() == b.out_structure() for a, b in zip(ops, ops[1:])) and all(real_wf(o) for o in ops)
    if isinstance(op, core.AdditionOperator):
        ops = op.operand_leaves
        return len(ops) > 0 and all(o.in_structure() == ops[0].in_structure() and o.out_structure() == ops[0].out_structure() for o in ops) and all(real_wf(o) for o in ops)
    if isinstance(op, blocks.AbstractBlockOperator):
        ops = op.block_leaves
        ok = len(ops) > 0
        if isinstance(op, blocks.BlockRowOperator):
            ok = ok and all(o.out_structure() == ops[0].out_structure() for o in ops)
        if isinstance(op, blocks.BlockColumnOperator):
            ok = ok and all(o.in_structure() == ops[0].in_structure() for o in ops)
        return ok and all(real_wf(o) for o in ops)
    if A.wrap_kind(op) is not None:
        inner = op.operator
        if isinstance(op, core.AbstractLazyInverseOperator) and inner.in_structure() != inner.out_structure():
            return False
        return real_wf(inner)
    return True


def real_avail(op) -> bool:
    j = A.J()
    jax, core, blocks = j['jax'], j['core'], j['blocks']
    ok = all(canonical(l.dtype) for s in (op.in_structure(), op.out_structure()) for l in jax.tree.leaves(s))
    if isinstance(op, core.CompositionOperator):
        return ok and all(real_avail(o) for o in op.operands)
    if isinstance(op, core.AdditionOperator):
        return ok and all(real_avail(o) for o in op.operand_leaves)
    if isinstance(op, blocks.AbstractBlockOperator):
        return ok and all(real_avail(o) for o in op.block_leaves)
    if A.wrap_kind(op) is not None:
        return ok and real_avail(op.operator)
    return ok


def dtid(dtype) -> int:
    return A.DTYPES.get(str(np.dtype(dtype)), 99)


def short(e) -> str:
    return f'{type(e).__name__}: {str(e)[:160]}'


def parts_guard(case, op, env, user, sp):
    """Are the PARTS the case names - and the scalar its last construction step introduces - inside the guards of the
    property (None: the case names no parts)?  Computed from the parts and from the parameters as the user supplied
    them, never from the resulting object: a construction path that widens a parameter does not thereby leave the
    property's scope."""
    j = A.J()
    core, jax = j['core'], j['jax']
    rel = case.get('rel')
    if not rel:
        return None
    kind, args = rel[0], [env[n] for n in rel[1:]]
    inside = lambda a: real_avail(a) and real_wf(a) and strict_guard(a, user)  # noqa: E731
    ok = all(inside(a) for a in args)
    if kind in ('row', 'bdiagop', 'col'):
        cont = A.container(case['cont'], env)
        leaves = jax.tree.leaves(cont, is_leaf=lambda x: isinstance(x, core.AbstractLinearOperator))
        ok = all(inside(a) for a in leaves) and real_avail(op)
    if kind == 'T':
        ok = ok and all_lt_ok(args[0])
    if sp is not None:
        _, _, eff, operand = sp
        ok = ok and all(absorbs(eff, l) for l in jax.tree.leaves(operand.out_structure()))
    return bool(ok)


def implied(case, op, env, parts_ok):
    """Structures implied by the parts, for the composite kinds (independent of the result object)."""
    j = A.J()
    core, blocks, jax = j['core'], j['blocks'], j['jax']
    rel = case.get('rel')
    if not rel:
        return None
    kind, args = rel[0], [env[n] for n in rel[1:]]
    if not parts_ok:
        return None  # outside the guards: counted, not judged
    if kind == 'T' or kind == 'I':
        return [srepr(args[0].out_structure()), srepr(args[0].in_structure())]
    if kind == 'mm':  # product of the operands, left applied last
        return [srepr(args[-1].in_structure()), srepr(args[0].out_structure())]
    if kind in ('add', 'same'):  # sum / scalar multiple / reduced form of the first operand
        return [srepr(args[0].in_structure()), srepr(args[0].out_structure())]
    if kind in ('row', 'bdiagop', 'col'):
        cont = A.container(case['cont'], env)
        is_op = lambda x: isinstance(x, core.AbstractLinearOperator)  # noqa: E731
        leaves = jax.tree.leaves(cont, is_leaf=is_op)
        ins = jax.tree.map(lambda o: o.in_structure(), cont, is_leaf=is_op)
        outs = jax.tree.map(lambda o: o.out_structure(), cont, is_leaf=is_op)
        if kind == 'row':
            return [srepr(ins), srepr(leaves[0].out_structure())]
        if kind == 'col':
            return [srepr(leaves[0].in_structure()), srepr(outs)]
        return [srepr(ins), srepr(outs)]
    raise ValueError(rel)


def note_scalar(name, d, env, known, user, scalars, sps):
    """After building env[name]: if its description ends with a scalar construction step (k * op, op * k, op / k,
    -op, a - b), find the HomothetyOperator objects that step CREATED and record for them the parameter the user
    supplied (k, resp. 1 / k) - whatever the object now stores."""
    j = A.J()
    core, jnp = j['core'], j['jnp']
    sp = scalar_path(d['e']) if d['k'] == 'expr' else None
    if sp is None or not isinstance(sp[2], str):
        return
    path, k, on = sp
    raw, eff = user_scalar(path, k)
    operand = env[on]
    sps[name] = (path, raw, eff, operand)
    new = [o for i, o in subobjects(env[name]).items() if i not in known and isinstance(o, core.HomothetyOperator)]
    if isinstance(operand, core.HomothetyOperator):
        # k * H is ONE scalar operator: its parameter is the product of the two parameters
        for h in new:
            user[id(h)] = eff * user.get(id(operand), jnp.asarray(operand.value))
        return
    if isinstance(operand, core.AdditionOperator) and any(isinstance(o, core.HomothetyOperator) for o in operand.operand_leaves):
        return  # -(H + A): some of the new scalar operators are products; the stored values are used
    for h in new:
        user[id(h)] = eff
        scalars[id(h)] = (path, raw)


def impl_case(case):
    """Runs in the process whose x64 mode equals case['x64']."""
    assert x64_mode() == bool(case['x64']), 'x64 mode mismatch'
    j = A.J()
    jax, jnp = j['jax'], j['jnp']
    priv = {}
    with warnings.catch_warnings():
        warnings.simplefilter('ignore')
        from furax import Config

        env = {}
        user, scalars, sps, known = {}, {}, {}, {}
        grid = case.get('grid')
        if grid:
            priv['_gleaves'] = [[int(n) for n in l.shape] for l in jax.tree.leaves(mk_struct(grid['s']))]
        ax = case.get('axes')
        if ax:
            priv['_axins'] = [[int(n) for n in l.shape] for l in jax.tree.leaves(mk_struct(ax['d']['s']))]
        with Config(solver_callback=A._noop):
            for name, d in case['let']:
                reason = legal_reason(d, env)
                if name == case['op'] and case.get('expect') == 'reject':
                    reason = reason or 'expected to be refused'
                try:
                    env[name] = build(d, env, user)
                    note_scalar(name, d, env, known, user, scalars, sps)
                    subobjects(env[name], known)
                except Exception as e:
                    inside = all(real_avail(o) and strict_guard(o, user) for o in env.values())
                    obs = {'ctor_error': type(e).__name__, 'msg': str(e)[:200], 'illegal': reason, 'at': name, 'parts_inside_guards': inside}
                    if grid and name == case['op']:
                        # parameter shapes enumerated across the boundary of what the constructor accepts:
                        # a refusal is legitimate (whether it is the RIGHT refusal is decided by the model)
                        obs['illegal'] = reason or 'parameter grid: the constructor may refuse'
                        obs['grid'] = 'rejected:' + type(e).__name__
                    if ax and name == ax['of'] and axm_wanted(case):
                        obs['axes'] = 'rejected:' + type(e).__name__
                    return obs, priv
                if reason is not None:
                    return {'accepted_illegal': reason, 'at': name, 'constructed': type(env[name]).__name__}, priv
        op = env[case['op']]
        obs = {'cls': type(op).__name__}
        sin, sout = op.in_structure(), op.out_structure()
        obs['in'], obs['out'] = srepr(sin), srepr(sout)
        try:
            obs['eval'] = srepr(jax.eval_shape(op.mv, sin))
        except Exception as e:
            obs['eval'] = None
            obs['eval_error'] = short(e)
        actual_leaves = None
        try:
            x = probe_input(sin)
            obs['x'] = srepr(as_struct(x))
            y = op.mv(x)
            obs['actual'] = srepr(as_struct(y))
            actual_leaves = [[int(n) for n in l.shape] for l in jax.tree.leaves(y)]
        except Exception as e:
            obs['actual'] = None
            obs['actual_error'] = short(e)
        obs['ctor'] = True  # the object exists: its constructor accepted the parameters
        if grid:
            obs['grid'] = {'axes': [int(a) for a in op.axis_destination], 'outs': actual_leaves}
        obs['sizes'] = [int(op.in_size()), int(op.out_size())]
        obs['size_ref'] = [A.struct_size(sin), A.struct_size(sout)]
        prom = []
        for s, get in ((sin, lambda: op.in_promoted_dtype), (sout, lambda: op.out_promoted_dtype)):
            try:
                got = dtid(get())
            except Exception as e:
                got = short(e)
            leaves = jax.tree.leaves(s)
            ref = dtid(jnp.result_type(*[l.dtype for l in leaves])) if leaves else None
            prom.append([got, ref])
        obs['promoted'] = prom
        obs['guard'] = bool(strict_guard(op))
        # the same guard with the types of the parameters AS THE USER SUPPLIED THEM (constructor arguments, scalars)
        obs['guard_user'] = bool(strict_guard(op, user))
        obs['wf'] = bool(real_wf(op))
        obs['avail'] = bool(real_avail(op))
        parts_ok = parts_guard(case, op, env, user, sps.get(case['op']))
        obs['guard_parts'] = parts_ok
        obs['implied'] = implied(case, op, env, parts_ok)
        if parts_ok and case['rel'][0] == 'same':
            # the structure of an actual application of the operator this one stands for (unreduced / unscaled)
            try:
                obs['ref_actual'] = srepr(as_struct(env[case['rel'][1]].mv(probe_input(sin))))
            except Exception as e:
                obs['ref_actual'] = 'failed: ' + short(e)
            if ax:
                # ... and what tracing the operator it stands for declares and returns
                ref = env[case['rel'][1]]
                try:
                    obs['ref_eval'] = [srepr(ref.in_structure()), srepr(jax.eval_shape(ref.mv, ref.in_structure()))]
                except Exception as e:
                    obs['ref_eval'] = 'failed: ' + short(e)
        if ax:
            part = env[ax['of']]
            if ax.get('out') is not None:
                # the output structure of the axis operator itself: NumPy on each leaf vs declared
                obs['part_ref'] = [srepr(mk_struct(ax['out'])), srepr(part.out_structure())]
            if axm_wanted(case):
                shapes = lambda s: [[int(n) for n in l.shape] for l in jax.tree.leaves(s)]  # noqa: E731
                obs['axes'] = {'rcls': AXM_CLASSES.get(type(op).__name__, type(op).__name__), 'rin': shapes(sin), 'rout': shapes(sout),
                               'aout': shapes(part.out_structure())}
        enc = Enc(user, scalars)
        try:
            priv['_term'] = enc.term(op)
            priv['_info'] = enc.info_coq()
            priv['_uinfo'] = enc.uinfo_coq()
            if enc.unsupported:
                priv['_unsupported'] = enc.unsupported
        except Exception as e:
            priv['_unsupported'] = short(e)
    return obs, priv


# ---------------------------------------------------------------------------------------------
# worker for the other x64 mode


def worker_main():
    out = sys.stdout
    sys.stdout = sys.stderr
    for line in sys.stdin:
        req = json.loads(line)
        try:
            obs, priv = impl_case(req['case'])
            res = {'ok': lib.canon(obs), 'priv': priv}
        except Exception as e:
            import traceback

            res = {'err': f'{type(e).__name__}: {e}', 'tb': traceback.format_exc()[-1500:]}
        out.write(json.dumps(res) + '\n')
        out.flush()


_workers: dict = {}


def worker(x64: bool):
    if x64 not in _workers:
        env = dict(os.environ)
        env['JAX_ENABLE_X64'] = '1' if x64 else '0'
        env['PYTHONPATH'] = str(lib.REPO / 'src')
        env['JAX_PLATFORMS'] = 'cpu'
        p = subprocess.Popen(
            [sys.executable, str(Path(__file__).resolve()), '--worker'],
            stdin=subprocess.PIPE, stdout=subprocess.PIPE, stderr=subprocess.DEVNULL, text=True, env=env,
        )  # fmt: skip
        _workers[x64] = p
        atexit.register(p.kill)
    return _workers[x64]


def ask(x64: bool, case: dict):
    p = worker(x64)
    p.stdin.write(json.dumps({'case': lib.pub(case)}) + '\n')
    p.stdin.flush()
    line = p.stdout.readline()
    if not line:
        raise RuntimeError('x64 worker died')
    res = json.loads(line)
    if 'err' in res:
        raise RuntimeError(res['err'] + '\n' + res.get('tb', ''))
    return res['ok'], res['priv']


# ---------------------------------------------------------------------------------------------
# case generation


def S(shape, dt):
    return {'shape': list(shape), 'dtype': dt}


def stokes(kind, shape, dt):
    return {'stokes': kind, 'shape': list(shape), 'dtype': dt}


def leaf_alphabet(dt, pdt, quick):
    """name -> description of the single operators for data dtype dt and parameter dtype pdt."""
    L = {}
    other = F64 if dt == F32 else F32
    layouts = {
        'v3': S([3], dt), 'm23': S([2, 3], dt),
        'lst': {'list': [S([3], dt), S([2, 3], other)]},            # mixed-dtype pytree
        'dct': {'dict': {'b': S([3], dt), 'a': S([1, 3], dt)}},
        'nst': {'tuple': [S([3], dt), {'list': [S([3], I32), S([3], dt)]}]},
        'iqu': stokes('IQU', [3], dt),
    }
    for ln, s in layouts.items():
        L[f'I.{ln}'] = {'k': 'ident', 's': s}
        L[f'H.{ln}'] = {'k': 'homoth', 'v': 2, 'pdt': pdt, 's': s}
        L[f'D.{ln}'] = {'k': 'diag', 'v': [1, 2, 3], 'pdt': pdt, 's': s}
    L['Hpy.v3'] = {'k': 'homoth', 'v': 0.5, 'pdt': 'py', 's': layouts['v3']}
    L['Hpyi.v3'] = {'k': 'homoth', 'v': 3, 'pdt': 'py', 's': layouts['v3']}
    L['D0.m23'] = {'k': 'diag', 'v': [2, 4], 'axis': 0, 'pdt': pdt, 's': layouts['m23']}
    L['D2.m23'] = {'k': 'diag', 'v': [[1, 2, 3], [4, 5, 6]], 'axis': 0, 'pdt': pdt, 's': layouts['m23']}
    L['BD.v3'] = {'k': 'bdiag', 'v': [[1, 2, 3], [1, 1, 1]], 'pdt': pdt, 's': layouts['v3']}
    L['BD0.v3'] = {'k': 'bdiag', 'v': [[1, 2], [3, 4], [5, 6]], 'axis': 0, 'pdt': pdt, 's': layouts['v3']}
    L['A23'] = {'k': 'dense', 'm': [[1, 0, 2], [-1, 1, 0]], 'pdt': pdt, 's': layouts['v3']}
    L['A33'] = {'k': 'dense', 'm': [[2, 1, 0], [1, 2, 1], [0, 1, 2]], 'pdt': pdt, 's': layouts['v3']}
    L['A23b'] = {'k': 'dense', 'm': [[0, 1, 1], [2, 0, 1]], 'pdt': pdt, 's': layouts['v3']}
    L['A33b'] = {'k': 'dense', 'm': [[3, 1, 0], [1, 3, 1], [0, 1, 3]], 'pdt': pdt, 's': layouts['v3']}
    L['Abat'] = {'k': 'dense', 'm': [[[1, 2, 3], [0, 1, 0]], [[1, 1, 1], [2, 0, 2]]], 'pdt': pdt, 's': layouts['m23'], 'sub': 'imn,in->im'}
    L['Alst'] = {'k': 'dense', 'm': [[1, 0, 2], [-1, 1, 0]], 'pdt': pdt, 's': {'list': [S([3], dt), S([3], other)]}}
    L['X3'] = {'k': 'index', 'idx': [{'arr': [0, 2, 2]}], 's': layouts['v3']}
    L['Xs'] = {'k': 'index', 'idx': [{'slice': [0, 2, None]}], 's': layouts['lst']}
    L['Xi'] = {'k': 'index', 'idx': [1], 's': layouts['m23']}
    L['Xe'] = {'k': 'index', 'idx': ['...', {'arr': [1, 1]}], 's': layouts['dct'], 'tuple': True}
    L['Xm'] = {'k': 'index', 'idx': [{'mask': [True, False, True]}], 's': layouts['v3'], 'out': S([2], dt)}
    L['Xid'] = {'k': 'index', 'idx': [':'], 's': layouts['v3'], 'tuple': True}
    L['P3'] = {'k': 'pack', 'mask': [True, False, True], 's': layouts['v3']}
    L['Pl'] = {'k': 'pack', 'mask': [True, False, True], 's': {'list': [S([3], dt), S([3, 2], other)]}}
    L['M23'] = {'k': 'moveaxis', 'src': 0, 'dst': 1, 's': layouts['m23']}
    L['Mp'] = {'k': 'moveaxis', 'src': 0, 'dst': -1, 's': {'list': [S([2, 3], dt), S([2, 3, 2], other)]}}
    L['R23'] = {'k': 'ravel', 's': layouts['m23']}
    L['Rl'] = {'k': 'ravel', 'first': -2, 'last': -1, 's': {'list': [S([2, 2, 3], dt), S([2, 3], other)]}}
    L['R3'] = {'k': 'ravel', 's': layouts['v3']}
    L['Sh'] = {'k': 'reshape', 'shape': [3, 2], 's': layouts['m23']}
    L['Shm'] = {'k': 'reshape', 'shape': [-1, 2], 's': {'list': [S([2, 3], dt), S([4], other)]}}
    for kind in ('I', 'QU', 'IQU', 'IQUV'):
        st = stokes(kind, [3], dt)
        L[f'W.{kind}'] = {'k': 'hwp', 's': st}
        L[f'Pol.{kind}'] = {'k': 'pol', 's': st}
        if pdt != I32:
            L[f'Q.{kind}'] = {'k': 'qurot', 'q': [1, 2, 3], 'pdt': pdt, 's': st}
    if pdt != I32:
        L['Qs.IQU'] = {'k': 'qurot', 'q': 1, 'pdt': pdt, 's': layouts['iqu']}
        L['Q1.IQU'] = {'k': 'qurot', 'q': [2], 'pdt': pdt, 's': layouts['iqu']}
        L['Q23.IQU'] = {'k': 'qurot', 'q': [1, 0, 2], 'pdt': pdt, 's': stokes('IQU', [2, 3], dt)}
        # parameters WIDER than the data: the @square declaration is then not what mv returns
        L['Qw.IQU'] = {'k': 'qurot', 'q': [[1, 2, 3], [0, 1, 2]], 'pdt': pdt, 's': layouts['iqu']}
        L['Qw.QU'] = {'k': 'qurot', 'q': [[1, 2, 3], [0, 1, 2]], 'pdt': pdt, 's': stokes('QU', [3], dt)}
        for m in ('dense', 'direct', 'fft', 'overlap_save'):
            L[f'T.{m}'] = {'k': 'toeplitz', 'band': [2, 1], 'pdt': pdt, 'method': m, 's': S([5], dt)}
            L[f'Tb.{m}'] = {'k': 'toeplitz', 'band': [[2, 1], [3, 1]], 'pdt': pdt, 'method': m, 's': S([2, 5], dt)}
            L[f'Tbb.{m}'] = {'k': 'toeplitz', 'band': [2, 1], 'pdt': pdt, 'method': m, 's': S([2, 5], dt)}
            L[f'Tw.{m}'] = {'k': 'toeplitz', 'band': [[2, 1], [3, 1]], 'pdt': pdt, 'method': m, 's': S([5], dt)}
    # mixed-dtype Stokes containers
    mixed = {'stokes': 'QU', 'shape': [3], 'dtypes': [dt, other]}
    L['W.mix'] = {'k': 'hwp', 's': mixed}
    L['Pol.mix'] = {'k': 'pol', 's': {'stokes': 'IQU', 'shape': [3], 'dtypes': [dt, other, dt]}}
    if pdt != I32:
        L['Q.mix'] = {'k': 'qurot', 'q': [1, 2, 3], 'pdt': pdt, 's': mixed}
    return L


# ---------------------------------------------------------------------------------------------
# parameter grids: shapes of the array parameters enumerated ACROSS the boundary of what the constructors
# accept / of what broadcasts into the data (size-1 values, unit and extra axes, destination axes at and
# beyond the leaf rank on both sides, negative axes, mixed-rank pytrees incl. rank-0 leaves)


def small_values(shape):
    n = int(np.prod(shape)) if len(shape) else 1
    return ((np.arange(n) % 3) + 1).reshape(shape).tolist()


DIAG_VALUE_SHAPES = [(1,), (2,), (3,), (1, 1), (1, 3), (3, 1), (2, 3), (1, 1, 1)]
DIAG_AXES_ANY = list(range(-4, 4))
DIAG_AXES_SEQ = {
    1: [],
    2: [[0, 1], [1, 0], [-1, -2], [-2, -1], [0, 2], [1, 2], [0, 0], [-1, 1], [0, -1], [0], [1]],
    3: [[0, 1, 2], [2, 0, 1], [-3, -2, -1], [1, 2, 3]],
}


def diag_grid_structs(dt, other):
    leaf = lambda sh: S(sh, dt)  # noqa: E731
    return {
        's0': leaf([]), 's1': leaf([1]), 's3': leaf([3]), 's31': leaf([3, 1]), 's13': leaf([1, 3]), 's23': leaf([2, 3]),
        's32': leaf([3, 2]), 's231': leaf([2, 3, 1]), 's11': leaf([1, 1]),
        'tg1': {'dict': {'tod': leaf([3, 1]), 'ground': leaf([3])}},          # a leaf without the sample axis
        'tg2': {'dict': {'tod': leaf([3, 2]), 'ground': leaf([3])}},
        'l23_3': {'list': [leaf([2, 3]), leaf([3])]},
        't3_0': {'tuple': [leaf([3]), leaf([])]},                               # a rank-0 leaf
        't1_11': {'tuple': [leaf([1]), leaf([1, 1])]},
        'iqu3': stokes('IQU', [3], dt),
        'mix': {'list': [leaf([3]), S([3, 1], other)]},                          # mixed dtypes and ranks
        'n13': {'tuple': [leaf([1, 3]), {'dict': {'a': leaf([3]), 'b': leaf([2, 1, 3])}}]},
    }


DIAG_CORE_STRUCTS = ('s0', 's1', 's3', 's31', 'tg1', 't3_0', 't1_11', 'mix')


def diag_grid(dt, pdt, x64, rng, frac_core, frac_unit, frac_other):
    """DiagonalOperator / BroadcastDiagonalOperator over value shapes x axis_destination x input structures;
    kept with probability frac_core (size-1 values on the core structures: where accepted and refused meet),
    frac_unit (size-1 values elsewhere), frac_other (the other value shapes)."""
    other = F64 if dt == F32 else F32
    structs = diag_grid_structs(dt, other)
    out = []
    for dsh in DIAG_VALUE_SHAPES:
        unit = all(n == 1 for n in dsh)
        for ax in DIAG_AXES_ANY + DIAG_AXES_SEQ[len(dsh)]:
            for sn, sd in structs.items():
                for k in ('diag', 'bdiag'):
                    keep = frac_other if not unit else (frac_core if sn in DIAG_CORE_STRUCTS else frac_unit)
                    if rng.random() >= keep:
                        continue
                    d = {'k': k, 'v': small_values(dsh), 'axis': ax, 'pdt': pdt, 's': sd}
                    out.append({
                        'kind': f'grid:{k}', 'x64': x64, 'dt': dt, 'pdt': pdt, 'let': [('r', d)], 'op': 'r',
                        'grid': {'strict': k == 'diag', 'dsh': list(dsh), 'axis': ax, 's': sd, 'sname': sn},
                    })
    return out


def param_grid_alphabet(dt, pdt, rng=None):
    """Toeplitz band batch shapes, rotation angle shapes, scalars / HWP / polariser on rank-0 and mixed-rank
    leaves: name -> description (ordinary single operators, judged inside the guards).  With rng: one
    Toeplitz method per (band shape, data shape) instead of the four."""
    L = {}
    other = F64 if dt == F32 else F32
    if pdt != I32:
        for bn, bsh in (('k', [2]), ('1k', [1, 2]), ('2k', [2, 2]), ('11k', [1, 1, 2]), ('31k', [3, 1, 2]), ('12k', [1, 2, 2]), ('k1', [1]), ('1k1', [1, 1])):
            for dn, dsh in (('5', [5]), ('15', [1, 5]), ('25', [2, 5]), ('325', [3, 2, 5]), ('315', [3, 1, 5]), ('2', [2]), ('21', [2, 1])):
                if bsh[-1] > dsh[-1]:
                    continue
                methods = ('dense', 'direct', 'fft', 'overlap_save')
                for m in (methods if rng is None else (methods[int(rng.random() * 4) % 4],)):
                    L[f'gT.{bn}.{dn}.{m}'] = {'k': 'toeplitz', 'band': small_values(bsh), 'pdt': pdt, 'method': m, 's': S(dsh, dt)}
        for an, ash in (('s', []), ('1', [1]), ('3', [3]), ('13', [1, 3]), ('21', [2, 1]), ('23', [2, 3]), ('11', [1, 1]), ('113', [1, 1, 3]), ('2', [2])):
            q = small_values(ash) if ash else 1
            for kind in ('I', 'QU', 'IQU', 'IQUV'):
                for ln, lsh in (('0', []), ('1', [1]), ('3', [3]), ('23', [2, 3]), ('13', [1, 3]), ('21', [2, 1])):
                    L[f'gQ.{an}.{kind}.{ln}'] = {'k': 'qurot', 'q': q, 'pdt': pdt, 's': stokes(kind, lsh, dt)}
    for ln, st in (('r0', S([], dt)), ('t30', {'tuple': [S([3], dt), S([], dt)]}), ('tg', {'dict': {'tod': S([3, 1], dt), 'ground': S([3], other)}}),
                   ('iqu0', stokes('IQU', [], dt)), ('iqu23', stokes('IQU', [2, 3], dt))):
        L[f'gI.{ln}'] = {'k': 'ident', 's': st}
        L[f'gH.{ln}'] = {'k': 'homoth', 'v': 2, 'pdt': pdt, 's': st}
        L[f'gHpy.{ln}'] = {'k': 'homoth', 'v': 0.5, 'pdt': 'py', 's': st}
    for kind in ('I', 'QU', 'IQU', 'IQUV'):
        for ln, lsh in (('0', []), ('23', [2, 3]), ('1', [1])):
            L[f'gW.{kind}.{ln}'] = {'k': 'hwp', 's': stokes(kind, lsh, dt)}
            L[f'gPol.{kind}.{ln}'] = {'k': 'pol', 's': stokes(kind, lsh, dt)}
    return L


def param_grid_core(name) -> bool:
    """Size-1 parameters / unit and missing axes of the data: where broadcasting into the data and widening it meet."""
    f = name.split('.')
    if f[0] == 'gQ':
        return f[1] in ('s', '1', '11') and f[3] in ('0', '1')
    if f[0] == 'gT':
        return f[1] in ('1k', '11k', '31k', 'k1', '1k1') and f[2] in ('15', '315', '21')
    return f[0] in ('gH', 'gHpy', 'gI') or (f[0] in ('gW', 'gPol') and f[2] == '0')


def param_grid_cases(dt, pdt, x64, rng, frac, one_method=False, core_always=False):
    L = param_grid_alphabet(dt, pdt, rng if one_method else None)
    out = []
    floaty = dt != I32
    for n in sorted(L):
        if rng.random() >= frac and not (core_always and param_grid_core(n)):
            continue
        head = n.split('.')[0]
        out.append({'kind': 'leaf:' + head, 'x64': x64, 'dt': dt, 'pdt': pdt, 'let': [(n, L[n])], 'op': n})
        if floaty and head in ('gQ', 'gT', 'gH', 'gW'):
            which = 'T' if head in ('gQ', 'gW') or rng.random() < 0.5 else 'I'
            out.append({'kind': f'{which}:{head}', 'x64': x64, 'dt': dt, 'pdt': pdt, 'let': [(n, L[n]), ('r', {'k': 'expr', 'e': {which: n}})],
                        'op': 'r', 'rel': [which, n]})
    return out


# structures with the same leaves in different containers (what a block column / row must NOT mix)
def container_twins(dt):
    a, b = S([2], dt), S([3], dt)
    return [
        ('tuple-vs-list', {'tuple': [a, b]}, {'list': [a, b]}),
        ('list-vs-dict', {'list': [a, b]}, {'dict': {'a': a, 'b': b}}),
        ('dict-keys', {'dict': {'a': a, 'b': b}}, {'dict': {'a': a, 'c': b}}),
        ('nesting', {'tuple': [{'tuple': [a, a]}, a]}, {'tuple': [a, {'tuple': [a, a]}]}),
        ('leaf-vs-1-tuple', a, {'tuple': [a]}),
        ('stokes-vs-tuple', stokes('QU', [2], dt), {'tuple': [a, a]}),
        ('leaf-count', {'tuple': [a, a]}, {'tuple': [a, a, a]}),
    ]


def container_rejects(dt=F32):
    out = []
    for label, sa, sb in container_twins(dt):
        parts = [('a', {'k': 'ident', 's': sa}), ('h', {'k': 'homoth', 'v': 2, 's': sa}), ('b', {'k': 'ident', 's': sb})]
        for kind in ('col', 'row'):
            for cn_, cont in (('list', ['a', 'h', 'b']), ('dict', {'dict': {'x': 'a', 'y': 'b'}}), ('nested', {'dict': {'p': {'tuple': ['a', 'h']}, 'q': ['b']}})):
                out.append((f'{kind}-{cn_}-{label}', parts + [('r', {'k': kind, 'blocks': cont})]))
        out.append((f'product-{label}', parts + [('r', {'k': 'expr', 'e': {'mm': ['a', 'b']}})]))
        out.append((f'sum-{label}', parts + [('r', {'k': 'expr', 'e': {'add': ['a', 'b']}})]))
    return out


def composite_cases(dt, pdt, x64, L, rng, quick):
    """Cases built from the alphabet: (name, extra let entries, op name, rel, cont)."""
    out = []

    def add(kind, extra, rel=None, cont=None, needs=()):
        if all(n in L for n in needs):
            out.append((kind, extra, rel, cont))

    floaty = dt != I32
    # lazy / structural transposes
    for n in sorted(L):
        if floaty or n.split('.')[0] in ('X3', 'Xs', 'Xi', 'P3', 'M23', 'R23', 'Sh', 'I', 'W'):
            add('T', [('r', {'k': 'expr', 'e': {'T': n}})], ['T', n], needs=[n])
    # transposes of transposes
    for n in ('A23', 'X3', 'R23', 'Sh', 'Q.IQU', 'M23', 'BD.v3'):
        if floaty:
            add('TT', [('t', {'k': 'expr', 'e': {'T': n}}), ('r', {'k': 'expr', 'e': {'T': 't'}})], ['T', 't'], needs=[n])
    # inverses
    if floaty:
        for n in ('A33', 'D.v3', 'D.lst', 'H.v3', 'H.iqu', 'Q.IQU', 'Q.QU', 'I.lst', 'W.IQU', 'T.dense', 'Tb.fft', 'M23', 'D0.m23'):
            add('I', [('r', {'k': 'expr', 'e': {'I': n}})], ['I', n], needs=[n])
        add('II', [('t', {'k': 'expr', 'e': {'I': 'A33'}}), ('r', {'k': 'expr', 'e': {'I': 't'}})], ['I', 't'], needs=['A33'])
        add('I-blockdiag', [('b', {'k': 'bdiagop', 'blocks': ['A33', 'D.v3']}), ('r', {'k': 'expr', 'e': {'I': 'b'}})], ['I', 'b'], needs=['A33', 'D.v3'])
        add('I-blockdiag-nonsquare', [('b', {'k': 'bdiagop', 'blocks': ['A23', 'A33']}), ('r', {'k': 'expr', 'e': {'T': 'b'}})], ['T', 'b'], needs=['A23', 'A33'])
    # products
    chains = [
        ['A23', 'A33'], ['A23', 'D.v3'], ['A23', 'H.v3', 'A33'], ['X3', 'A33', 'D.v3'], ['A23', 'Hpy.v3'], ['Sh', 'I.m23'],
        ['Pol.IQU', 'Q.IQU', 'W.IQU'], ['Pol.IQU', 'W.IQU'], ['Q.IQU', 'Q1.IQU'], ['W.QU', 'Q.QU'], ['P3', 'D.v3', 'A33'],
        ['T.dense', 'T.fft'], ['Tb.direct', 'Tbb.overlap_save'], ['BD.v3', 'A33'], ['R23', 'D0.m23'], ['Xi', 'D2.m23'],
        ['D.lst', 'H.lst'], ['Xs', 'D.lst'], ['D.dct', 'H.dct'], ['Qw.IQU', 'W.IQU'], ['A33', 'A33b'],
    ]
    for ch in chains:
        add('chain', [('r', {'k': 'expr', 'e': {'chain': ch}})], ['mm'] + ch, needs=ch)
        add('rchain', [('r', {'k': 'expr', 'e': {'rchain': ch}})], ['mm'] + ch, needs=ch)
        add('reduce', [('c', {'k': 'expr', 'e': {'chain': ch}}), ('r', {'k': 'expr', 'e': {'reduce': 'c'}})], ['same', 'c'], needs=ch)
        if floaty:
            add('chain-T', [('c', {'k': 'expr', 'e': {'chain': ch}}), ('r', {'k': 'expr', 'e': {'T': 'c'}})], ['T', 'c'], needs=ch)
    # reductions that rewrite: X.T @ X, rot @ rot.T, A.I @ A, pack @ pack.T
    if floaty:
        for e, parts in (
            ({'mm': [{'T': 'X3'}, 'X3']}, ['X3']), ({'mm': ['Q.IQU', {'T': 'Q1.IQU'}]}, ['Q.IQU', 'Q1.IQU']),
            ({'mm': [{'I': 'A33'}, 'A33b']}, ['A33', 'A33b']), ({'mm': ['P3', {'T': 'P3'}]}, ['P3']),
            ({'mm': [{'T': 'R23'}, 'R23']}, ['R23']), ({'mm': ['Q.QU', 'W.QU']}, ['Q.QU', 'W.QU']),
        ):
            add('reduce-rule', [('c', {'k': 'expr', 'e': e}), ('r', {'k': 'expr', 'e': {'reduce': 'c'}})], ['same', 'c'], needs=parts)
    # sums and scalar multiples
    for a, b in (('A23', 'A23b'), ('Pol.IQU', 'Pol.IQU'), ('Xs', 'Xs'), ('A33', 'A33b'), ('A33', 'D.v3'), ('A33', 'H.v3'), ('D.lst', 'H.lst'), ('Q.IQU', 'W.IQU'), ('H.iqu', 'I.iqu'),
                 ('D.dct', 'I.dct'), ('T.dense', 'T.direct'), ('Hpy.v3', 'I.v3'), ('X3', 'A33')):
        add('sum', [('r', {'k': 'expr', 'e': {'add': [a, b]}})], ['add', a, b], needs=[a, b])
        add('diff', [('r', {'k': 'expr', 'e': {'sub': [a, b]}})], ['add', a, b], needs=[a, b])
        add('sum3', [('r', {'k': 'expr', 'e': {'add': [{'add': [a, b]}, a]}})], ['add', a, b], needs=[a, b])
    for n in ('A23', 'D.lst', 'Q.IQU', 'Pol.IQU', 'X3', 'BD.v3', 'I.nst'):
        for kk in (2, 0.5, {'np': 4.0}, {'jax': 3.0}):
            if quick and rng.random() < 0.5:
                continue
            add('scaled', [('r', {'k': 'expr', 'e': {'smul': [kk, n]}})], ['same', n], needs=[n])
        add('neg', [('r', {'k': 'expr', 'e': {'neg': n}})], ['same', n], needs=[n])
    # block operators over several containers
    for kind, cont in (
        ('bdiagop', ['A23', 'D.v3']), ('bdiagop', {'dict': {'z': 'A33', 'a': 'X3'}}), ('bdiagop', [['A23', 'H.v3'], 'Pol.IQU']),
        ('bdiagop', {'tuple': ['D.lst', 'Q.IQU']}), ('bdiagop', ['I.v3']), ('bdiagop', ['Qw.IQU', 'A33']),
        ('row', ['A23', 'A23']), ('row', {'dict': {'b': 'A33', 'a': 'D.v3'}}), ('row', ['A33', ['H.v3', 'X3']]), ('row', ['Pol.IQU', 'Pol.IQU']),
        ('row', ['A23']), ('row', ['D.lst', 'H.lst']),
        ('col', ['A23', 'A33']), ('col', {'dict': {'b': 'A33', 'a': 'D.v3'}}), ('col', ['Q.IQU', ['W.IQU', 'Pol.IQU']]), ('col', ['X3']),
        ('col', {'tuple': ['D.lst', 'I.lst']}), ('col', ['Sh', 'M23', 'R23']),
    ):
        names = [n for n in _names(cont)]
        add('block-' + kind, [('r', {'k': kind, 'blocks': cont})], [kind], cont, needs=names)
        add('block-reduce-' + kind, [('b', {'k': kind, 'blocks': cont}), ('r', {'k': 'expr', 'e': {'reduce': 'b'}})], ['same', 'b'], needs=names)
        if floaty:
            add('block-T-' + kind, [('b', {'k': kind, 'blocks': cont}), ('r', {'k': 'expr', 'e': {'T': 'b'}})], ['T', 'b'], needs=names)
    # blocks whose (input / output) structures are pytrees in DIFFERENT container kinds: legal for the
    # non-shared side; the declared structure must be the tree of what the blocks accept / return
    pt_parts = [
        ('rt', {'k': 'row', 'blocks': {'tuple': ['I.v3', 'H.v3']}}), ('rl', {'k': 'row', 'blocks': ['D.v3', 'I.v3']}),
        ('rd', {'k': 'row', 'blocks': {'dict': {'p': 'H.v3', 'q': 'D.v3'}}}), ('rt2', {'k': 'row', 'blocks': {'tuple': ['D.v3', 'H.v3']}}),
        ('ct', {'k': 'col', 'blocks': {'tuple': ['I.v3', 'H.v3']}}), ('cl', {'k': 'col', 'blocks': ['D.v3', 'I.v3']}),
        ('cd', {'k': 'col', 'blocks': {'dict': {'p': 'H.v3', 'q': 'D.v3'}}}), ('ct2', {'k': 'col', 'blocks': {'tuple': ['D.v3', 'H.v3']}}),
    ]
    for kind, cont in (
        ('row', ['rt', 'rl', 'rd']), ('row', {'dict': {'z': 'rd', 'a': 'rt'}}), ('bdiagop', ['rt', 'cl', 'rd']), ('bdiagop', {'tuple': ['ct', 'rl', 'I.lst']}),
        ('col', ['ct', 'cl', 'cd']), ('col', {'tuple': ['cd', ['ct']]}), ('col', ['rt', 'rt2']), ('row', ['ct', 'ct2']),
        ('col', ['D.lst', 'H.lst', 'I.lst']), ('row', {'dict': {'u': 'D.dct', 'v': 'H.dct'}}), ('bdiagop', ['D.nst', 'I.dct', 'H.iqu']),
    ):
        names = [n for n in _names(cont)]
        used = [(n, d) for n, d in pt_parts if n in names]
        needs = [n for n in names if n not in dict(pt_parts)] + ['I.v3', 'H.v3', 'D.v3']
        add('block-pytree-' + kind, used + [('r', {'k': kind, 'blocks': cont})], [kind], cont, needs=needs)
        if floaty:
            add('block-pytree-T-' + kind, used + [('b', {'k': kind, 'blocks': cont}), ('r', {'k': 'expr', 'e': {'T': 'b'}})], ['T', 'b'], needs=needs)
        add('block-pytree-reduce-' + kind, used + [('b', {'k': kind, 'blocks': cont}), ('r', {'k': 'expr', 'e': {'reduce': 'b'}})], ['same', 'b'], needs=needs)
    # block products reduced by the block rules
    for l, r in ((('row', ['A23', 'A23']), ('bdiagop', ['A33', 'D.v3'])), (('bdiagop', ['A23', 'D.v3']), ('col', ['A33', 'A33b'])),
                 (('row', ['A33', 'D.v3']), ('col', ['A33b', 'H.v3']))):
        names = list(_names(l[1])) + list(_names(r[1]))
        add('block-product', [('l', {'k': l[0], 'blocks': l[1]}), ('rr', {'k': r[0], 'blocks': r[1]}),
                              ('c', {'k': 'expr', 'e': {'mm': ['l', 'rr']}}), ('r', {'k': 'expr', 'e': {'reduce': 'c'}})], ['same', 'c'], needs=names)
    return out


def _names(cont):
    if isinstance(cont, str):
        yield cont
    elif isinstance(cont, list):
        for c in cont:
            yield from _names(c)
    elif isinstance(cont, dict):
        for c in (cont.get('tuple') or list((cont.get('dict') or {}).values())):
            yield from _names(c)


def closure(L, names):
    """Ordered let entries for the given names."""
    return [(n, L[n]) for n in dict.fromkeys(names)]


# ---------------------------------------------------------------------------------------------
# mixed-PRECISION output pytrees x every construction path that introduces a scalar or a parameter

F16, BF16 = 'float16', 'bfloat16'

# every way of writing the scalar of k * op, op * k, op / k
SCALARS_CORE = [2, 0.5, {'np': 2, 'dt': F32}, {'np': 2, 'dt': F16}, {'jax': 2, 'dt': I32}]
SCALARS_MORE = [True, -3, {'np': 2, 'dt': F64}, {'np': 2, 'dt': I32}, {'np': 2, 'dt': 'int64'}, {'np0d': 4, 'dt': F32}, {'np0d': 4, 'dt': F16},
                {'jax': 2, 'dt': F16}, {'jax': 2, 'dt': F32}, {'jax': 2, 'dt': F64}, {'jax': 2, 'dt': BF16}, {'jaxw': 0.5}, {'jaxw': 3}]


def mixed_structs(x64):
    """name -> (structure description, dtype of the narrowest leaf, dtype of the widest leaf)"""
    out = {
        'd16': ({'dict': {'lo': S([3], F16), 'hi': S([3], F32)}}, F16, F32),
        'l16': ({'list': [S([3], F32), S([2, 3], F16)]}, F16, F32),
        'b16': ({'dict': {'lo': S([3], BF16), 'hi': S([3], F32)}}, BF16, F32),
        'n16': ({'tuple': [S([3], F16), {'dict': {'a': S([3], F32), 'b': S([1, 3], F16)}}]}, F16, F32),
        'qu16': ({'stokes': 'QU', 'shape': [3], 'dtypes': [F16, F32]}, F16, F32),
        'i32f': ({'dict': {'lo': S([3], I32), 'hi': S([3], F32)}}, I32, F32),
    }
    if x64:
        out['d64'] = ({'dict': {'lo': S([3], F32), 'hi': S([3], F64)}}, F32, F64)
        out['t64'] = ({'tuple': [S([3], F64), S([2, 3], F32), S([3], F16)]}, F16, F64)
    return out


def mixed_alphabet(sn, sd, lo, hi):
    """Operators whose OUTPUT pytree has the mixed-precision structure (or the mixed precisions) of sd."""
    L = {
        f'mI.{sn}': {'k': 'ident', 's': sd},
        f'mX.{sn}': {'k': 'index', 'idx': ['...', {'arr': [0, 2, 2, 1]}], 's': sd, 'tuple': True},   # 4 elements out of 3
        f'mD.{sn}': {'k': 'diag', 'v': [1, 2, 3], 'pdt': lo, 's': sd},                              # values as narrow as the narrowest leaf
        f'mHpy.{sn}': {'k': 'homoth', 'v': 0.5, 'pdt': 'py', 's': sd},
        f'mHpi.{sn}': {'k': 'homoth', 'v': 3, 'pdt': 'py', 's': sd},
        f'mHlo.{sn}': {'k': 'homoth', 'v': 2, 'pdt': lo, 's': sd},
        f'mHhi.{sn}': {'k': 'homoth', 'v': 2, 'pdt': hi, 's': sd},                                   # wider than the narrowest leaf
        f'mDhi.{sn}': {'k': 'diag', 'v': [1, 2, 3], 'pdt': hi, 's': sd},
        f'mBD.{sn}': {'k': 'bdiag', 'v': [1, 2, 3], 'pdt': lo, 's': sd},
    }
    if 'stokes' in sd:
        L[f'mW.{sn}'] = {'k': 'hwp', 's': sd}
    if 'dict' in sd and set(sd['dict']) == {'lo', 'hi'}:
        # a block diagonal operator over blocks of different precisions: in {lo: [3], hi: [3]} -> out {lo: [2], hi: [2]}
        L[f'mAlo.{sn}'] = {'k': 'dense', 'm': [[1, 0, 2], [-1, 1, 0]], 'pdt': lo, 's': S([3], lo)}
        L[f'mAhi.{sn}'] = {'k': 'dense', 'm': [[0, 1, 1], [2, 0, 1]], 'pdt': hi, 's': S([3], hi)}
        L[f'mG.{sn}'] = {'k': 'bdiagop', 'blocks': {'dict': {'lo': f'mAlo.{sn}', 'hi': f'mAhi.{sn}'}}}
    return L


def mixed_cases(x64, rng, quick):
    """The scalar / parameter construction paths on operators with mixed-precision outputs."""
    out = []
    for sn, (sd, lo, hi) in mixed_structs(x64).items():
        L = mixed_alphabet(sn, sd, lo, hi)
        floaty = lo != I32
        core_struct = sn in ('d16', 'd64')

        def add(kind, names, extra, rel, cont=None):
            case = {'kind': 'mix:' + kind, 'x64': x64, 'dt': f'{lo}+{hi}', 'pdt': 'mixed', 'let': mixed_closure(L, names) + extra, 'op': extra[-1][0] if extra else names[-1], 'rel': rel}
            if rel is None:
                del case['rel']
            if cont is not None:
                case['cont'] = cont
            out.append(case)

        for n in sorted(L):
            add('leaf', [n], [], None)
            if floaty and not n.startswith(('mAlo', 'mAhi')):
                add('T', [n], [('r', {'k': 'expr', 'e': {'T': n}})], ['T', n])
            if floaty and n.split('.')[0] in ('mI', 'mD', 'mHpy', 'mHpi', 'mHlo', 'mHhi', 'mDhi'):
                # inverses that COMPUTE a parameter (1 / value, 1 / diagonal)
                add('I', [n], [('r', {'k': 'expr', 'e': {'I': n}})], ['I', n])
                if not quick or rng.random() < 0.3:
                    add('I-scaled', [n], [('i', {'k': 'expr', 'e': {'I': n}}), ('r', {'k': 'expr', 'e': {'smul': [2, 'i']}})], ['same', 'i'])
        operands = [n for n in sorted(L) if n.split('.')[0] in ('mI', 'mX', 'mD', 'mHpy', 'mHlo', 'mG', 'mW', 'mBD')]
        for n in operands:
            head = n.split('.')[0]
            core = core_struct and head in ('mX', 'mG', 'mD') or head == 'mX'
            for k in SCALARS_CORE + SCALARS_MORE:
                p = (1.0 if k in SCALARS_CORE or core_struct else 0.35) if not quick else ((1.0 if core_struct and head == 'mX' else 0.5) if k in SCALARS_CORE[:2] and core else (0.3 if k in SCALARS_CORE and core else 0.04))
                for kind, e in (('smul', {'smul': [k, n]}), ('mulr', {'mulr': [n, k]}), ('div', {'div': [n, k]})):
                    if rng.random() < p:
                        add(kind, [n], [('r', {'k': 'expr', 'e': e})], ['same', n])
            p = 1.0 if (core or not quick) else 0.4
            if rng.random() < p:
                add('neg', [n], [('r', {'k': 'expr', 'e': {'neg': n}})], ['same', n])
            other = f'mX.{sn}' if head != 'mG' else n
            pair = [n, other]
            compatible = head in ('mX', 'mG')           # same structures on both sides
            if compatible and rng.random() < p:
                add('sub', pair, [('r', {'k': 'expr', 'e': {'sub': [n, other]}})], ['add', n, other])
                add('sum', pair, [('r', {'k': 'expr', 'e': {'add': [n, other]}})], ['add', n, other])
            if compatible and (not quick or core_struct or rng.random() < 0.5):
                # a SUM negated / subtracted / scaled: AdditionOperator.__neg__ scales every operand
                sm = ('s', {'k': 'expr', 'e': {'add': [n, other]}})
                for kind2, e2, rel2 in (('sum-neg', {'neg': 's'}, ['same', 's']), ('sum-sub', {'sub': [n, 's']}, ['add', n, 's']),
                                        ('sum-smul', {'smul': [3, 's']}, ['same', 's']), ('sum-div', {'div': ['s', 2]}, ['same', 's']),
                                        ('sum-sub-sum', {'sub': ['s', 's']}, ['add', 's', 's'])):
                    add(kind2, pair, [sm, ('r', {'k': 'expr', 'e': e2})], rel2)
            # the scaled operator as a part: transposed, reduced, negated, summed, multiplied, put in a block, scaled again
            for k in (3, 0.5, {'np': 2, 'dt': F32}, {'jax': 2, 'dt': F16}):
                if rng.random() >= (p * (0.5 if quick else 1.0)):
                    continue
                t = ('t', {'k': 'expr', 'e': {'smul': [k, n]}})
                second = [('reduce', {'reduce': 't'}, ['same', 't']), ('neg', {'neg': 't'}, ['same', 't']), ('smul', {'smul': [2, 't']}, ['same', 't']),
                          ('div', {'div': ['t', 4]}, ['same', 't']), ('sum', {'add': ['t', n]}, ['add', 't', n]), ('sub', {'sub': [n, 't']}, ['add', n, 't'])]
                if floaty:
                    second.append(('T', {'T': 't'}, ['T', 't']))
                for kind2, e2, rel2 in second:
                    if quick and rng.random() >= 0.35:
                        continue
                    add('scaled-' + kind2, [n], [t, ('r', {'k': 'expr', 'e': e2})], rel2)
                if not quick or rng.random() < 0.35:
                    add('scaled-block', [n], [t, ('r', {'k': 'bdiagop', 'blocks': {'dict': {'u': 't', 'v': n}}})], ['bdiagop'], {'dict': {'u': 't', 'v': n}})
                    add('scaled-col', [n], [t, ('r', {'k': 'col', 'blocks': ['t', n]})], ['col'], ['t', n])
                if head in ('mX', 'mG') and (not quick or rng.random() < 0.5):
                    # (k * op) @ D and (k * op).reduce() with a diagonal / scalar operator on the input side
                    ins = f'mI.{sn}' if head == 'mX' else None
                    if ins:
                        add('scaled-mm', [n, f'mD.{sn}'], [t, ('c', {'k': 'expr', 'e': {'mm': ['t', f'mD.{sn}']}}), ('r', {'k': 'expr', 'e': {'reduce': 'c'}})], ['same', 'c'])
                        add('scaled-mm-homoth', [n, f'mHpy.{sn}'], [t, ('c', {'k': 'expr', 'e': {'mm': ['t', f'mHpy.{sn}']}}), ('r', {'k': 'expr', 'e': {'reduce': 'c'}})], ['same', 'c'])
    return out


def mixed_closure(L, names):
    """Let entries for the names, blocks' parts first."""
    order = []
    for n in names:
        d = L[n]
        for u in _used(d):
            if u in L and u not in order:
                order.append(u)
        if n not in order:
            order.append(n)
    return [(n, L[n]) for n in order]


# ---------------------------------------------------------------------------------------------
# reduced operators: the documented patterns of every binary rule AND their near misses (pairs that look like a
# pattern but must NOT be rewritten): alphabet and PATTERNS of harness/alg_cases.py + more near misses

import alg_cases as G  # noqa: E402

LETX = dict(G.LET)
LETX.update({
    'P3b': {'k': 'pack', 'mask': [True, True, False], 's': [3]},       # another mask, same count
    'P3c': {'k': 'pack', 'mask': [True, False, False], 's': [3]},      # another mask, another count
    'P3bT': {'k': 'expr', 'e': {'T': 'P3b'}},
    'P3cT': {'k': 'expr', 'e': {'T': 'P3c'}},
    'D2b': {'k': 'diag', 'v': [1, 3], 's': [2]},
    'Rd': {'k': 'ravel', 's': {'dict': {'a': [2, 3], 'b': [3, 2]}}},
    'Shd': {'k': 'reshape', 'shape': [1, 6], 's': {'dict': {'a': [2, 3], 'b': [3, 2]}}},
    'Shd2': {'k': 'reshape', 'shape': [6], 's': {'dict': {'a': [2, 3], 'b': [3, 2]}}},   # the map of Rd, another class
    'RdT': {'k': 'expr', 'e': {'T': 'Rd'}},
    'ShdT': {'k': 'expr', 'e': {'T': 'Shd'}},
    'Sh231': {'k': 'reshape', 'shape': [3, 1, 2], 's': [2, 3]},
    'Sh231T': {'k': 'expr', 'e': {'T': 'Sh231'}},
    'R23a': {'k': 'ravel', 'first': 0, 'last': 0, 's': [2, 3]},         # ravel of ONE axis: a no-op on the same input
    'X3u2': {'k': 'index', 'idx': [{'arr': [1, 0]}], 's': [3], 'unique': True},
    'X3u2T': {'k': 'expr', 'e': {'T': 'X3u2'}},
    'X3u3': {'k': 'index', 'idx': [{'arr': [1]}], 's': [3], 'unique': True},
    'X3u3T': {'k': 'expr', 'e': {'T': 'X3u3'}},
    'M322': {'k': 'moveaxis', 'src': 0, 'dst': 2, 's': [3, 2, 2]},
    'M223': {'k': 'moveaxis', 'src': 1, 'dst': 0, 's': [2, 2, 3]},      # composable with M322, not its inverse
    'BCC': {'k': 'col', 'blocks': ['BC', 'A22']},
    'BCn': {'k': 'col', 'blocks': [['B22', 'A22'], 'A22']},
    'BRw': {'k': 'row', 'blocks': ['A23', 'A22']},                      # blocks of different widths
    'BDw2': {'k': 'bdiagop', 'blocks': ['A33', 'B22']},
    'BCw': {'k': 'col', 'blocks': ['A32', 'A22']},
})
PATTERNS_X = dict(G.PATTERNS)
PATTERNS_X.update({
    'near-pack-other-mask': ['P3', 'P3bT'],
    'near-pack-other-count': ['P3', 'P3cT'],
    'near-pack-other-count-2': ['P3c', 'P3T'],
    'near-diag-inverse-other-operator': ['D2I', 'D2b'],
    'near-reshape-pytree-different-operator': ['Shd', 'RdT'],
    'near-reshape-pytree-different-operator-2': ['Rd', 'ShdT'],
    'near-reshape-pytree-same-map-other-class': ['Shd2', 'RdT'],
    'reshape-pytree-own-T': ['Shd', 'ShdT'],
    'ravelT-ravel-pytree': ['RdT', 'Rd'],
    'near-reshape-other-target': ['Sh231', 'Sh23T'],
    'near-reshape-other-target-2': ['Sh23', 'Sh231T'],
    'near-reshape-noop-ravel': ['Sh23', 'R23a'],
    'near-index-indexT-distinct-unique': ['X3u', 'X3u2T'],
    'near-index-indexT-distinct-count': ['X3u', 'X3u3T'],
    'near-moveaxis-composable-not-inverse': ['M223', 'M322'],
    'near-row-diag-nesting': ['BRR', 'BDnn'],
    'near-diag-col-nesting': ['BDnn', 'BCC'],
    'near-row-col-nesting': ['BRR', 'BCn'],
    'row-diag-widths': ['BRw', 'BDw2'],
    'diag-col-widths': ['BDw2', 'BCw'],
    'row-col-widths': ['BRw', 'BCw'],
})


def alg_closure(names):
    """Let entries (k = 'alg') for operands of the shared alphabet, dependencies first, in alphabet order."""
    need = set()
    for n in names:
        need |= used_alg(n)
    return [(n, {'k': 'alg', 'd': LETX[n]}) for n in LETX if n in need]


def used_alg(n, acc=None):
    acc = set() if acc is None else acc
    if n in acc or n not in LETX:
        return acc
    acc.add(n)
    d = LETX[n]
    if d['k'] == 'expr':
        for u in _expr_names(d['e']):
            used_alg(u, acc)
    if 'blocks' in d:
        for u in _names(d['blocks']):
            used_alg(u, acc)
    return acc


def pattern_cases(x64, rng, quick):
    """Every pattern and near miss: the product (constructor and @), and its reduced form - declared structures vs
    those implied by the parts, vs eval_shape, vs an actual application, vs an application of the unreduced product."""
    out = []
    for pname, names in PATTERNS_X.items():
        near = pname.startswith('near-')
        if quick and x64 and not near:
            continue  # float32 operands throughout: the other 64-bit mode for the near misses only
        base = alg_closure(names)
        ctxs = [('comp', {'comp': names} if len(names) > 1 else names[0])]
        if len(names) > 1:
            ctxs.append(('mm', {'chain': names}))
        if quick and x64:
            ctxs = ctxs[-1:]
        for nctx, (ctx, e) in enumerate(ctxs):
            if isinstance(e, str):
                product, cname = [], e
            else:
                product, cname = [('c', {'k': 'expr', 'e': e})], 'c'
                out.append({'kind': f'pat:{ctx}', 'pattern': pname, 'x64': x64, 'dt': F32, 'pdt': F32, 'let': base + product, 'op': 'c', 'rel': ['mm'] + names})
            out.append({'kind': f'pat:{ctx}-reduce', 'pattern': pname, 'x64': x64, 'dt': F32, 'pdt': F32,
                        'let': base + product + [('r', {'k': 'expr', 'e': {'reduce': cname}})], 'op': 'r', 'rel': ['same', cname]})
            if not quick or (near and not x64 and nctx == len(ctxs) - 1) or rng.random() < 0.1:
                # ... and as a part of a larger operator: a block, scaled
                out.append({'kind': f'pat:{ctx}-block-reduce', 'pattern': pname, 'x64': x64, 'dt': F32, 'pdt': F32,
                            'let': base + product + [('b', {'k': 'bdiagop', 'blocks': {'dict': {'x': cname, 'y': cname}}}), ('r', {'k': 'expr', 'e': {'reduce': 'b'}})],
                            'op': 'r', 'rel': ['same', 'b']})
                out.append({'kind': f'pat:{ctx}-scaled-reduce', 'pattern': pname, 'x64': x64, 'dt': F32, 'pdt': F32,
                            'let': base + product + [('t', {'k': 'expr', 'e': {'smul': [2, cname]}}), ('r', {'k': 'expr', 'e': {'reduce': 't'}})],
                            'op': 'r', 'rel': ['same', 't']})
    return out


# ---------------------------------------------------------------------------------------------
# axis operators (ravel / reshape / move-axis / index / diagonal with a destination axis / pack) on pytrees whose
# leaves have DIFFERENT ranks, in both leaf orders: the axes are normalised PER LEAF, so one leaf may be left
# untouched while another one is really changed.  Each operator alone, reduced, transposed-and-reduced and reduced
# inside a composition / a sum / a block / a scalar multiple; reference: NumPy on each leaf.


def axes_ref(d, sh):
    """NumPy reference for ONE leaf of shape sh: the shape of the result (tuple), 'reject' (the operator must refuse
    the leaf), 'skip' (outside what is enumerated here: axes out of range), 'noref' (no reference: judged by the
    generic clauses only)."""
    sh = tuple(sh)
    nd = len(sh)
    k = d['k']
    z = np.zeros(sh, dtype=np.float32)
    if k == 'ravel':
        first, last = d.get('first', 0), d.get('last', -1)
        if 0 <= last < first or last < first < 0:
            return 'reject'
        f, l = (first + nd if first < 0 else first), (last + nd if last < 0 else last)
        if not (0 <= f < nd and 0 <= l < nd):
            return 'skip'
        if f > l:
            return 'reject'  # "there are no dimensions between first_axis and last_axis to be flattened"
        return z.reshape(sh[:f] + (-1,) + sh[l + 1:]).shape
    if k == 'reshape':
        try:
            return z.reshape(tuple(d['shape'])).shape
        except ValueError:
            return 'reject'
    if k == 'moveaxis':
        try:
            return np.moveaxis(z, A.as_axis(d['src']), A.as_axis(d['dst'])).shape
        except (ValueError, IndexError):
            return 'skip'
    if k == 'index':
        idx = []
        for e in d['idx']:
            if isinstance(e, int):
                idx.append(e)
            elif e == '...':
                idx.append(Ellipsis)
            elif e == ':':
                idx.append(slice(None))
            elif 'slice' in e:
                idx.append(slice(*e['slice']))
            elif 'arr' in e:
                idx.append(np.array(e['arr'], dtype=np.int64))
            else:
                return 'noref'
        try:
            return z[tuple(idx)].shape
        except IndexError:
            return 'skip'
    if k == 'pack':
        m = np.array(d['mask'], dtype=bool)
        if m.ndim > nd or sh[:m.ndim] != m.shape:
            return 'skip'
        return z[m].shape
    if k in ('diag', 'bdiag'):
        # 1-d values on an axis that exists in the leaf, of the length of that axis or of length 1: the leaf keeps its shape
        n, a = len(d['v']), d['axis']
        if np.ndim(d['v']) != 1 or not isinstance(a, int) or not -nd <= a < nd or (n != 1 and sh[a] != n):
            return 'skip'
        return sh
    return 'noref'


def map_leaves(desc, shapes):
    """The structure description `desc` with the leaf shapes replaced, in description order, by `shapes` (iterator)."""
    if isinstance(desc, dict) and 'shape' in desc:
        return {'shape': [int(n) for n in next(shapes)], 'dtype': desc['dtype']}
    (kind, kids), = desc.items()
    if kind == 'dict':
        return {'dict': {k: map_leaves(v, shapes) for k, v in kids.items()}}
    return {kind: [map_leaves(v, shapes) for v in kids]}


def desc_leaves(desc):
    """Leaf shapes of a structure description, in description order."""
    if isinstance(desc, dict) and 'shape' in desc:
        return [tuple(desc['shape'])]
    (kind, kids), = desc.items()
    return [s for v in (kids.values() if kind == 'dict' else kids) for s in desc_leaves(v)]


def ranked_tree(shapes, container, dts):
    """A pytree description with the given leaf shapes, in this order (dict keys are in alphabetical order, which
    is the flattening order of jax), leaf i of dtype dts[i % len(dts)]."""
    leaves = [S(list(sh), dts[i % len(dts)]) for i, sh in enumerate(shapes)]
    if container == 'dict':
        return {'dict': {'abcdef'[i]: l for i, l in enumerate(leaves)}}
    if container == 'tuple':
        return {'tuple': leaves}
    if container == 'nested' and len(leaves) >= 2:
        return {'tuple': [leaves[0], {'dict': {'pqrst'[i]: l for i, l in enumerate(leaves[1:])}}]}
    return {'list': leaves}


RAVEL_AXES = [(0, -1), (1, -1), (-2, 1), (0, 0), (-1, -1), (0, 1), (-2, -1), (1, 1), (-1, 0), (-2, 0), (1, -2), (1, 0)]
AXES_FAMILIES = [
    # (class, parameters, sets of leaf shapes of different ranks)
    ('ravel', [{'first': f, 'last': l} for f, l in RAVEL_AXES],
     [[(4,), (2, 3)], [(5, 2), (5, 3, 2)], [(3, 2), (2, 3, 2)], [(3,), (2, 3), (2, 1, 2)]]),
    ('reshape', [{'shape': list(s)} for s in ((6,), (-1,), (2, 3), (3, -1), (1, 6), (-1, 1, 2), (4,))],
     [[(6,), (2, 3)], [(2, 3), (3, 1, 2)], [(6,), (1, 6), (3, 2)]]),
    ('moveaxis', [{'src': s, 'dst': t} for s, t in ((0, -1), (-1, 0), (0, 1), (1, 0), (-1, -2), ([0, 1], [1, 0]), ([0, -1], [-1, 0]), (0, 0), (-1, -1))],
     [[(3,), (2, 3)], [(2, 2), (2, 3, 2)], [(2, 3), (2, 3, 2)], [(3,), (3, 2), (2, 1, 3)]]),
    ('index', [{'idx': i, 'tuple': True} for i in (
        [{'slice': [0, 4, None]}], [':'], ['...', ':'], ['...', {'slice': [0, 3, None]}], [1], ['...', 1], ['...', {'arr': [2, 0, 2, 1]}],
        [{'arr': [1, 1, 0]}], [':', '...'], ['...', {'slice': [None, None, 2]}], [{'slice': [1, None, None]}, '...'])],
     [[(4,), (5, 3)], [(3,), (2, 3)], [(4, 3), (2,)], [(3,), (4, 3), (2, 2, 3)]]),
    ('diag', [{'v': [1, 2, 3], 'axis': a} for a in (-1, 0)] + [{'v': [2], 'axis': a} for a in (-1, 0, -2, 1)],
     [[(3,), (2, 3)], [(3,), (3, 2)], [(3, 1), (3,)]]),
    ('bdiag', [{'v': [1, 2, 3], 'axis': a} for a in (-1, 0)] + [{'v': [2], 'axis': a} for a in (-1, 0)],
     [[(3,), (2, 3)], [(3,), (3, 2)]]),
    ('pack', [{'mask': [True, False, True]}, {'mask': [True, True, True]}],
     [[(3,), (3, 2)], [(3, 2, 2), (3,)]]),
]
AXES_CONTAINERS = ('dict', 'list', 'tuple', 'nested')
AXM_CLASSES = {'IdentityOperator': 0, 'MoveAxisOperator': 1, 'RavelOperator': 2, 'ReshapeOperator': 3, 'ReshapeTransposeOperator': 4, 'CompositionOperator': 5}


def axes_ops(dts):
    """Every (class, parameters) x leaf-shape set x both leaf orders (the container kind rotates):
    (label, description, input structure, expected output structure or 'reject' or None, core) - core: the operator
    leaves some leaf untouched and changes another one."""
    out = []
    n = 0
    for k, params, shape_sets in AXES_FAMILIES:
        for shapes in shape_sets:
            for order in (list(shapes), list(reversed(shapes))):
                for p in params:
                    n += 1
                    si = ranked_tree(order, AXES_CONTAINERS[n % len(AXES_CONTAINERS)], dts)
                    d = {'k': k, **p, 's': si}
                    if k in ('diag', 'bdiag'):
                        d['pdt'] = dts[-1]  # values as narrow as the narrowest leaf: inside the guard, every leaf keeps its dtype
                    ins = desc_leaves(si)   # description order is the flattening order (dict keys are sorted)
                    refs = [axes_ref(d, sh) for sh in ins]
                    if 'skip' in refs:
                        continue
                    label = f'{k}{json.dumps(p, separators=(",", ":"))}@{"+".join("x".join(map(str, s)) or "scalar" for s in order)}'
                    if 'reject' in refs:
                        out.append((label, d, si, 'reject', True))
                        continue
                    if 'noref' in refs:
                        out.append((label, d, si, None, True))
                        continue
                    so = map_leaves(si, iter(refs))
                    same = [tuple(r) == tuple(s) for r, s in zip(refs, ins)]
                    out.append((label, d, si, so, any(same) and not all(same)))
    return out


def axes_contexts(d, si, so, floaty):
    """The operator alone, reduced, and reduced as a part: (context, let entries, operator name, rel, cont)."""
    a = ('a', d)
    E = lambda n, e: (n, {'k': 'expr', 'e': e})  # noqa: E731
    R = lambda n: E('r', {'reduce': n})          # noqa: E731
    yield 'leaf', [a], 'a', None, None
    yield 'reduce', [a, R('a')], 'r', ['same', 'a'], None
    if floaty:
        yield 'T', [a, E('r', {'T': 'a'})], 'r', ['T', 'a'], None
        yield 'T-reduce', [a, E('t', {'T': 'a'}), R('t')], 'r', ['same', 't'], None
        yield 'TA-reduce', [a, E('c', {'mm': [{'T': 'a'}, 'a']}), R('c')], 'r', ['same', 'c'], None
        yield 'AT-reduce', [a, E('c', {'mm': ['a', {'T': 'a'}]}), R('c')], 'r', ['same', 'c'], None
    yield 'sum1-reduce', [a, E('s', {'sum': ['a']}), R('s')], 'r', ['same', 's'], None
    yield 'sum-reduce', [a, E('s', {'add': ['a', 'a']}), R('s')], 'r', ['same', 's'], None
    yield 'scaled-reduce', [a, E('t', {'smul': [2, 'a']}), R('t')], 'r', ['same', 't'], None
    for kind, cont in (('bdiagop', {'dict': {'x': 'a', 'y': 'a'}}), ('col', ['a', 'a']), ('row', {'tuple': ['a', 'a']}), ('bdiagop', ['a'])):
        yield f'block-{kind}-reduce', [a, ('b', {'k': kind, 'blocks': cont}), R('b')], 'r', ['same', 'b'], None
    hi = ('hi', {'k': 'homoth', 'v': 2, 's': si})
    ii = ('ii', {'k': 'ident', 's': si})
    yield 'comp-hr-reduce', [a, hi, E('c', {'mm': ['a', 'hi']}), R('c')], 'r', ['same', 'c'], None
    if so is not None:  # operators on the (NumPy-computed) output structure
        ho = ('ho', {'k': 'homoth', 'v': 2, 's': so})
        io = ('io', {'k': 'ident', 's': so})
        yield 'comp-hl-reduce', [a, ho, E('c', {'mm': ['ho', 'a']}), R('c')], 'r', ['same', 'c'], None
        yield 'comp-id-reduce', [a, ii, io, E('c', {'comp': ['io', 'a', 'ii']}), R('c')], 'r', ['same', 'c'], None
        yield 'comp-hh-reduce', [a, hi, ho, E('c', {'comp': ['ho', 'a', 'hi']}), R('c')], 'r', ['same', 'c'], None
        yield 'sum-comp-reduce', [a, ho, E('s', {'add': ['a', {'mm': ['ho', 'a']}]}), R('s')], 'r', ['same', 's'], None


def axes_cases(x64, rng, quick):
    """Quick tier, driver's 64-bit mode, one dtype: every core operator (one leaf untouched, another one changed) alone and
    reduced; the core ravel operators in every context, the other core operators in 3 contexts drawn at random; the
    remaining operators, the mixed-dtype pytrees and the other 64-bit mode sampled.  Thorough tier: everything in the
    first configuration, the other three configurations sampled (1 in 5 operators)."""
    out = []
    for dts in ((F32,), (F32, F16)):
        first = not x64 and len(dts) == 1
        for label, d, si, so, core in axes_ops(dts):
            common = {'label': label, 'x64': x64, 'dt': '+'.join(dts), 'pdt': dts[0]}
            if so == 'reject':
                if first or rng.random() < (0.1 if quick else 0.2):
                    out.append({'kind': 'axes:reject', **common, 'let': [('a', d)], 'op': 'a', 'expect': 'reject', 'axes': {'of': 'a', 'd': d}})
                continue
            if quick:
                p_op = (1.0 if core else 0.12) if first else (0.1 if core else 0.02)
            else:
                p_op = 1.0 if first else 0.2
            if rng.random() >= p_op:
                continue
            ctxs = list(axes_contexts(d, si, so, floaty=True))
            if quick and not (first and core and d['k'] == 'ravel'):
                extra = rng.sample(range(2, len(ctxs)), 3 if (first and core) else 2)
                ctxs = [c for n, c in enumerate(ctxs) if n < 2 or n in extra]
            for ctx, let, opn, rel, cont in ctxs:
                case = {'kind': 'axes:' + ctx, **common, 'let': let, 'op': opn, 'axes': {'of': 'a', 'd': d, 'out': so}}
                if rel is not None:
                    case['rel'] = rel
                if cont is not None:
                    case['cont'] = cont
                out.append(case)
    return out


def axm_term(case):
    """The same operator in Model/Axes.v (the model of the C13 check: constructors, per-leaf axis normalisation,
    reduce of a non-composite operator): None when the constructor refuses, else the class of the reduced operator,
    its leaf shapes, and the output leaf shapes of the operator itself."""
    d = case['axes']['d']
    ins = clist(case['_axins'], lambda s: clist(s, A.cn))
    k = d['k']
    if k == 'ravel':
        ctor = f'(Axes.bind (Axes.Ravel_ctor 1%N {A.cz(d.get("first", 0))} {A.cz(d.get("last", -1))} {ins}) (fun o => Axes.Ok (Axes.OpRR (Axes.RRavel o))))'
    elif k == 'reshape':
        ctor = f'(Axes.bind (Axes.Reshape_ctor 1%N {clist(d["shape"], A.cz)} {ins}) (fun o => Axes.Ok (Axes.OpRR (Axes.RReshape o))))'
    elif k == 'moveaxis':
        ax = lambda v: f'(Axes.AInt {A.cz(v)})' if isinstance(v, int) else f'(Axes.ASeq {clist(v, A.cz)})'  # noqa: E731
        ctor = f'(Axes.bind (Axes.MoveAxis_ctor {ax(d["src"])} {ax(d["dst"])} {ins}) (fun o => Axes.Ok (Axes.OpMove o)))'
    else:
        return None
    return (
        f'(match {ctor} with Axes.Err _ => None | Axes.Ok a => Some '
        f'(match Axes.reduce1 a, Axes.out_structure a with '
        f'| Axes.Ok r, Axes.Ok ao => match Axes.in_structure r, Axes.out_structure r with '
        f'| Axes.Ok ri, Axes.Ok ro => Some (Axes.class_name r, ri, ro, ao) | _, _ => None end '
        f'| _, _ => None end) end)'
    )


def axm_wanted(case) -> bool:
    ax = case.get('axes')
    return bool(ax) and ax['d']['k'] in ('ravel', 'reshape', 'moveaxis') and case['kind'] in ('axes:reduce', 'axes:reject')


REJECTS = [
    # constructor validation: these must be refused
    ('diag-wider-values', [('r', {'k': 'diag', 'v': [[1, 2, 3], [1, 1, 1]], 's': S([3], F32)})]),
    ('diag-wrong-length', [('r', {'k': 'diag', 'v': [1, 2], 's': S([3], F32)})]),
    ('row-out-mismatch', [('a', {'k': 'dense', 'm': [[1, 0, 2], [-1, 1, 0]], 's': S([3], F32)}),
                          ('b', {'k': 'dense', 'm': [[1, 0, 2], [-1, 1, 0], [0, 0, 1]], 's': S([3], F32)}), ('r', {'k': 'row', 'blocks': ['a', 'b']})]),
    ('row-out-dtype-mismatch', [('a', {'k': 'ident', 's': S([3], F32)}), ('b', {'k': 'ident', 's': S([3], I32)}), ('r', {'k': 'row', 'blocks': ['a', 'b']})]),
    ('col-in-mismatch', [('a', {'k': 'ident', 's': S([3], F32)}), ('b', {'k': 'ident', 's': S([2], F32)}), ('r', {'k': 'col', 'blocks': ['a', 'b']})]),
    ('col-in-dtype-mismatch', [('a', {'k': 'ident', 's': S([3], F32)}), ('b', {'k': 'ident', 's': S([3], I32)}), ('r', {'k': 'col', 'blocks': {'dict': {'x': 'a', 'y': 'b'}}})]),
    ('inverse-nonsquare', [('a', {'k': 'dense', 'm': [[1, 0, 2], [-1, 1, 0]], 's': S([3], F32)}), ('r', {'k': 'expr', 'e': {'I': 'a'}})]),
    ('inverse-dtype-nonsquare', [('a', {'k': 'pol', 's': stokes('I', [3], I32)}), ('r', {'k': 'expr', 'e': {'I': 'a'}})]),
    ('product-dtype-mismatch', [('a', {'k': 'ident', 's': S([3], F32)}), ('b', {'k': 'ident', 's': S([3], I32)}), ('r', {'k': 'expr', 'e': {'mm': ['a', 'b']}})]),
    ('sum-dtype-mismatch', [('a', {'k': 'ident', 's': S([3], F32)}), ('b', {'k': 'ident', 's': S([3], I32)}), ('r', {'k': 'expr', 'e': {'add': ['a', 'b']}})]),
    ('sum-tree-mismatch', [('a', {'k': 'ident', 's': {'list': [S([3], F32)]}}), ('b', {'k': 'ident', 's': {'tuple': [S([3], F32)]}}), ('r', {'k': 'expr', 'e': {'add': ['a', 'b']}})]),
    # a column over blocks that are themselves rows with a tuple / a list input; a row over columns likewise
    ('col-of-rows-tuple-vs-list', [('i', {'k': 'ident', 's': S([3], F32)}), ('h', {'k': 'homoth', 'v': 2, 's': S([3], F32)}),
                                   ('rt', {'k': 'row', 'blocks': {'tuple': ['i', 'h']}}), ('rl', {'k': 'row', 'blocks': ['h', 'i']}), ('r', {'k': 'col', 'blocks': ['rt', 'rl']})]),
    ('row-of-cols-tuple-vs-list', [('i', {'k': 'ident', 's': S([3], F32)}), ('h', {'k': 'homoth', 'v': 2, 's': S([3], F32)}),
                                   ('ct', {'k': 'col', 'blocks': {'tuple': ['i', 'h']}}), ('cl', {'k': 'col', 'blocks': ['h', 'i']}), ('r', {'k': 'row', 'blocks': ['ct', 'cl']})]),
] + container_rejects()


class Check(PropertyCheck):
    id = 'C05'
    # Tables.v (shared T-tie, regenerated from the imported package on every run): which definition of out_structure /
    # in_structure / reduce / transpose / inverse every operator class resolves to is the one the model assumes
    props = ['Tables.v', 'C05.v']
    static_targets = ['theories/Model/Exec.vo', 'theories/Lemmas/StructsL.vo', 'theories/Model/Pinned.vo', 'theories/Lemmas/TablesL.vo',
                      'theories/Model/Axes.vo', 'theories/Lemmas/AxesStructsL.vo']
    coq_header = A.COQ_HEADER + 'From Furax Require Import Model.Wf Model.Structs.\nFrom Furax Require Model.Axes.\n'
    shard = 100
    workers = 4
    partial = (
        'the structures of REDUCED operators (reduce_structs: Props/C01Structs.v, compiled by the C01 check) and of '
        'INVERSES (inverse_structs: Props/C06Structs.v, compiled by the C06 check) are proved there for all expression '
        'trees under wfo and prims_ok; here they are additionally compared on the real objects (kinds reduce, reduce-rule, '
        'block-reduce-*, block-product, I, II, I-blockdiag, and pat:* - every documented pattern and its near misses). Not proved: The closed-form leaves of Model/Exec.v without a measured matrix '
        '(rotation, HWP, polariser, 1-d diagonal created by reduce) are not discharged for the value-level leaf fact '
        '(their dtype/shape rules ARE discharged for the abstract evaluation: declared_is_evaluated).'
    )
    trusted = [
        'JAX: jax.eval_shape traces mv consistently with its execution; NumPy broadcasting and jnp.result_type promotion '
        '(the dtype lattice of Model/StokesTree.v, checked exhaustively against jnp.result_type by C20) are the '
        'specification of the leaf arithmetic; jax.linear_transpose returns cotangents of the primal structure; '
        'lx.linear_solve returns a solution of the operator input structure',
        'leaf operators with the default out_structure() (dense, broadcast-diagonal, index without explicit output, pack, '
        'move-axis, ravel, reshape, user atoms) carry in the model the structure the real object declares: for them the '
        'declaration IS jax.eval_shape(self.mv, in_structure) by construction; the model computes the evaluation itself '
        'for identity, scalar, diagonal (+inverse), Toeplitz, QU rotation (+transpose), HWP, polariser, reshape-transpose '
        'and the lazy transpose/inverse wrappers; for DiagonalOperator / BroadcastDiagonalOperator / DiagonalInverseOperator '
        'the model computes the leaf shapes from the shape of the values and axis_destination (Structs.diag_leaf_shape, '
        'compared with the real constructors and the real mv on the parameter grid)',
        'correspondence harness harness/c05.py: operand builder, encoder (terms + type/shape of the array parameters), '
        'the independent re-computation of the guards on the real objects, the x64 worker subprocess protocol',
        'the type (dtype, weak flag) of a parameter as the user supplied it is the type of the array handed to the constructor / '
        'of jnp.asarray(k) for the scalar of k * op (1 / jnp.asarray(k) for op / k: JAX arithmetic, no furax code); the '
        'HomothetyOperator objects a scalar construction path created are recognised as those that did not exist in the parts. '
        'op / k for a strongly typed INTEGER k (np.int32(2)) on data narrower than float32 counts as a parameter (1 / k: float32) '
        'wider than the data: outside the guard (the unchanged code then returns float32 for a float16 leaf)',
        'kinds pat:* (reduced patterns and near misses) and the dtype corners float16 / bfloat16: the oracle is implementation-side '
        '(structures implied by the parts, jax.eval_shape, an actual application, an application of the unreduced operator); the '
        'model side compares the declared structures / guards / abstract evaluation of the RESULTING object only',
        'kinds axes:* (axis operators on mixed-rank pytrees): the reference for the output structure of the operator itself is NumPy '
        'applied to each leaf (reshape / moveaxis / basic and integer-array indexing / boolean mask), computed by the case generator; '
        'for ravel / reshape / move-axis the constructor, the per-leaf output shapes and reduce() are also compared with Model/Axes.v '
        '(the model of the C13 check, imported read-only); index / diagonal / pack are compared with Model/Structs.v like every other case',
        'Props/Tables.v (shared with C01 / C04; tools/translate/tables.py regenerates Gen/Tables.v from the imported furax package, fail '
        'closed): method_resolution_unchanged pins which definition of out_structure / in_structure / reduce / transpose / inverse each '
        'operator class resolves to - the "declaration IS jax.eval_shape by construction" item above rests on it',
    ]

    def translate(self):
        import tables

        self.stats['tables'] = tables.generate(self.gen_dir)

    def gen_files(self):
        return ['Tables.v']

    # -- cases ---------------------------------------------------------------------------------
    def cases(self):
        quick = self.tier == 'quick'
        rng = self.rng
        out = []
        combos = [(F32, F32), (F32, F64), (F64, F32), (F64, F64), (I32, F32), (F32, I32), (I32, I32), (F64, I32)]
        for x64 in (False, True):
            for dt, pdt in combos:
                L = leaf_alphabet(dt, pdt, quick)
                names = sorted(L)
                if quick and (dt, pdt) != (F32, F32):
                    # the parameter-sensitive classes in every combination; the others sampled
                    always = ('H', 'Hpy', 'D', 'T', 'Tb', 'Q', 'Qs', 'Pol', 'A23', 'BD')
                    names = [n for n in names if n.split('.')[0] in always and n.split('.')[-1] in ('v3', 'lst', 'IQU', 'overlap_save', 'dense', 'A23')
                             or rng.random() < (0.3 if (dt, pdt) in ((F32, F64), (F64, F64), (I32, F32)) else 0.12)]
                for n in names:
                    out.append({'kind': 'leaf:' + n.split('.')[0], 'x64': x64, 'dt': dt, 'pdt': pdt, 'let': closure(L, [n]), 'op': n})
                comps = composite_cases(dt, pdt, x64, L, rng, quick)
                if quick:
                    keep = 0.6 if (dt, pdt) == (F32, F32) else (0.2 if (dt, pdt) in ((F32, F64), (F64, F64), (I32, F32)) else 0.07)
                    comps = [c for c in comps if rng.random() < keep]
                for kind, extra, rel, cont in comps:
                    used = []
                    for _, d in extra:
                        used += [u for u in _used(d) if u in L]
                    case = {'kind': kind, 'x64': x64, 'dt': dt, 'pdt': pdt, 'let': closure(L, used) + extra, 'op': extra[-1][0], 'rel': rel}
                    if cont is not None:
                        case['cont'] = cont
                    out.append(case)
            for name, let in REJECTS:
                out.append({'kind': 'reject:' + name, 'x64': x64, 'let': let, 'op': let[-1][0], 'expect': 'reject'})
            out += mixed_cases(x64, rng, quick)
            out += pattern_cases(x64, rng, quick)
            # (own random stream: the sampling of the other classes does not depend on this one)
            out += axes_cases(x64, random.Random(f'{self.seed}-axes-{x64}'), quick)
            # parameter grids across the accept / reject and the broadcast-into / wider-than boundaries
            if quick:
                plan = [(F32, F32, 1.0, 0.25, 0.12, 0.3)] if not x64 else [(F64, F32, 0.1, 0.1, 0.03, 0.1), (F32, F64, 0.05, 0.05, 0.02, 0.05), (F32, F32, 0.05, 0.05, 0.02, 0.05)]
                if not x64:
                    plan += [(I32, F32, 0.04, 0.04, 0.015, 0.04), (F32, I32, 0.04, 0.04, 0.015, 0.0), (F64, F64, 0.04, 0.04, 0.015, 0.04)]
            else:
                plan = [(dt, pdt, 1.0, 1.0, 1.0, 1.0) if (dt, pdt) == (F32, F32) else (dt, pdt, 0.5, 0.5, 0.25, 0.4) for dt, pdt in combos]
            for dt, pdt, fc, fu, fo, fp in plan:
                out += diag_grid(dt, pdt, x64, rng, fc, fu, fo)
                out += param_grid_cases(dt, pdt, x64, rng, fp, one_method=quick, core_always=fc >= 1.0)
        return out

    def rule(self):
        return (
            'every operator class x layouts (leaf, list, dict, nested, Stokes I/QU/IQU/IQUV, mixed-dtype containers) x '
            'data dtype {f32, f64, i32} x parameter dtype {f32, f64, i32, Python scalar} x x64 on/off; their lazy and '
            'structural transposes, inverses, products in both association orders, reduced products (incl. the rewriting '
            'rules), sums/differences, scalar multiples, block row/diagonal/column operators over list/dict/tuple/nested '
            'containers with their transposes, reductions and rule-reduced products; parameters deliberately wider than '
            'the data (guard false); constructor calls that must be refused (shape, dtype and CONTAINER mismatches of the '
            'shared side of block rows/columns, products, sums). Parameter grids across the boundary of what the '
            'constructors accept / of what broadcasts into the data: DiagonalOperator and BroadcastDiagonalOperator over '
            'value shapes {(1,),(2,),(3,),(1,1),(1,3),(3,1),(2,3),(1,1,1)} x axis_destination {-4..3, tuples incl. '
            'duplicates and fewer axes than dimensions} x 17 input structures (rank 0-3 leaves, unit axes, mixed-rank and '
            'mixed-dtype pytrees, rank-0 leaves, Stokes) - quick tier: the size-1 value shapes on 8 core structures exhaustively, the rest sampled; Toeplitz band batch '
            'shapes x data batch shapes x 4 methods; rotation angle shapes x Stokes kinds x leaf shapes (+ transposes); '
            'scalars / HWP / polariser on rank-0 and mixed-rank leaves. Mixed-PRECISION outputs (mix:*): identity, index, '
            'diagonal, broadcast diagonal, scalar (Python / narrow / wide parameter), HWP and block-diagonal operators on '
            '{f16+f32, bf16+f32, f32+f64, f16+f32+f64, i32+f32} x {dict, list, nested, Stokes} x the construction paths '
            'k*op, op*k, op/k, -op, a-b, a+b, -(a+b), a-(b+c), k*(a+b), .I (computed 1/value), and the scaled operator as a '
            'part (.T, .reduce(), negated, scaled again, divided, summed, subtracted, in a block diagonal / column, multiplied '
            'and reduced) x 18 ways of writing the scalar (Python int/float/bool, NumPy scalar / 0-d array and JAX scalar of '
            'f16/bf16/f32/f64/i32/i64, weakly typed JAX scalars); quick tier: Python int and float on the index operator '
            'of {f16+f32} / {f32+f64} exhaustively, the rest sampled. Reduced operators (pat:*): the 53 patterns of '
            'harness/alg_cases.py + 21 more (74, of which 30 near misses that must NOT be rewritten), as CompositionOperator and '
            'through @, alone / in a block diagonal / scaled, reduced. Axis operators on mixed-rank pytrees (axes:*): '
            '{ravel x 12 axis pairs, reshape x 7 targets, move-axis x 9 source/destination pairs, index x 11 index tuples, diagonal / '
            'broadcast diagonal x destination axes, pack} x 2-4 sets of leaf shapes of different ranks x both leaf orders x '
            '{dict, list, tuple, nested} x {one dtype, f32+f16} x 18 contexts (alone, .T, reduced, and reduced inside .T, op.T @ op, '
            'op @ op.T, sums, scalar multiple, block diagonal / column / row, compositions with identity / scalar operators on '
            'either side) + the constructor calls that must be refused; quick tier: the operators that leave one leaf untouched and '
            'change another one exhaustively (alone and reduced; ravel in every context), the rest sampled. Non-trivial: the declared output structure '
            'differs from the input structure, or a guard is false, or the constructor refused.'
        )

    def distribution(self, cases):
        d = {}
        for c in cases:
            k = c['kind'].split(':')[0] + ('/x64' if c['x64'] else '')
            d[k] = d.get(k, 0) + 1
        return d

    # -- implementation ----------------------------------------------------------------------------
    def run_impl(self, case):
        if bool(case['x64']) == x64_mode():
            obs, priv = impl_case(case)
        else:
            obs, priv = ask(bool(case['x64']), case)
        case.update(priv)
        return obs

    # -- model -----------------------------------------------------------------------------------
    def model_term(self, case):
        if case.get('grid') and '_gleaves' in case and '_term' not in case and not case.get('_unsupported'):
            return self.grid_term(case)  # refused by the real constructor: what does the model's constructor say
        if axm_wanted(case) and '_axins' in case and '_term' not in case and not case.get('_unsupported'):
            return axm_term(case)  # refused by the real constructor: what does the constructor of Model/Axes.v say
        if case.get('_unsupported') or '_term' not in case:
            return None
        e, info, x64 = case['_term'], case['_info'], cbool(case['x64'])
        uinfo = case.get('_uinfo', info)
        term = (
            f'(let x64 := {x64} in let e : xop := {e} in let info := {info} in let uinfo := {uinfo} in '
            f'(c05_obs x64 info e, show_struct (in_struct e), show_struct (out_struct e), '
            f'option_map show_struct (xeval x64 info e (in_struct e)), '
            f'params_not_wider x64 uinfo e, option_map show_struct (xeval x64 uinfo e (in_struct e))))'
        )
        if case.get('grid'):
            return f'({term}, {self.grid_term(case)})'
        if axm_wanted(case) and '_axins' in case:
            return f'({term}, {axm_term(case)})'
        return term

    @staticmethod
    def grid_term(case):
        """The constructor of the diagonal classes on (shape of the values, axis_destination, leaf shapes)."""
        g = case['grid']
        ax = g['axis']
        spec = f'(AxInt {A.cz(ax)})' if isinstance(ax, int) else f'(AxSeq {clist(ax, A.cz)})'
        leaves = clist(case['_gleaves'], lambda l: clist(l, A.cn))
        return f'(diag_ctor {cbool(g["strict"])} {clist(g["dsh"], A.cn)} {spec} {leaves})'

    @staticmethod
    def decode_grid(g):
        if g is None:
            return 'rejected:ValueError'
        axes, outs = g['a'][0]
        return {'axes': [int(a) for a in axes], 'outs': [[int(n) for n in o] for o in outs]}

    @staticmethod
    def decode_axes(a):
        if a is None:
            return 'rejected:ValueError'
        inner = a['a'][0]
        if inner is None:
            return 'the model of the operator fails'
        rcls, rin, rout, aout = inner['a'][0]
        sh = lambda ls: [[int(n) for n in l] for l in ls]  # noqa: E731
        return {'rcls': int(rcls), 'rin': sh(rin), 'rout': sh(rout), 'aout': sh(aout)}

    def decode(self, case, v):
        if case.get('grid') and '_term' not in case:
            return {'grid': self.decode_grid(v)}
        if axm_wanted(case) and '_term' not in case:
            return {'axes': self.decode_axes(v)}
        wf, pnw, av, ck, sizes, prom, sin, sout, ev, pnw_u, ev_u = v[:11]
        evs = evs_u = None
        if isinstance(ev, dict) and ev.get('c') == 'Some':
            evs = A.decode_struct(ev['a'][0])
        if isinstance(ev_u, dict) and ev_u.get('c') == 'Some':
            evs_u = A.decode_struct(ev_u['a'][0])

        def pid(x):
            return x['a'][0] if isinstance(x, dict) and x.get('c') == 'Some' else None

        if not av:
            evs = pnw = evs_u = pnw_u = 'not compared: a declared dtype does not exist in this mode'
        else:
            if not pnw and not case['kind'].startswith(('leaf', 'grid')):
                evs = 'not compared: composite with parameters wider than the data'
            if not pnw_u and not case['kind'].startswith(('leaf', 'grid')):
                evs_u = 'not compared: composite with parameters wider than the data'
        d = {
            'wf': wf, 'guard': pnw, 'avail': av, 'ctor': ck, 'in': A.decode_struct(sin), 'out': A.decode_struct(sout), 'eval': evs,
            'sizes': list(sizes), 'promoted': [pid(prom[0]), pid(prom[1])],
            # with the types of the parameters the USER supplied (the model computes the type of the scalar operator
            # of k * op / op / k itself: Structs.scalar_param_ty): the guard, and what mv then returns
            'guard_user': pnw_u, 'eval_user': evs_u,
        }
        if not av:
            d['ctor'] = 'not compared: a declared dtype does not exist in this mode'
        if case.get('grid'):
            d['grid'] = self.decode_grid(v[11])
        if axm_wanted(case):
            d['axes'] = self.decode_axes(v[11])
        return d

    def comparable(self, case, obs):
        if isinstance(obs, dict) and 'grid' in obs and 'in' not in obs:
            return {'grid': obs['grid']}
        if isinstance(obs, dict) and 'axes' in obs and 'in' not in obs:
            return {'axes': obs['axes']}
        if not isinstance(obs, dict) or 'in' not in obs:
            return obs
        d = {
            'wf': obs['wf'], 'guard': obs['guard'], 'avail': obs['avail'], 'ctor': obs['ctor'], 'in': obs['in'], 'out': obs['out'],
            'eval': obs['eval'], 'sizes': obs['sizes'], 'promoted': [obs['promoted'][0][1], obs['promoted'][1][1]],
        }
        d['guard_user'], d['eval_user'] = obs['guard_user'], obs['eval']
        if not obs['avail']:
            d['eval'] = d['guard'] = d['ctor'] = d['eval_user'] = d['guard_user'] = 'not compared: a declared dtype does not exist in this mode'
        else:
            if not obs['guard'] and not case['kind'].startswith(('leaf', 'grid')):
                d['eval'] = 'not compared: composite with parameters wider than the data'
            if not obs['guard_user'] and not case['kind'].startswith(('leaf', 'grid')):
                d['eval_user'] = 'not compared: composite with parameters wider than the data'
        if 'grid' in obs:
            d['grid'] = obs['grid']
        if 'axes' in obs:
            d['axes'] = obs['axes']
        return d

    def nontrivial(self, case, obs):
        if not isinstance(obs, dict):
            return False
        if 'ctor_error' in obs:
            return True
        return obs.get('in') != obs.get('out') or not obs.get('guard', True) or not obs.get('avail', True)

    def finding_key(self, case, obs):
        return None

    # -- oracle -----------------------------------------------------------------------------------
    def oracle(self, case, obs):
        if 'accepted_illegal' in obs:
            return f'operands that do not fit were accepted ({obs["accepted_illegal"]}): {obs["constructed"]} at {obs["at"]}'
        if 'ctor_error' in obs:
            if obs.get('illegal') is None and not obs.get('parts_inside_guards', True):
                self.stats['construction_failed_outside_guards'] = self.stats.get('construction_failed_outside_guards', 0) + 1
                return None
            if obs.get('illegal') is None:
                return f'legal construction failed at {obs["at"]}: {obs["ctor_error"]}: {obs.get("msg")}'
            if obs['ctor_error'] != 'ValueError':
                return f'refused with {obs["ctor_error"]} instead of ValueError: {obs.get("msg")}'
            self.stats['rejected_as_required'] = self.stats.get('rejected_as_required', 0) + 1
            return None
        st = self.stats
        st['operators_observed'] = st.get('operators_observed', 0) + 1
        if not obs['guard']:
            st['outside_guard_params_wider'] = st.get('outside_guard_params_wider', 0) + 1
        if not obs['avail']:
            st['outside_guard_dtype_unavailable_in_mode'] = st.get('outside_guard_dtype_unavailable_in_mode', 0) + 1
        if obs['sizes'] != obs['size_ref']:
            return f'in_size/out_size {obs["sizes"]} differ from the element counts of the structures {obs["size_ref"]}'
        for (got, ref), which in zip(obs['promoted'], ('in', 'out')):
            if got != ref:
                return f'{which}_promoted_dtype {got} differs from the promotion of the leaf dtypes {ref}'
        imp = obs.get('implied')
        if imp is not None and imp != [obs['in'], obs['out']]:
            return f'structures {[obs["in"], obs["out"]]} differ from those implied by the parts {imp}'
        if not obs['wf']:
            st['ill_formed_composite_from_parts_outside_guards'] = st.get('ill_formed_composite_from_parts_outside_guards', 0) + 1
        # inside the property's scope: the parameters AS SUPPLIED (constructor arguments, scalars of k * op, op / k,
        # -op, a - b) and the parts are inside the guards - whatever the resulting object stores
        inside = obs['guard'] or obs['guard_user'] or bool(obs.get('guard_parts'))
        how = ''
        if inside and not obs['guard']:
            st['judged_although_stored_parameters_are_wider'] = st.get('judged_although_stored_parameters_are_wider', 0) + 1
            how = ' [the parameters supplied are no wider than the data; the operator stores wider ones]'
        if inside and obs['avail'] and obs['wf']:
            pr = obs.get('part_ref')
            if pr is not None and pr[0] != pr[1]:
                return f'the axis operator {case["axes"]["d"]} declares the output structure {pr[1]}; NumPy applied to each leaf gives {pr[0]}'
            if obs['eval'] is None:
                return f'mv cannot be traced on the declared input structure: {obs.get("eval_error")}'
            if obs['eval'] != obs['out']:
                return f'declared out_structure {obs["out"]} differs from jax.eval_shape(mv, in_structure) {obs["eval"]}' + how
            if obs['actual'] is None:
                return f'mv failed on an input of the declared structure: {obs.get("actual_error")}'
            if obs['actual'] != obs['out']:
                return f'declared out_structure {obs["out"]} differs from the structure of mv(x) {obs["actual"]} for x of structure {obs.get("x")}' + how
            ra = obs.get('ref_actual')
            if ra is not None and ra != obs['actual']:
                return f'mv(x) has structure {obs["actual"]} but applying the operator it stands for ({case["rel"][1]}) gives {ra}, x of structure {obs.get("x")}' + how
            re_ = obs.get('ref_eval')
            if re_ is not None and re_ != [obs['in'], obs['eval']]:
                return f'in_structure / jax.eval_shape(mv) {[obs["in"], obs["eval"]]} differ from those of the operator it stands for ({case["rel"][1]}): {re_}' + how
        return None

    def extra(self):
        return {}


def _used(d):
    """Operand names referenced by a description."""
    if d['k'] == 'expr':
        yield from _expr_names(d['e'])
    elif 'blocks' in d:
        yield from _names(d['blocks'])


def _expr_names(e):
    if isinstance(e, str):
        yield e
    elif isinstance(e, dict):
        for k, v in e.items():
            if k in ('smul',):
                yield from _expr_names(v[1])
            elif k in ('mulr', 'div'):
                yield from _expr_names(v[0])
            else:
                yield from _expr_names(v)
    elif isinstance(e, list):
        for v in e:
            yield from _expr_names(v)


if __name__ == '__main__' and '--worker' in sys.argv:
    worker_main()
