"""C06 - inverses invert.

Real code: `op.I` / `op.inverse()` of every operator class (core.py AbstractLinearOperator.inverse ->
InverseOperator, AbstractLazyInverseOperator.inverse / as_matrix, HomothetyOperator.inverse, @orthogonal;
diagonal.py DiagonalOperator.inverse / DiagonalInverseOperator; blocks.py BlockDiagonalOperator.inverse;
axes.py MoveAxisOperator.inverse; qu_rotations.py) on the shared operand alphabet (harness/alg_cases.py)
extended with the parameter scopes of the closed forms.  Model: Model/Inverse.v `inverse_r` evaluated on
the encoded operands, observed through `observe_inv` (op.I, op.I.I, as_matrix() of a lazy inverse).
Oracle: NumPy - mat(op.I) @ mat(op) = I = mat(op) @ mat(op.I) (Penrose equations for diagonals with
zeros), finiteness, refusal of non-square operands, op.I.I denotes op.

The clause "A.I(y) solves A z = y to the configured solver tolerance" (lineax CG in floating point) is
NOT a theorem: `extra()` tests it numerically (reported under numerical_tests_not_proof).
"""
from __future__ import annotations

import itertools
import json
import os
import subprocess
import sys
from fractions import Fraction
from pathlib import Path

import numpy as np

import alg_cases as G
import algebra as A
import lib
from lib import PropertyCheck

sys.path.insert(0, str(lib.VERIF / 'tools' / 'translate'))

IQU = lambda n: {'stokes': 'IQU', 'shape': [n]}  # noqa: E731

DIAG_BASE = [2, -4, 0.5, 8]


def _own_let():
    let = {}
    # scalars: negative, fractions, on leaves / Stokes / dict structures
    for name, v in (('Hn4', -4), ('Hq', 0.25), ('H3r', 3), ('Hm1h', -1.5), ('H8', 8)):
        let[name] = {'k': 'homoth', 'v': v, 's': [2]}
    let['HsQ'] = {'k': 'homoth', 'v': -0.5, 's': IQU(2)}
    let['Hd'] = {'k': 'homoth', 'v': 4, 's': {'dict': {'a': [2], 'b': [1, 2]}}}
    # diagonals: every zero pattern for n <= 4
    for n in range(1, 5):
        for mask in itertools.product([1, 0], repeat=n):
            v = [DIAG_BASE[i] * mask[i] for i in range(n)]
            let['Dz%d_%s' % (n, ''.join(map(str, mask)))] = {'k': 'diag', 'v': v, 's': [n]}
    # diagonals laid along an axis of a 2-d leaf / of the leaves of a pytree
    let['D23a0'] = {'k': 'diag', 'v': [2, 0], 's': [2, 3], 'axis': 0}
    let['D23a1'] = {'k': 'diag', 'v': [1, -2, 4], 's': [2, 3], 'axis': -1}
    let['Dt2'] = {'k': 'diag', 'v': [4, 0.5], 's': {'list': [[2], [2, 2]]}, 'axis': 0}
    # move-axis: every single-axis pair on ranks 2 (two shapes) and 3, some two-axis tuples
    for shp, tag in (([2, 3], 'a'), ([2, 2], 'q')):
        for s in range(-2, 2):
            for d in range(-2, 2):
                let[f'M{tag}_{s}_{d}'.replace('-', 'm')] = {'k': 'moveaxis', 'src': s, 'dst': d, 's': shp}
    for s in range(-3, 3):
        for d in range(-3, 3):
            let[f'Mr3_{s}_{d}'.replace('-', 'm')] = {'k': 'moveaxis', 'src': s, 'dst': d, 's': [2, 3, 2]}
    for src in itertools.permutations(range(-3, 3), 2):
        if len({a % 3 for a in src}) < 2:
            continue
        for dst in itertools.permutations(range(-3, 3), 2):
            if len({a % 3 for a in dst}) < 2:
                continue
            let[f'Mt3_{src[0]}_{src[1]}_{dst[0]}_{dst[1]}'.replace('-', 'm')] = {
                'k': 'moveaxis', 'src': list(src), 'dst': list(dst), 's': [2, 3, 2]}
    let['Mpt'] = {'k': 'moveaxis', 'src': 0, 'dst': -1, 's': {'list': [[2, 3], [2, 3, 2]]}}
    # rotations: k*pi/4 for all residues, vectors of angles, generic angles (pi/12, -pi/12 * 5 ...)
    for k in range(-3, 5):
        let[f'Rq{k}'.replace('-', 'm')] = {'k': 'qurot', 'stokes': 'IQU', 'shape': [1], 'q': [k]}
    let['Rqu'] = {'k': 'qurot', 'stokes': 'QU', 'shape': [3], 'q': [1, -2, 3], 'vec': True}
    let['Rv'] = {'k': 'qurot', 'stokes': 'IQUV', 'shape': [2], 'q': [2, -1], 'vec': True}
    let['Ri'] = {'k': 'qurot', 'stokes': 'I', 'shape': [2], 'q': [1]}
    let['Rg1'] = {'k': 'qurot', 'stokes': 'IQU', 'shape': [1], 'q': [Fraction(1, 3)]}
    let['Rg2'] = {'k': 'qurot', 'stokes': 'QU', 'shape': [2], 'q': [Fraction(-5, 3), Fraction(7, 16)], 'vec': True}
    let['Rg1T'] = {'k': 'expr', 'e': {'T': 'Rg1'}}
    # block-diagonal operators of closed-form blocks over list / tuple / dict / nested containers
    let['Dz2'] = {'k': 'diag', 'v': [2, 0], 's': [2]}
    let['BLh'] = {'k': 'bdiagop', 'blocks': ['H2', 'D2', 'Hq']}
    let['BLz'] = {'k': 'bdiagop', 'blocks': ['Dz2', 'H2']}
    let['BTq'] = {'k': 'bdiagop', 'blocks': {'tuple': ['Q1', 'Hs', 'Is']}}
    let['BDc'] = {'k': 'bdiagop', 'blocks': {'dict': {'z': 'D2', 'a': 'Mq_0_1', 'm': 'Hn4'}}}
    let['BNn'] = {'k': 'bdiagop', 'blocks': [['H2', {'tuple': ['D2', 'Dz2']}], {'dict': {'k': 'Hq'}}]}
    let['BLl'] = {'k': 'bdiagop', 'blocks': ['S22', 'D2', 'H2']}          # one block without closed form
    let['BLi'] = {'k': 'bdiagop', 'blocks': ['S22I', 'D2I', 'Q1T']}       # blocks that are lazy inverses
    let['BLw'] = {'k': 'bdiagop', 'blocks': ['H2', 'A23']}                # a non-square block: default, refused
    let['BLm'] = {'k': 'bdiagop', 'blocks': ['Ma_0_1', 'H2']}            # non-square move-axis block
    let['BB'] = {'k': 'bdiagop', 'blocks': ['BLh', 'H2']}                 # block-diagonal of block-diagonal
    let['BBn'] = {'k': 'bdiagop', 'blocks': {'dict': {'x': 'BNn', 'y': ['BLz', 'Q1']}}}
    let['BBl'] = {'k': 'bdiagop', 'blocks': ['BD', 'D2']}                 # nested, inner blocks lazy
    # composite square operands without closed form (default lazy inverse of the REDUCED operand)
    let['C_SA'] = {'k': 'expr', 'e': {'mm': ['S22', 'A22']}}
    let['C_MM'] = {'k': 'expr', 'e': {'comp': ['M32', 'M23']}}            # reduces to the identity
    let['C_QQ'] = {'k': 'expr', 'e': {'comp': ['Q1', 'Q2']}}              # reduces to one rotation
    let['C_HSH'] = {'k': 'expr', 'e': {'comp': ['H2', 'S22', 'Hh2']}}     # scalars merged and relocated
    let['C_II'] = {'k': 'expr', 'e': {'comp': ['I2', 'S22', 'I2']}}
    let['C_SIS'] = {'k': 'expr', 'e': {'comp': ['S22I', 'S22', 'B22']}}   # the rule removes S22.I @ S22
    let['Ad_AB'] = {'k': 'expr', 'e': {'add': ['A22', 'B22']}}
    let['Ad_1'] = {'k': 'expr', 'e': {'sum': ['S22']}}                    # single-operand sum reduces to S22
    let['Sm'] = {'k': 'expr', 'e': {'smul': [2, 'S22']}}
    let['A22T'] = {'k': 'expr', 'e': {'T': 'A22'}}
    let['S22II'] = {'k': 'expr', 'e': {'I': 'C_II'}}                      # InverseOperator(S22) built from C_II
    let['Tz'] = {'k': 'toeplitz', 'band': [4, 1], 's': [3]}
    return let


def frac_to_float(d):
    """q entries of the own operands may be Fractions (units of pi/4)."""
    if isinstance(d, dict):
        return {k: frac_to_float(v) for k, v in d.items()}
    if isinstance(d, list):
        return [frac_to_float(v) for v in d]
    if isinstance(d, Fraction):
        return float(d)
    return d


LET = dict(G.LET)
LET.update(frac_to_float(_own_let()))
OWN = set(_own_let())

_env: dict = {}


def env():
    if not _env:
        _env.update(A.build_env(LET))
    return _env


POOL = ['H2', 'Hq', 'Hn4', 'D2', 'Dz2', 'Dz3_101', 'Q1', 'Rq3', 'Mq_0_1', 'I2', 'S22', 'BLh', 'BLz', 'S22I', 'D2I', 'Q1T', 'W', 'Tz']


def random_container(rng, depth):
    n = rng.randint(1, 3)
    kids = []
    for _ in range(n):
        if depth < 2 and rng.random() < 0.35:
            kids.append(random_container(rng, depth + 1))
        else:
            kids.append(rng.choice(POOL))
    kind = rng.choice(['list', 'tuple', 'dict'])
    if kind == 'list':
        return kids
    if kind == 'tuple':
        return {'tuple': kids}
    return {'dict': {f'k{i}': v for i, v in enumerate(kids)}}


_built: dict = {}


def operand(case):
    if 'desc' not in case:
        return env()[case['name']]
    key = json.dumps(case['desc'], sort_keys=True)
    if key not in _built:
        try:
            _built[key] = A.build_operand(case['desc'], env())
        except Exception as e:
            _built[key] = A.Unbuildable(case['name'], e)
    return _built[key]


def category(name: str) -> str:
    d = LET[name]
    k = d['k']
    if name.startswith('Dz') or k == 'diag':
        return 'diagonal'
    if k == 'homoth':
        return 'scalar'
    if k == 'moveaxis':
        return 'moveaxis'
    if k == 'qurot':
        return 'rotation'
    if k == 'bdiagop':
        return 'blockdiag'
    if k == 'ident':
        return 'identity'
    if k == 'expr':
        (kind, _), = d['e'].items()
        return {'I': 'lazy-inverse-wrapper', 'T': 'lazy-transpose'}.get(kind, 'composite')
    return 'other'


# ---------------------------------------------------------------------------------------------
# implementation side


def contains_inverse(op) -> bool:
    from reduce_check import contains_cls

    return contains_cls(op, A.J()['core'].InverseOperator)


def impl_matrix(op) -> np.ndarray:
    """Dense matrix of an operator through the real code: mv on every basis vector; an iterative
    InverseOperator contributes through its as_matrix() override (the observation point of the
    property), composites containing one are assembled from their parts."""
    j = A.J()
    core, blocks = j['core'], j['blocks']
    import scipy.linalg

    if not contains_inverse(op):
        return A.dense(op)
    if isinstance(op, core.InverseOperator):
        return np.asarray(op.as_matrix(), dtype=np.float64)
    if isinstance(op, core.CompositionOperator):
        m = None
        for o in op.operands:
            mo = impl_matrix(o)
            m = mo if m is None else m @ mo
        return m
    if isinstance(op, core.AdditionOperator):
        return sum(impl_matrix(o) for o in op.operand_leaves)
    if isinstance(op, blocks.BlockDiagonalOperator):
        return scipy.linalg.block_diag(*[impl_matrix(o) for o in op.block_leaves])
    if isinstance(op, blocks.BlockRowOperator):
        return np.hstack([impl_matrix(o) for o in op.block_leaves])
    if isinstance(op, blocks.BlockColumnOperator):
        return np.vstack([impl_matrix(o) for o in op.block_leaves])
    raise NotImplementedError(type(op).__name__)


def observe(thunk, enc, invertible: bool):
    """skeleton / structures / matrix of the operator returned by thunk (or the error kind)."""
    try:
        with A.quiet_config():
            op = thunk()
    except Exception as e:
        name = type(e).__name__
        return {'err': name if name in A.ERRS else f'Other:{name}'}, None
    out = {'skel': A.skeleton(op, enc), 'in': A.struct_repr(op.in_structure()), 'out': A.struct_repr(op.out_structure())}
    if contains_inverse(op) and not invertible:
        # the matrix of an iterative inverse of a singular / ill-conditioned operand is meaningless
        out['mat'] = None
        out['finite'] = None
        return out, op
    try:
        m = impl_matrix(op)
        out['finite'] = bool(np.all(np.isfinite(m)))
        out['mat'] = A.mat_json(A.frac_matrix(m)) if out['finite'] else None
    except Exception as e:
        out['mat'] = None
        out['finite'] = None
        out['mat_error'] = f'{type(e).__name__}: {str(e)[:200]}'
    return out, op


def part(o):
    if o is None:
        return None
    if 'err' in o:
        return {'err': o['err']}
    return {k: o[k] for k in ('skel', 'in', 'out', 'mat')}


class Check(PropertyCheck):
    id = 'C06'
    props = ['Tables.v', 'C06.v', 'C06Structs.v']
    static_targets = ['theories/Model/Exec.vo', 'theories/Model/Pinned.vo', 'theories/Lemmas/TablesL.vo',
                      'theories/Lemmas/InverseL.vo', 'theories/Lemmas/InverseStructsL.vo']
    coq_header = A.COQ_HEADER + 'From Furax Require Import Model.Inverse.\nFrom FuraxGen Require Import Tables.\n'
    shard = 60
    workers = 8
    partial = (
        '"for a symmetric positive-definite A without closed form, A.I(y) solves A z = y to the configured solver '
        'tolerance": convergence of lineax CG in floating point. Modelled as an oracle (Section hypothesis '
        '`inv_facts`: the leaf semantics of a lazy InverseOperator is a two-sided inverse of its operand, exactly '
        'lf_inv_l/lf_inv_r of Sound.leaf_facts); tested numerically by extra() on SPD Gram matrices, not proved'
    )
    trusted = [
        'translator tools/translate/tables.py (method resolution of `inverse`/`as_matrix` per class, class hierarchy, '
        'rule registry read from the imported package; fails closed)',
        'leaf operators act in the executable model through dense matrices measured on the real objects; operators '
        'created by inverse() act through their definitions in Model/Inverse.v (pinv of the measured diagonal, '
        'jnp.moveaxis as specified in Model/Axes.v, transposed rotation, certified Gauss-Jordan inverse for the lazy '
        'InverseOperator = exact solver)',
        'jnp.linalg.inv is compared with the certified exact inverse of the rational matrix (tolerance 1e-4 after '
        'rounding float32 entries to rationals of denominator <= 4096)',
        'object identity (`is`) is modelled by harness-assigned object ids; objects created by inverse() get id 0',
        'floating point: 1/k and where(d != 0, 1/d, 0) are compared with exact field operations on dyadic inputs '
        '(and 1/3-type values up to 1e-4); NaN/Inf freedom is observed on the implementation (isfinite), the model '
        'never evaluates a division by zero',
    ]

    def translate(self):
        import tables

        self.stats['tables'] = tables.generate(self.gen_dir)

    def gen_files(self):
        return ['Tables.v']

    # -- cases ---------------------------------------------------------------------------------
    def cases(self):
        quick = self.tier == 'quick'
        rng = self.rng
        names = [n for n in LET]
        out = []
        mt3 = [n for n in names if n.startswith('Mt3_')]
        rng.shuffle(mt3)
        keep_mt3 = set(mt3[: 12 if quick else 600])
        mr3 = [n for n in names if n.startswith('Mr3_')]
        rng.shuffle(mr3)
        keep_mr3 = set(mr3[: 14 if quick else 36])
        for n in names:
            if n.startswith('Mt3_') and n not in keep_mt3:
                continue
            if n.startswith('Mr3_') and n not in keep_mr3:
                continue
            out.append({'kind': category(n), 'name': n})
        # seeded random block-diagonal operators: nested list/tuple/dict containers of square blocks
        # (closed forms, singular diagonals, lazy inverses and their wrappers, block-diagonal blocks)
        for k in range(10 if quick else 150):
            out.append({'kind': 'blockdiag-random', 'name': f'RB{k}',
                        'desc': {'k': 'bdiagop', 'blocks': random_container(rng, 0)}})
        self.stats['operands'] = len(out)
        return out

    def rule(self):
        return (
            'op.I of every operand of the shared alphabet (~125 real operator objects of every class, square and not) '
            'plus the parameter scopes of the closed forms: scalars (negative, fractions, Stokes/dict structures), '
            'diagonals with every zero pattern for n <= 4 (30) and along axes of 2-d / pytree leaves, every single-axis '
            'move-axis pair on ranks 2-3 and two-axis tuples (sampled in quick), QU rotations for every k*pi/4 residue, '
            'vectors of angles and generic angles, block-diagonal operators over list/tuple/dict/nested containers with '
            'closed-form, lazy, lazy-inverse, non-square and block-diagonal blocks, composites whose reduce() changes '
            'the operand. Non-trivial: the result is not a plain InverseOperator of the same object, or is a refusal.'
        )

    def distribution(self, cases):
        d = {}
        for c in cases:
            d[c['kind']] = d.get(c['kind'], 0) + 1
        return d

    # -- implementation ----------------------------------------------------------------------------
    def run_impl(self, case):
        op = operand(case)
        if isinstance(op, A.Unbuildable):
            return {'build_error': op.error}
        enc = A.Encoder()
        term = enc.term(op)  # assigns the object ids (and measures the leaves) before .I runs
        ref = A.reference_matrix(op)
        square_size = ref.shape[0] == ref.shape[1]
        cond = float(np.linalg.cond(ref)) if square_size and ref.size else float('inf')
        invertible = bool(np.isfinite(cond) and cond < 1e5)
        obs = {'ref': A.mat_json(A.frac_matrix(ref)), 'invertible': invertible,
               'square': A.struct_repr(op.in_structure()) == A.struct_repr(op.out_structure()),
               'op_skel': A.skeleton(op, enc), 'op_class': type(op).__name__}
        o1, inv = observe(lambda: op.I, enc, invertible)
        obs['I'] = o1
        obs['II'] = None
        obs['lazy_mat'] = None
        if inv is not None:
            core = A.J()['core']
            obs['I_is_lazy_of_op'] = getattr(inv, 'operator', None) is op
            if isinstance(inv, core.InverseOperator) and invertible:
                try:
                    obs['lazy_mat'] = A.mat_json(A.frac_matrix(np.asarray(inv.as_matrix(), dtype=np.float64)))
                except Exception as ex:
                    obs['lazy_mat_error'] = f'{type(ex).__name__}: {str(ex)[:200]}'
            o2, inv2 = observe(lambda: inv.I, enc, invertible)
            obs['II'] = o2
            obs['II_is_op'] = inv2 is op
            # the pseudo-inverse diagonal itself (DiagonalInverseOperator.diagonal) must be finite
            if type(inv).__name__ == 'DiagonalInverseOperator':
                obs['pinv_values_finite'] = bool(np.all(np.isfinite(np.asarray(inv.diagonal))))
        case['_term'] = term
        case['_table'] = enc.table_coq()
        case['_unsupported'] = enc.unsupported
        return obs

    # -- model -----------------------------------------------------------------------------------
    def model_term(self, case):
        if case.get('_unsupported') or '_term' not in case:
            return None
        return f'observe_inv {case["_table"]} gen_order {case["_term"]}'

    def decode(self, case, v):
        o1, o2, lm = v
        d1 = A.decode_observation(o1)
        d2 = None if 'err' in d1 else A.decode_observation(o2)
        if isinstance(lm, dict) and lm.get('c') == 'Some':
            cols = [[A.frac_json(Fraction(x[0], x[1])) for x in col] for col in lm['a'][0]]
            lazy = [list(r) for r in zip(*cols)] if cols else []
        else:
            lazy = None
        out = {'I': d1, 'II': d2, 'lazy_mat': lazy}
        case['_model'] = out
        return out

    def comparable(self, case, obs):
        if not isinstance(obs, dict) or 'build_error' in obs:
            return obs
        out = {'I': part(obs['I']), 'II': part(obs['II']), 'lazy_mat': obs.get('lazy_mat')}
        model = case.get('_model')
        if not obs.get('invertible') or not obs.get('square'):
            # matrices of lazy inverses of singular operands are not compared (None on the implementation side)
            if model:
                for k in ('I', 'II'):
                    if out[k] and model.get(k) and 'mat' in out[k] and out[k]['mat'] is None and 'mat' in model[k]:
                        out[k]['mat'] = model[k]['mat']
                if out['lazy_mat'] is None:
                    out['lazy_mat'] = model.get('lazy_mat')
        if model:
            # entries such as 1/3 or cos(pi/12) are float32 on the implementation side: equal up to 1e-4
            for k in ('I', 'II'):
                if out[k] and model.get(k) and out[k].get('mat') is not None and model[k].get('mat') is not None:
                    if A.mat_close(out[k]['mat'], model[k]['mat']):
                        out[k]['mat'] = model[k]['mat']
                if out[k] and model.get(k) and out[k].get('skel') and model[k].get('skel'):
                    out[k]['skel'] = skel_close(out[k]['skel'], model[k]['skel'])
            if out['lazy_mat'] is not None and model.get('lazy_mat') is not None and A.mat_close(out['lazy_mat'], model['lazy_mat']):
                out['lazy_mat'] = model['lazy_mat']
        return out

    def nontrivial(self, case, obs):
        if not isinstance(obs, dict) or 'I' not in obs:
            return False
        o = obs['I']
        if 'err' in o:
            return True
        return not (o['skel'][0] == 'InverseOperator' and obs.get('I_is_lazy_of_op'))

    def finding_key(self, case, obs):
        return None

    # -- oracle -----------------------------------------------------------------------------------
    def oracle(self, case, obs):
        if 'build_error' in obs:
            return f'operand {case["name"]} cannot be constructed: {obs["build_error"]}'
        o = obs['I']
        cls = obs['op_class']
        closed_nonsquare_ok = cls == 'MoveAxisOperator' or cls in ('InverseOperator', 'DiagonalInverseOperator', 'QURotationTransposeOperator')
        if not obs['square'] and not closed_nonsquare_ok:
            if o.get('err') != 'ValueError':
                return f'a non-square {cls} was not refused with ValueError: {o.get("err") or o.get("skel")}'
            return None
        if 'err' in o:
            return f'inverse() of a square {cls} raised {o["err"]}'
        M = tofloat(obs['ref'])
        n = M.shape[1]
        if o.get('finite') is False:
            return f'the matrix of {cls}.I contains NaN or Inf'
        if obs.get('pinv_values_finite') is False:
            return 'DiagonalInverseOperator.diagonal contains NaN or Inf'
        diag_singular = case['kind'] == 'diagonal' and not obs['invertible']
        if o.get('mat') is None:
            if obs['invertible'] or diag_singular:
                return f'{cls}.I cannot be applied: {o.get("mat_error")}'
            return None  # lazy inverse of a singular operand: nothing to check
        N = tofloat(o['mat'])
        eye = np.eye(n)
        tol = 2e-4 * max(1.0, float(np.abs(M).max()), float(np.abs(N).max())) ** 2
        if obs['invertible']:
            if N.shape != (n, M.shape[0]):
                return f'matrix of the inverse has shape {N.shape}'
            if np.abs(N @ M - eye).max() > tol:
                return f'mat(op.I) @ mat(op) is not the identity: {(N @ M).tolist()}'
            if np.abs(M @ N - np.eye(M.shape[0])).max() > tol:
                return f'mat(op) @ mat(op.I) is not the identity: {(M @ N).tolist()}'
        elif diag_singular or pinv_expected(case):
            for nm, lhs, rhs in (('A P A = A', M @ N @ M, M), ('P A P = P', N @ M @ N, N),
                                 ('(A P)^T = A P', (M @ N).T, M @ N), ('(P A)^T = P A', (N @ M).T, N @ M)):
                if np.abs(lhs - rhs).max() > tol:
                    return f'Penrose equation {nm} fails: {lhs.tolist()} vs {rhs.tolist()}'
        else:
            return None
        if obs.get('lazy_mat') is not None and not A.mat_close(obs['lazy_mat'], o['mat']):
            return f'as_matrix() of the lazy inverse {obs["lazy_mat"]} is not the inverse matrix {o["mat"]}'
        o2 = obs['II']
        if o2 is None or 'err' in o2:
            return f'op.I.I raised {o2 and o2.get("err")}'
        if o2.get('mat') is not None and not A.mat_close(o2['mat'], obs['ref'], tol=2e-4):
            return f'op.I.I has matrix {o2["mat"]}, op has {obs["ref"]}'
        if o2['in'] != o['out'] or o2['out'] != o['in']:
            return 'structures of op.I.I are not those of op'
        return None

    # -- the iterative-solver clause: tests, not theorems -------------------------------------------
    def extra(self):
        bad = {n: o.error for n, o in env().items() if isinstance(o, A.Unbuildable)}
        if bad:
            raise RuntimeError(f'operands of the alphabet cannot be constructed on this tree: {bad}')
        envv = dict(os.environ)
        envv['JAX_ENABLE_X64'] = '1'
        p = subprocess.run([sys.executable, str(Path(__file__).resolve()), '--cg', self.tier, str(self.seed)],
                           capture_output=True, text=True, timeout=1500, env=envv)
        if p.returncode != 0:
            raise RuntimeError('CG test process failed: ' + p.stderr[-1500:])
        rep = json.loads(p.stdout.strip().splitlines()[-1])
        fails = rep.pop('failures')
        rep['what'] = ('InverseOperator.mv on SPD Gram matrices B^T B + n I of integer matrices (sizes 2-12, condition number '
                       '<= 1e3, float64), several right-hand sides, settings default CG / CG rtol=atol=1e-10 / Jacobi-'
                       'preconditioned through furax.Config; criterion |A z - y| <= 10 tol (1 + |y|) with tol = rtol of the setting; '
                       'TESTS of the convergence clause, not a proof')
        return {'cg_solver_clause': rep,
                'failures': [{'case': f['case'], 'observation': f['observation'], 'oracle': f['oracle'], 'key': None} for f in fails]}


def obs_struct(obs, k):
    return obs['I'].get(k)


def pinv_expected(case) -> bool:
    """Block-diagonal operands all of whose singular blocks are diagonals: the result is the pseudo-inverse."""
    return case['name'] in ('BLz', 'BNn', 'BBn') or case['kind'] == 'blockdiag-random'


def tofloat(m) -> np.ndarray:
    if not m:
        return np.zeros((0, 0))
    return np.array([[float(Fraction(x)) for x in row] for row in m], dtype=np.float64)


def skel_close(a, b):
    """The implementation's skeleton with scalar parameters replaced by the model's when within 1e-4."""
    if not (isinstance(a, list) and isinstance(b, list) and len(a) == 4 and len(b) == 4):
        return a
    tag, oid, params, kids = a
    if tag != b[0] or oid != b[1] or len(params) != len(b[2]) or len(kids) != len(b[3]):
        return a
    ps = []
    for x, y in zip(params, b[2]):
        try:
            fx, fy = float(Fraction(x)), float(Fraction(y))
            ps.append(y if abs(fx - fy) <= 1e-4 * max(1.0, abs(fx)) else x)
        except Exception:
            ps.append(x)
    return [tag, oid, ps, [skel_close(k, kb) for k, kb in zip(kids, b[3])]]


# ---------------------------------------------------------------------------------------------
# CG tests (separate process, float64)


def cg_tests(tier: str, seed: int):
    import jax
    import jax.numpy as jnp
    import lineax as lx

    from furax import Config
    from furax._base.dense import DenseBlockDiagonalOperator
    from furax._base.diagonal import DiagonalOperator

    assert jax.config.jax_enable_x64
    rng = np.random.default_rng(seed + 606)
    sizes = list(range(2, 13))
    reps = 1 if tier == 'quick' else 4
    settings = [
        ('default', {}, 1e-6),
        ('rtol1e-10', {'solver': lx.CG(rtol=1e-10, atol=1e-10, max_steps=2000)}, 1e-10),
        ('jacobi', None, 1e-6),
    ]
    total, worst, fails, steps_max = 0, 0.0, [], 0
    for n in sizes:
        for _ in range(reps):
            while True:
                B = rng.integers(-2, 3, size=(n + 1, n)).astype(np.float64)
                Amat = B.T @ B + n * np.eye(n)
                if np.linalg.cond(Amat) <= 1e3:
                    break
            s = jax.ShapeDtypeStruct((n,), jnp.float64)
            op = DenseBlockDiagonalOperator(jnp.asarray(Amat), s, 'ij,j->i')
            rhs = [np.eye(n)[0], np.ones(n), rng.integers(-4, 5, size=n).astype(np.float64), Amat @ np.arange(1, n + 1)]
            for label, kw, tol in settings:
                if kw is None:
                    pre = DiagonalOperator(jnp.asarray(1.0 / np.diag(Amat)), in_structure=s)
                    kw = {'solver_options': {'preconditioner': pre}}
                with Config(solver_callback=lambda sol: None, **kw):
                    inv = op.I
                for y in rhs:
                    z = np.asarray(inv(jnp.asarray(y)))
                    res = float(np.linalg.norm(Amat @ z - y))
                    bound = 10 * tol * (1 + float(np.linalg.norm(y)))
                    total += 1
                    worst = max(worst, res / bound)
                    if not np.all(np.isfinite(z)) or res > bound:
                        fails.append({'case': {'kind': 'cg', 'matrix': Amat.tolist(), 'rhs': y.tolist(), 'setting': label},
                                      'observation': {'solution': z.tolist(), 'residual': res, 'bound': bound},
                                      'oracle': f'InverseOperator.mv: residual {res:.3e} exceeds 10*tol*(1+|y|) = {bound:.3e} ({label})'})
    return {'systems': total, 'worst_residual_over_bound': worst, 'sizes': [sizes[0], sizes[-1]], 'settings': [s[0] for s in settings],
            'failures': fails[:5]}


if __name__ == '__main__':
    if len(sys.argv) >= 4 and sys.argv[1] == '--cg':
        print(json.dumps(cg_tests(sys.argv[2], int(sys.argv[3]))))
