"""C06 - inverses invert.

Real code: `op.I` / `op.inverse()` of every operator class (core.py AbstractLinearOperator.inverse ->
InverseOperator, AbstractLazyInverseOperator.inverse / as_matrix, HomothetyOperator.inverse, @orthogonal;
diagonal.py DiagonalOperator.inverse / DiagonalInverseOperator; blocks.py BlockDiagonalOperator.inverse;
axes.py MoveAxisOperator.inverse; qu_rotations.py) on the shared operand alphabet (harness/alg_cases.py)
extended with the parameter scopes of the closed forms.  Model: Model/Inverse.v `inverse_r` evaluated on
the encoded operands, observed through `observe_inv` (op.I, op.I.I, as_matrix() of a lazy inverse).
Oracle: NumPy - mat(op.I) @ mat(op) = I = mat(op) @ mat(op.I) (Penrose equations for diagonals with
zeros), finiteness, refusal of non-square operands, op.I.I denotes op.

MAGNITUDE scopes (`kind` magnitude-*): every closed-form inverse whose parameters are numbers (scalar,
diagonal entries, block entries) is run over the magnitude range of its dtype - signed powers of two from
the smallest normal number to the largest one whose reciprocal is normal (2^-126..2^126 in float32,
2^-1022..2^1022 in float64, float64 and float32 under jax_enable_x64 in a helper process), mixed with
exact zeros and ordinary values.  Reciprocals of powers of two are exact, so these cases are compared
EXACTLY (no tolerance anywhere: exact rationals of the measured floats on the implementation side, Qc in
the model, whose `pinv` is decided by `= 0` in the field - any cut-off, regularisation or overflow in the
implementation is a disagreement) and the oracle is the closed formula 1/d (0 at zeros) on the case data.

The clause "A.I(y) solves A z = y to the configured solver tolerance" (lineax CG in floating point) is
NOT a theorem: `extra()` tests it numerically (reported under numerical_tests_not_proof), with the
configuration established by a single block AND by nested / sibling `with Config(...)` blocks.
"""
from __future__ import annotations

import atexit
import itertools
import json
import math
import os
import subprocess
import sys
from fractions import Fraction
from pathlib import Path

import numpy as np

import alg_cases as G
import algebra as A
import lib
from lib import PropertyCheck

sys.path.insert(0, str(lib.VERIF / 'tools' / 'translate'))

IQU = lambda n: {'stokes': 'IQU', 'shape': [n]}  # noqa: E731

DIAG_BASE = [2, -4, 0.5, 8]


def _own_let():
    let = {}
    # scalars: negative, fractions, on leaves / Stokes / dict structures
    for name, v in (('Hn4', -4), ('Hq', 0.25), ('H3r', 3), ('Hm1h', -1.5), ('H8', 8)):
        let[name] = {'k': 'homoth', 'v': v, 's': [2]}
    let['HsQ'] = {'k': 'homoth', 'v': -0.5, 's': IQU(2)}
    let['Hd'] = {'k': 'homoth', 'v': 4, 's': {'dict': {'a': [2], 'b': [1, 2]}}}
    # diagonals: every zero pattern for n <= 4
    for n in range(1, 5):
        for mask in itertools.product([1, 0], repeat=n):
            v = [DIAG_BASE[i] * mask[i] for i in range(n)]
            let['Dz%d_%s' % (n, ''.join(map(str, mask)))] = {'k': 'diag', 'v': v, 's': [n]}
    # diagonals laid along an axis of a 2-d leaf / of the leaves of a pytree
    let['D23a0'] = {'k': 'diag', 'v': [2, 0], 's': [2, 3], 'axis': 0}
    let['D23a1'] = {'k': 'diag', 'v': [1, -2, 4], 's': [2, 3], 'axis': -1}
    let['Dt2'] = {'k': 'diag', 'v': [4, 0.5], 's': {'list': [[2], [2, 2]]}, 'axis': 0}
    # move-axis: every single-axis pair on ranks 2 (two shapes) and 3, some two-axis tuples
    for shp, tag in (([2, 3], 'a'), ([2, 2], 'q')):
        for s in range(-2, 2):
            for d in range(-2, 2):
                let[f'M{tag}_{s}_{d}'.replace('-', 'm')] = {'k': 'moveaxis', 'src': s, 'dst': d, 's': shp}
    for s in range(-3, 3):
        for d in range(-3, 3):
            let[f'Mr3_{s}_{d}'.replace('-', 'm')] = {'k': 'moveaxis', 'src': s, 'dst': d, 's': [2, 3, 2]}
    for src in itertools.permutations(range(-3, 3), 2):
        if len({a % 3 for a in src}) < 2:
            continue
        for dst in itertools.permutations(range(-3, 3), 2):
            if len({a % 3 for a in dst}) < 2:
                continue
            let[f'Mt3_{src[0]}_{src[1]}_{dst[0]}_{dst[1]}'.replace('-', 'm')] = {
                'k': 'moveaxis', 'src': list(src), 'dst': list(dst), 's': [2, 3, 2]}
    let['Mpt'] = {'k': 'moveaxis', 'src': 0, 'dst': -1, 's': {'list': [[2, 3], [2, 3, 2]]}}
    # rotations: k*pi/4 for all residues, vectors of angles, generic angles (pi/12, -pi/12 * 5 ...)
    for k in range(-3, 5):
        let[f'Rq{k}'.replace('-', 'm')] = {'k': 'qurot', 'stokes': 'IQU', 'shape': [1], 'q': [k]}
    let['Rqu'] = {'k': 'qurot', 'stokes': 'QU', 'shape': [3], 'q': [1, -2, 3], 'vec': True}
    let['Rv'] = {'k': 'qurot', 'stokes': 'IQUV', 'shape': [2], 'q': [2, -1], 'vec': True}
    let['Ri'] = {'k': 'qurot', 'stokes': 'I', 'shape': [2], 'q': [1]}
    let['Rg1'] = {'k': 'qurot', 'stokes': 'IQU', 'shape': [1], 'q': [Fraction(1, 3)]}
    let['Rg2'] = {'k': 'qurot', 'stokes': 'QU', 'shape': [2], 'q': [Fraction(-5, 3), Fraction(7, 16)], 'vec': True}
    let['Rg1T'] = {'k': 'expr', 'e': {'T': 'Rg1'}}
    # block-diagonal operators of closed-form blocks over list / tuple / dict / nested containers
    let['Dz2'] = {'k': 'diag', 'v': [2, 0], 's': [2]}
    let['BLh'] = {'k': 'bdiagop', 'blocks': ['H2', 'D2', 'Hq']}
    let['BLz'] = {'k': 'bdiagop', 'blocks': ['Dz2', 'H2']}
    let['BTq'] = {'k': 'bdiagop', 'blocks': {'tuple': ['Q1', 'Hs', 'Is']}}
    let['BDc'] = {'k': 'bdiagop', 'blocks': {'dict': {'z': 'D2', 'a': 'Mq_0_1', 'm': 'Hn4'}}}
    let['BNn'] = {'k': 'bdiagop', 'blocks': [['H2', {'tuple': ['D2', 'Dz2']}], {'dict': {'k': 'Hq'}}]}
    let['BLl'] = {'k': 'bdiagop', 'blocks': ['S22', 'D2', 'H2']}          # one block without closed form
    let['BLi'] = {'k': 'bdiagop', 'blocks': ['S22I', 'D2I', 'Q1T']}       # blocks that are lazy inverses
    let['BLw'] = {'k': 'bdiagop', 'blocks': ['H2', 'A23']}                # a non-square block: default, refused
    let['BLm'] = {'k': 'bdiagop', 'blocks': ['Ma_0_1', 'H2']}            # non-square move-axis block
    let['BB'] = {'k': 'bdiagop', 'blocks': ['BLh', 'H2']}                 # block-diagonal of block-diagonal
    let['BBn'] = {'k': 'bdiagop', 'blocks': {'dict': {'x': 'BNn', 'y': ['BLz', 'Q1']}}}
    let['BBl'] = {'k': 'bdiagop', 'blocks': ['BD', 'D2']}                 # nested, inner blocks lazy
    # composite square operands without closed form (default lazy inverse of the REDUCED operand)
    let['C_SA'] = {'k': 'expr', 'e': {'mm': ['S22', 'A22']}}
    let['C_MM'] = {'k': 'expr', 'e': {'comp': ['M32', 'M23']}}            # reduces to the identity
    let['C_QQ'] = {'k': 'expr', 'e': {'comp': ['Q1', 'Q2']}}              # reduces to one rotation
    let['C_HSH'] = {'k': 'expr', 'e': {'comp': ['H2', 'S22', 'Hh2']}}     # scalars merged and relocated
    let['C_II'] = {'k': 'expr', 'e': {'comp': ['I2', 'S22', 'I2']}}
    let['C_SIS'] = {'k': 'expr', 'e': {'comp': ['S22I', 'S22', 'B22']}}   # the rule removes S22.I @ S22
    let['Ad_AB'] = {'k': 'expr', 'e': {'add': ['A22', 'B22']}}
    let['Ad_1'] = {'k': 'expr', 'e': {'sum': ['S22']}}                    # single-operand sum reduces to S22
    let['Sm'] = {'k': 'expr', 'e': {'smul': [2, 'S22']}}
    let['A22T'] = {'k': 'expr', 'e': {'T': 'A22'}}
    let['S22II'] = {'k': 'expr', 'e': {'I': 'C_II'}}                      # InverseOperator(S22) built from C_II
    let['Tz'] = {'k': 'toeplitz', 'band': [4, 1], 's': [3]}
    return let


def frac_to_float(d):
    """q entries of the own operands may be Fractions (units of pi/4)."""
    if isinstance(d, dict):
        return {k: frac_to_float(v) for k, v in d.items()}
    if isinstance(d, list):
        return [frac_to_float(v) for v in d]
    if isinstance(d, Fraction):
        return float(d)
    return d


LET = dict(G.LET)
LET.update(frac_to_float(_own_let()))
OWN = set(_own_let())

_env: dict = {}


def env():
    if not _env:
        _env.update(A.build_env(LET))
    return _env


POOL = ['H2', 'Hq', 'Hn4', 'D2', 'Dz2', 'Dz3_101', 'Q1', 'Rq3', 'Mq_0_1', 'I2', 'S22', 'BLh', 'BLz', 'S22I', 'D2I', 'Q1T', 'W', 'Tz']


def random_container(rng, depth):
    n = rng.randint(1, 3)
    kids = []
    for _ in range(n):
        if depth < 2 and rng.random() < 0.35:
            kids.append(random_container(rng, depth + 1))
        else:
            kids.append(rng.choice(POOL))
    kind = rng.choice(['list', 'tuple', 'dict'])
    if kind == 'list':
        return kids
    if kind == 'tuple':
        return {'tuple': kids}
    return {'dict': {f'k{i}': v for i, v in enumerate(kids)}}


_built: dict = {}


def operand(case):
    if 'mag' not in case and 'desc' not in case:
        return env()[case['name']]
    key = json.dumps(case.get('mag') or case['desc'], sort_keys=True)
    if key not in _built:
        try:
            _built[key] = build_mag(case['mag']) if 'mag' in case else A.build_operand(case['desc'], env())
        except Exception as e:
            _built[key] = A.Unbuildable(case['name'], e)
    return _built[key]


def category(name: str) -> str:
    d = LET[name]
    k = d['k']
    if name.startswith('Dz') or k == 'diag':
        return 'diagonal'
    if k == 'homoth':
        return 'scalar'
    if k == 'moveaxis':
        return 'moveaxis'
    if k == 'qurot':
        return 'rotation'
    if k == 'bdiagop':
        return 'blockdiag'
    if k == 'ident':
        return 'identity'
    if k == 'expr':
        (kind, _), = d['e'].items()
        return {'I': 'lazy-inverse-wrapper', 'T': 'lazy-transpose'}.get(kind, 'composite')
    return 'other'


# ---------------------------------------------------------------------------------------------
# magnitude scopes of the closed forms: signed powers of two over the whole normal range of the dtype,
# exact zeros, ordinary values.  Everything about these cases is EXACT (see the module docstring).

# exponents e such that 2^e AND 2^-e are normal numbers of the dtype (XLA on CPU flushes subnormals to
# zero, so 1/2^127 = 0 in float32: outside the scope), dense around the machine epsilon and at both ends
LADDER = {
    'float32': [-126, -125, -120, -100, -64, -40, -30, -25, -24, -23, -22, -16, -10, -3, 0,
                3, 10, 16, 22, 23, 24, 25, 30, 40, 64, 100, 120, 125, 126],
    'float64': [-1022, -1021, -1000, -600, -300, -150, -100, -64, -60, -54, -53, -52, -51, -30, -10, 0,
                10, 30, 51, 52, 53, 54, 60, 64, 100, 150, 300, 600, 1000, 1021, 1022],
}
ORDINARY = ['+2^1', '-2^2', '+2^-1', '+2^3', '+2^0', '-2^0']
XVEC = [1, -2, 3, 1, 2, -1, -3]  # right-hand side of the round trips (3 * 2^126 is finite in float32)


def pw(e: int, neg: bool = False) -> str:
    return ('-' if neg else '+') + f'2^{e}'


def val(v) -> Fraction:
    """Value spec of a magnitude case: 0 | small integer / dyadic | '+2^e' | '-2^e'."""
    if isinstance(v, str):
        sign = -1 if v[0] == '-' else 1
        return sign * Fraction(2) ** int(v.split('^')[1])
    return Fraction(v)


def with_dtype(desc, dt):
    """Structure description (alg. mk_struct syntax) with every leaf given the dtype dt."""
    if isinstance(desc, list) and all(isinstance(i, int) for i in desc):
        return {'shape': desc, 'dtype': dt}
    if isinstance(desc, list):
        return [with_dtype(d, dt) for d in desc]
    if 'stokes' in desc:
        return dict(desc, dtype=dt)
    (k, v), = desc.items()
    if k == 'dict':
        return {'dict': {kk: with_dtype(vv, dt) for kk, vv in v.items()}}
    return {k: [with_dtype(d, dt) for d in v]}


def leaf_shapes(desc):
    """Shapes of the leaves of a structure description, in jax flattening order."""
    if isinstance(desc, list) and all(isinstance(i, int) for i in desc):
        return [tuple(desc)]
    if isinstance(desc, list):
        return [s for d in desc for s in leaf_shapes(d)]
    if 'stokes' in desc:
        return [tuple(desc['shape'])] * len(desc['stokes'])
    (k, v), = desc.items()
    if k == 'dict':
        return [s for kk in sorted(v) for s in leaf_shapes(v[kk])]
    return [s for d in v for s in leaf_shapes(d)]


def mag_children(c):
    """Children of one container level of a block description (None: a block)."""
    if isinstance(c, list):
        return c
    if 'k' in c:
        return None
    if 'tuple' in c:
        return c['tuple']
    return [c['dict'][k] for k in sorted(c['dict'])]


def mag_array(values, dt):
    jnp = A.J()['jnp']
    a = np.array([float(val(v)) for v in values], dtype=np.dtype(dt))
    assert all(Fraction(float(x)) == val(v) for x, v in zip(a, values)), 'value not representable in ' + dt
    return jnp.asarray(a)


def build_mag(d):
    """Real operator of a magnitude description: mhomoth / mdiag / mbdiag (containers of descriptions) /
    minv (the closed-form inverse object of a description, as an operand)."""
    j = A.J()
    k = d['k']
    if k == 'mhomoth':
        return j['core'].HomothetyOperator(mag_array([d['v']], d['dt'])[0], A.mk_struct(with_dtype(d['s'], d['dt'])))
    if k == 'mdiag':
        return j['diagonal'].DiagonalOperator(mag_array(d['v'], d['dt']), axis_destination=d.get('axis', 0),
                                              in_structure=A.mk_struct(with_dtype(d['s'], d['dt'])))
    if k == 'minv':
        return build_mag(d['of']).I
    if k == 'mbdiag':
        def cont(c):
            if isinstance(c, list):
                return [cont(x) for x in c]
            if 'k' in c:
                return build_mag(c)
            if 'tuple' in c:
                return tuple(cont(x) for x in c['tuple'])
            return {kk: cont(vv) for kk, vv in c['dict'].items()}
        return j['blocks'].BlockDiagonalOperator(cont(d['blocks']))
    raise ValueError(d)


def expected_diag(d) -> list:
    """CLOSED FORMULA (independent of the implementation): the diagonal of the dense matrix of a magnitude
    description, as exact rationals."""
    k = d['k']
    if k == 'mhomoth':
        return [val(d['v'])] * sum(int(np.prod(s)) for s in leaf_shapes(d['s']))
    if k == 'mdiag':
        v = [val(x) for x in d['v']]
        out = []
        for shp in leaf_shapes(d['s']):
            ax = d.get('axis', 0) % len(shp)
            assert shp[ax] == len(v)
            for idx in np.ndindex(*shp):
                out.append(v[idx[ax]])
        return out
    if k == 'minv':
        return [fpinv(x) for x in expected_diag(d['of'])]
    if k == 'mbdiag':
        def walk(c):
            kids = mag_children(c)
            if kids is None:
                return expected_diag(c)
            return [x for kid in kids for x in walk(kid)]
        return walk(d['blocks'])
    raise ValueError(d)


def mag_weight(d) -> int:
    """Largest |exponent| in a magnitude description."""
    if isinstance(d, str):
        return abs(int(d.split('^')[1])) if '^' in d else 0
    if isinstance(d, dict):
        return max([mag_weight(v) for v in d.values()] or [0])
    if isinstance(d, list):
        return max([mag_weight(v) for v in d] or [0])
    return 0


def fpinv(x: Fraction) -> Fraction:
    return Fraction(0) if x == 0 else 1 / x


def exact_matrix(m):
    return [[Fraction(float(v)) for v in row] for row in np.asarray(m, dtype=np.float64)]


def tree_from_flat(struct, vec):
    j = A.J()
    jax, jnp = j['jax'], j['jnp']
    leaves, treedef = jax.tree.flatten(struct)
    out, pos = [], 0
    for l in leaves:
        size = int(np.prod(l.shape))
        out.append(jnp.asarray(np.array(vec[pos:pos + size], dtype=np.dtype(l.dtype)).reshape(l.shape)))
        pos += size
    return jax.tree.unflatten(treedef, out)


_enc_cls = {}


def exact_encoder():
    """algebra.Encoder with the measured matrices and the scalar parameters kept as the exact rationals
    of the floats (algebra.to_frac rounds to denominators <= 4096: 2^-30 would become 0)."""
    if 'c' not in _enc_cls:
        class ExactEncoder(A.Encoder):
            def add_table(self, key, op):
                if key not in self.table:
                    self.table[key] = exact_matrix(A.leaf_matrix(op))

            def term(self, op):
                if isinstance(op, A.J()['core'].HomothetyOperator):
                    return (f'(Homoth {self.oid(op)} {A.cqc(Fraction(float(op.value)))} '
                            f'{A.struct_coq(op.in_structure())})')
                return super().term(op)

        _enc_cls['c'] = ExactEncoder
    return _enc_cls['c']()


def skeleton_x(op, enc):
    """algebra.skeleton with exact scalar parameters."""
    j = A.J()
    core, blocks = j['core'], j['blocks']
    i = enc.known(op)
    name = type(op).__name__
    if isinstance(op, core.HomothetyOperator):
        v = np.asarray(op.value)
        if v.shape != () or not np.isfinite(v):
            return [name, i, [f'not a finite scalar: {v}'], []]
        return [name, i, [A.frac_json(Fraction(float(v)))], []]
    if isinstance(op, core.CompositionOperator):
        return [name, i, [], [skeleton_x(o, enc) for o in op.operands]]
    if isinstance(op, core.AdditionOperator):
        return [name, i, [], [skeleton_x(o, enc) for o in op.operand_leaves]]
    if isinstance(op, blocks.AbstractBlockOperator):
        return [name, i, [], [skeleton_x(o, enc) for o in op.block_leaves]]
    if A.wrap_kind(op) is not None:
        return [name, i, [], [skeleton_x(op.operator, enc)]]
    return A.skeleton(op, enc)


def random_mag_leaf(rng, dt, allow_inv=True):
    L = LADDER[dt]
    lo, hi = L[0], L[-1]
    r = rng.random()
    if r < 0.3:
        return {'k': 'mhomoth', 'v': pw(rng.randint(lo, hi), rng.random() < 0.5), 's': [rng.randint(1, 2)], 'dt': dt}
    n = rng.randint(1, 3)
    v = [0 if rng.random() < 0.2 else (rng.choice(ORDINARY) if rng.random() < 0.2 else pw(rng.randint(lo, hi), rng.random() < 0.5))
         for _ in range(n)]
    dg = {'k': 'mdiag', 'v': v, 's': [n], 'dt': dt}
    if allow_inv and r > 0.85:
        return {'k': 'minv', 'of': dg}
    return dg


def random_mag_container(rng, dt, depth=0):
    kids = []
    for _ in range(rng.randint(1, 3)):
        if depth < 2 and rng.random() < 0.3:
            kids.append(random_mag_container(rng, dt, depth + 1))
        elif depth < 2 and rng.random() < 0.15:
            kids.append({'k': 'mbdiag', 'blocks': random_mag_container(rng, dt, depth + 1)})
        else:
            kids.append(random_mag_leaf(rng, dt))
    kind = rng.choice(['list', 'tuple', 'dict'])
    if kind == 'list':
        return kids
    if kind == 'tuple':
        return {'tuple': kids}
    return {'dict': {f'k{i}': v for i, v in enumerate(kids)}}


def mag_cases(rng, quick: bool):
    """The magnitude scopes: (dtype, jax_enable_x64) in float32 / float64+x64 / float32+x64."""
    out = []
    structs = [[2], [1], {'dict': {'a': [2], 'b': [1, 2]}}, {'stokes': 'IQU', 'shape': [1]}, [[1], [2]]]
    for dt, x64 in (('float32', False), ('float64', True), ('float32', True)):
        L = LADDER[dt]
        n = len(L)
        tag = dt[-2:] + ('x' if (x64 and dt == 'float32') else '')
        keep = (lambda i: True) if not (x64 and dt == 'float32') else (lambda i: i % (4 if quick else 2) == 0)

        def add(kind, name, desc):
            out.append({'kind': kind, 'name': f'{name}{tag}', 'mag': desc, 'x64': x64})
        # scalars: the whole ladder, signs alternating, leaf / dict / Stokes / list structures
        for i, e in enumerate(L):
            if keep(i):
                add('magnitude-scalar', f'MH{i}_', {'k': 'mhomoth', 'v': pw(e, i % 2 == 1), 's': structs[i % len(structs)], 'dt': dt})
        # diagonals: a window sliding over the ladder - tiny, zero, ordinary, huge, signs - at rotating positions;
        # every third one without zero (invertible)
        for i in range(n):
            if not keep(i):
                continue
            v = [pw(L[i]), 0, ORDINARY[i % len(ORDINARY)], pw(L[n - 1 - i], True), pw(L[(i + n // 3) % n], i % 3 == 0)]
            if i % 3 == 1:
                v.remove(0)
            v = v[i % len(v):] + v[:i % len(v)]
            add('magnitude-diagonal', f'MD{i}_', {'k': 'mdiag', 'v': v, 's': [len(v)], 'dt': dt})
        # the closed-form inverse object as an operand (D.I).I, diagonals along axes of 2-d leaves and pytrees
        for i in range(0, n, 5):
            if not keep(i):
                continue
            a, b, c = pw(L[i], i % 2 == 0), pw(L[n - 1 - i]), pw(L[(i + 7) % n], True)
            add('magnitude-diagonal', f'MI{i}_', {'k': 'minv', 'of': {'k': 'mdiag', 'v': [a, 0, b, c], 's': [4], 'dt': dt}})
            add('magnitude-diagonal', f'MA{i}_', {'k': 'mdiag', 'v': [a, b], 's': [2, 3], 'axis': 0, 'dt': dt})
            add('magnitude-diagonal', f'MB{i}_', {'k': 'mdiag', 'v': [c, 0, a], 's': [2, 3], 'axis': -1, 'dt': dt})
            add('magnitude-diagonal', f'MT{i}_', {'k': 'mdiag', 'v': [b, c], 's': {'list': [[2], [2, 2]]}, 'axis': 0, 'dt': dt})
        # seeded random: diagonals with exponents uniform over the range, block-diagonal containers
        nr = (4 if quick else 40) if (x64 and dt == 'float32') else (10 if quick else 120)
        for k in range(nr):
            m = rng.randint(1, 6)
            v = [0 if rng.random() < 0.15 else pw(rng.randint(L[0], L[-1]), rng.random() < 0.5) for _ in range(m)]
            add('magnitude-diagonal', f'MR{k}_', {'k': 'mdiag', 'v': v, 's': [m], 'dt': dt})
        for k in range(nr):
            add('magnitude-blockdiag', f'MK{k}_', {'k': 'mbdiag', 'blocks': random_mag_container(rng, dt)})
    return out


# ---------------------------------------------------------------------------------------------
# implementation side


def contains_inverse(op) -> bool:
    from reduce_check import contains_cls

    return contains_cls(op, A.J()['core'].InverseOperator)


def impl_matrix(op) -> np.ndarray:
    """Dense matrix of an operator through the real code: mv on every basis vector; an iterative
    InverseOperator contributes through its as_matrix() override (the observation point of the
    property), composites containing one are assembled from their parts."""
    j = A.J()
    core, blocks = j['core'], j['blocks']
    import scipy.linalg

    if not contains_inverse(op):
        return A.dense(op)
    if isinstance(op, core.InverseOperator):
        return np.asarray(op.as_matrix(), dtype=np.float64)
    if isinstance(op, core.CompositionOperator):
        m = None
        for o in op.operands:
            mo = impl_matrix(o)
            m = mo if m is None else m @ mo
        return m
    if isinstance(op, core.AdditionOperator):
        return sum(impl_matrix(o) for o in op.operand_leaves)
    if isinstance(op, blocks.BlockDiagonalOperator):
        return scipy.linalg.block_diag(*[impl_matrix(o) for o in op.block_leaves])
    if isinstance(op, blocks.BlockRowOperator):
        return np.hstack([impl_matrix(o) for o in op.block_leaves])
    if isinstance(op, blocks.BlockColumnOperator):
        return np.vstack([impl_matrix(o) for o in op.block_leaves])
    raise NotImplementedError(type(op).__name__)


def observe(thunk, enc, invertible: bool, exact: bool = False):
    """skeleton / structures / matrix of the operator returned by thunk (or the error kind)."""
    skel, fm = (skeleton_x, exact_matrix) if exact else (A.skeleton, A.frac_matrix)
    try:
        with A.quiet_config():
            op = thunk()
    except Exception as e:
        name = type(e).__name__
        return {'err': name if name in A.ERRS else f'Other:{name}'}, None
    out = {'skel': skel(op, enc), 'in': A.struct_repr(op.in_structure()), 'out': A.struct_repr(op.out_structure())}
    if contains_inverse(op) and not invertible:
        # the matrix of an iterative inverse of a singular / ill-conditioned operand is meaningless
        out['mat'] = None
        out['finite'] = None
        return out, op
    try:
        m = impl_matrix(op)
        out['finite'] = bool(np.all(np.isfinite(m)))
        out['mat'] = A.mat_json(fm(m)) if out['finite'] else None
    except Exception as e:
        out['mat'] = None
        out['finite'] = None
        out['mat_error'] = f'{type(e).__name__}: {str(e)[:200]}'
    return out, op


def part(o):
    if o is None:
        return None
    if 'err' in o:
        return {'err': o['err']}
    return {k: o[k] for k in ('skel', 'in', 'out', 'mat')}


class Check(PropertyCheck):
    id = 'C06'
    props = ['Tables.v', 'C06.v', 'C06Structs.v']
    static_targets = ['theories/Model/Exec.vo', 'theories/Model/Pinned.vo', 'theories/Lemmas/TablesL.vo',
                      'theories/Lemmas/InverseL.vo', 'theories/Lemmas/InverseStructsL.vo']
    coq_header = A.COQ_HEADER + 'From Furax Require Import Model.Inverse.\nFrom FuraxGen Require Import Tables.\n'
    shard = 60
    workers = 8
    partial = (
        '"for a symmetric positive-definite A without closed form, A.I(y) solves A z = y to the configured solver '
        'tolerance": convergence of lineax CG in floating point. Modelled as an oracle (Section hypothesis '
        '`inv_facts`: the leaf semantics of a lazy InverseOperator is a two-sided inverse of its operand, exactly '
        'lf_inv_l/lf_inv_r of Sound.leaf_facts); tested numerically by extra() on SPD Gram matrices, not proved'
    )
    trusted = [
        'translator tools/translate/tables.py (method resolution of `inverse`/`as_matrix` per class, class hierarchy, '
        'rule registry read from the imported package; fails closed)',
        'leaf operators act in the executable model through dense matrices measured on the real objects; operators '
        'created by inverse() act through their definitions in Model/Inverse.v (pinv of the measured diagonal, '
        'jnp.moveaxis as specified in Model/Axes.v, transposed rotation, certified Gauss-Jordan inverse for the lazy '
        'InverseOperator = exact solver)',
        'jnp.linalg.inv is compared with the certified exact inverse of the rational matrix (tolerance 1e-4 after '
        'rounding float32 entries to rationals of denominator <= 4096)',
        'object identity (`is`) is modelled by harness-assigned object ids; objects created by inverse() get id 0',
        'floating point: 1/k and where(d != 0, 1/d, 0) are compared with exact field operations on dyadic inputs '
        '(and 1/3-type values up to 1e-4); NaN/Inf freedom is observed on the implementation (isfinite), the model '
        'never evaluates a division by zero',
        'magnitude cases: the floats measured on the implementation are converted to rationals exactly (Fraction(float)) '
        'and compared exactly with the model and with the closed formula 1/d; subnormal numbers are out of scope (XLA on '
        'CPU flushes them to zero: 1/2^127 is 0 in float32), so exponents range over [-126, 126] / [-1022, 1022]; float64 '
        'and x64-mode cases run in helper processes started with JAX_ENABLE_X64=1; in the quick tier 3/4 of the cases with '
        'an exponent beyond +-160 are checked by the exact oracle only (model arithmetic on 300-digit rationals is slow), '
        'all of them are compared with the model in the thorough tier',
    ]

    def translate(self):
        import tables

        self.stats['tables'] = tables.generate(self.gen_dir)

    def gen_files(self):
        return ['Tables.v']

    # -- cases ---------------------------------------------------------------------------------
    def cases(self):
        quick = self.tier == 'quick'
        rng = self.rng
        names = [n for n in LET]
        out = []
        mt3 = [n for n in names if n.startswith('Mt3_')]
        rng.shuffle(mt3)
        keep_mt3 = set(mt3[: 12 if quick else 600])
        mr3 = [n for n in names if n.startswith('Mr3_')]
        rng.shuffle(mr3)
        keep_mr3 = set(mr3[: 14 if quick else 36])
        for n in names:
            if n.startswith('Mt3_') and n not in keep_mt3:
                continue
            if n.startswith('Mr3_') and n not in keep_mr3:
                continue
            out.append({'kind': category(n), 'name': n})
        # seeded random block-diagonal operators: nested list/tuple/dict containers of square blocks
        # (closed forms, singular diagonals, lazy inverses and their wrappers, block-diagonal blocks)
        for k in range(10 if quick else 150):
            out.append({'kind': 'blockdiag-random', 'name': f'RB{k}',
                        'desc': {'k': 'bdiagop', 'blocks': random_container(rng, 0)}})
        out += mag_cases(rng, quick)
        # the exact rational arithmetic of the model on 2^+-1000 is slow (~1.5 s per case): spread those cases over the shards
        rng.shuffle(out)
        self.stats['operands'] = len(out)
        return out

    def rule(self):
        return (
            'op.I of every operand of the shared alphabet (~125 real operator objects of every class, square and not) '
            'plus the parameter scopes of the closed forms: scalars (negative, fractions, Stokes/dict structures), '
            'diagonals with every zero pattern for n <= 4 (30) and along axes of 2-d / pytree leaves, every single-axis '
            'move-axis pair on ranks 2-3 and two-axis tuples (sampled in quick), QU rotations for every k*pi/4 residue, '
            'vectors of angles and generic angles, block-diagonal operators over list/tuple/dict/nested containers with '
            'closed-form, lazy, lazy-inverse, non-square and block-diagonal blocks, composites whose reduce() changes '
            'the operand. MAGNITUDE scopes (compared exactly, no tolerance): scalars, diagonals (1-d, along axes of 2-d '
            'leaves and pytrees, as D.I operands) and block-diagonal operators over random nested containers whose entries are '
            'signed powers of two over the whole normal range of the dtype (ladder dense near eps and at both ends + seeded '
            'uniform exponents), mixed with zeros and ordinary values, in float32, float64 (x64) and float32 under x64. '
            'Non-trivial: the result is not a plain InverseOperator of the same object, or is a refusal.'
        )

    def distribution(self, cases):
        d = {}
        for c in cases:
            d[c['kind']] = d.get(c['kind'], 0) + 1
        return d

    # -- implementation ----------------------------------------------------------------------------
    def run_impl(self, case):
        if str(case.get('kind', '')).startswith('cg'):
            return cg_delegate(case)
        if case.get('x64') and not A.J()['jax'].config.jax_enable_x64:
            return x64_delegate(case)
        exact = 'mag' in case
        op = operand(case)
        if isinstance(op, A.Unbuildable):
            return {'build_error': op.error}
        enc = exact_encoder() if exact else A.Encoder()
        term = enc.term(op)  # assigns the object ids (and measures the leaves) before .I runs
        ref = A.reference_matrix(op)
        square_size = ref.shape[0] == ref.shape[1]
        if exact:  # closed forms with a diagonal matrix: regular iff no zero on the diagonal (cond() is meaningless here)
            invertible = bool(square_size and np.all(np.diag(ref) != 0))
        else:
            cond = float(np.linalg.cond(ref)) if square_size and ref.size else float('inf')
            invertible = bool(np.isfinite(cond) and cond < 1e5)
        obs = {'ref': A.mat_json((exact_matrix if exact else A.frac_matrix)(ref)), 'invertible': invertible,
               'square': A.struct_repr(op.in_structure()) == A.struct_repr(op.out_structure()),
               'op_skel': (skeleton_x if exact else A.skeleton)(op, enc), 'op_class': type(op).__name__}
        o1, inv = observe(lambda: op.I, enc, invertible, exact)
        obs['I'] = o1
        obs['II'] = None
        obs['lazy_mat'] = None
        if inv is not None:
            core = A.J()['core']
            obs['I_is_lazy_of_op'] = getattr(inv, 'operator', None) is op
            if isinstance(inv, core.InverseOperator) and invertible:
                try:
                    obs['lazy_mat'] = A.mat_json(A.frac_matrix(np.asarray(inv.as_matrix(), dtype=np.float64)))
                except Exception as ex:
                    obs['lazy_mat_error'] = f'{type(ex).__name__}: {str(ex)[:200]}'
            o2, inv2 = observe(lambda: inv.I, enc, invertible, exact)
            obs['II'] = o2
            obs['II_is_op'] = inv2 is op
            # the pseudo-inverse diagonal itself (DiagonalInverseOperator.diagonal) must be finite
            if type(inv).__name__ == 'DiagonalInverseOperator':
                obs['pinv_values_finite'] = bool(np.all(np.isfinite(np.asarray(inv.diagonal))))
            if exact:
                # A.I(A(x)) and A(A.I(x)) on a vector of small integers, through the real mv of both objects
                try:  # as_matrix() of the closed-form inverse (observation point of the property)
                    am = np.asarray(inv.as_matrix(), dtype=np.float64)
                    obs['as_matrix'] = A.mat_json(exact_matrix(am)) if np.all(np.isfinite(am)) else 'contains NaN or Inf'
                except Exception as ex:
                    obs['as_matrix'] = f'{type(ex).__name__}: {str(ex)[:200]}'
                n = ref.shape[1]
                x = tree_from_flat(op.in_structure(), [XVEC[i % len(XVEC)] for i in range(n)])
                for key, f in (('rt_left', lambda: inv(op(x))), ('rt_right', lambda: op(inv(x)))):
                    try:
                        y = A.flat(f())
                        obs[key] = [A.frac_json(Fraction(float(t))) if np.isfinite(t) else str(t) for t in y]
                    except Exception as ex:
                        obs[key] = f'{type(ex).__name__}: {str(ex)[:200]}'
        case['_term'] = term
        case['_table'] = enc.table_coq()
        case['_unsupported'] = enc.unsupported
        return obs

    # -- model -----------------------------------------------------------------------------------
    def model_term(self, case):
        if case.get('_unsupported') or '_term' not in case:
            return None
        if self.tier == 'quick' and 'mag' in case and mag_weight(case['mag']) > 160 and int(lib.case_id(case), 16) % 4:
            # quick tier: three quarters of the cases with |exponent| > 160 (float64 only) are checked by the exact oracle
            # alone (the model's Qc arithmetic on 300-digit numbers costs ~1.5 s per case); all are compared in thorough
            self.stats['oracle_only_in_quick'] = self.stats.get('oracle_only_in_quick', 0) + 1
            return None
        return f'observe_inv {case["_table"]} gen_order {case["_term"]}'

    def decode(self, case, v):
        o1, o2, lm = v
        d1 = A.decode_observation(o1)
        d2 = None if 'err' in d1 else A.decode_observation(o2)
        if isinstance(lm, dict) and lm.get('c') == 'Some':
            cols = [[A.frac_json(Fraction(x[0], x[1])) for x in col] for col in lm['a'][0]]
            lazy = [list(r) for r in zip(*cols)] if cols else []
        else:
            lazy = None
        out = {'I': d1, 'II': d2, 'lazy_mat': lazy}
        case['_model'] = out
        return out

    def comparable(self, case, obs):
        if not isinstance(obs, dict) or 'build_error' in obs:
            return obs
        out = {'I': part(obs['I']), 'II': part(obs['II']), 'lazy_mat': obs.get('lazy_mat')}
        if 'mag' in case:
            return out  # exact on both sides: no tolerance
        model = case.get('_model')
        if not obs.get('invertible') or not obs.get('square'):
            # matrices of lazy inverses of singular operands are not compared (None on the implementation side)
            if model:
                for k in ('I', 'II'):
                    if out[k] and model.get(k) and 'mat' in out[k] and out[k]['mat'] is None and 'mat' in model[k]:
                        out[k]['mat'] = model[k]['mat']
                if out['lazy_mat'] is None:
                    out['lazy_mat'] = model.get('lazy_mat')
        if model:
            # entries such as 1/3 or cos(pi/12) are float32 on the implementation side: equal up to 1e-4
            for k in ('I', 'II'):
                if out[k] and model.get(k) and out[k].get('mat') is not None and model[k].get('mat') is not None:
                    if A.mat_close(out[k]['mat'], model[k]['mat']):
                        out[k]['mat'] = model[k]['mat']
                if out[k] and model.get(k) and out[k].get('skel') and model[k].get('skel'):
                    out[k]['skel'] = skel_close(out[k]['skel'], model[k]['skel'])
            if out['lazy_mat'] is not None and model.get('lazy_mat') is not None and A.mat_close(out['lazy_mat'], model['lazy_mat']):
                out['lazy_mat'] = model['lazy_mat']
        return out

    def nontrivial(self, case, obs):
        if not isinstance(obs, dict) or 'I' not in obs:
            return False
        o = obs['I']
        if 'err' in o:
            return True
        return not (o['skel'][0] == 'InverseOperator' and obs.get('I_is_lazy_of_op'))

    def finding_key(self, case, obs):
        return None

    # -- oracle -----------------------------------------------------------------------------------
    def oracle(self, case, obs):
        if str(case.get('kind', '')).startswith('cg'):
            return cg_oracle(case, obs)
        if 'mag' in case and 'build_error' not in obs:
            return oracle_mag(case, obs)
        if 'build_error' in obs:
            return f'operand {case["name"]} cannot be constructed: {obs["build_error"]}'
        o = obs['I']
        cls = obs['op_class']
        closed_nonsquare_ok = cls == 'MoveAxisOperator' or cls in ('InverseOperator', 'DiagonalInverseOperator', 'QURotationTransposeOperator')
        if not obs['square'] and not closed_nonsquare_ok:
            if o.get('err') != 'ValueError':
                return f'a non-square {cls} was not refused with ValueError: {o.get("err") or o.get("skel")}'
            return None
        if 'err' in o:
            return f'inverse() of a square {cls} raised {o["err"]}'
        M = tofloat(obs['ref'])
        n = M.shape[1]
        if o.get('finite') is False:
            return f'the matrix of {cls}.I contains NaN or Inf'
        if obs.get('pinv_values_finite') is False:
            return 'DiagonalInverseOperator.diagonal contains NaN or Inf'
        diag_singular = case['kind'] == 'diagonal' and not obs['invertible']
        if o.get('mat') is None:
            if obs['invertible'] or diag_singular:
                return f'{cls}.I cannot be applied: {o.get("mat_error")}'
            return None  # lazy inverse of a singular operand: nothing to check
        N = tofloat(o['mat'])
        eye = np.eye(n)
        tol = 2e-4 * max(1.0, float(np.abs(M).max()), float(np.abs(N).max())) ** 2
        if obs['invertible']:
            if N.shape != (n, M.shape[0]):
                return f'matrix of the inverse has shape {N.shape}'
            if np.abs(N @ M - eye).max() > tol:
                return f'mat(op.I) @ mat(op) is not the identity: {(N @ M).tolist()}'
            if np.abs(M @ N - np.eye(M.shape[0])).max() > tol:
                return f'mat(op) @ mat(op.I) is not the identity: {(M @ N).tolist()}'
        elif diag_singular or pinv_expected(case):
            for nm, lhs, rhs in (('A P A = A', M @ N @ M, M), ('P A P = P', N @ M @ N, N),
                                 ('(A P)^T = A P', (M @ N).T, M @ N), ('(P A)^T = P A', (N @ M).T, N @ M)):
                if np.abs(lhs - rhs).max() > tol:
                    return f'Penrose equation {nm} fails: {lhs.tolist()} vs {rhs.tolist()}'
        else:
            return None
        if obs.get('lazy_mat') is not None and not A.mat_close(obs['lazy_mat'], o['mat']):
            return f'as_matrix() of the lazy inverse {obs["lazy_mat"]} is not the inverse matrix {o["mat"]}'
        o2 = obs['II']
        if o2 is None or 'err' in o2:
            return f'op.I.I raised {o2 and o2.get("err")}'
        if o2.get('mat') is not None and not A.mat_close(o2['mat'], obs['ref'], tol=2e-4):
            return f'op.I.I has matrix {o2["mat"]}, op has {obs["ref"]}'
        if o2['in'] != o['out'] or o2['out'] != o['in']:
            return 'structures of op.I.I are not those of op'
        return None

    # -- the iterative-solver clause: tests, not theorems -------------------------------------------
    def extra(self):
        bad = {n: o.error for n, o in env().items() if isinstance(o, A.Unbuildable)}
        if bad:
            raise RuntimeError(f'operands of the alphabet cannot be constructed on this tree: {bad}')
        envv = dict(os.environ)
        envv['JAX_ENABLE_X64'] = '1'
        p = subprocess.run([sys.executable, str(Path(__file__).resolve()), '--cg', self.tier, str(self.seed)],
                           capture_output=True, text=True, timeout=1500, env=envv)
        if p.returncode != 0:
            raise RuntimeError('CG test process failed: ' + p.stderr[-1500:])
        rep = json.loads(p.stdout.strip().splitlines()[-1])
        fails = rep.pop('failures')
        rep['what'] = ('InverseOperator.mv on SPD Gram matrices B^T B + c I of integer matrices (sizes 2-40, condition number '
                       '<= 1e3, float64), several right-hand sides; the configuration (default CG / CG rtol=atol=1e-10 / 1e-8 / '
                       'Jacobi preconditioner / solver_throw / solver_callback) is established through furax.Config by a single block '
                       '(kind cg) and by nested and sibling blocks with the settings spread over the levels, the inverse created '
                       'in the innermost block and applied inside it, one level up, outside, or inside an unrelated block with a '
                       'loose solver, eagerly and under jit (kind cg-nested); criteria: the inverse holds the configuration in force '
                       'at its creation (reference: dict merge over the plan), |A z - y| <= 10 tol (1 + |y|) with tol = rtol of that '
                       'configuration, the configured callback ran once and saw the configured max_steps; TESTS of the convergence '
                       'clause, not a proof')
        return {'cg_solver_clause': rep,
                'failures': [{'case': f['case'], 'observation': f['observation'], 'oracle': f['oracle'], 'key': None} for f in fails]}


def obs_struct(obs, k):
    return obs['I'].get(k)


def pinv_expected(case) -> bool:
    """Block-diagonal operands all of whose singular blocks are diagonals: the result is the pseudo-inverse."""
    return case['name'] in ('BLz', 'BNn', 'BBn') or case['kind'] == 'blockdiag-random'


def oracle_mag(case, obs):
    """Exact oracle of the magnitude cases against the closed formula on the case data: the matrix of A is
    diag(d); the matrix of A.I is diag(1/d_i, 0 where d_i = 0) EXACTLY (reciprocals of powers of two are
    exact in every binary format as long as they are normal numbers); A.I.I has the matrix of A; A.I(A(x))
    and A(A.I(x)) are x on the non-zero entries and 0 elsewhere; no NaN/Inf."""
    d = expected_diag(case['mag'])
    n = len(d)
    cls = obs['op_class']

    def diag_of(mat, what):
        if mat is None or len(mat) != n or any(len(r) != n for r in mat):
            return None, f'{what} is not a {n} x {n} matrix: {mat}'
        for i in range(n):
            for j in range(n):
                if i != j and Fraction(mat[i][j]) != 0:
                    return None, f'{what} has the off-diagonal entry [{i}][{j}] = {mat[i][j]}'
        return [Fraction(mat[i][i]) for i in range(n)], None

    got, msg = diag_of(obs['ref'], f'the matrix of the operand ({cls})')
    if msg:
        return msg
    if got != d:
        if case['mag']['k'] == 'minv':
            return (f'the operand is D.I for the diagonal D = {fl(expected_diag(case["mag"]["of"]))}: its matrix has the diagonal '
                    f'{fl(got)}, the (pseudo-)inverse of D has {fl(d)}')
        return f'the operand ({cls}) does not have the diagonal it was built with: {fl(got)} vs {fl(d)}'
    o = obs['I']
    if 'err' in o:
        return f'inverse() of a square {cls} raised {o["err"]}'
    if o.get('finite') is False:
        return f'the matrix of {cls}.I contains NaN or Inf'
    if obs.get('pinv_values_finite') is False:
        return 'DiagonalInverseOperator.diagonal contains NaN or Inf'
    if o.get('mat') is None:
        return f'{cls}.I cannot be applied: {o.get("mat_error")}'
    want = [fpinv(x) for x in d]
    got, msg = diag_of(o['mat'], f'the matrix of {cls}.I')
    if msg:
        return msg
    for i in range(n):
        if got[i] != want[i]:
            kind = 'inverse' if all(x != 0 for x in d) else 'Moore-Penrose pseudo-inverse'
            return (f'entry {i} of the diagonal is {fl([d[i]])[0]} (exactly {d[i]}): the matrix of {cls}.I has {fl([got[i]])[0]} '
                    f'there, the {kind} has {fl([want[i]])[0]} (diagonal {fl(d)}; got {fl(got)})')
    am = obs.get('as_matrix')
    if not isinstance(am, list):
        return f'{cls}.I.as_matrix() failed: {am}'
    got, msg = diag_of(am, f'{cls}.I.as_matrix()')
    if msg:
        return msg
    if got != want:
        return f'{cls}.I.as_matrix() has the diagonal {fl(got)}, the (pseudo-)inverse of diag{fl(d)} has {fl(want)}'
    o2 = obs['II']
    if o2 is None or 'err' in o2:
        return f'op.I.I raised {o2 and o2.get("err")}'
    got, msg = diag_of(o2.get('mat'), 'the matrix of op.I.I')
    if msg:
        return msg
    if got != d:
        return f'op.I.I does not denote op: diagonal {fl(got)} vs {fl(d)}'
    if o2['in'] != o['out'] or o2['out'] != o['in']:
        return 'structures of op.I.I are not those of op'
    x = [XVEC[i % len(XVEC)] for i in range(n)]
    proj = [Fraction(x[i]) if d[i] != 0 else Fraction(0) for i in range(n)]
    for key, what in (('rt_left', 'A.I(A(x))'), ('rt_right', 'A(A.I(x))')):
        y = obs.get(key)
        try:
            ok = [Fraction(t) for t in y] == proj
        except Exception:
            ok = False
        if not ok:
            return f'{what} = {y} for x = {x}: expected x on the non-zero entries of the diagonal {fl(d)}, 0 elsewhere'
    return None


def fl(fr):
    return [float(x) for x in fr]


def tofloat(m) -> np.ndarray:
    if not m:
        return np.zeros((0, 0))
    return np.array([[float(Fraction(x)) for x in row] for row in m], dtype=np.float64)


def skel_close(a, b):
    """The implementation's skeleton with scalar parameters replaced by the model's when within 1e-4."""
    if not (isinstance(a, list) and isinstance(b, list) and len(a) == 4 and len(b) == 4):
        return a
    tag, oid, params, kids = a
    if tag != b[0] or oid != b[1] or len(params) != len(b[2]) or len(kids) != len(b[3]):
        return a
    ps = []
    for x, y in zip(params, b[2]):
        try:
            fx, fy = float(Fraction(x)), float(Fraction(y))
            ps.append(y if abs(fx - fy) <= 1e-4 * max(1.0, abs(fx)) else x)
        except Exception:
            ps.append(x)
    return [tag, oid, ps, [skel_close(k, kb) for k, kb in zip(kids, b[3])]]


# ---------------------------------------------------------------------------------------------
# helper process with jax_enable_x64 (the float64 cases and the CG tests cannot run in the default mode)

_helper: dict = {}


def helper_call(case):
    """Runs one case in a persistent helper process started with JAX_ENABLE_X64=1 (one per worker process)."""
    import tempfile

    p = _helper.get('p')
    if p is None or p.poll() is not None:
        envv = dict(os.environ)
        envv['JAX_ENABLE_X64'] = '1'
        log = tempfile.NamedTemporaryFile('w+', prefix='c06-x64-', suffix='.log', delete=False)
        p = subprocess.Popen([sys.executable, str(Path(__file__).resolve()), '--x64-server'], stdin=subprocess.PIPE,
                             stdout=subprocess.PIPE, stderr=log, text=True, env=envv)
        _helper.update(p=p, log=log.name)
        atexit.register(helper_stop)
    p.stdin.write(json.dumps(lib.pub(case), default=str) + '\n')
    p.stdin.flush()
    line = p.stdout.readline()
    if not line:
        tail = Path(_helper['log']).read_text()[-1500:]
        raise RuntimeError('x64 helper process died: ' + tail)
    rep = json.loads(line)
    if 'error' in rep:
        raise RuntimeError('x64 helper: ' + rep['error'])
    case.update(rep['private'])
    return rep['obs']


def helper_stop():
    p = _helper.pop('p', None)
    if p is not None:
        try:
            p.stdin.close()
            p.wait(timeout=20)
        except Exception:
            p.kill()
    log = _helper.pop('log', None)
    if log and os.path.exists(log):
        os.unlink(log)


x64_delegate = helper_call


def cg_delegate(case):
    import jax

    if jax.config.jax_enable_x64:
        return run_cg_case(case)
    return helper_call(case)


def x64_server():
    """Protocol: one JSON case per input line -> one JSON line {'obs', 'private'} (stdout is reserved for it)."""
    import traceback

    proto = os.fdopen(os.dup(sys.stdout.fileno()), 'w')
    sys.stdout = sys.stderr
    chk = Check('quick', 0)
    for line in sys.stdin:
        line = line.strip()
        if not line:
            continue
        try:
            case = json.loads(line)
            obs = lib.canon(chk.run_impl(case))
            rep = {'obs': obs, 'private': {k: v for k, v in case.items() if str(k).startswith('_')}}
        except Exception as e:
            rep = {'error': f'{type(e).__name__}: {e}\n{traceback.format_exc()[-1200:]}'}
        proto.write(json.dumps(rep, default=str) + '\n')
        proto.flush()


# ---------------------------------------------------------------------------------------------
# CG tests (helper process, float64): "A.I(y) solves A z = y to the CONFIGURED solver tolerance"
#
# A case is a concrete system (integer SPD matrix, right-hand sides) and a PLAN, the sequence of events that
# establishes the configuration: ['E', settings] enter `with Config(**settings)` / ['X'] leave the innermost
# block / ['N'] inv = A.I / ['A', route] apply inv to every right-hand side (route eager | jit).  Blocks still
# open at the end are closed.  The configured tolerance is that of the configuration in force at ['N'],
# computed by the oracle from the plan alone (dict merge over the defaults, innermost wins).

CG_SOLVERS = {'default': (1e-6, 1e-6, 500), 'tight': (1e-10, 1e-10, 2000), 'mid': (1e-8, 1e-8, 1500), 'loose': (1e-2, 1e-2, 600)}
CG_DEFAULTS = {'solver': 'default', 'options': 'none', 'throw': False, 'callback': 'default'}


def cg_expected(plan):
    """Configuration in force at the ['N'] event: independent reference (stack of dict updates)."""
    stack = [dict(CG_DEFAULTS)]
    for ev in plan:
        if ev[0] == 'E':
            stack.append({**stack[-1], **ev[1]})
        elif ev[0] == 'X':
            stack.pop()
        elif ev[0] == 'N':
            return dict(stack[-1])
    raise ValueError('plan without N')


def cg_system(rng, n):
    while True:
        B = rng.integers(-2, 3, size=(n + 1, n)).astype(np.float64)
        Amat = B.T @ B + (n if n <= 12 else 1) * np.eye(n)
        if np.linalg.cond(Amat) <= 1e3:
            return Amat


def cg_cases(tier: str, seed: int):
    rng = np.random.default_rng(seed + 606)
    quick = tier == 'quick'
    out = []

    def rhs_of(Amat, k):
        n = Amat.shape[0]
        r = [np.eye(n)[0], np.ones(n), rng.integers(-4, 5, size=n).astype(np.float64), Amat @ np.arange(1, n + 1)]
        return [v.tolist() for v in r[:k]] if k == 4 else [r[2].tolist(), r[3].tolist()]

    # configuration set in a single block, inverse applied outside it
    for n in range(2, 13):
        for _ in range(1 if quick else 4):
            Amat = cg_system(rng, n)
            for label, kw in (('default', {}), ('tight', {'solver': 'tight'}), ('jacobi', {'options': 'jacobi'})):
                out.append({'kind': 'cg', 'name': f'single-{label}-{n}', 'matrix': Amat.tolist(), 'rhs': rhs_of(Amat, 4),
                            'plan': [['E', {'callback': 'rec', **kw}], ['N'], ['X'], ['A', 'eager']]})
    # configuration established by nested / sibling blocks; inverse created in the innermost block and applied
    # inside it / one level up / outside every block / inside an unrelated later block with another solver
    k = 0
    for s in ('tight', 'mid'):
        layouts = {
            'outer-solver': [['E', {'solver': s}], ['E', {'callback': 'rec'}]],
            'outer-solver-inner-options': [['E', {'solver': s, 'callback': 'rec'}], ['E', {'options': 'jacobi'}]],
            'three-levels': [['E', {'callback': 'rec'}], ['E', {'solver': s}], ['E', {'throw': True}]],
            'inner-overrides': [['E', {'solver': 'loose'}], ['E', {'solver': s, 'callback': 'rec'}]],
            'outer-solver-and-options': [['E', {'solver': s, 'options': 'jacobi'}], ['E', {'callback': 'rec'}]],
            'three-levels-options-last': [['E', {'solver': s}], ['E', {'callback': 'rec'}], ['E', {'options': 'jacobi'}]],
            'sibling-before': [['E', {'solver': 'loose', 'callback': 'quiet'}], ['X'], ['E', {'callback': 'rec'}], ['E', {'solver': s}]],
            'sibling-inside': [['E', {'solver': s, 'callback': 'rec'}], ['E', {'solver': 'loose', 'callback': 'quiet'}], ['X'],
                               ['E', {'throw': False}]],
        }
        for lname, pre in layouts.items():
            depth = sum(e[0] == 'E' for e in pre) - sum(e[0] == 'X' for e in pre)
            wheres = {
                'inside': [['N'], ['A', 'eager']],
                'one-up': [['N'], ['X'], ['A', 'jit']],
                'outside': [['N']] + [['X']] * depth + [['A', 'eager']],
                'other-block': [['N']] + [['X']] * depth + [['E', {'solver': 'loose', 'callback': 'quiet'}], ['A', 'jit']],
            }
            for wname, post in wheres.items():
                for _ in range(1 if quick else 3):
                    k += 1
                    n = (6, 12, 24, 40, 17)[k % 5]
                    Amat = cg_system(rng, n)
                    out.append({'kind': 'cg-nested', 'name': f'{lname}-{s}-{wname}-{n}', 'matrix': Amat.tolist(),
                                'rhs': rhs_of(Amat, 2), 'plan': pre + post})
    return out


def run_cg_case(case):
    """Runs the plan on the real code (float64, jax_enable_x64)."""
    import contextlib

    import jax
    import jax.numpy as jnp
    import lineax as lx

    from furax import Config
    from furax._base.config import ConfigState, default_solver_callback
    from furax._base.dense import DenseBlockDiagonalOperator
    from furax._base.diagonal import DiagonalOperator

    assert jax.config.jax_enable_x64
    Amat = np.array(case['matrix'], dtype=np.float64)
    n = Amat.shape[0]
    sds = jax.ShapeDtypeStruct((n,), jnp.float64)
    op = DenseBlockDiagonalOperator(jnp.asarray(Amat), sds, 'ij,j->i')
    jacobi = DiagonalOperator(jnp.asarray(1.0 / np.diag(Amat)), in_structure=sds)
    solvers = {k: lx.CG(rtol=v[0], atol=v[1], max_steps=v[2]) for k, v in CG_SOLVERS.items() if k != 'default'}
    records = []

    def rec(solution):
        records.append({'num_steps': int(solution.stats['num_steps']), 'max_steps': int(solution.stats['max_steps'])})

    def quiet(solution):
        return None

    callbacks = {'rec': rec, 'quiet': quiet}

    def kwargs(st):
        kw = {}
        if 'solver' in st:
            kw['solver'] = solvers[st['solver']]
        if 'options' in st:
            kw['solver_options'] = {'preconditioner': jacobi} if st['options'] == 'jacobi' else {}
        if 'throw' in st:
            kw['solver_throw'] = st['throw']
        if 'callback' in st:
            kw['solver_callback'] = callbacks[st['callback']]
        return kw

    def describe(cfg):
        sv = cfg.solver
        name = next((k for k, v in solvers.items() if v is sv), None)
        if name is None:
            d = ConfigState().solver
            name = 'default' if (type(sv), sv.rtol, sv.atol, sv.max_steps) == (type(d), d.rtol, d.atol, d.max_steps) else repr(sv)
        pre = cfg.solver_options.get('preconditioner')
        cb = cfg.solver_callback
        return {'solver': name, 'solver_tolerances': f'rtol={sv.rtol:g} atol={sv.atol:g} max_steps={sv.max_steps}',
                'options': 'none' if not cfg.solver_options else ('jacobi' if pre is jacobi and len(cfg.solver_options) == 1 else 'other'),
                'throw': bool(cfg.solver_throw),
                'callback': next((k for k, v in callbacks.items() if v is cb), 'default' if cb is default_solver_callback else 'other')}

    obs = {'captured': None, 'applications': []}
    inv = None
    with contextlib.ExitStack() as outer:
        stack = []
        for ev in case['plan']:
            if ev[0] == 'E':
                es = contextlib.ExitStack()
                es.enter_context(Config(**kwargs(ev[1])))
                stack.append(es)
                outer.push(es)
            elif ev[0] == 'X':
                stack.pop().close()
            elif ev[0] == 'N':
                inv = op.I
                obs['captured'] = describe(inv.config)
            elif ev[0] == 'A':
                f = jax.jit(lambda v: inv(v)) if ev[1] == 'jit' else inv
                sols, stats = [], []
                for y in case['rhs']:
                    del records[:]
                    try:
                        z = np.asarray(f(jnp.asarray(np.array(y, dtype=np.float64))))
                        jax.effects_barrier()
                        sols.append([float(t) if np.isfinite(t) else str(t) for t in z])
                    except Exception as e:
                        sols.append(f'{type(e).__name__}: {str(e)[:200]}')
                    stats.append(list(records))
                obs['applications'].append({'route': ev[1], 'solutions': sols, 'callback_records': stats})
    return obs


def cg_solution(z):
    """Solution vector of an observation (canonical JSON: integers / 'n/d' strings) or None (exception, NaN, Inf)."""
    if isinstance(z, str):
        return None
    try:
        return np.array([float(Fraction(t)) for t in z], dtype=np.float64)
    except (ValueError, ZeroDivisionError):
        return None


def cg_residuals(case, obs):
    Amat = np.array(case['matrix'], dtype=np.float64)
    out = []
    for app in obs['applications']:
        for y, z in zip(case['rhs'], app['solutions']):
            v = cg_solution(z)
            out.append(float('inf') if v is None else float(np.linalg.norm(Amat @ v - np.array(y))))
    return out


def cg_oracle(case, obs):
    exp = cg_expected(case['plan'])
    rtol, atol, max_steps = CG_SOLVERS[exp['solver']]
    cap = obs['captured']
    got = {k: cap[k] for k in CG_DEFAULTS}
    wrong = None
    if got != exp:
        wrong = (f'the configuration in force where A.I is created is {exp} (plan {case["plan"]}) but the inverse solves with '
                 f'{got} ({cap["solver_tolerances"]})')
    Amat = np.array(case['matrix'], dtype=np.float64)
    for app in obs['applications']:
        for y, z, recs in zip(case['rhs'], app['solutions'], app['callback_records']):
            v = cg_solution(z)
            if v is None:
                return f'A.I(y) raised or is not finite: {z}'
            res = float(np.linalg.norm(Amat @ v - np.array(y, dtype=np.float64)))
            bound = 10 * rtol * (1 + float(np.linalg.norm(y)))
            if res > bound:
                return (f'InverseOperator.mv ({app["route"]}): residual |A z - y| = {res:.3e} exceeds 10*tol*(1+|y|) = {bound:.3e} for the '
                        f'configured solver {exp["solver"]} (rtol = atol = {rtol}); y = {y}' + (f'; {wrong}' if wrong else ''))
            if wrong:
                continue
            if exp['callback'] == 'rec':
                if len(recs) != 1:
                    return f'the configured solver_callback ran {len(recs)} times during one application ({app["route"]})'
                if recs[0]['max_steps'] != max_steps:
                    return (f'the solve ran with max_steps = {recs[0]["max_steps"]}, the configured solver {exp["solver"]} has '
                            f'max_steps = {max_steps}')
            elif recs:
                return f'a solver_callback that is not the configured one ({exp["callback"]}) ran: {recs}'
    return wrong


def cg_tests(tier: str, seed: int):
    cases = cg_cases(tier, seed)
    total, worst, fails = 0, 0.0, []
    kinds = {}
    for case in cases:
        obs = lib.canon(run_cg_case(case))
        msg = cg_oracle(case, obs)
        kinds[case['kind']] = kinds.get(case['kind'], 0) + 1
        rtol = CG_SOLVERS[cg_expected(case['plan'])['solver']][0]
        ys = [y for _ in obs['applications'] for y in case['rhs']]
        for y, res in zip(ys, cg_residuals(case, obs)):
            total += 1
            worst = max(worst, res / (10 * rtol * (1 + float(np.linalg.norm(y)))))
        if msg:
            fails.append({'case': case, 'observation': obs, 'oracle': msg})
    sizes = sorted({len(c['matrix']) for c in cases})
    return {'systems': total, 'cases': kinds, 'worst_residual_over_bound': worst, 'sizes': [sizes[0], sizes[-1]],
            'failures': fails[:5]}


if __name__ == '__main__':
    if len(sys.argv) >= 4 and sys.argv[1] == '--cg':
        sys.stdout = sys.stderr
        rep = json.dumps(cg_tests(sys.argv[2], int(sys.argv[3])))
        sys.stdout = sys.__stdout__
        print(rep)
    elif len(sys.argv) >= 2 and sys.argv[1] == '--x64-server':
        x64_server()
