"""C06 - inverses invert.

Real code: `op.I` / `op.inverse()` of every operator class (core.py AbstractLinearOperator.inverse ->
InverseOperator, AbstractLazyInverseOperator.inverse / as_matrix, HomothetyOperator.inverse, @orthogonal;
diagonal.py DiagonalOperator.inverse / DiagonalInverseOperator; blocks.py BlockDiagonalOperator.inverse;
axes.py MoveAxisOperator.inverse; qu_rotations.py) on the shared operand alphabet (harness/alg_cases.py)
extended with the parameter scopes of the closed forms.  Model: Model/Inverse.v `inverse_r` evaluated on
the encoded operands, observed through `observe_inv` (op.I, op.I.I, as_matrix() of a lazy inverse).
Oracle: NumPy - mat(op.I) @ mat(op) = I = mat(op) @ mat(op.I) (Penrose equations for diagonals with
zeros), finiteness, refusal of non-square operands, op.I.I denotes op.

MAGNITUDE scopes (`kind` magnitude-*): every closed-form inverse whose parameters are numbers (scalar,
diagonal entries, block entries) is run over the magnitude range of its dtype - signed powers of two from
the smallest normal number to the largest one whose reciprocal is normal (2^-126..2^126 in float32,
2^-1022..2^1022 in float64, float64 and float32 under jax_enable_x64 in a helper process), mixed with
exact zeros and ordinary values.  Reciprocals of powers of two are exact, so these cases are compared
EXACTLY (no tolerance anywhere: exact rationals of the measured floats on the implementation side, Qc in
the model, whose `pinv` is decided by `= 0` in the field - any cut-off, regularisation or overflow in the
implementation is a disagreement) and the oracle is the closed formula 1/d (0 at zeros) on the case data.

MIXED-PRECISION scopes (`kind` mixed-*): the closed forms with floating parameters (QU rotations and their
lazy transposes, diagonals, scalars, block-diagonal containers of them) over jax_enable_x64 off / on x the
representation of the parameters (jax / NumPy arrays in float32 / float64, Python floats) x the dtype of the
data x the magnitude of the parameters (angles up to 1e6 rad, entries from 1e-4 to 1e6, generic values).
Not expressible exactly in the model: implementation-side oracle only (oracle_mixed) - A.I(A(x)) = x = A(A.I(x))
at the rounding level of the dtypes involved, and mv of A / A.I / A.I.I on the basis and A.I.as_matrix() against
dense float64 NumPy linear algebra on the matrix computed from the parameters by the closed formula.

The clause "A.I(y) solves A z = y to the configured solver tolerance" (lineax CG in floating point) is
NOT a theorem: `extra()` tests it numerically (reported under numerical_tests_not_proof), with the
configuration established by a single block AND by nested / sibling `with Config(...)` blocks, and (kind
cg-seq) on SEQUENCES of differently configured inverses of identical array structure passed as ARGUMENTS to
one jitted function (the configuration is static pytree metadata, i.e. part of the jit cache key).
"""
from __future__ import annotations

import atexit
import itertools
import json
import math
import os
import subprocess
import sys
from fractions import Fraction
from pathlib import Path

import numpy as np

import alg_cases as G
import algebra as A
import lib
from lib import PropertyCheck

sys.path.insert(0, str(lib.VERIF / 'tools' / 'translate'))

IQU = lambda n: {'stokes': 'IQU', 'shape': [n]}  # noqa: E731

DIAG_BASE = [2, -4, 0.5, 8]


def _own_let():
    let = {}
    # scalars: negative, fractions, on leaves / Stokes / dict structures
    for name, v in (('Hn4', -4), ('Hq', 0.25), ('H3r', 3), ('Hm1h', -1.5), ('H8', 8)):
        let[name] = {'k': 'homoth', 'v': v, 's': [2]}
    let['HsQ'] = {'k': 'homoth', 'v': -0.5, 's': IQU(2)}
    let['Hd'] = {'k': 'homoth', 'v': 4, 's': {'dict': {'a': [2], 'b': [1, 2]}}}
    # diagonals: every zero pattern for n <= 4
    for n in range(1, 5):
        for mask in itertools.product([1, 0], repeat=n):
            v = [DIAG_BASE[i] * mask[i] for i in range(n)]
            let['Dz%d_%s' % (n, ''.join(map(str, mask)))] = {'k': 'diag', 'v': v, 's': [n]}
    # diagonals laid along an axis of a 2-d leaf / of the leaves of a pytree
    let['D23a0'] = {'k': 'diag', 'v': [2, 0], 's': [2, 3], 'axis': 0}
    let['D23a1'] = {'k': 'diag', 'v': [1, -2, 4], 's': [2, 3], 'axis': -1}
    let['Dt2'] = {'k': 'diag', 'v': [4, 0.5], 's': {'list': [[2], [2, 2]]}, 'axis': 0}
    # move-axis: every single-axis pair on ranks 2 (two shapes) and 3, some two-axis tuples
    for shp, tag in (([2, 3], 'a'), ([2, 2], 'q')):
        for s in range(-2, 2):
            for d in range(-2, 2):
                let[f'M{tag}_{s}_{d}'.replace('-', 'm')] = {'k': 'moveaxis', 'src': s, 'dst': d, 's': shp}
    for s in range(-3, 3):
        for d in range(-3, 3):
            let[f'Mr3_{s}_{d}'.replace('-', 'm')] = {'k': 'moveaxis', 'src': s, 'dst': d, 's': [2, 3, 2]}
    for src in itertools.permutations(range(-3, 3), 2):
        if len({a % 3 for a in src}) < 2:
            continue
        for dst in itertools.permutations(range(-3, 3), 2):
            if len({a % 3 for a in dst}) < 2:
                continue
            let[f'Mt3_{src[0]}_{src[1]}_{dst[0]}_{dst[1]}'.replace('-', 'm')] = {
                'k': 'moveaxis', 'src': list(src), 'dst': list(dst), 's': [2, 3, 2]}
    let['Mpt'] = {'k': 'moveaxis', 'src': 0, 'dst': -1, 's': {'list': [[2, 3], [2, 3, 2]]}}
    # rotations: k*pi/4 for all residues, vectors of angles, generic angles (pi/12, -pi/12 * 5 ...)
    for k in range(-3, 5):
        let[f'Rq{k}'.replace('-', 'm')] = {'k': 'qurot', 'stokes': 'IQU', 'shape': [1], 'q': [k]}
    let['Rqu'] = {'k': 'qurot', 'stokes': 'QU', 'shape': [3], 'q': [1, -2, 3], 'vec': True}
    let['Rv'] = {'k': 'qurot', 'stokes': 'IQUV', 'shape': [2], 'q': [2, -1], 'vec': True}
    let['Ri'] = {'k': 'qurot', 'stokes': 'I', 'shape': [2], 'q': [1]}
    let['Rg1'] = {'k': 'qurot', 'stokes': 'IQU', 'shape': [1], 'q': [Fraction(1, 3)]}
    let['Rg2'] = {'k': 'qurot', 'stokes': 'QU', 'shape': [2], 'q': [Fraction(-5, 3), Fraction(7, 16)], 'vec': True}
    let['Rg1T'] = {'k': 'expr', 'e': {'T': 'Rg1'}}
    # block-diagonal operators of closed-form blocks over list / tuple / dict / nested containers
    let['Dz2'] = {'k': 'diag', 'v': [2, 0], 's': [2]}
    let['BLh'] = {'k': 'bdiagop', 'blocks': ['H2', 'D2', 'Hq']}
    let['BLz'] = {'k': 'bdiagop', 'blocks': ['Dz2', 'H2']}
    let['BTq'] = {'k': 'bdiagop', 'blocks': {'tuple': ['Q1', 'Hs', 'Is']}}
    let['BDc'] = {'k': 'bdiagop', 'blocks': {'dict': {'z': 'D2', 'a': 'Mq_0_1', 'm': 'Hn4'}}}
    let['BNn'] = {'k': 'bdiagop', 'blocks': [['H2', {'tuple': ['D2', 'Dz2']}], {'dict': {'k': 'Hq'}}]}
    let['BLl'] = {'k': 'bdiagop', 'blocks': ['S22', 'D2', 'H2']}          # one block without closed form
    let['BLi'] = {'k': 'bdiagop', 'blocks': ['S22I', 'D2I', 'Q1T']}       # blocks that are lazy inverses
    let['BLw'] = {'k': 'bdiagop', 'blocks': ['H2', 'A23']}                # a non-square block: default, refused
    let['BLm'] = {'k': 'bdiagop', 'blocks': ['Ma_0_1', 'H2']}            # non-square move-axis block
    let['BB'] = {'k': 'bdiagop', 'blocks': ['BLh', 'H2']}                 # block-diagonal of block-diagonal
    let['BBn'] = {'k': 'bdiagop', 'blocks': {'dict': {'x': 'BNn', 'y': ['BLz', 'Q1']}}}
    let['BBl'] = {'k': 'bdiagop', 'blocks': ['BD', 'D2']}                 # nested, inner blocks lazy
    # composite square operands without closed form (default lazy inverse of the REDUCED operand)
    let['C_SA'] = {'k': 'expr', 'e': {'mm': ['S22', 'A22']}}
    let['C_MM'] = {'k': 'expr', 'e': {'comp': ['M32', 'M23']}}            # reduces to the identity
    let['C_QQ'] = {'k': 'expr', 'e': {'comp': ['Q1', 'Q2']}}              # reduces to one rotation
    let['C_HSH'] = {'k': 'expr', 'e': {'comp': ['H2', 'S22', 'Hh2']}}     # scalars merged and relocated
    let['C_II'] = {'k': 'expr', 'e': {'comp': ['I2', 'S22', 'I2']}}
    let['C_SIS'] = {'k': 'expr', 'e': {'comp': ['S22I', 'S22', 'B22']}}   # the rule removes S22.I @ S22
    let['Ad_AB'] = {'k': 'expr', 'e': {'add': ['A22', 'B22']}}
    let['Ad_1'] = {'k': 'expr', 'e': {'sum': ['S22']}}                    # single-operand sum reduces to S22
    let['Sm'] = {'k': 'expr', 'e': {'smul': [2, 'S22']}}
    let['A22T'] = {'k': 'expr', 'e': {'T': 'A22'}}
    let['S22II'] = {'k': 'expr', 'e': {'I': 'C_II'}}                      # InverseOperator(S22) built from C_II
    let['Tz'] = {'k': 'toeplitz', 'band': [4, 1], 's': [3]}
    return let


def frac_to_float(d):
    """q entries of the own operands may be Fractions (units of pi/4)."""
    if isinstance(d, dict):
        return {k: frac_to_float(v) for k, v in d.items()}
    if isinstance(d, list):
        return [frac_to_float(v) for v in d]
    if isinstance(d, Fraction):
        return float(d)
    return d


LET = dict(G.LET)
LET.update(frac_to_float(_own_let()))
OWN = set(_own_let())

_env: dict = {}


def env():
    if not _env:
        _env.update(A.build_env(LET))
    return _env


POOL = ['H2', 'Hq', 'Hn4', 'D2', 'Dz2', 'Dz3_101', 'Q1', 'Rq3', 'Mq_0_1', 'I2', 'S22', 'BLh', 'BLz', 'S22I', 'D2I', 'Q1T', 'W', 'Tz']


def random_container(rng, depth):
    n = rng.randint(1, 3)
    kids = []
    for _ in range(n):
        if depth < 2 and rng.random() < 0.35:
            kids.append(random_container(rng, depth + 1))
        else:
            kids.append(rng.choice(POOL))
    kind = rng.choice(['list', 'tuple', 'dict'])
    if kind == 'list':
        return kids
    if kind == 'tuple':
        return {'tuple': kids}
    return {'dict': {f'k{i}': v for i, v in enumerate(kids)}}


_built: dict = {}


def operand(case):
    if 'mag' not in case and 'desc' not in case:
        return env()[case['name']]
    key = json.dumps(case.get('mag') or case['desc'], sort_keys=True)
    if key not in _built:
        try:
            _built[key] = build_mag(case['mag']) if 'mag' in case else A.build_operand(case['desc'], env())
        except Exception as e:
            _built[key] = A.Unbuildable(case['name'], e)
    return _built[key]


def category(name: str) -> str:
    d = LET[name]
    k = d['k']
    if name.startswith('Dz') or k == 'diag':
        return 'diagonal'
    if k == 'homoth':
        return 'scalar'
    if k == 'moveaxis':
        return 'moveaxis'
    if k == 'qurot':
        return 'rotation'
    if k == 'bdiagop':
        return 'blockdiag'
    if k == 'ident':
        return 'identity'
    if k == 'expr':
        (kind, _), = d['e'].items()
        return {'I': 'lazy-inverse-wrapper', 'T': 'lazy-transpose'}.get(kind, 'composite')
    return 'other'


# ---------------------------------------------------------------------------------------------
# magnitude scopes of the closed forms: signed powers of two over the whole normal range of the dtype,
# exact zeros, ordinary values.  Everything about these cases is EXACT (see the module docstring).

# exponents e such that 2^e AND 2^-e are normal numbers of the dtype (XLA on CPU flushes subnormals to
# zero, so 1/2^127 = 0 in float32: outside the scope), dense around the machine epsilon and at both ends
LADDER = {
    'float32': [-126, -125, -120, -100, -64, -40, -30, -25, -24, -23, -22, -16, -10, -3, 0,
                3, 10, 16, 22, 23, 24, 25, 30, 40, 64, 100, 120, 125, 126],
    'float64': [-1022, -1021, -1000, -600, -300, -150, -100, -64, -60, -54, -53, -52, -51, -30, -10, 0,
                10, 30, 51, 52, 53, 54, 60, 64, 100, 150, 300, 600, 1000, 1021, 1022],
}
ORDINARY = ['+2^1', '-2^2', '+2^-1', '+2^3', '+2^0', '-2^0']
XVEC = [1, -2, 3, 1, 2, -1, -3]  # right-hand side of the round trips (3 * 2^126 is finite in float32)


def pw(e: int, neg: bool = False) -> str:
    return ('-' if neg else '+') + f'2^{e}'


def val(v) -> Fraction:
    """Value spec of a magnitude case: 0 | small integer / dyadic | '+2^e' | '-2^e'."""
    if isinstance(v, str):
        sign = -1 if v[0] == '-' else 1
        return sign * Fraction(2) ** int(v.split('^')[1])
    return Fraction(v)


def with_dtype(desc, dt):
    """Structure description (alg. mk_struct syntax) with every leaf given the dtype dt."""
    if isinstance(desc, list) and all(isinstance(i, int) for i in desc):
        return {'shape': desc, 'dtype': dt}
    if isinstance(desc, list):
        return [with_dtype(d, dt) for d in desc]
    if 'stokes' in desc:
        return dict(desc, dtype=dt)
    (k, v), = desc.items()
    if k == 'dict':
        return {'dict': {kk: with_dtype(vv, dt) for kk, vv in v.items()}}
    return {k: [with_dtype(d, dt) for d in v]}


def leaf_shapes(desc):
    """Shapes of the leaves of a structure description, in jax flattening order."""
    if isinstance(desc, list) and all(isinstance(i, int) for i in desc):
        return [tuple(desc)]
    if isinstance(desc, list):
        return [s for d in desc for s in leaf_shapes(d)]
    if 'stokes' in desc:
        return [tuple(desc['shape'])] * len(desc['stokes'])
    (k, v), = desc.items()
    if k == 'dict':
        return [s for kk in sorted(v) for s in leaf_shapes(v[kk])]
    return [s for d in v for s in leaf_shapes(d)]


def mag_children(c):
    """Children of one container level of a block description (None: a block)."""
    if isinstance(c, list):
        return c
    if 'k' in c:
        return None
    if 'tuple' in c:
        return c['tuple']
    return [c['dict'][k] for k in sorted(c['dict'])]


def mag_array(values, dt):
    jnp = A.J()['jnp']
    a = np.array([float(val(v)) for v in values], dtype=np.dtype(dt))
    assert all(Fraction(float(x)) == val(v) for x, v in zip(a, values)), 'value not representable in ' + dt
    return jnp.asarray(a)


def build_mag(d):
    """Real operator of a magnitude description: mhomoth / mdiag / mbdiag (containers of descriptions) /
    minv (the closed-form inverse object of a description, as an operand)."""
    j = A.J()
    k = d['k']
    if k == 'mhomoth':
        return j['core'].HomothetyOperator(mag_array([d['v']], d['dt'])[0], A.mk_struct(with_dtype(d['s'], d['dt'])))
    if k == 'mdiag':
        return j['diagonal'].DiagonalOperator(mag_array(d['v'], d['dt']), axis_destination=d.get('axis', 0),
                                              in_structure=A.mk_struct(with_dtype(d['s'], d['dt'])))
    if k == 'minv':
        return build_mag(d['of']).I
    if k == 'mbdiag':
        def cont(c):
            if isinstance(c, list):
                return [cont(x) for x in c]
            if 'k' in c:
                return build_mag(c)
            if 'tuple' in c:
                return tuple(cont(x) for x in c['tuple'])
            return {kk: cont(vv) for kk, vv in c['dict'].items()}
        return j['blocks'].BlockDiagonalOperator(cont(d['blocks']))
    raise ValueError(d)


def expected_diag(d) -> list:
    """CLOSED FORMULA (independent of the implementation): the diagonal of the dense matrix of a magnitude
    description, as exact rationals."""
    k = d['k']
    if k == 'mhomoth':
        return [val(d['v'])] * sum(int(np.prod(s)) for s in leaf_shapes(d['s']))
    if k == 'mdiag':
        v = [val(x) for x in d['v']]
        out = []
        for shp in leaf_shapes(d['s']):
            ax = d.get('axis', 0) % len(shp)
            assert shp[ax] == len(v)
            for idx in np.ndindex(*shp):
                out.append(v[idx[ax]])
        return out
    if k == 'minv':
        return [fpinv(x) for x in expected_diag(d['of'])]
    if k == 'mbdiag':
        def walk(c):
            kids = mag_children(c)
            if kids is None:
                return expected_diag(c)
            return [x for kid in kids for x in walk(kid)]
        return walk(d['blocks'])
    raise ValueError(d)


def mag_weight(d) -> int:
    """Largest |exponent| in a magnitude description."""
    if isinstance(d, str):
        return abs(int(d.split('^')[1])) if '^' in d else 0
    if isinstance(d, dict):
        return max([mag_weight(v) for v in d.values()] or [0])
    if isinstance(d, list):
        return max([mag_weight(v) for v in d] or [0])
    return 0


def fpinv(x: Fraction) -> Fraction:
    return Fraction(0) if x == 0 else 1 / x


def exact_matrix(m):
    return [[Fraction(float(v)) for v in row] for row in np.asarray(m, dtype=np.float64)]


def tree_from_flat(struct, vec):
    j = A.J()
    jax, jnp = j['jax'], j['jnp']
    leaves, treedef = jax.tree.flatten(struct)
    out, pos = [], 0
    for l in leaves:
        size = int(np.prod(l.shape))
        out.append(jnp.asarray(np.array(vec[pos:pos + size], dtype=np.dtype(l.dtype)).reshape(l.shape)))
        pos += size
    return jax.tree.unflatten(treedef, out)


_enc_cls = {}


def exact_encoder():
    """algebra.Encoder with the measured matrices and the scalar parameters kept as the exact rationals
    of the floats (algebra.to_frac rounds to denominators <= 4096: 2^-30 would become 0)."""
    if 'c' not in _enc_cls:
        class ExactEncoder(A.Encoder):
            def add_table(self, key, op):
                if key not in self.table:
                    self.table[key] = exact_matrix(A.leaf_matrix(op))

            def term(self, op):
                if isinstance(op, A.J()['core'].HomothetyOperator):
                    return (f'(Homoth {self.oid(op)} {A.cqc(Fraction(float(op.value)))} '
                            f'{A.struct_coq(op.in_structure())})')
                return super().term(op)

        _enc_cls['c'] = ExactEncoder
    return _enc_cls['c']()


def skeleton_x(op, enc):
    """algebra.skeleton with exact scalar parameters."""
    j = A.J()
    core, blocks = j['core'], j['blocks']
    i = enc.known(op)
    name = type(op).__name__
    if isinstance(op, core.HomothetyOperator):
        v = np.asarray(op.value)
        if v.shape != () or not np.isfinite(v):
            return [name, i, [f'not a finite scalar: {v}'], []]
        return [name, i, [A.frac_json(Fraction(float(v)))], []]
    if isinstance(op, core.CompositionOperator):
        return [name, i, [], [skeleton_x(o, enc) for o in op.operands]]
    if isinstance(op, core.AdditionOperator):
        return [name, i, [], [skeleton_x(o, enc) for o in op.operand_leaves]]
    if isinstance(op, blocks.AbstractBlockOperator):
        return [name, i, [], [skeleton_x(o, enc) for o in op.block_leaves]]
    if A.wrap_kind(op) is not None:
        return [name, i, [], [skeleton_x(op.operator, enc)]]
    return A.skeleton(op, enc)


def random_mag_leaf(rng, dt, allow_inv=True):
    L = LADDER[dt]
    lo, hi = L[0], L[-1]
    r = rng.random()
    if r < 0.3:
        return {'k': 'mhomoth', 'v': pw(rng.randint(lo, hi), rng.random() < 0.5), 's': [rng.randint(1, 2)], 'dt': dt}
    n = rng.randint(1, 3)
    v = [0 if rng.random() < 0.2 else (rng.choice(ORDINARY) if rng.random() < 0.2 else pw(rng.randint(lo, hi), rng.random() < 0.5))
         for _ in range(n)]
    dg = {'k': 'mdiag', 'v': v, 's': [n], 'dt': dt}
    if allow_inv and r > 0.85:
        return {'k': 'minv', 'of': dg}
    return dg


def random_mag_container(rng, dt, depth=0):
    kids = []
    for _ in range(rng.randint(1, 3)):
        if depth < 2 and rng.random() < 0.3:
            kids.append(random_mag_container(rng, dt, depth + 1))
        elif depth < 2 and rng.random() < 0.15:
            kids.append({'k': 'mbdiag', 'blocks': random_mag_container(rng, dt, depth + 1)})
        else:
            kids.append(random_mag_leaf(rng, dt))
    kind = rng.choice(['list', 'tuple', 'dict'])
    if kind == 'list':
        return kids
    if kind == 'tuple':
        return {'tuple': kids}
    return {'dict': {f'k{i}': v for i, v in enumerate(kids)}}


def mag_cases(rng, quick: bool):
    """The magnitude scopes: (dtype, jax_enable_x64) in float32 / float64+x64 / float32+x64."""
    out = []
    structs = [[2], [1], {'dict': {'a': [2], 'b': [1, 2]}}, {'stokes': 'IQU', 'shape': [1]}, [[1], [2]]]
    for dt, x64 in (('float32', False), ('float64', True), ('float32', True)):
        L = LADDER[dt]
        n = len(L)
        tag = dt[-2:] + ('x' if (x64 and dt == 'float32') else '')
        keep = (lambda i: True) if not (x64 and dt == 'float32') else (lambda i: i % (4 if quick else 2) == 0)

        def add(kind, name, desc):
            out.append({'kind': kind, 'name': f'{name}{tag}', 'mag': desc, 'x64': x64})
        # scalars: the whole ladder, signs alternating, leaf / dict / Stokes / list structures
        for i, e in enumerate(L):
            if keep(i):
                add('magnitude-scalar', f'MH{i}_', {'k': 'mhomoth', 'v': pw(e, i % 2 == 1), 's': structs[i % len(structs)], 'dt': dt})
        # diagonals: a window sliding over the ladder - tiny, zero, ordinary, huge, signs - at rotating positions;
        # every third one without zero (invertible)
        for i in range(n):
            if not keep(i):
                continue
            v = [pw(L[i]), 0, ORDINARY[i % len(ORDINARY)], pw(L[n - 1 - i], True), pw(L[(i + n // 3) % n], i % 3 == 0)]
            if i % 3 == 1:
                v.remove(0)
            v = v[i % len(v):] + v[:i % len(v)]
            add('magnitude-diagonal', f'MD{i}_', {'k': 'mdiag', 'v': v, 's': [len(v)], 'dt': dt})
        # the closed-form inverse object as an operand (D.I).I, diagonals along axes of 2-d leaves and pytrees
        for i in range(0, n, 5):
            if not keep(i):
                continue
            a, b, c = pw(L[i], i % 2 == 0), pw(L[n - 1 - i]), pw(L[(i + 7) % n], True)
            add('magnitude-diagonal', f'MI{i}_', {'k': 'minv', 'of': {'k': 'mdiag', 'v': [a, 0, b, c], 's': [4], 'dt': dt}})
            add('magnitude-diagonal', f'MA{i}_', {'k': 'mdiag', 'v': [a, b], 's': [2, 3], 'axis': 0, 'dt': dt})
            add('magnitude-diagonal', f'MB{i}_', {'k': 'mdiag', 'v': [c, 0, a], 's': [2, 3], 'axis': -1, 'dt': dt})
            add('magnitude-diagonal', f'MT{i}_', {'k': 'mdiag', 'v': [b, c], 's': {'list': [[2], [2, 2]]}, 'axis': 0, 'dt': dt})
        # seeded random: diagonals with exponents uniform over the range, block-diagonal containers
        nr = (4 if quick else 40) if (x64 and dt == 'float32') else (10 if quick else 120)
        for k in range(nr):
            m = rng.randint(1, 6)
            v = [0 if rng.random() < 0.15 else pw(rng.randint(L[0], L[-1]), rng.random() < 0.5) for _ in range(m)]
            add('magnitude-diagonal', f'MR{k}_', {'k': 'mdiag', 'v': v, 's': [m], 'dt': dt})
        for k in range(nr):
            add('magnitude-blockdiag', f'MK{k}_', {'k': 'mbdiag', 'blocks': random_mag_container(rng, dt)})
    return out


# ---------------------------------------------------------------------------------------------
# MIXED-PRECISION scopes of the closed forms with floating parameters (kind mixed-*): QU rotations (and their
# lazy transposes), diagonals, scalars and block-diagonal containers of them, over
#   jax_enable_x64 off / on  x  representation of the PARAMETERS  x  dtype of the DATA  x  magnitude of the
#   parameters (angles of up to 1e6 rad - unwrapped angles of a rotating plate -, entries from 1e-4 to 1e6).
# The parameters are generic (not dyadic) numbers, so nothing here is exact: these cases are NOT compared with the
# Coq model; the oracle (oracle_mixed) compares the real code with dense float64 NumPy linear algebra on the
# matrix computed from the parameters by the closed formula, at the rounding level of the dtypes involved.

# how a parameter is handed to the constructor: jax arrays, NumPy arrays (kept as they are by the operator:
# an equinox field), Python floats (weakly typed)
PKINDS_X64 = ['jnp64', 'np64', 'jnp32', 'np32']
PKINDS_X32 = ['jnp32', 'np64']
EPS = {'float32': 2.0 ** -23, 'float64': 2.0 ** -52}


def param_dtype(pk: str, x64: bool) -> str:
    """Precision in which a parameter handed over as `pk` takes part in the arithmetic."""
    if not x64 or pk in ('jnp32', 'np32'):
        return 'float32'
    return 'float64'


def param_values(values, pk: str, x64: bool) -> np.ndarray:
    """REFERENCE: the parameter values that the operator denotes, in float64 (a value handed over in float32, or
    in any form when jax_enable_x64 is off, is the float32 number nearest to the case datum)."""
    a = np.asarray(values, dtype=np.float64)
    return a.astype(np.float32).astype(np.float64) if param_dtype(pk, x64) == 'float32' else a


def mk_param(values, pk: str, scalar: bool):
    jnp = A.J()['jnp']
    a = np.asarray(values, dtype=np.float64)
    if scalar:
        a = a.reshape(())
    if pk == 'py':
        return float(a)
    if pk.startswith('np'):
        return a.astype(np.float32 if pk == 'np32' else np.float64)
    return jnp.asarray(a, dtype=jnp.float32 if pk == 'jnp32' else jnp.float64)


def build_mixed(d):
    """Real operator of a mixed-precision description."""
    j = A.J()
    k = d['k']
    if k == 'xrot':
        s = A.mk_struct({'stokes': d['stokes'], 'shape': d['shape'], 'dtype': d['ddt']})
        op = j['qu'].QURotationOperator(mk_param(d['angles'], d['pk'], d.get('scalar', False)), s)
        return op.T if d.get('transposed') else op
    if k == 'xdiag':
        return j['diagonal'].DiagonalOperator(mk_param(d['v'], d['pk'], False), axis_destination=d.get('axis', 0),
                                              in_structure=A.mk_struct(with_dtype(d['s'], d['ddt'])))
    if k == 'xhomoth':
        return j['core'].HomothetyOperator(mk_param(d['v'], d['pk'], True), A.mk_struct(with_dtype(d['s'], d['ddt'])))
    if k == 'xinv':
        return build_mixed(d['of']).I
    if k == 'xbdiag':
        def cont(c):
            if isinstance(c, list):
                return [cont(x) for x in c]
            if 'k' in c:
                return build_mixed(c)
            if 'tuple' in c:
                return tuple(cont(x) for x in c['tuple'])
            return {kk: cont(vv) for kk, vv in c['dict'].items()}
        return j['blocks'].BlockDiagonalOperator(cont(d['blocks']))
    raise ValueError(d)


def mixed_ref(d, x64: bool) -> np.ndarray:
    """CLOSED FORMULA (independent of the implementation): the dense float64 matrix of a mixed description, from
    its parameters; inputs and outputs flattened leaf after leaf (I, Q, U, V for Stokes pytrees)."""
    import scipy.linalg

    k = d['k']
    if k == 'xrot':
        n = int(np.prod(d['shape']))
        a = param_values(d['angles'], d['pk'], x64).reshape(-1)
        a = np.full(n, a[0]) if d.get('scalar') else a
        assert a.shape == (n,)
        st = d['stokes']
        m = np.eye(n * len(st))
        if 'Q' in st:
            q, u = st.index('Q') * n, st.index('U') * n
            for i in range(n):
                c, s = math.cos(2 * a[i]), math.sin(2 * a[i])
                m[q + i, q + i], m[q + i, u + i], m[u + i, q + i], m[u + i, u + i] = c, -s, s, c
        return m.T if d.get('transposed') else m
    if k == 'xdiag':
        v = param_values(d['v'], d['pk'], x64)
        out = []
        for shp in leaf_shapes(d['s']):
            ax = d.get('axis', 0) % len(shp)
            assert shp[ax] == len(v)
            out += [v[idx[ax]] for idx in np.ndindex(*shp)]
        return np.diag(np.array(out))
    if k == 'xhomoth':
        v = float(param_values(d['v'], d['pk'], x64).reshape(()))
        return v * np.eye(sum(int(np.prod(s)) for s in leaf_shapes(d['s'])))
    if k == 'xinv':
        return ref_inverse(mixed_ref(d['of'], x64))
    if k == 'xbdiag':
        def walk(c):
            kids = mag_children(c)
            if kids is None:
                return [mixed_ref(c, x64)]
            return [m for kid in kids for m in walk(kid)]
        return scipy.linalg.block_diag(*walk(d['blocks']))
    raise ValueError(d)


def ref_inverse(m: np.ndarray) -> np.ndarray:
    """NumPy inverse; Moore-Penrose pseudo-inverse when the matrix (diagonal entries equal to zero) is singular."""
    if m.size and np.all(np.abs(m).sum(axis=0) != 0) and np.all(np.abs(m).sum(axis=1) != 0):
        return np.linalg.inv(m)
    return np.linalg.pinv(m, rcond=1e-40)


def mixed_eps(d, x64: bool) -> float:
    """Coarsest rounding unit among the parameter and data dtypes of a description."""
    k = d['k']
    if k == 'xinv':
        return mixed_eps(d['of'], x64)
    if k == 'xbdiag':
        def walk(c):
            kids = mag_children(c)
            if kids is None:
                return mixed_eps(c, x64)
            return max(walk(kid) for kid in kids)
        return walk(d['blocks'])
    return max(EPS[param_dtype(d['pk'], x64)], EPS[d['ddt'] if x64 else 'float32'])


def run_mixed(case):
    """Observation of a mixed-precision case on the real code: dense matrices of A, A.I, A.I.I (mv on the basis, in
    the dtypes of the structure), A.I.as_matrix(), the two round trips on a vector of small integers."""
    d = case['mixed']
    jax = A.J()['jax']
    assert bool(jax.config.jax_enable_x64) == bool(case.get('x64'))
    try:
        op = build_mixed(d)
    except Exception as e:
        return {'build_error': f'{type(e).__name__}: {str(e)[:300]}'}
    obs = {'op_class': type(op).__name__, 'x64': bool(jax.config.jax_enable_x64)}

    def num(a):
        a = np.asarray(a, dtype=np.float64)
        return a.tolist() if np.all(np.isfinite(a)) else [[str(t) for t in r] for r in np.atleast_2d(a)]

    def attempt(key, f):
        try:
            obs[key] = f()
        except Exception as e:
            obs[key] = f'{type(e).__name__}: {str(e)[:300]}'

    attempt('M', lambda: num(A.dense(op)))
    try:
        inv = op.I
    except Exception as e:
        obs['I_error'] = f'{type(e).__name__}: {str(e)[:300]}'
        return obs
    obs['inv_class'] = type(inv).__name__
    obs['square'] = A.struct_repr(op.in_structure()) == A.struct_repr(op.out_structure())
    attempt('N', lambda: num(A.dense(inv)))
    attempt('as_matrix', lambda: num(np.asarray(inv.as_matrix())))
    attempt('II', lambda: num(A.dense(inv.I)))
    n = A.struct_size(op.in_structure())
    xv = [XVEC[i % len(XVEC)] for i in range(n)]
    x = tree_from_flat(op.in_structure(), xv)
    obs['x'] = xv
    attempt('rt_left', lambda: num(A.flat(inv(op(x)))))
    attempt('rt_right', lambda: num(A.flat(op(inv(x)))))
    leaves = jax.tree.leaves(inv(op(x))) if not isinstance(obs['rt_left'], str) else []
    obs['rt_dtypes'] = sorted({str(l.dtype) for l in leaves})
    return obs


def unfrac(v) -> np.ndarray:
    """Canonical JSON numbers (integers / 'n/d' strings), nested, -> float64 array (ValueError on 'nan' / 'inf')."""
    if isinstance(v, list):
        return np.array([unfrac(t) for t in v], dtype=np.float64)
    return np.float64(float(Fraction(v)))


def oracle_mixed(case, obs):
    if 'build_error' in obs:
        return f'the operand cannot be constructed: {obs["build_error"]}'
    d, x64 = case['mixed'], bool(case.get('x64'))
    cls = obs['op_class']
    if 'I_error' in obs:
        return f'inverse() of a square {cls} raised {obs["I_error"]}'
    M = mixed_ref(d, x64)
    N = ref_inverse(M)
    eps = mixed_eps(d, x64)
    tol = 16 * eps
    n = M.shape[0]
    ctx = f'(jax_enable_x64 = {x64}; rounding unit of the dtypes involved {eps:.1e})'

    def mat(key, what):
        v = obs.get(key)
        if isinstance(v, str) or v is None:
            return None, f'{what} cannot be computed: {v}'
        try:
            return unfrac(v), None
        except (ValueError, ZeroDivisionError):
            return None, f'{what} contains NaN or Inf: {v}'

    def close(got, want, what, factor=1.0):
        if got.shape != want.shape:
            return f'{what} has shape {got.shape}, expected {want.shape}'
        scale = np.maximum(np.abs(want).max(axis=1, keepdims=True), np.abs(want))
        bad = np.abs(got - want) > factor * tol * scale + 1e-300
        if bad.any():
            i, jx = map(int, np.argwhere(bad)[0])
            return (f'{what}: entry [{i}][{jx}] is {float(got[i, jx])!r}, the float64 NumPy reference computed from the parameters has '
                    f'{float(want[i, jx])!r} (difference {abs(got[i, jx] - want[i, jx]):.3e}, allowed {factor * tol * float(scale[i, jx]):.3e}) {ctx}')
        return None

    Mi, msg = mat('M', f'the matrix of the operand ({cls})')
    if msg:
        return msg
    Ni, msg = mat('N', f'the matrix of {cls}.I')
    if msg:
        return msg
    if Mi.shape != M.shape or Ni.shape != M.shape:
        return f'the matrices of {cls} and {cls}.I have shapes {Mi.shape} and {Ni.shape}, expected {M.shape}'
    # 1. the property on the implementation alone: A.I(A(x)) = x = A(A.I(x)) (x projected on the non-zero entries of a diagonal)
    P = N @ M
    x = np.array(obs['x'], dtype=np.float64)
    want = P @ x
    for key, what in (('rt_left', 'A.I(A(x))'), ('rt_right', 'A(A.I(x))')):
        y, msg = mat(key, what)
        if msg:
            return msg
        err = float(np.abs(y.reshape(-1) - want).max()) if y.size == want.size else float('inf')
        if err > 4 * tol * float(np.abs(x).max()):
            return (f'{what} differs from x by {err:.3e} (> {4 * tol * float(np.abs(x).max()):.3e}) for A = {cls}, x = {obs["x"]}: got '
                    f'{y.reshape(-1).tolist()} {ctx}')
    for prod, what in ((Ni @ Mi, 'mat(A.I) @ mat(A)'), (Mi @ Ni, 'mat(A) @ mat(A.I)')):
        if np.abs(prod - P).max() > 4 * tol:
            return (f'{what} (mv of {cls}.I and of {cls} on the basis) is not the identity: max deviation {np.abs(prod - P).max():.3e} '
                    f'> {4 * tol:.3e} {ctx}')
    # 2. against the closed formula on the parameters: the matrix of A, and A.I = NumPy inverse of that matrix
    msg = close(Mi, M, f'the matrix of the operand ({cls}, mv on the basis)')
    if msg:
        return msg
    msg = close(Ni, N, f'{cls}.I applied to the basis is not the inverse of the matrix of {cls}')
    if msg:
        return msg
    Ai, msg = mat('as_matrix', f'{cls}.I.as_matrix()')
    if msg:
        return msg
    msg = close(Ai, N, f'{cls}.I.as_matrix() is not the inverse of the matrix of {cls}', factor=8.0)
    if msg:
        return msg
    IIi, msg = mat('II', f'the matrix of {cls}.I.I')
    if msg:
        return msg
    return close(IIi, M, f'{cls}.I.I does not denote the operand', factor=2.0)


def mixed_angles(rng, mag: float, n: int):
    """Generic angles of magnitude up to `mag` rad (three significant decimal digits beyond the integer part: neither
    dyadic nor representable in float32 when large)."""
    return [round(rng.uniform(-1, 1) * mag, 3) + rng.choice([0.0123, -0.0457, 0.3331]) for _ in range(n)]


def mixed_entries(rng, n: int, zeros: bool):
    out = []
    for _ in range(n):
        if zeros and rng.random() < 0.25:
            out.append(0.0)
        else:
            out.append(rng.choice([-1, 1]) * round(10 ** rng.uniform(-4, 6) * (1 + rng.random()), 9))
    return out


def mixed_cases(rng, quick: bool):
    out = []
    combos = [(False, pk, 'float32') for pk in PKINDS_X32] + [(True, pk, ddt) for pk in PKINDS_X64 for ddt in ('float32', 'float64')]
    mags = [1.0, 40.0, 2.0e3, 4.5e4, 1.0e6]
    stokes = ['QU', 'IQU', 'IQUV']
    k = 0

    def add(kind, x64, desc):
        nonlocal k
        k += 1
        out.append({'kind': kind, 'name': f'X{k}', 'mixed': desc, 'x64': x64})

    reps = 1 if quick else 4
    for x64, pk, ddt in combos:
        for mi, mag in enumerate(mags):
            for r in range(reps):
                # vectors of angles, one per sample; every Stokes class; the operand R and the operand R.T
                n = rng.randint(1, 3)
                st = stokes[(mi + r + k) % 3]
                add('mixed-rotation', x64, {'k': 'xrot', 'stokes': st, 'shape': [n], 'angles': mixed_angles(rng, mag, n), 'pk': pk,
                                            'ddt': ddt, 'transposed': (mi + r) % 2 == 1})
            # a scalar angle broadcast over the samples (array of shape () or a Python float)
            add('mixed-rotation', x64, {'k': 'xrot', 'stokes': stokes[mi % 3], 'shape': [2], 'angles': mixed_angles(rng, mag, 1), 'scalar': True,
                                        'pk': 'py' if mi % 2 else pk, 'ddt': ddt, 'transposed': mi % 3 == 0})
        for r in range(2 * reps):
            n = rng.randint(2, 4)
            add('mixed-diagonal', x64, {'k': 'xdiag', 'v': mixed_entries(rng, n, r % 2 == 0), 's': [n], 'pk': pk, 'ddt': ddt})
        add('mixed-diagonal', x64, {'k': 'xdiag', 'v': mixed_entries(rng, 2, False), 's': [2, 3], 'axis': 0, 'pk': pk, 'ddt': ddt})
        add('mixed-diagonal', x64, {'k': 'xdiag', 'v': mixed_entries(rng, 3, True), 's': {'list': [[2, 3], [3]]}, 'axis': -1, 'pk': pk, 'ddt': ddt})
        add('mixed-diagonal', x64, {'k': 'xinv', 'of': {'k': 'xdiag', 'v': mixed_entries(rng, 3, True), 's': [3], 'pk': pk, 'ddt': ddt}})
        for r in range(2 * reps):
            add('mixed-scalar', x64, {'k': 'xhomoth', 'v': mixed_entries(rng, 1, False)[0], 's': [[2], {'stokes': 'IQU', 'shape': [1]}][r % 2],
                                      'pk': 'py' if r % 3 == 2 else pk, 'ddt': ddt})
        # block-diagonal containers mixing the classes and the parameter representations (the data dtype is that of the combination)
        for r in range(reps):
            pks = PKINDS_X64 if x64 else PKINDS_X32
            blocks = []
            for _ in range(rng.randint(2, 3)):
                t = rng.random()
                p = rng.choice(pks)
                if t < 0.4:
                    blocks.append({'k': 'xrot', 'stokes': rng.choice(stokes), 'shape': [1], 'angles': mixed_angles(rng, rng.choice(mags), 1),
                                   'pk': p, 'ddt': ddt, 'transposed': rng.random() < 0.3})
                elif t < 0.8:
                    blocks.append({'k': 'xdiag', 'v': mixed_entries(rng, 2, True), 's': [2], 'pk': p, 'ddt': ddt})
                else:
                    blocks.append({'k': 'xhomoth', 'v': mixed_entries(rng, 1, False)[0], 's': [2], 'pk': p, 'ddt': ddt})
            cont = [blocks, {'tuple': blocks}, {'dict': {f'k{i}': b for i, b in enumerate(blocks)}}][r % 3]
            add('mixed-blockdiag', x64, {'k': 'xbdiag', 'blocks': cont})
    return out


# ---------------------------------------------------------------------------------------------
# implementation side


def contains_inverse(op) -> bool:
    from reduce_check import contains_cls

    return contains_cls(op, A.J()['core'].InverseOperator)


def impl_matrix(op) -> np.ndarray:
    """Dense matrix of an operator through the real code: mv on every basis vector; an iterative
    InverseOperator contributes through its as_matrix() override (the observation point of the
    property), composites containing one are assembled from their parts."""
    j = A.J()
    core, blocks = j['core'], j['blocks']
    import scipy.linalg

    if not contains_inverse(op):
        return A.dense(op)
    if isinstance(op, core.InverseOperator):
        return np.asarray(op.as_matrix(), dtype=np.float64)
    if isinstance(op, core.CompositionOperator):
        m = None
        for o in op.operands:
            mo = impl_matrix(o)
            m = mo if m is None else m @ mo
        return m
    if isinstance(op, core.AdditionOperator):
        return sum(impl_matrix(o) for o in op.operand_leaves)
    if isinstance(op, blocks.BlockDiagonalOperator):
        return scipy.linalg.block_diag(*[impl_matrix(o) for o in op.block_leaves])
    if isinstance(op, blocks.BlockRowOperator):
        return np.hstack([impl_matrix(o) for o in op.block_leaves])
    if isinstance(op, blocks.BlockColumnOperator):
        return np.vstack([impl_matrix(o) for o in op.block_leaves])
    raise NotImplementedError(type(op).__name__)


def observe(thunk, enc, invertible: bool, exact: bool = False):
    """skeleton / structures / matrix of the operator returned by thunk (or the error kind)."""
    skel, fm = (skeleton_x, exact_matrix) if exact else (A.skeleton, A.frac_matrix)
    try:
        with A.quiet_config():
            op = thunk()
    except Exception as e:
        name = type(e).__name__
        return {'err': name if name in A.ERRS else f'Other:{name}'}, None
    out = {'skel': skel(op, enc), 'in': A.struct_repr(op.in_structure()), 'out': A.struct_repr(op.out_structure())}
    if contains_inverse(op) and not invertible:
        # the matrix of an iterative inverse of a singular / ill-conditioned operand is meaningless
        out['mat'] = None
        out['finite'] = None
        return out, op
    try:
        m = impl_matrix(op)
        out['finite'] = bool(np.all(np.isfinite(m)))
        out['mat'] = A.mat_json(fm(m)) if out['finite'] else None
    except Exception as e:
        out['mat'] = None
        out['finite'] = None
        out['mat_error'] = f'{type(e).__name__}: {str(e)[:200]}'
    return out, op


def part(o):
    if o is None:
        return None
    if 'err' in o:
        return {'err': o['err']}
    return {k: o[k] for k in ('skel', 'in', 'out', 'mat')}


class Check(PropertyCheck):
    id = 'C06'
    props = ['Tables.v', 'C06.v', 'C06Structs.v']
    static_targets = ['theories/Model/Exec.vo', 'theories/Model/Pinned.vo', 'theories/Lemmas/TablesL.vo',
                      'theories/Lemmas/InverseL.vo', 'theories/Lemmas/InverseStructsL.vo']
    coq_header = A.COQ_HEADER + 'From Furax Require Import Model.Inverse.\nFrom FuraxGen Require Import Tables.\n'
    shard = 60
    workers = 8
    partial = (
        '"for a symmetric positive-definite A without closed form, A.I(y) solves A z = y to the configured solver '
        'tolerance": convergence of lineax CG in floating point. Modelled as an oracle (Section hypothesis '
        '`inv_facts`: the leaf semantics of a lazy InverseOperator is a two-sided inverse of its operand, exactly '
        'lf_inv_l/lf_inv_r of Sound.leaf_facts); tested numerically by extra() on SPD Gram matrices, not proved'
    )
    trusted = [
        'translator tools/translate/tables.py (method resolution of `inverse`/`as_matrix` per class, class hierarchy, '
        'rule registry read from the imported package; fails closed)',
        'leaf operators act in the executable model through dense matrices measured on the real objects; operators '
        'created by inverse() act through their definitions in Model/Inverse.v (pinv of the measured diagonal, '
        'jnp.moveaxis as specified in Model/Axes.v, transposed rotation, certified Gauss-Jordan inverse for the lazy '
        'InverseOperator = exact solver)',
        'jnp.linalg.inv is compared with the certified exact inverse of the rational matrix (tolerance 1e-4 after '
        'rounding float32 entries to rationals of denominator <= 4096)',
        'object identity (`is`) is modelled by harness-assigned object ids; objects created by inverse() get id 0',
        'floating point: 1/k and where(d != 0, 1/d, 0) are compared with exact field operations on dyadic inputs '
        '(and 1/3-type values up to 1e-4); NaN/Inf freedom is observed on the implementation (isfinite), the model '
        'never evaluates a division by zero',
        'magnitude cases: the floats measured on the implementation are converted to rationals exactly (Fraction(float)) '
        'and compared exactly with the model and with the closed formula 1/d; subnormal numbers are out of scope (XLA on '
        'CPU flushes them to zero: 1/2^127 is 0 in float32), so exponents range over [-126, 126] / [-1022, 1022]; float64 '
        'and x64-mode cases run in helper processes started with JAX_ENABLE_X64=1; in the quick tier 3/4 of the cases with '
        'an exponent beyond +-160 are checked by the exact oracle only (model arithmetic on 300-digit rationals is slow), '
        'all of them are compared with the model in the thorough tier',
        'mixed-precision cases (kind mixed-*) are NOT compared with the Coq model (generic parameter values, float32 / float64 '
        'mixtures): the oracle is dense float64 NumPy linear algebra (closed formula of the matrix from the case parameters, '
        'numpy.linalg.inv / pinv) with the tolerance 16 * eps of the coarsest dtype among parameters and data (x 4 on round trips '
        'and products, x 8 on as_matrix() of a lazy inverse, which goes through jnp.linalg.inv); the reference rounds a parameter '
        'to float32 when it is handed over in float32 or when jax_enable_x64 is off',
    ]

    def translate(self):
        import tables

        self.stats['tables'] = tables.generate(self.gen_dir)

    def gen_files(self):
        return ['Tables.v']

    # -- cases ---------------------------------------------------------------------------------
    def cases(self):
        quick = self.tier == 'quick'
        rng = self.rng
        names = [n for n in LET]
        out = []
        mt3 = [n for n in names if n.startswith('Mt3_')]
        rng.shuffle(mt3)
        keep_mt3 = set(mt3[: 12 if quick else 600])
        mr3 = [n for n in names if n.startswith('Mr3_')]
        rng.shuffle(mr3)
        keep_mr3 = set(mr3[: 14 if quick else 36])
        for n in names:
            if n.startswith('Mt3_') and n not in keep_mt3:
                continue
            if n.startswith('Mr3_') and n not in keep_mr3:
                continue
            out.append({'kind': category(n), 'name': n})
        # seeded random block-diagonal operators: nested list/tuple/dict containers of square blocks
        # (closed forms, singular diagonals, lazy inverses and their wrappers, block-diagonal blocks)
        for k in range(10 if quick else 150):
            out.append({'kind': 'blockdiag-random', 'name': f'RB{k}',
                        'desc': {'k': 'bdiagop', 'blocks': random_container(rng, 0)}})
        out += mag_cases(rng, quick)
        out += mixed_cases(rng, quick)
        # the exact rational arithmetic of the model on 2^+-1000 is slow (~1.5 s per case): spread those cases over the shards
        rng.shuffle(out)
        self.stats['operands'] = len(out)
        return out

    def rule(self):
        return (
            'op.I of every operand of the shared alphabet (~125 real operator objects of every class, square and not) '
            'plus the parameter scopes of the closed forms: scalars (negative, fractions, Stokes/dict structures), '
            'diagonals with every zero pattern for n <= 4 (30) and along axes of 2-d / pytree leaves, every single-axis '
            'move-axis pair on ranks 2-3 and two-axis tuples (sampled in quick), QU rotations for every k*pi/4 residue, '
            'vectors of angles and generic angles, block-diagonal operators over list/tuple/dict/nested containers with '
            'closed-form, lazy, lazy-inverse, non-square and block-diagonal blocks, composites whose reduce() changes '
            'the operand. MAGNITUDE scopes (compared exactly, no tolerance): scalars, diagonals (1-d, along axes of 2-d '
            'leaves and pytrees, as D.I operands) and block-diagonal operators over random nested containers whose entries are '
            'signed powers of two over the whole normal range of the dtype (ladder dense near eps and at both ends + seeded '
            'uniform exponents), mixed with zeros and ordinary values, in float32, float64 (x64) and float32 under x64. '
            'MIXED-PRECISION scopes (implementation-side oracle only): QU rotations / lazy transposes (QU, IQU, IQUV; vectors of angles '
            'and broadcast scalar angles up to 1, 40, 2e3, 4.5e4, 1e6 rad), diagonals (1-d with zeros, along axes of 2-d leaves and '
            'pytrees, as D.I operands), scalars and block-diagonal containers mixing them, for jax_enable_x64 off / on x parameters '
            'as jax or NumPy arrays in float32 / float64 or Python floats x float32 / float64 data. '
            'Non-trivial: the result is not a plain InverseOperator of the same object, or is a refusal.'
        )

    def distribution(self, cases):
        d = {}
        for c in cases:
            d[c['kind']] = d.get(c['kind'], 0) + 1
        return d

    # -- implementation ----------------------------------------------------------------------------
    def run_impl(self, case):
        if str(case.get('kind', '')).startswith('cg'):
            return cg_delegate(case)
        if case.get('x64') and not A.J()['jax'].config.jax_enable_x64:
            return x64_delegate(case)
        if 'mixed' in case:
            return run_mixed(case)
        exact = 'mag' in case
        op = operand(case)
        if isinstance(op, A.Unbuildable):
            return {'build_error': op.error}
        enc = exact_encoder() if exact else A.Encoder()
        term = enc.term(op)  # assigns the object ids (and measures the leaves) before .I runs
        ref = A.reference_matrix(op)
        square_size = ref.shape[0] == ref.shape[1]
        if exact:  # closed forms with a diagonal matrix: regular iff no zero on the diagonal (cond() is meaningless here)
            invertible = bool(square_size and np.all(np.diag(ref) != 0))
        else:
            cond = float(np.linalg.cond(ref)) if square_size and ref.size else float('inf')
            invertible = bool(np.isfinite(cond) and cond < 1e5)
        obs = {'ref': A.mat_json((exact_matrix if exact else A.frac_matrix)(ref)), 'invertible': invertible,
               'square': A.struct_repr(op.in_structure()) == A.struct_repr(op.out_structure()),
               'op_skel': (skeleton_x if exact else A.skeleton)(op, enc), 'op_class': type(op).__name__}
        o1, inv = observe(lambda: op.I, enc, invertible, exact)
        obs['I'] = o1
        obs['II'] = None
        obs['lazy_mat'] = None
        if inv is not None:
            core = A.J()['core']
            obs['I_is_lazy_of_op'] = getattr(inv, 'operator', None) is op
            if isinstance(inv, core.InverseOperator) and invertible:
                try:
                    obs['lazy_mat'] = A.mat_json(A.frac_matrix(np.asarray(inv.as_matrix(), dtype=np.float64)))
                except Exception as ex:
                    obs['lazy_mat_error'] = f'{type(ex).__name__}: {str(ex)[:200]}'
            o2, inv2 = observe(lambda: inv.I, enc, invertible, exact)
            obs['II'] = o2
            obs['II_is_op'] = inv2 is op
            # the pseudo-inverse diagonal itself (DiagonalInverseOperator.diagonal) must be finite
            if type(inv).__name__ == 'DiagonalInverseOperator':
                obs['pinv_values_finite'] = bool(np.all(np.isfinite(np.asarray(inv.diagonal))))
            if exact:
                # A.I(A(x)) and A(A.I(x)) on a vector of small integers, through the real mv of both objects
                try:  # as_matrix() of the closed-form inverse (observation point of the property)
                    am = np.asarray(inv.as_matrix(), dtype=np.float64)
                    obs['as_matrix'] = A.mat_json(exact_matrix(am)) if np.all(np.isfinite(am)) else 'contains NaN or Inf'
                except Exception as ex:
                    obs['as_matrix'] = f'{type(ex).__name__}: {str(ex)[:200]}'
                n = ref.shape[1]
                x = tree_from_flat(op.in_structure(), [XVEC[i % len(XVEC)] for i in range(n)])
                for key, f in (('rt_left', lambda: inv(op(x))), ('rt_right', lambda: op(inv(x)))):
                    try:
                        y = A.flat(f())
                        obs[key] = [A.frac_json(Fraction(float(t))) if np.isfinite(t) else str(t) for t in y]
                    except Exception as ex:
                        obs[key] = f'{type(ex).__name__}: {str(ex)[:200]}'
        case['_term'] = term
        case['_table'] = enc.table_coq()
        case['_unsupported'] = enc.unsupported
        return obs

    # -- model -----------------------------------------------------------------------------------
    def model_term(self, case):
        if case.get('_unsupported') or '_term' not in case:
            return None
        if self.tier == 'quick' and 'mag' in case and mag_weight(case['mag']) > 160 and int(lib.case_id(case), 16) % 4:
            # quick tier: three quarters of the cases with |exponent| > 160 (float64 only) are checked by the exact oracle
            # alone (the model's Qc arithmetic on 300-digit numbers costs ~1.5 s per case); all are compared in thorough
            self.stats['oracle_only_in_quick'] = self.stats.get('oracle_only_in_quick', 0) + 1
            return None
        return f'observe_inv {case["_table"]} gen_order {case["_term"]}'

    def decode(self, case, v):
        o1, o2, lm = v
        d1 = A.decode_observation(o1)
        d2 = None if 'err' in d1 else A.decode_observation(o2)
        if isinstance(lm, dict) and lm.get('c') == 'Some':
            cols = [[A.frac_json(Fraction(x[0], x[1])) for x in col] for col in lm['a'][0]]
            lazy = [list(r) for r in zip(*cols)] if cols else []
        else:
            lazy = None
        out = {'I': d1, 'II': d2, 'lazy_mat': lazy}
        case['_model'] = out
        return out

    def comparable(self, case, obs):
        if not isinstance(obs, dict) or 'build_error' in obs:
            return obs
        out = {'I': part(obs['I']), 'II': part(obs['II']), 'lazy_mat': obs.get('lazy_mat')}
        if 'mag' in case:
            return out  # exact on both sides: no tolerance
        model = case.get('_model')
        if not obs.get('invertible') or not obs.get('square'):
            # matrices of lazy inverses of singular operands are not compared (None on the implementation side)
            if model:
                for k in ('I', 'II'):
                    if out[k] and model.get(k) and 'mat' in out[k] and out[k]['mat'] is None and 'mat' in model[k]:
                        out[k]['mat'] = model[k]['mat']
                if out['lazy_mat'] is None:
                    out['lazy_mat'] = model.get('lazy_mat')
        if model:
            # entries such as 1/3 or cos(pi/12) are float32 on the implementation side: equal up to 1e-4
            for k in ('I', 'II'):
                if out[k] and model.get(k) and out[k].get('mat') is not None and model[k].get('mat') is not None:
                    if A.mat_close(out[k]['mat'], model[k]['mat']):
                        out[k]['mat'] = model[k]['mat']
                if out[k] and model.get(k) and out[k].get('skel') and model[k].get('skel'):
                    out[k]['skel'] = skel_close(out[k]['skel'], model[k]['skel'])
            if out['lazy_mat'] is not None and model.get('lazy_mat') is not None and A.mat_close(out['lazy_mat'], model['lazy_mat']):
                out['lazy_mat'] = model['lazy_mat']
        return out

    def nontrivial(self, case, obs):
        if 'mixed' in case:
            return isinstance(obs, dict) and 'N' in obs
        if not isinstance(obs, dict) or 'I' not in obs:
            return False
        o = obs['I']
        if 'err' in o:
            return True
        return not (o['skel'][0] == 'InverseOperator' and obs.get('I_is_lazy_of_op'))

    def finding_key(self, case, obs):
        return None

    # -- oracle -----------------------------------------------------------------------------------
    def oracle(self, case, obs):
        if str(case.get('kind', '')).startswith('cg'):
            return cg_oracle(case, obs)
        if 'mixed' in case:
            return oracle_mixed(case, obs)
        if 'mag' in case and 'build_error' not in obs:
            return oracle_mag(case, obs)
        if 'build_error' in obs:
            return f'operand {case["name"]} cannot be constructed: {obs["build_error"]}'
        o = obs['I']
        cls = obs['op_class']
        closed_nonsquare_ok = cls == 'MoveAxisOperator' or cls in ('InverseOperator', 'DiagonalInverseOperator', 'QURotationTransposeOperator')
        if not obs['square'] and not closed_nonsquare_ok:
            if o.get('err') != 'ValueError':
                return f'a non-square {cls} was not refused with ValueError: {o.get("err") or o.get("skel")}'
            return None
        if 'err' in o:
            return f'inverse() of a square {cls} raised {o["err"]}'
        M = tofloat(obs['ref'])
        n = M.shape[1]
        if o.get('finite') is False:
            return f'the matrix of {cls}.I contains NaN or Inf'
        if obs.get('pinv_values_finite') is False:
            return 'DiagonalInverseOperator.diagonal contains NaN or Inf'
        diag_singular = case['kind'] == 'diagonal' and not obs['invertible']
        if o.get('mat') is None:
            if obs['invertible'] or diag_singular:
                return f'{cls}.I cannot be applied: {o.get("mat_error")}'
            return None  # lazy inverse of a singular operand: nothing to check
        N = tofloat(o['mat'])
        eye = np.eye(n)
        tol = 2e-4 * max(1.0, float(np.abs(M).max()), float(np.abs(N).max())) ** 2
        if obs['invertible']:
            if N.shape != (n, M.shape[0]):
                return f'matrix of the inverse has shape {N.shape}'
            if np.abs(N @ M - eye).max() > tol:
                return f'mat(op.I) @ mat(op) is not the identity: {(N @ M).tolist()}'
            if np.abs(M @ N - np.eye(M.shape[0])).max() > tol:
                return f'mat(op) @ mat(op.I) is not the identity: {(M @ N).tolist()}'
        elif diag_singular or pinv_expected(case):
            for nm, lhs, rhs in (('A P A = A', M @ N @ M, M), ('P A P = P', N @ M @ N, N),
                                 ('(A P)^T = A P', (M @ N).T, M @ N), ('(P A)^T = P A', (N @ M).T, N @ M)):
                if np.abs(lhs - rhs).max() > tol:
                    return f'Penrose equation {nm} fails: {lhs.tolist()} vs {rhs.tolist()}'
        else:
            return None
        if obs.get('lazy_mat') is not None and not A.mat_close(obs['lazy_mat'], o['mat']):
            return f'as_matrix() of the lazy inverse {obs["lazy_mat"]} is not the inverse matrix {o["mat"]}'
        o2 = obs['II']
        if o2 is None or 'err' in o2:
            return f'op.I.I raised {o2 and o2.get("err")}'
        if o2.get('mat') is not None and not A.mat_close(o2['mat'], obs['ref'], tol=2e-4):
            return f'op.I.I has matrix {o2["mat"]}, op has {obs["ref"]}'
        if o2['in'] != o['out'] or o2['out'] != o['in']:
            return 'structures of op.I.I are not those of op'
        return None

    # -- the iterative-solver clause: tests, not theorems -------------------------------------------
    def extra(self):
        bad = {n: o.error for n, o in env().items() if isinstance(o, A.Unbuildable)}
        if bad:
            raise RuntimeError(f'operands of the alphabet cannot be constructed on this tree: {bad}')
        envv = dict(os.environ)
        envv['JAX_ENABLE_X64'] = '1'
        parts = 4  # helper processes, each running every 4th case of the (deterministic) list
        procs = [subprocess.Popen([sys.executable, str(Path(__file__).resolve()), '--cg', self.tier, str(self.seed), str(k), str(parts)],
                                  stdout=subprocess.PIPE, stderr=subprocess.PIPE, text=True, env=envv) for k in range(parts)]
        rep = {'systems': 0, 'cases': {}, 'worst_residual_over_bound': 0.0, 'sizes': [10 ** 9, 0]}
        fails = []
        errors = []
        for p in procs:
            try:
                so, se = p.communicate(timeout=2400)
            except subprocess.TimeoutExpired:
                p.kill()
                so, se = p.communicate()
                errors.append('timeout: ' + se[-800:])
                continue
            if p.returncode != 0:
                errors.append(se[-1500:])
                continue
            r = json.loads(so.strip().splitlines()[-1])
            fails += r['failures']
            rep['systems'] += r['systems']
            for kk, v in r['cases'].items():
                rep['cases'][kk] = rep['cases'].get(kk, 0) + v
            rep['worst_residual_over_bound'] = max(rep['worst_residual_over_bound'], r['worst_residual_over_bound'])
            rep['sizes'] = [min(rep['sizes'][0], r['sizes'][0]), max(rep['sizes'][1], r['sizes'][1])]
        if errors:
            raise RuntimeError('CG test process failed: ' + ' | '.join(errors))
        rep['what'] = ('InverseOperator.mv on SPD Gram matrices B^T B + c I of integer matrices (sizes 2-40, condition number '
                       '<= 1e3, float64), several right-hand sides; the configuration (default CG / CG rtol=atol=1e-10 / 1e-8 / '
                       'Jacobi preconditioner / solver_throw / solver_callback) is established through furax.Config by a single block '
                       '(kind cg) and by nested and sibling blocks with the settings spread over the levels, the inverse created '
                       'in the innermost block and applied inside it, one level up, outside, or inside an unrelated block with a '
                       'loose solver, eagerly and under jit (kind cg-nested); criteria: the inverse holds the configuration in force '
                       'at its creation (reference: dict merge over the plan), |A z - y| <= 10 tol (1 + |y|) with tol = rtol of that '
                       'configuration, the configured callback ran once and saw the configured max_steps. Kind cg-seq: SEQUENCES '
                       'of 2-4 differently configured inverses of identical array structure (SPD systems of condition number 1e4, sizes '
                       '24-40; for the solver options a badly scaled system that the Jacobi preconditioner repairs) passed as ARGUMENTS to one '
                       'jax.jit / equinox.filter_jit function, each also applied eagerly: the steps differ in ONE static field (rtol and atol / '
                       'rtol only / atol only / max_steps / solver_throw / solver_callback / solver_options / default vs explicit), in both '
                       'orders, returning to an earlier configuration, with other operator arrays under the same configuration, applied inside '
                       'an unrelated Config block, created by one block / nested blocks / inverse() / InverseOperator(); criteria per step: the '
                       'captured configuration, the residual against ITS tolerance (jit and eager), the configured callback ran once with the '
                       'configured max_steps, solver_throw with a starved max_steps raises, the jitted and the eager application of the same '
                       'inverse ran the same number of solver steps (+-10%) and agree when max_steps stops them early. Kind cg-solvers: '
                       'every solver class of lineax as the configured solver (CG, GMRES, BiCGStab, NormalCG with and without max_steps; LU, QR, '
                       'SVD, Cholesky; AutoLinearSolver well_posed True / None / False), solver_throw on and off, with furax\'s DEFAULT '
                       'solver_callback kept or a recording one, applied eagerly, under jit and as an argument of a jitted function on SPD Gram '
                       'systems (sizes 2-24): the application returns and |A z - y| <= 10 tol (1 + |y|) (tol of the solver; 1e-10 for direct '
                       'solvers); TESTS of the convergence clause, not a proof')
        return {'cg_solver_clause': rep,
                'failures': [{'case': f['case'], 'observation': f['observation'], 'oracle': f['oracle'], 'key': None} for f in fails]}


def obs_struct(obs, k):
    return obs['I'].get(k)


def pinv_expected(case) -> bool:
    """Block-diagonal operands all of whose singular blocks are diagonals: the result is the pseudo-inverse."""
    return case['name'] in ('BLz', 'BNn', 'BBn') or case['kind'] == 'blockdiag-random'


def oracle_mag(case, obs):
    """Exact oracle of the magnitude cases against the closed formula on the case data: the matrix of A is
    diag(d); the matrix of A.I is diag(1/d_i, 0 where d_i = 0) EXACTLY (reciprocals of powers of two are
    exact in every binary format as long as they are normal numbers); A.I.I has the matrix of A; A.I(A(x))
    and A(A.I(x)) are x on the non-zero entries and 0 elsewhere; no NaN/Inf."""
    d = expected_diag(case['mag'])
    n = len(d)
    cls = obs['op_class']

    def diag_of(mat, what):
        if mat is None or len(mat) != n or any(len(r) != n for r in mat):
            return None, f'{what} is not a {n} x {n} matrix: {mat}'
        for i in range(n):
            for j in range(n):
                if i != j and Fraction(mat[i][j]) != 0:
                    return None, f'{what} has the off-diagonal entry [{i}][{j}] = {mat[i][j]}'
        return [Fraction(mat[i][i]) for i in range(n)], None

    got, msg = diag_of(obs['ref'], f'the matrix of the operand ({cls})')
    if msg:
        return msg
    if got != d:
        if case['mag']['k'] == 'minv':
            return (f'the operand is D.I for the diagonal D = {fl(expected_diag(case["mag"]["of"]))}: its matrix has the diagonal '
                    f'{fl(got)}, the (pseudo-)inverse of D has {fl(d)}')
        return f'the operand ({cls}) does not have the diagonal it was built with: {fl(got)} vs {fl(d)}'
    o = obs['I']
    if 'err' in o:
        return f'inverse() of a square {cls} raised {o["err"]}'
    if o.get('finite') is False:
        return f'the matrix of {cls}.I contains NaN or Inf'
    if obs.get('pinv_values_finite') is False:
        return 'DiagonalInverseOperator.diagonal contains NaN or Inf'
    if o.get('mat') is None:
        return f'{cls}.I cannot be applied: {o.get("mat_error")}'
    want = [fpinv(x) for x in d]
    got, msg = diag_of(o['mat'], f'the matrix of {cls}.I')
    if msg:
        return msg
    for i in range(n):
        if got[i] != want[i]:
            kind = 'inverse' if all(x != 0 for x in d) else 'Moore-Penrose pseudo-inverse'
            return (f'entry {i} of the diagonal is {fl([d[i]])[0]} (exactly {d[i]}): the matrix of {cls}.I has {fl([got[i]])[0]} '
                    f'there, the {kind} has {fl([want[i]])[0]} (diagonal {fl(d)}; got {fl(got)})')
    am = obs.get('as_matrix')
    if not isinstance(am, list):
        return f'{cls}.I.as_matrix() failed: {am}'
    got, msg = diag_of(am, f'{cls}.I.as_matrix()')
    if msg:
        return msg
    if got != want:
        return f'{cls}.I.as_matrix() has the diagonal {fl(got)}, the (pseudo-)inverse of diag{fl(d)} has {fl(want)}'
    o2 = obs['II']
    if o2 is None or 'err' in o2:
        return f'op.I.I raised {o2 and o2.get("err")}'
    got, msg = diag_of(o2.get('mat'), 'the matrix of op.I.I')
    if msg:
        return msg
    if got != d:
        return f'op.I.I does not denote op: diagonal {fl(got)} vs {fl(d)}'
    if o2['in'] != o['out'] or o2['out'] != o['in']:
        return 'structures of op.I.I are not those of op'
    x = [XVEC[i % len(XVEC)] for i in range(n)]
    proj = [Fraction(x[i]) if d[i] != 0 else Fraction(0) for i in range(n)]
    for key, what in (('rt_left', 'A.I(A(x))'), ('rt_right', 'A(A.I(x))')):
        y = obs.get(key)
        try:
            ok = [Fraction(t) for t in y] == proj
        except Exception:
            ok = False
        if not ok:
            return f'{what} = {y} for x = {x}: expected x on the non-zero entries of the diagonal {fl(d)}, 0 elsewhere'
    return None


def fl(fr):
    return [float(x) for x in fr]


def tofloat(m) -> np.ndarray:
    if not m:
        return np.zeros((0, 0))
    return np.array([[float(Fraction(x)) for x in row] for row in m], dtype=np.float64)


def skel_close(a, b):
    """The implementation's skeleton with scalar parameters replaced by the model's when within 1e-4."""
    if not (isinstance(a, list) and isinstance(b, list) and len(a) == 4 and len(b) == 4):
        return a
    tag, oid, params, kids = a
    if tag != b[0] or oid != b[1] or len(params) != len(b[2]) or len(kids) != len(b[3]):
        return a
    ps = []
    for x, y in zip(params, b[2]):
        try:
            fx, fy = float(Fraction(x)), float(Fraction(y))
            ps.append(y if abs(fx - fy) <= 1e-4 * max(1.0, abs(fx)) else x)
        except Exception:
            ps.append(x)
    return [tag, oid, ps, [skel_close(k, kb) for k, kb in zip(kids, b[3])]]


# ---------------------------------------------------------------------------------------------
# helper process with jax_enable_x64 (the float64 cases and the CG tests cannot run in the default mode)

_helper: dict = {}


def helper_call(case):
    """Runs one case in a persistent helper process started with JAX_ENABLE_X64=1 (one per worker process)."""
    import tempfile

    p = _helper.get('p')
    if p is None or p.poll() is not None:
        envv = dict(os.environ)
        envv['JAX_ENABLE_X64'] = '1'
        log = tempfile.NamedTemporaryFile('w+', prefix='c06-x64-', suffix='.log', delete=False)
        p = subprocess.Popen([sys.executable, str(Path(__file__).resolve()), '--x64-server'], stdin=subprocess.PIPE,
                             stdout=subprocess.PIPE, stderr=log, text=True, env=envv)
        _helper.update(p=p, log=log.name)
        atexit.register(helper_stop)
    p.stdin.write(json.dumps(lib.pub(case), default=str) + '\n')
    p.stdin.flush()
    line = p.stdout.readline()
    if not line:
        tail = Path(_helper['log']).read_text()[-1500:]
        raise RuntimeError('x64 helper process died: ' + tail)
    rep = json.loads(line)
    if 'error' in rep:
        raise RuntimeError('x64 helper: ' + rep['error'])
    case.update(rep['private'])
    return rep['obs']


def helper_stop():
    p = _helper.pop('p', None)
    if p is not None:
        try:
            p.stdin.close()
            p.wait(timeout=20)
        except Exception:
            p.kill()
    log = _helper.pop('log', None)
    if log and os.path.exists(log):
        os.unlink(log)


x64_delegate = helper_call


def cg_delegate(case):
    import jax

    if jax.config.jax_enable_x64:
        return run_cg_case(case)
    return helper_call(case)


def x64_server():
    """Protocol: one JSON case per input line -> one JSON line {'obs', 'private'} (stdout is reserved for it)."""
    import traceback

    proto = os.fdopen(os.dup(sys.stdout.fileno()), 'w')
    sys.stdout = sys.stderr
    chk = Check('quick', 0)
    for line in sys.stdin:
        line = line.strip()
        if not line:
            continue
        try:
            case = json.loads(line)
            obs = lib.canon(chk.run_impl(case))
            rep = {'obs': obs, 'private': {k: v for k, v in case.items() if str(k).startswith('_')}}
        except Exception as e:
            rep = {'error': f'{type(e).__name__}: {e}\n{traceback.format_exc()[-1200:]}'}
        proto.write(json.dumps(rep, default=str) + '\n')
        proto.flush()


# ---------------------------------------------------------------------------------------------
# CG tests (helper process, float64): "A.I(y) solves A z = y to the CONFIGURED solver tolerance"
#
# A case is a concrete system (integer SPD matrix, right-hand sides) and a PLAN, the sequence of events that
# establishes the configuration: ['E', settings] enter `with Config(**settings)` / ['X'] leave the innermost
# block / ['N'] inv = A.I / ['A', route] apply inv to every right-hand side (route eager | jit).  Blocks still
# open at the end are closed.  The configured tolerance is that of the configuration in force at ['N'],
# computed by the oracle from the plan alone (dict merge over the defaults, innermost wins).

CG_SOLVERS = {'default': (1e-6, 1e-6, 500), 'tight': (1e-10, 1e-10, 2000), 'mid': (1e-8, 1e-8, 1500), 'loose': (1e-2, 1e-2, 600),
              # kind cg-seq: solvers of ONE class that differ from 'tight' in a single parameter (same tree structure)
              'loose2k': (1e-2, 1e-2, 2000), 'mid2k': (1e-6, 1e-6, 2000), 'rmid': (1e-5, 1e-10, 2000), 'amid': (1e-10, 1e-4, 2000),
              'long': (1e-10, 1e-10, 5000), 'starved': (1e-10, 1e-10, 3)}
CG_DEFAULTS = {'solver': 'default', 'options': 'none', 'throw': False, 'callback': 'default'}


def cg_expected(plan):
    """Configuration in force at the ['N'] event: independent reference (stack of dict updates)."""
    stack = [dict(CG_DEFAULTS)]
    for ev in plan:
        if ev[0] == 'E':
            stack.append({**stack[-1], **ev[1]})
        elif ev[0] == 'X':
            stack.pop()
        elif ev[0] == 'N':
            return dict(stack[-1])
    raise ValueError('plan without N')


def cg_system(rng, n):
    while True:
        B = rng.integers(-2, 3, size=(n + 1, n)).astype(np.float64)
        Amat = B.T @ B + (n if n <= 12 else 1) * np.eye(n)
        if np.linalg.cond(Amat) <= 1e3:
            return Amat


def cg_cases(tier: str, seed: int):
    rng = np.random.default_rng(seed + 606)
    quick = tier == 'quick'
    out = []

    def rhs_of(Amat, k):
        n = Amat.shape[0]
        r = [np.eye(n)[0], np.ones(n), rng.integers(-4, 5, size=n).astype(np.float64), Amat @ np.arange(1, n + 1)]
        return [v.tolist() for v in r[:k]] if k == 4 else [r[2].tolist(), r[3].tolist()]

    # configuration set in a single block, inverse applied outside it
    for n in range(2, 13):
        for _ in range(1 if quick else 4):
            Amat = cg_system(rng, n)
            for label, kw in (('default', {}), ('tight', {'solver': 'tight'}), ('jacobi', {'options': 'jacobi'})):
                out.append({'kind': 'cg', 'name': f'single-{label}-{n}', 'matrix': Amat.tolist(), 'rhs': rhs_of(Amat, 4),
                            'plan': [['E', {'callback': 'rec', **kw}], ['N'], ['X'], ['A', 'eager']]})
    # configuration established by nested / sibling blocks; inverse created in the innermost block and applied
    # inside it / one level up / outside every block / inside an unrelated later block with another solver
    k = 0
    for s in ('tight', 'mid'):
        layouts = {
            'outer-solver': [['E', {'solver': s}], ['E', {'callback': 'rec'}]],
            'outer-solver-inner-options': [['E', {'solver': s, 'callback': 'rec'}], ['E', {'options': 'jacobi'}]],
            'three-levels': [['E', {'callback': 'rec'}], ['E', {'solver': s}], ['E', {'throw': True}]],
            'inner-overrides': [['E', {'solver': 'loose'}], ['E', {'solver': s, 'callback': 'rec'}]],
            'outer-solver-and-options': [['E', {'solver': s, 'options': 'jacobi'}], ['E', {'callback': 'rec'}]],
            'three-levels-options-last': [['E', {'solver': s}], ['E', {'callback': 'rec'}], ['E', {'options': 'jacobi'}]],
            'sibling-before': [['E', {'solver': 'loose', 'callback': 'quiet'}], ['X'], ['E', {'callback': 'rec'}], ['E', {'solver': s}]],
            'sibling-inside': [['E', {'solver': s, 'callback': 'rec'}], ['E', {'solver': 'loose', 'callback': 'quiet'}], ['X'],
                               ['E', {'throw': False}]],
        }
        for lname, pre in layouts.items():
            depth = sum(e[0] == 'E' for e in pre) - sum(e[0] == 'X' for e in pre)
            wheres = {
                'inside': [['N'], ['A', 'eager']],
                'one-up': [['N'], ['X'], ['A', 'jit']],
                'outside': [['N']] + [['X']] * depth + [['A', 'eager']],
                'other-block': [['N']] + [['X']] * depth + [['E', {'solver': 'loose', 'callback': 'quiet'}], ['A', 'jit']],
            }
            for wname, post in wheres.items():
                for _ in range(1 if quick else 3):
                    k += 1
                    n = (6, 12, 24, 40, 17)[k % 5]
                    Amat = cg_system(rng, n)
                    out.append({'kind': 'cg-nested', 'name': f'{lname}-{s}-{wname}-{n}', 'matrix': Amat.tolist(),
                                'rhs': rhs_of(Amat, 2), 'plan': pre + post})
    out += cg_seq_cases(rng, quick)
    out += cg_solvers_cases(rng, quick)
    return out


def run_cg_case(case):
    """Runs the plan on the real code (float64, jax_enable_x64)."""
    if case.get('kind') == 'cg-seq':
        return run_cg_seq(case)
    if case.get('kind') == 'cg-solvers':
        return run_cg_solvers(case)
    import contextlib

    import jax
    import jax.numpy as jnp
    import lineax as lx

    from furax import Config
    from furax._base.config import ConfigState, default_solver_callback
    from furax._base.dense import DenseBlockDiagonalOperator
    from furax._base.diagonal import DiagonalOperator

    assert jax.config.jax_enable_x64
    Amat = np.array(case['matrix'], dtype=np.float64)
    n = Amat.shape[0]
    sds = jax.ShapeDtypeStruct((n,), jnp.float64)
    op = DenseBlockDiagonalOperator(jnp.asarray(Amat), sds, 'ij,j->i')
    jacobi = DiagonalOperator(jnp.asarray(1.0 / np.diag(Amat)), in_structure=sds)
    solvers = {k: lx.CG(rtol=v[0], atol=v[1], max_steps=v[2]) for k, v in CG_SOLVERS.items() if k != 'default'}
    records = []

    def rec(solution):
        records.append({'num_steps': int(solution.stats['num_steps']), 'max_steps': int(solution.stats['max_steps'])})

    def quiet(solution):
        return None

    callbacks = {'rec': rec, 'quiet': quiet}

    def kwargs(st):
        kw = {}
        if 'solver' in st:
            kw['solver'] = solvers[st['solver']]
        if 'options' in st:
            kw['solver_options'] = {'preconditioner': jacobi} if st['options'] == 'jacobi' else {}
        if 'throw' in st:
            kw['solver_throw'] = st['throw']
        if 'callback' in st:
            kw['solver_callback'] = callbacks[st['callback']]
        return kw

    def describe(cfg):
        sv = cfg.solver
        name = next((k for k, v in solvers.items() if v is sv), None)
        if name is None:
            d = ConfigState().solver
            name = 'default' if (type(sv), sv.rtol, sv.atol, sv.max_steps) == (type(d), d.rtol, d.atol, d.max_steps) else repr(sv)
        pre = cfg.solver_options.get('preconditioner')
        cb = cfg.solver_callback
        return {'solver': name, 'solver_tolerances': f'rtol={sv.rtol:g} atol={sv.atol:g} max_steps={sv.max_steps}',
                'options': 'none' if not cfg.solver_options else ('jacobi' if pre is jacobi and len(cfg.solver_options) == 1 else 'other'),
                'throw': bool(cfg.solver_throw),
                'callback': next((k for k, v in callbacks.items() if v is cb), 'default' if cb is default_solver_callback else 'other')}

    obs = {'captured': None, 'applications': []}
    inv = None
    with contextlib.ExitStack() as outer:
        stack = []
        for ev in case['plan']:
            if ev[0] == 'E':
                es = contextlib.ExitStack()
                es.enter_context(Config(**kwargs(ev[1])))
                stack.append(es)
                outer.push(es)
            elif ev[0] == 'X':
                stack.pop().close()
            elif ev[0] == 'N':
                inv = op.I
                obs['captured'] = describe(inv.config)
            elif ev[0] == 'A':
                f = jax.jit(lambda v: inv(v)) if ev[1] == 'jit' else inv
                sols, stats = [], []
                for y in case['rhs']:
                    del records[:]
                    try:
                        z = np.asarray(f(jnp.asarray(np.array(y, dtype=np.float64))))
                        jax.effects_barrier()
                        sols.append([float(t) if np.isfinite(t) else str(t) for t in z])
                    except Exception as e:
                        sols.append(f'{type(e).__name__}: {str(e)[:200]}')
                    stats.append(list(records))
                obs['applications'].append({'route': ev[1], 'solutions': sols, 'callback_records': stats})
    return obs


# kind cg-seq: SEQUENCES of differently configured lazy inverses of identical array structure through ONE jitted
# function that receives the inverse as an ARGUMENT.  The configuration of an InverseOperator is static metadata
# (part of the pytree definition, hence of the jit cache key): every field that changes the behaviour of mv (solver
# class and parameters, solver_throw, solver_options, solver_callback) must distinguish the cache entries.
#
# A case: an ill-conditioned SPD system (condition number ~1e4, so that the tolerance matters), right-hand sides,
# the jit flavour, and steps; a step = {'settings': configuration of this inverse (over the defaults), 'create': how
# it is established (ctx: one `with Config` block / nested: solver in an outer block, the rest in an inner one /
# method: op.inverse() / class: InverseOperator(op)), 'scale': the operator is scale * A (same structure, other
# arrays), 'ambient': the APPLICATION happens inside an unrelated `with Config(loose solver)` block}.


def cg_illcond(rng, n, cond=1e4):
    """Dense SPD matrix with eigenvalues log-spaced over [1/sqrt(cond), sqrt(cond)] in a random orthogonal basis."""
    q, _ = np.linalg.qr(rng.normal(size=(n, n)))
    m = q @ np.diag(np.logspace(-0.5 * math.log10(cond), 0.5 * math.log10(cond), n)) @ q.T
    return (m + m.T) / 2


def cg_badly_scaled(rng, n):
    """S B S with B SPD of condition number ~30 and S = diag(10^-1.5 .. 10^1.5): condition number > 1e4, brought back to ~30 by the
    Jacobi preconditioner (the solver options change the number of iterations several-fold)."""
    s = np.diag(np.logspace(-1.5, 1.5, n)[rng.permutation(n)])
    m = s @ cg_illcond(rng, n, cond=30.0) @ s
    return (m + m.T) / 2


def cg_seq_cases(rng, quick: bool):
    T, L = {'solver': 'tight'}, {'solver': 'loose2k'}
    ST = {'solver': 'starved'}
    seqs = {
        'loose-then-tight': [L, T], 'tight-then-loose': [T, L], 'mid-then-tight': [{'solver': 'mid2k'}, T],
        'rtol-only': [{'solver': 'rmid'}, T], 'atol-only': [{'solver': 'amid'}, T], 'tight-then-rtol-only': [T, {'solver': 'rmid'}],
        'max-steps-more': [ST, T], 'max-steps-less': [T, ST], 'max-steps-long': [{'solver': 'long'}, ST, T],
        'throw-on': [ST, {**ST, 'throw': True}], 'throw-off': [{**ST, 'throw': True}, ST], 'throw-tight': [{**T, 'throw': True}, L],
        'callback': [{**T, 'callback': 'rec'}, {**T, 'callback': 'rec2'}, {**T, 'callback': 'quiet'}],
        'options-on': [T, {**T, 'options': 'jacobi'}], 'options-off': [{**T, 'options': 'jacobi'}, T],
        # two preconditioners of identical structure holding different arrays (diag^-1 and diag^-1/2)
        'options-arrays': [{**T, 'options': 'jacobi-half'}, {**T, 'options': 'jacobi'}, {**T, 'options': 'jacobi-half'}],
        'default-then-tight': [{}, T], 'loose-then-default': [L, {}],
        'back-and-forth': [L, T, L, T],
        'other-arrays': [T, {**T, '_scale': 2}, {**L, '_scale': 2}, {**T, '_scale': 0.5}],
        'ambient': [L, {**T, '_ambient': True}, {**L, '_ambient': True}],
    }
    creates = ['ctx', 'nested', 'method', 'class']
    out = []
    k = 0
    for rep_ in range(1 if quick else 4):
        for name, seq in seqs.items():
            k += 1
            n = (24, 40, 32)[k % 3]
            M = cg_badly_scaled(rng, n) if name.startswith('options') else cg_illcond(rng, n)
            rhs = [rng.integers(-4, 5, size=n).astype(np.float64).tolist(), (M @ np.arange(1, n + 1)).tolist()][: 1 if quick else 2]
            steps = []
            for i, st in enumerate(seq):
                settings = {kk: v for kk, v in st.items() if not kk.startswith('_')}
                if st:  # ({}: the default configuration, no Config block at all)
                    # ONE recording callback for all the steps of a sequence: the steps differ in the field under test only
                    settings.setdefault('callback', 'rec' if k % 2 else 'rec2')
                steps.append({'settings': settings, 'create': 'ctx' if not settings else creates[(i + k + rep_) % 4],
                              'scale': st.get('_scale', 1), 'ambient': bool(st.get('_ambient'))})
            out.append({'kind': 'cg-seq', 'name': f'{name}-{n}-{rep_}', 'matrix': M.tolist(), 'rhs': rhs,
                        'jit': 'eqx' if (k + rep_) % 4 == 0 else 'jax', 'steps': steps})
    return out


def run_cg_seq(case):
    import contextlib

    import equinox
    import jax
    import jax.numpy as jnp
    import lineax as lx

    from furax import Config
    from furax._base.config import ConfigState, default_solver_callback
    from furax._base.core import InverseOperator
    from furax._base.dense import DenseBlockDiagonalOperator
    from furax._base.diagonal import DiagonalOperator

    assert jax.config.jax_enable_x64
    M = np.array(case['matrix'], dtype=np.float64)
    n = M.shape[0]
    sds = jax.ShapeDtypeStruct((n,), jnp.float64)
    solvers = {k: lx.CG(rtol=v[0], atol=v[1], max_steps=v[2]) for k, v in CG_SOLVERS.items() if k != 'default'}
    records = []

    def rec(solution):
        records.append({'callback': 'rec', 'num_steps': int(solution.stats['num_steps']), 'max_steps': int(solution.stats['max_steps'])})

    def rec2(solution):
        records.append({'callback': 'rec2', 'num_steps': int(solution.stats['num_steps']), 'max_steps': int(solution.stats['max_steps'])})

    def quiet(solution):
        return None

    callbacks = {'rec': rec, 'rec2': rec2, 'quiet': quiet}
    apply = (equinox.filter_jit if case['jit'] == 'eqx' else jax.jit)(lambda inverse, v: inverse(v))
    obs = {'steps': []}
    for step in case['steps']:
        Ms = step['scale'] * M
        op = DenseBlockDiagonalOperator(jnp.asarray(Ms), sds, 'ij,j->i')
        jacobi = DiagonalOperator(jnp.asarray(1.0 / np.diag(Ms)), in_structure=sds)
        jacobi_half = DiagonalOperator(jnp.asarray(1.0 / np.sqrt(np.diag(Ms))), in_structure=sds)
        st = step['settings']
        kw = {}
        if 'solver' in st:
            kw['solver'] = solvers[st['solver']]
        if 'options' in st:
            kw['solver_options'] = {'jacobi': {'preconditioner': jacobi}, 'jacobi-half': {'preconditioner': jacobi_half}}.get(st['options'], {})
        if 'throw' in st:
            kw['solver_throw'] = st['throw']
        if 'callback' in st:
            kw['solver_callback'] = callbacks[st['callback']]
        how = step['create']
        with contextlib.ExitStack() as es:
            if how == 'nested':
                es.enter_context(Config(**{k: v for k, v in kw.items() if k == 'solver'}))
                es.enter_context(Config(**{k: v for k, v in kw.items() if k != 'solver'}))
            elif kw:
                es.enter_context(Config(**kw))
            inv = op.inverse() if how == 'method' else (InverseOperator(op) if how == 'class' else op.I)
        cfg = inv.config
        sv = cfg.solver
        pre = cfg.solver_options.get('preconditioner')
        d = ConfigState().solver
        so = {'captured': {
            'solver': next((k for k, v in solvers.items() if v is sv),
                           'default' if (type(sv), sv.rtol, sv.atol, sv.max_steps) == (type(d), d.rtol, d.atol, d.max_steps) else repr(sv)),
            'options': 'none' if not cfg.solver_options else (
                'other' if len(cfg.solver_options) != 1 else 'jacobi' if pre is jacobi else 'jacobi-half' if pre is jacobi_half else 'other'),
            'throw': bool(cfg.solver_throw),
            'callback': next((k for k, v in callbacks.items() if v is cfg.solver_callback),
                             'default' if cfg.solver_callback is default_solver_callback else 'other')}}
        with contextlib.ExitStack() as es:
            if step['ambient']:
                es.enter_context(Config(solver=solvers['loose'], solver_callback=quiet, solver_throw=False))
            for route, f in (('jit', lambda v: apply(inv, v)), ('eager', lambda v: inv(v))):
                sols, stats = [], []
                for y in case['rhs']:
                    del records[:]
                    try:
                        z = np.asarray(f(jnp.asarray(np.array(y, dtype=np.float64))))
                        jax.effects_barrier()
                        sols.append([float(t) if np.isfinite(t) else str(t) for t in z])
                    except Exception as e:
                        try:
                            jax.effects_barrier()
                        except Exception:
                            pass
                        sols.append(f'{type(e).__name__}: ' + ' '.join(str(e).split())[:160])
                    stats.append(list(records))
                so[route] = {'solutions': sols, 'callback_records': stats}
        obs['steps'].append(so)
    return obs


def cg_seq_oracle(case, obs):
    M = np.array(case['matrix'], dtype=np.float64)
    for i, (step, so) in enumerate(zip(case['steps'], obs['steps'])):
        exp = {**CG_DEFAULTS, **step['settings']}
        rtol, atol, max_steps = CG_SOLVERS[exp['solver']]
        tol = max(rtol, atol)
        starved = max_steps < 10  # these systems (n >= 24, condition number 1e4) need more than 30 iterations
        Ms = step['scale'] * M
        where = (f'step {i} of the sequence {[s["settings"] for s in case["steps"]]} (one {"equinox.filter_jit" if case["jit"] == "eqx" else "jax.jit"}-ted '
                 f'function taking the inverse as an argument), inverse of {step["scale"]} * A configured with {exp} '
                 f'(rtol={rtol}, atol={atol}, max_steps={max_steps})')
        if so['captured'] != exp:
            return f'{where}: the inverse holds the configuration {so["captured"]}'
        steps_seen = {}
        for route in ('jit', 'eager'):
            app = so[route]
            for y, z, recs in zip(case['rhs'], app['solutions'], app['callback_records']):
                if starved and exp['throw']:
                    if not isinstance(z, str):
                        return (f'{where}, {route}: solver_throw=True and max_steps={max_steps} cannot reach the tolerance, but A.I(y) returned '
                                f'silently (callback records {recs}); y = {y}')
                    continue
                v = cg_solution(z)
                if v is None:
                    return f'{where}, {route}: A.I(y) raised or is not finite: {z}; y = {y}'
                if exp['callback'] in ('rec', 'rec2'):
                    if len(recs) != 1 or recs[0]['callback'] != exp['callback']:
                        return f'{where}, {route}: the configured solver_callback {exp["callback"]} must run once; callbacks that ran: {recs}'
                    if recs[0]['max_steps'] != max_steps:
                        return (f'{where}, {route}: the solve ran with max_steps = {recs[0]["max_steps"]}, the configured solver has '
                                f'max_steps = {max_steps}; y = {y}')
                    steps_seen.setdefault(json.dumps(y), {})[route] = recs[0]['num_steps']
                elif recs:
                    return f'{where}, {route}: a solver_callback that is not the configured one ({exp["callback"]}) ran: {recs}'
                if not starved:
                    res = float(np.linalg.norm(Ms @ v - np.array(y, dtype=np.float64)))
                    bound = 10 * tol * (1 + float(np.linalg.norm(y)))
                    if res > bound:
                        return (f'{where}, {route}: A.I(y) does not solve A z = y to the configured tolerance: residual |A z - y| = {res:.3e} '
                                f'exceeds 10*tol*(1+|y|) = {bound:.3e}; y = {y}')
        for y, zj, ze in zip(case['rhs'], so['jit']['solutions'], so['eager']['solutions']):
            vj, ve = cg_solution(zj), cg_solution(ze)
            if starved and vj is not None and ve is not None:
                if float(np.linalg.norm(vj - ve)) > 1e-6 * (1 + float(np.linalg.norm(ve))):
                    return (f'{where}: after max_steps = {max_steps} iterations the jitted application returns {vj.tolist()}, the eager application '
                            f'of the same inverse {ve.tolist()}; y = {y}')
            ns = steps_seen.get(json.dumps(y), {})
            if 'jit' in ns and 'eager' in ns and abs(ns['jit'] - ns['eager']) > max(2, 0.1 * ns['eager']):
                return (f'{where}: the jitted application ran {ns["jit"]} solver steps, the eager application of the SAME inverse {ns["eager"]}: '
                        f'the jitted call did not solve with the solver / options configured for this inverse; y = {y}')
    return None


# kind cg-solvers: every solver CLASS of lineax as the configured solver (iterative ones with and without an
# iteration limit, direct ones, the automatic choice), with furax's DEFAULT solver_callback kept (its prints go to
# the helper's stderr) or a recording one, applied eagerly, under jit (closure) and as an argument of a jitted
# function: the application must return and solve A z = y to the tolerance of the solver (direct solvers: 1e-10).
# name -> (class, tolerance or None for a direct solver, max_steps | None: no limit | absent: not a parameter)
SOLVER_CLASSES = {
    'cg': ('CG', 1e-8, 500), 'cg-nomax': ('CG', 1e-8, None),
    'gmres': ('GMRES', 1e-8, 500), 'gmres-nomax': ('GMRES', 1e-8, None),
    'bicgstab': ('BiCGStab', 1e-8, 500), 'bicgstab-nomax': ('BiCGStab', 1e-8, None),
    'normalcg': ('NormalCG', 1e-8, 2000), 'normalcg-nomax': ('NormalCG', 1e-8, None),
    'lu': ('LU',), 'qr': ('QR',), 'svd': ('SVD',), 'cholesky': ('Cholesky',),
    'auto': ('AutoLinearSolver', True), 'auto-none': ('AutoLinearSolver', None), 'auto-false': ('AutoLinearSolver', False),
}


def mk_solver(name):
    import lineax as lx

    spec = SOLVER_CLASSES[name]
    cls = getattr(lx, spec[0])
    if spec[0] == 'AutoLinearSolver':
        return cls(well_posed=spec[1])
    if len(spec) == 1:
        return cls()
    kw = {'rtol': spec[1], 'atol': spec[1]}
    if spec[2] is not None:
        kw['max_steps'] = spec[2]
    return cls(**kw)


def cg_solvers_cases(rng, quick: bool):
    out = []
    k = 0
    for rep_ in range(1 if quick else 3):
        for name in SOLVER_CLASSES:
            for cb in ('default', 'rec'):
                k += 1
                if cb == 'rec' and quick and k % 3:
                    continue
                # (BiCGStab breaks down - 0 / 0 - when it converges exactly within a few steps: not on tiny systems)
                n = (12, 17, 12, 24, 9)[k % 5] if name.startswith('bicgstab') else (2, 5, 12, 24, 9)[k % 5]
                Amat = cg_system(rng, n)
                rhs = [rng.integers(-4, 5, size=n).astype(np.float64).tolist(), (Amat @ np.arange(1, n + 1)).tolist()]
                routes = ['eager', 'jit-arg'] + (['jit'] if (k % 2 or not quick) else [])
                out.append({'kind': 'cg-solvers', 'name': f'{name}-{cb}-{n}-{rep_}', 'matrix': Amat.tolist(), 'rhs': rhs[: 1 if quick else 2],
                            'solver': name, 'callback': cb, 'throw': bool(k % 4 == 0), 'routes': routes})
    return out


def run_cg_solvers(case):
    import jax
    import jax.numpy as jnp

    from furax import Config
    from furax._base.config import default_solver_callback
    from furax._base.dense import DenseBlockDiagonalOperator

    assert jax.config.jax_enable_x64
    Amat = np.array(case['matrix'], dtype=np.float64)
    n = Amat.shape[0]
    op = DenseBlockDiagonalOperator(jnp.asarray(Amat), jax.ShapeDtypeStruct((n,), jnp.float64), 'ij,j->i')
    records = []

    def rec(solution):
        records.append({k: (None if v is None else int(v)) for k, v in solution.stats.items() if k in ('num_steps', 'max_steps')})

    kw = {'solver': mk_solver(case['solver']), 'solver_throw': case['throw']}
    if case['callback'] == 'rec':
        kw['solver_callback'] = rec
    obs = {'applications': []}
    try:
        with Config(**kw):
            inv = op.I
    except Exception as e:
        return {'create_error': f'{type(e).__name__}: ' + ' '.join(str(e).split())[:200]}
    obs['solver_class'] = type(inv.config.solver).__name__
    obs['callback_is_default'] = inv.config.solver_callback is default_solver_callback
    by_arg = jax.jit(lambda inverse, v: inverse(v))
    for route in case['routes']:
        f = {'eager': inv, 'jit': jax.jit(lambda v: inv(v)), 'jit-arg': lambda v: by_arg(inv, v)}[route]
        sols, stats = [], []
        for y in case['rhs']:
            del records[:]
            try:
                z = np.asarray(f(jnp.asarray(np.array(y, dtype=np.float64))))
                jax.effects_barrier()
                sols.append([float(t) if np.isfinite(t) else str(t) for t in z])
            except Exception as e:
                try:
                    jax.effects_barrier()
                except Exception:
                    pass
                sols.append(f'{type(e).__name__}: ' + ' '.join(str(e).split())[:200])
            stats.append(list(records))
        obs['applications'].append({'route': route, 'solutions': sols, 'callback_records': stats})
    return obs


def cg_solvers_oracle(case, obs):
    spec = SOLVER_CLASSES[case['solver']]
    iterative = len(spec) == 3
    tol = spec[1] if iterative else 1e-10
    what = (f'A.I configured with solver = lineax.{spec[0]}' + (f'(rtol=atol={spec[1]}' + (f', max_steps={spec[2]})' if spec[2] is not None else ') without max_steps')
                                                               if iterative else (f'(well_posed={spec[1]})' if len(spec) == 2 else '()'))
            + f', solver_throw={case["throw"]}, ' + ('the DEFAULT solver_callback' if case['callback'] == 'default' else 'a recording solver_callback'))
    if 'create_error' in obs:
        return f'{what}: creating the inverse raised {obs["create_error"]}'
    if obs['solver_class'] not in (spec[0], {'NormalCG': 'Normal'}.get(spec[0])) or obs['callback_is_default'] != (case['callback'] == 'default'):
        return f'{what}: the inverse holds a {obs["solver_class"]} solver, default callback: {obs["callback_is_default"]}'
    Amat = np.array(case['matrix'], dtype=np.float64)
    for app in obs['applications']:
        for y, z, recs in zip(case['rhs'], app['solutions'], app['callback_records']):
            v = cg_solution(z)
            if v is None:
                return f'{what}, applied ({app["route"]}) to y = {y}: A.I(y) raised or is not finite: {z}'
            res = float(np.linalg.norm(Amat @ v - np.array(y, dtype=np.float64)))
            bound = 10 * tol * (1 + float(np.linalg.norm(y)))
            if res > bound:
                return (f'{what}, applied ({app["route"]}): residual |A z - y| = {res:.3e} exceeds 10*tol*(1+|y|) = {bound:.3e} (tol = {tol}); y = {y}')
            if case['callback'] == 'rec':
                if len(recs) != 1:
                    return f'{what}, applied ({app["route"]}): the configured solver_callback ran {len(recs)} times'
                if iterative and recs[0].get('max_steps') != spec[2]:
                    return f'{what}, applied ({app["route"]}): the solve reports max_steps = {recs[0].get("max_steps")}'
    return None


def cg_solution(z):
    """Solution vector of an observation (canonical JSON: integers / 'n/d' strings) or None (exception, NaN, Inf)."""
    if isinstance(z, str):
        return None
    try:
        return np.array([float(Fraction(t)) for t in z], dtype=np.float64)
    except (ValueError, ZeroDivisionError):
        return None


def cg_residuals(case, obs):
    Amat = np.array(case['matrix'], dtype=np.float64)
    out = []
    for app in obs['applications']:
        for y, z in zip(case['rhs'], app['solutions']):
            v = cg_solution(z)
            out.append(float('inf') if v is None else float(np.linalg.norm(Amat @ v - np.array(y))))
    return out


def cg_oracle(case, obs):
    if case.get('kind') == 'cg-seq':
        return cg_seq_oracle(case, obs)
    if case.get('kind') == 'cg-solvers':
        return cg_solvers_oracle(case, obs)
    exp = cg_expected(case['plan'])
    rtol, atol, max_steps = CG_SOLVERS[exp['solver']]
    cap = obs['captured']
    got = {k: cap[k] for k in CG_DEFAULTS}
    wrong = None
    if got != exp:
        wrong = (f'the configuration in force where A.I is created is {exp} (plan {case["plan"]}) but the inverse solves with '
                 f'{got} ({cap["solver_tolerances"]})')
    Amat = np.array(case['matrix'], dtype=np.float64)
    for app in obs['applications']:
        for y, z, recs in zip(case['rhs'], app['solutions'], app['callback_records']):
            v = cg_solution(z)
            if v is None:
                return f'A.I(y) raised or is not finite: {z}'
            res = float(np.linalg.norm(Amat @ v - np.array(y, dtype=np.float64)))
            bound = 10 * rtol * (1 + float(np.linalg.norm(y)))
            if res > bound:
                return (f'InverseOperator.mv ({app["route"]}): residual |A z - y| = {res:.3e} exceeds 10*tol*(1+|y|) = {bound:.3e} for the '
                        f'configured solver {exp["solver"]} (rtol = atol = {rtol}); y = {y}' + (f'; {wrong}' if wrong else ''))
            if wrong:
                continue
            if exp['callback'] == 'rec':
                if len(recs) != 1:
                    return f'the configured solver_callback ran {len(recs)} times during one application ({app["route"]})'
                if recs[0]['max_steps'] != max_steps:
                    return (f'the solve ran with max_steps = {recs[0]["max_steps"]}, the configured solver {exp["solver"]} has '
                            f'max_steps = {max_steps}')
            elif recs:
                return f'a solver_callback that is not the configured one ({exp["callback"]}) ran: {recs}'
    return wrong


def cg_tests(tier: str, seed: int, part: int = 0, parts: int = 1):
    """The CG cases number part, part + parts, ... (the list is deterministic in (tier, seed))."""
    cases = cg_cases(tier, seed)[part::parts]
    total, worst, fails = 0, 0.0, []
    kinds = {}
    for case in cases:
        obs = lib.canon(run_cg_case(case))
        msg = cg_oracle(case, obs)
        kinds[case['kind']] = kinds.get(case['kind'], 0) + 1
        if case['kind'] == 'cg-seq':
            M = np.array(case['matrix'], dtype=np.float64)
            for step, so in zip(case['steps'], obs['steps']):
                r, a, ms = CG_SOLVERS[{**CG_DEFAULTS, **step['settings']}['solver']]
                for route in ('jit', 'eager'):
                    for y, z in zip(case['rhs'], so[route]['solutions']):
                        v = cg_solution(z)
                        if ms >= 10 and v is not None:
                            total += 1
                            worst = max(worst, float(np.linalg.norm(step['scale'] * M @ v - np.array(y))) / (10 * max(r, a) * (1 + float(np.linalg.norm(y)))))
        elif case['kind'] == 'cg-solvers':
            spec = SOLVER_CLASSES[case['solver']]
            tol = spec[1] if len(spec) == 3 else 1e-10
            Amat = np.array(case['matrix'], dtype=np.float64)
            for app in obs.get('applications', []):
                for y, z in zip(case['rhs'], app['solutions']):
                    v = cg_solution(z)
                    if v is not None:
                        total += 1
                        worst = max(worst, float(np.linalg.norm(Amat @ v - np.array(y))) / (10 * tol * (1 + float(np.linalg.norm(y)))))
        else:
            rtol = CG_SOLVERS[cg_expected(case['plan'])['solver']][0]
            ys = [y for _ in obs['applications'] for y in case['rhs']]
            for y, res in zip(ys, cg_residuals(case, obs)):
                total += 1
                worst = max(worst, res / (10 * rtol * (1 + float(np.linalg.norm(y)))))
        if msg:
            fails.append({'case': case, 'observation': obs, 'oracle': msg})
    sizes = sorted({len(c['matrix']) for c in cases})
    return {'systems': total, 'cases': kinds, 'worst_residual_over_bound': worst, 'sizes': [sizes[0], sizes[-1]],
            'failures': fails[:5]}


if __name__ == '__main__':
    if len(sys.argv) >= 4 and sys.argv[1] == '--cg':
        sys.stdout = sys.stderr
        rep = json.dumps(cg_tests(sys.argv[2], int(sys.argv[3]), *[int(a) for a in sys.argv[4:6]]))
        sys.stdout = sys.__stdout__
        print(rep)
    elif len(sys.argv) >= 2 and sys.argv[1] == '--x64-server':
        x64_server()
