"""C07 - reduction reaches the documented normal form in every context."""
from __future__ import annotations

import algebra as A
from reduce_check import ReduceBase, _noids


class Check(ReduceBase):
    id = 'C07'
    props = ['Tables.v', 'C07.v', 'C07Side.v']
    static_targets = ReduceBase.static_targets + ['theories/Lemmas/Normal.vo', 'theories/Lemmas/NormalSideL.vo']
    trusted = ReduceBase.trusted_common
    want_normal_form = True

    def comparable(self, case, obs):
        if not isinstance(obs, dict) or 'build_error' in obs:
            return obs
        if 'err' in obs:
            return {'err': obs['err']}
        return {'skel': obs['skel']}

    def decode(self, case, v):
        _wf, o = v
        d = A.decode_observation(o)
        return {'err': d['err']} if 'err' in d else {'skel': d['skel']}

    def nontrivial(self, case, obs):
        return isinstance(obs, dict) and obs.get('skel') is not None and obs.get('skel') != obs.get('before')

    def finding_key(self, case, obs):
        return case.get('pattern') or '+'.join(case['ops'])

    def oracle(self, case, obs):
        if 'build_error' in obs or 'err' in obs:
            return None  # C01 reports exceptions of reduce()
        pat = case.get('pattern') or ''
        if case.get('kind') == 'pattern' and case.get('ctx') == 'comp' and pat and not pat.startswith('near-') and '+' not in pat:
            # a documented pattern standing alone must be rewritten (the `near-*` entries are the deliberate non-patterns)
            if obs.get('skel') is not None and _noids(obs.get('skel')) == _noids(obs.get('before')):
                return f'the documented pattern {pat} ({case["ops"]}) was not rewritten by reduce()'
        nf = obs.get('normal_form')
        if nf is None:
            return None
        if not nf.get('idempotent', True):
            return f'reduce() is not a fixed point: reducing the result again rewrites {nf.get("first")} into {nf.get("again")}'
        if nf['reducible_pairs']:
            return f'the reduced chain still contains a reducible adjacent pair: {nf["reducible_pairs"]}'
        if nf['homotheties'] > 1:
            return f'{nf["homotheties"]} scalar factors remain in the reduced chain'
        if not nf['homothety_side_ok']:
            return 'the remaining scalar factor is not on the side with fewer elements'
        if nf['identities'] > 0:
            return 'an identity factor remains in the reduced chain'
        return None
